(* C17 — model of the Pos()/End() methods of /repo/ast over the generic tree, and the layout
   specification (concrete-syntax templates) they are compared with.
   The method bodies are DATA (Gen/AstPos.v, regenerated from ast/ast.go + ast/ast_gop.go and, for
   the aliased Comment/CommentGroup, from GOROOT go/ast); this file is their interpreter.  No proofs. *)
From Coq Require Import List String ZArith NArith Bool.
Import ListNotations.
From V Require Import Base.Prelude Base.AstTree Base.AstPos.
Open Scope string_scope.
Open Scope list_scope.
Open Scope Z_scope.

(* ------------------------------------------------------------------ the interpreter of the bodies *)

Definition slen (v : value) : Z :=
  match v with VStr s => Z.of_nat (String.length s) | _ => 0 end.

Definition vpos (v : value) : M Z := match v with VPos p => Ok p | _ => Panic end.

Fixpoint last_opt {A} (l : list A) : option A :=
  match l with [] => None | [x] => Some x | _ :: t => last_opt t end.

(* number of decimal digits of a non-negative number (for "token(N)") *)
Fixpoint digits_fuel (fuel : nat) (z : Z) : Z :=
  match fuel with
  | O => 1
  | S f => if z <? 10 then 1 else 1 + digits_fuel f (z / 10)
  end.

(* a condition under a valuation of its atoms *)
Fixpoint ceval (v : pcond -> bool) (c : pcond) : bool :=
  match c with
  | CNot a => negb (ceval v a)
  | COr a b => ceval v a || ceval v b
  | CAnd a b => ceval v a && ceval v b
  | a => v a
  end.

Section PosEnd.
  Context (T : pos_table).       (* Gen.AstPos.pos_table *)
  Context (tokens : list str).   (* Gen.Tokens.xgo_tokens: Token.String() *)
  Context (ibase : Z).           (* Gen.AstPos.implicit_base *)

  (* len(tok.String()) *)
  Definition tok_len (v : value) : M Z :=
    match v with
    | VTok t =>
        if t <? 0 then Panic else     (* negative token numbers do not occur; not modelled *)
        match nth_error tokens (Z.to_nat t) with
        | Some ((_ :: _) as s) => Ok (Z.of_nat (List.length s))
        | _ => Ok (7 + digits_fuel 20 t)       (* "token(" + itoa + ")" *)
        end
    | _ => Panic
    end.

  (* the atomic conditions, evaluated on a node *)
  Definition atom_val (n : node) (c : pcond) : bool :=
    match c with
    | CNonNil f => match get f n with VNil => false | _ => true end
    | CLenPos f => match get f n with VList (_ :: _) => true | _ => false end
    | CLenOne f => match get f n with VList [_] => true | _ => false end
    | CValid f => match get f n with VPos p => negb (p =? 0) | _ => false end
    | CFlag f => get_bool f n
    | CImplicit => match get "Obj" n with VTok k => ibase <=? k | _ => false end
    | CTrue => true
    | _ => false
    end.

  Definition eval_cond (n : node) (c : pcond) : bool := ceval (atom_val n) c.

  Definition eval_expr (rp re : node -> M Z) (n : node) (e : pexpr) : M Z :=
    match e with
    | PField f k => p <- vpos (get f n) ;; Ok (p + k)
    | PFieldStr f gs => p <- vpos (get f n) ;; Ok (fold_left (fun a g => a + slen (get g n)) gs p)
    | PFieldTok f g => p <- vpos (get f n) ;; l <- tok_len (get g n) ;; Ok (p + l)
    | PChildPos f => match get f n with VNode c => rp c | _ => Panic end          (* nil dereference *)
    | PChildEnd f => match get f n with VNode c => re c | _ => Panic end
    | PListFirstPos f => match get f n with VList (VNode c :: _) => rp c | _ => Panic end   (* index out of range *)
    | PListFirstEnd f => match get f n with VList (VNode c :: _) => re c | _ => Panic end
    | PListLastEnd f => match get f n with
                        | VList l => match last_opt l with Some (VNode c) => re c | _ => Panic end
                        | _ => Panic
                        end
    | PChildField f g => match get f n with VNode c => vpos (get g c) | _ => Panic end
    | PNoPos => Ok 0
    end.

  (* File.End is outside the translated fragment (a loop over Decls): modelled by hand —
       if f.ShadowEntry != nil { return f.ShadowEntry.End() }
       for n := len(f.Decls) - 1; n >= 0; n-- { d := f.Decls[n]
         if fn, ok := d.( *FuncDecl); ok && fn.Shadow { continue }; return d.End() }
       if f.Package != token.NoPos { return f.Name.End() }
       return f.Name.Pos()                                                              *)
  Fixpoint last_nonshadow (l : list value) : option value :=
    match l with
    | [] => None
    | x :: t => match last_nonshadow t with
                | Some y => Some y
                | None => match x with
                          | VNode d => if String.eqb (kind d) "FuncDecl" && get_bool "Shadow" d then None else Some x
                          | _ => Some x
                          end
                end
    end.

  Definition file_end (rp re : node -> M Z) (n : node) : M Z :=
    match get "ShadowEntry" n with
    | VNode s => re s
    | _ =>
        match get "Decls" n with
        | VList l =>
            match last_nonshadow l with
            | Some (VNode d) => re d
            | Some _ => Panic
            | None => match get "Name" n with
                      | VNode nm => if eval_cond n (CValid "Package") then re nm else rp nm
                      | _ => Panic
                      end
            end
        | _ => Panic
        end
    end.

  Fixpoint eval_body (rp re : node -> M Z) (n : node) (b : pbody) : M Z :=
    match b with
    | PRet e => eval_expr rp re n e
    | PIf c t e => if eval_cond n c then eval_body rp re n t else eval_body rp re n e
    | POpaque => Panic
    end.

  (* w = true: Pos(), w = false: End().  The recursion follows one child per level. *)
  Fixpoint pe (fuel : nat) (w : bool) (n : node) : M Z :=
    match fuel with
    | O => OutOfFuel
    | S f =>
        match assoc (kind n) T with
        | None => Panic
        | Some (bp, be) =>
            match (if w then bp else be) with
            | POpaque => if String.eqb (kind n) "File" && negb w then file_end (pe f true) (pe f false) n else Panic
            | b => eval_body (pe f true) (pe f false) n b
            end
        end
    end.

  Definition pos_of (n : node) : M Z := pe (nsize n) true n.
  Definition end_of (n : node) : M Z := pe (nsize n) false n.
End PosEnd.

(* ------------------------------------------------------------------ the layout specification *)

(* One kind's concrete syntax, as far as spans are concerned: the items that can be its first or
   last token, left to right, each with the condition under which it is present.  Written from the
   grammar comments of ast/ast.go and ast/ast_gop.go; interior tokens whose position is not
   recorded are omitted (they can never be first or last). *)
Inductive tlen :=
| LFix (k : Z)                (* a token of fixed length *)
| LStr (gs : list string)     (* the text is the concatenation of these string fields *)
| LTok (g : string).          (* the spelling of the token in field g *)

Inductive item :=
| ITok (f : string) (l : tlen) (p : pcond)   (* a token whose start is recorded in position field f *)
| IChild (f : string) (p : pcond)            (* a child node *)
| IList (f : string)                         (* a list of children; present iff non-empty *)
| IAt (f : string) (p : pcond)               (* a recorded boundary position (zero width): LambdaExpr.Last ... *)
| IChildAt (f g : string).                   (* the boundary recorded in position field g of child f *)

Record ktemplate := KT { k_items : list item; k_req : list pcond }.

Definition item_present (v : pcond -> bool) (it : item) : bool :=
  match it with
  | ITok _ _ p | IChild _ p | IAt _ p => ceval v p
  | IList f => v (CLenPos f)
  | IChildAt _ _ => true
  end.

Definition item_start (it : item) : pexpr :=
  match it with
  | ITok f _ _ => PField f 0
  | IChild f _ => PChildPos f
  | IList f => PListFirstPos f
  | IAt f _ => PField f 0
  | IChildAt f g => PChildField f g
  end.

Definition item_end (it : item) : pexpr :=
  match it with
  | ITok f (LFix k) _ => PField f k
  | ITok f (LStr gs) _ => PFieldStr f gs
  | ITok f (LTok g) _ => PFieldTok f g
  | IChild f _ => PChildEnd f
  | IList f => PListLastEnd f
  | IAt f _ => PField f 0
  | IChildAt f g => PChildField f g
  end.

(* where the node starts / ends: the first / last present item (NoPos if there is none) *)
Definition tfirst (v : pcond -> bool) (tm : list item) : pexpr :=
  match find (item_present v) tm with Some it => item_start it | None => PNoPos end.
Definition tlast (v : pcond -> bool) (tm : list item) : pexpr :=
  match find (item_present v) (rev tm) with Some it => item_end it | None => PNoPos end.

(* which branch of a method body a valuation selects *)
Fixpoint select (v : pcond -> bool) (b : pbody) : option pexpr :=
  match b with
  | PRet e => Some e
  | PIf c t e => if ceval v c then select v t else select v e
  | POpaque => None
  end.

(* ---- decidable comparison of a method body with a template, over all valuations of the atoms ---- *)

Definition list_eqb {A} (eq : A -> A -> bool) := fix go (a b : list A) : bool :=
  match a, b with
  | [], [] => true
  | x :: a', y :: b' => eq x y && go a' b'
  | _, _ => false
  end.

Definition pexpr_eqb (a b : pexpr) : bool :=
  match a, b with
  | PField f k, PField g j => String.eqb f g && (k =? j)
  | PFieldStr f gs, PFieldStr g hs => String.eqb f g && list_eqb String.eqb gs hs
  | PFieldTok f g, PFieldTok f' g' => String.eqb f f' && String.eqb g g'
  | PChildPos f, PChildPos g | PChildEnd f, PChildEnd g
  | PListFirstPos f, PListFirstPos g | PListLastEnd f, PListLastEnd g
  | PListFirstEnd f, PListFirstEnd g => String.eqb f g
  | PChildField f g, PChildField f' g' => String.eqb f f' && String.eqb g g'
  | PNoPos, PNoPos => true
  | _, _ => false
  end.

(* equal, or "the End of the first element" against "the End of the last" of a one-element list *)
Definition pexpr_ok (v : pcond -> bool) (a b : pexpr) : bool :=
  pexpr_eqb a b ||
  match a, b with
  | PListFirstEnd f, PListLastEnd g => String.eqb f g && v (CLenOne f)
  | _, _ => false
  end.

Fixpoint pcond_eqb (a b : pcond) : bool :=
  match a, b with
  | CNonNil f, CNonNil g | CLenPos f, CLenPos g | CValid f, CValid g | CFlag f, CFlag g
  | CLenOne f, CLenOne g => String.eqb f g
  | CImplicit, CImplicit | CTrue, CTrue => true
  | CNot x, CNot y => pcond_eqb x y
  | COr x1 x2, COr y1 y2 | CAnd x1 x2, CAnd y1 y2 => pcond_eqb x1 y1 && pcond_eqb x2 y2
  | _, _ => false
  end.

Fixpoint atoms_of (c : pcond) : list pcond :=
  match c with
  | CNot a => atoms_of a
  | COr a b | CAnd a b => atoms_of a ++ atoms_of b
  | a => [a]
  end.

Fixpoint atoms_of_body (b : pbody) : list pcond :=
  match b with
  | PRet _ | POpaque => []
  | PIf c t e => atoms_of c ++ atoms_of_body t ++ atoms_of_body e
  end.

Definition atoms_of_item (it : item) : list pcond :=
  match it with
  | ITok _ _ p | IChild _ p | IAt _ p => atoms_of p
  | IList f => [CLenPos f]
  | IChildAt _ _ => []
  end.

(* the lists of one element are non-empty: the only relation between atoms *)
Definition len_atoms (l : list pcond) : list pcond :=
  flat_map (fun c => match c with CLenOne f => [CLenOne f; CLenPos f] | _ => [] end) l.

Definition mem_c (c : pcond) (l : list pcond) : bool := existsb (pcond_eqb c) l.
Fixpoint dedup_c (l : list pcond) : list pcond :=
  match l with [] => [] | x :: t => if mem_c x t then dedup_c t else x :: dedup_c t end.

Fixpoint all_assign (atoms : list pcond) : list (list (pcond * bool)) :=
  match atoms with
  | [] => [[]]
  | a :: t => flat_map (fun r => [(a, true) :: r; (a, false) :: r]) (all_assign t)
  end.

Definition look (a : list (pcond * bool)) (c : pcond) : bool :=
  match c with
  | CTrue => true
  | _ => match find (fun p => pcond_eqb (fst p) c) a with Some (_, b) => b | None => false end
  end.

Definition consistent (v : pcond -> bool) (atoms : list pcond) : bool :=
  forallb (fun c => match c with CLenOne f => implb (v c) (v (CLenPos f)) | _ => true end) atoms.

Definition kind_atoms (bp be : pbody) (kt : ktemplate) : list pcond :=
  let base := atoms_of_body bp ++ atoms_of_body be ++ flat_map atoms_of_item (k_items kt) ++ flat_map atoms_of (k_req kt) in
  let one := flat_map (fun it => match it with IList f => [CLenOne f] | _ => [] end) (k_items kt) in
  dedup_c (base ++ one ++ len_atoms (base ++ one)).

Definition kind_span_ok (bp be : pbody) (kt : ktemplate) : bool :=
  let atoms := kind_atoms bp be kt in
  forallb (fun a =>
             let v := look a in
             implb (forallb (ceval v) (k_req kt) && consistent v atoms)
                   (match select v bp, select v be with
                    | Some ep, Some ee => pexpr_ok v ep (tfirst v (k_items kt)) && pexpr_ok v ee (tlast v (k_items kt))
                    | _, _ => false
                    end))
          (all_assign atoms).

(* ---- the templates ---- *)
Definition T (f : string) (k : Z) := ITok f (LFix k) CTrue.           (* mandatory fixed-length token *)
Definition Tv (f : string) (k : Z) := ITok f (LFix k) (CValid f).      (* optional token: present iff its position is valid *)
Definition Ch (f : string) := IChild f CTrue.                          (* mandatory child *)
Definition Op (f : string) := IChild f (CNonNil f).                    (* optional child *)
Definition iff_c (a b : pcond) := COr (CAnd a b) (CAnd (CNot a) (CNot b)).
Definition imp_c (a b : pcond) := COr (CNot a) b.

Definition templates : list (string * ktemplate) :=
  [ ("Comment", KT [ITok "Slash" (LStr ["Text"]) CTrue] []);
    ("CommentGroup", KT [IList "List"] [CLenPos "List"]);
    (* Names Type Tag   (an embedded field has no Names; Doc/Comment lie outside the span) *)
    ("Field", KT [IList "Names"; Ch "Type"; Op "Tag"] [CNonNil "Type"]);
    (* "(" List ")"  — the parentheses come in pairs; a result list may have none *)
    ("FieldList", KT [Tv "Opening" 1; IList "List"; Tv "Closing" 1] [iff_c (CValid "Opening") (CValid "Closing")]);
    ("BadExpr", KT [IAt "From" CTrue; IAt "To" CTrue] []);
    ("BadStmt", KT [IAt "From" CTrue; IAt "To" CTrue] []);
    ("BadDecl", KT [IAt "From" CTrue; IAt "To" CTrue] []);
    (* an implicitly declared identifier has no text *)
    ("Ident", KT [IAt "NamePos" CImplicit; ITok "NamePos" (LStr ["Name"]) (CNot CImplicit)] []);
    ("BasicLit", KT [ITok "ValuePos" (LStr ["Value"]) CTrue] []);
    ("NumberUnitLit", KT [ITok "ValuePos" (LStr ["Value"; "Unit"]) CTrue] []);
    (* domain`text` *)
    ("DomainTextLit", KT [IChildAt "Domain" "NamePos"; ITok "ValuePos" (LStr ["Value"]) CTrue] [CNonNil "Domain"]);
    ("Ellipsis", KT [T "Ellipsis" 3; Op "Elt"] []);
    ("FuncLit", KT [Ch "Type"; Ch "Body"] [CNonNil "Type"; CNonNil "Body"]);
    ("CompositeLit", KT [Op "Type"; T "Lbrace" 1; T "Rbrace" 1] []);
    ("ParenExpr", KT [T "Lparen" 1; T "Rparen" 1] []);
    ("SelectorExpr", KT [Ch "X"; Ch "Sel"] [CNonNil "X"; CNonNil "Sel"]);
    ("IndexExpr", KT [Ch "X"; T "Rbrack" 1] [CNonNil "X"]);
    ("IndexListExpr", KT [Ch "X"; T "Rbrack" 1] [CNonNil "X"]);
    ("SliceExpr", KT [Ch "X"; T "Rbrack" 1] [CNonNil "X"]);
    ("TypeAssertExpr", KT [Ch "X"; T "Rparen" 1] [CNonNil "X"]);
    (* Fun "(" Args ")"   |   Fun Args   (command style: NoParenEnd records the end) *)
    ("CallExpr", KT [Ch "Fun"; ITok "Rparen" (LFix 1) (CNot (CValid "NoParenEnd")); IAt "NoParenEnd" (CValid "NoParenEnd")]
                    [CNonNil "Fun"]);
    ("StarExpr", KT [T "Star" 1; Ch "X"] [CNonNil "X"]);
    ("UnaryExpr", KT [IAt "OpPos" CTrue; Ch "X"] [CNonNil "X"]);
    ("BinaryExpr", KT [Ch "X"; Ch "Y"] [CNonNil "X"; CNonNil "Y"]);
    ("KeyValueExpr", KT [Ch "Key"; Ch "Value"] [CNonNil "Key"; CNonNil "Value"]);
    ("ArrayType", KT [T "Lbrack" 1; Ch "Elt"] [CNonNil "Elt"]);
    ("StructType", KT [T "Struct" 6; Ch "Fields"] [CNonNil "Fields"]);
    (* ["func"] [TypeParams] Params [Results]: type parameters only after the keyword *)
    ("FuncType", KT [Tv "Func" 4; Ch "Params"; Op "Results"] [CNonNil "Params"]);
    ("InterfaceType", KT [T "Interface" 9; Ch "Methods"] [CNonNil "Methods"]);
    ("MapType", KT [T "Map" 3; Ch "Value"] [CNonNil "Value"]);
    ("ChanType", KT [IAt "Begin" CTrue; Ch "Value"] [CNonNil "Value"]);
    ("DeclStmt", KT [Ch "Decl"] [CNonNil "Decl"]);
    (* ";"  — omitted in the source when Implicit *)
    ("EmptyStmt", KT [IAt "Semicolon" (CFlag "Implicit"); ITok "Semicolon" (LFix 1) (CNot (CFlag "Implicit"))] []);
    ("LabeledStmt", KT [Ch "Label"; Ch "Stmt"] [CNonNil "Label"; CNonNil "Stmt"]);
    ("ExprStmt", KT [Ch "X"] [CNonNil "X"]);
    (* Chan "<-" Values ["..."] *)
    ("SendStmt", KT [Ch "Chan"; IList "Values"; Tv "Ellipsis" 3] [CNonNil "Chan"; CLenPos "Values"]);
    ("IncDecStmt", KT [Ch "X"; T "TokPos" 2] [CNonNil "X"]);
    ("AssignStmt", KT [IList "Lhs"; IList "Rhs"] [CLenPos "Lhs"; CLenPos "Rhs"]);
    ("GoStmt", KT [T "Go" 2; Ch "Call"] [CNonNil "Call"]);
    ("DeferStmt", KT [T "Defer" 5; Ch "Call"] [CNonNil "Call"]);
    ("ReturnStmt", KT [T "Return" 6; IList "Results"] []);
    ("BranchStmt", KT [ITok "TokPos" (LTok "Tok") CTrue; Op "Label"] []);
    (* "{" List "}"  — the closing brace may be missing after a syntax error *)
    ("BlockStmt", KT [T "Lbrace" 1; IList "List"; Tv "Rbrace" 1] []);
    ("IfStmt", KT [T "If" 2; Ch "Body"; Op "Else"] [CNonNil "Body"]);
    ("CaseClause", KT [T "Case" 4; T "Colon" 1; IList "Body"] []);
    ("SwitchStmt", KT [T "Switch" 6; Ch "Body"] [CNonNil "Body"]);
    ("TypeSwitchStmt", KT [T "Switch" 6; Ch "Body"] [CNonNil "Body"]);
    ("CommClause", KT [T "Case" 4; T "Colon" 1; IList "Body"] []);
    ("SelectStmt", KT [T "Select" 6; Ch "Body"] [CNonNil "Body"]);
    ("ForStmt", KT [T "For" 3; Ch "Body"] [CNonNil "Body"]);
    ("RangeStmt", KT [T "For" 3; Ch "Body"] [CNonNil "Body"]);
    (* [Name] Path  — EndPos overrides the end when set *)
    ("ImportSpec", KT [Op "Name"; Ch "Path"; IAt "EndPos" (CValid "EndPos")] [CNonNil "Path"]);
    (* Names [Type] ["tag"] ["=" Values]   (the tag of a classfile field follows the type) *)
    ("ValueSpec", KT [IList "Names"; Op "Type"; Op "Tag"; IList "Values"] [CLenPos "Names"]);
    ("TypeSpec", KT [Ch "Name"; Ch "Type"] [CNonNil "Name"; CNonNil "Type"]);
    (* Tok Spec   |   Tok "(" Specs ")" *)
    ("GenDecl", KT [ITok "TokPos" (LTok "Tok") CTrue; IList "Specs"; Tv "Rparen" 1]
                   [imp_c (CNot (CValid "Rparen")) (CLenOne "Specs")]);
    (* "func" [Recv] Name Type' [Body]: by go/ast convention Type starts at the keyword, so Recv and Name
       lie inside its span *)
    ("FuncDecl", KT [Ch "Type"; Op "Body"] [CNonNil "Type"]);
    ("SliceLit", KT [T "Lbrack" 1; T "Rbrack" 1] []);
    ("MatrixLit", KT [T "Lbrack" 1; T "Rbrack" 1] []);
    ("ElemEllipsis", KT [Ch "Elt"; T "Ellipsis" 3] [CNonNil "Elt"]);
    (* First and Last record the two boundaries *)
    ("LambdaExpr", KT [IAt "First" CTrue; IAt "Last" CTrue] []);
    ("LambdaExpr2", KT [IAt "First" CTrue; Ch "Body"] [CNonNil "Body"]);
    (* "for" [Key ","] Value "in" X ["if" [Init ";"] Cond] *)
    ("ForPhrase", KT [T "For" 3; Ch "X"; Op "Cond"] [CNonNil "X"]);
    ("ComprehensionExpr", KT [T "Lpos" 1; T "Rpos" 1] []);
    ("ForPhraseStmt", KT [IChildAt "ForPhrase" "For"; Ch "Body"] [CNonNil "ForPhrase"; CNonNil "Body"]);
    (* [First] ":" [Last] [":" [Expr3]] *)
    ("RangeExpr", KT [Op "First"; T "To" 1; Op "Last"; Tv "Colon2" 1; Op "Expr3"] []);
    (* X ("!" | "?") [":" Default] *)
    ("ErrWrapExpr", KT [Ch "X"; T "TokPos" 1; Op "Default"] [CNonNil "X"]);
    (* "func" [Recv] Name "=" "(" Funcs ")" *)
    ("OverloadFuncDecl", KT [T "Func" 4; T "Rparen" 1] []);
    (* "$" Name   |   "$" "{" Name "}" *)
    ("EnvExpr", KT [T "TokPos" 1; Ch "Name"; Tv "Rbrace" 1] [CNonNil "Name"]);
    ("Package", KT [] []) ].

(* File has no template: its End is a loop over Decls (modelled by hand, compared by K-diff only) *)
Definition untemplated : list string := ["File"].

Definition span_table_ok (bodies : pos_table) : bool :=
  forallb (fun kt => match assoc (fst kt) bodies with Some _ => true | None => false end) templates &&
  forallb (fun k => match assoc k templates with None => true | Some _ => false end) untemplated &&
  forallb (fun kb => match kb with
                     | (k, (bp, be)) =>
                         match assoc k templates with
                         | Some kt => kind_span_ok bp be kt
                         | None => existsb (String.eqb k) untemplated
                         end
                     end) bodies.

(* ---- the specification as a function: where the template says a node starts and ends ---- *)
Section Spec.
  Context (tokens : list str) (ibase : Z).

  Fixpoint spec_pe (fuel : nat) (w : bool) (n : node) : M Z :=
    match fuel with
    | O => OutOfFuel
    | S f =>
        match assoc (kind n) templates with
        | None => Panic
        | Some kt =>
            let v := atom_val ibase n in
            eval_expr tokens (spec_pe f true) (spec_pe f false) n
                      (if w then tfirst v (k_items kt) else tlast v (k_items kt))
        end
    end.

  (* the node satisfies the side conditions of its template (mandatory children present ...) *)
  Definition req_ok (n : node) : bool :=
    match assoc (kind n) templates with
    | Some kt => forallb (eval_cond ibase n) (k_req kt)
    | None => false
    end.
  Definition good_tree (t : node) : bool := forallb req_ok (subnodes t).
End Spec.

(* ---- nesting and order: the intervals of the present items of a node ---- *)
Section Layout.
  Context (tokens : list str) (ibase : Z).

  Fixpoint mapM17 {A B} (f : A -> M B) (l : list A) : M (list B) :=
    match l with
    | [] => Ok []
    | x :: t => y <- f x ;; r <- mapM17 f t ;; Ok (y :: r)
    end.

  (* [start, end) of one item of node n, by the specification *)
  Definition item_iv (fuel : nat) (n : node) (it : item) : M (Z * Z) :=
    s <- eval_expr tokens (spec_pe tokens ibase fuel true) (spec_pe tokens ibase fuel false) n (item_start it) ;;
    e <- eval_expr tokens (spec_pe tokens ibase fuel true) (spec_pe tokens ibase fuel false) n (item_end it) ;;
    Ok (s, e).

  Definition present_items (n : node) : list item :=
    match assoc (kind n) templates with
    | Some kt => filter (item_present (atom_val ibase n)) (k_items kt)
    | None => []
    end.

  (* the intervals follow one another: each is well-formed and ends before the next starts.
     This is what "the tree records the positions of a token sequence" means for one node. *)
  Fixpoint chain (l : list (Z * Z)) : Prop :=
    match l with
    | [] => True
    | (s, e) :: t => s <= e /\ match t with [] => True | (s', _) :: _ => e <= s' end /\ chain t
    end.

  Definition laid_out (fuel : nat) (n : node) (ivs : list (Z * Z)) : Prop :=
    mapM17 (item_iv fuel n) (present_items n) = Ok ivs /\ chain ivs.
End Layout.
