(* Model of tpl/parser/parser.go over the token stream of tpl/scanner (no proofs here).

   parseFile / parseRule / lambdaExpr / parseExpr / parseTermList / parseTerm / parseTerm2 /
   parseFactor, branch by branch.  One fuel-indexed function [P] whose states are the parser's
   functions and its loops with their accumulators.  The result carries the error COUNT
   (every p.error / p.errorExpected call adds exactly one entry to p.errors).

   Token positions, error texts and the RetProc sub-parser (conf.ParseRetProc, nil in
   tpl.New/ParseFile(…, nil)) are not modelled. *)
From Coq Require Import List NArith Bool Arith.
Import ListNotations.
From V Require Import Base.Prelude.

Inductive uop := UMul | UAdd | UQuest.            (* token.MUL, token.ADD, token.QUESTION *)
Inductive bop := BRem | BInc.                     (* token.REM '%', token.INC "++" *)

(* the token kinds the parser distinguishes; EOF is the end of the list *)
Inductive tok :=
| TIdent (s : str)                 (* IDENT with its literal *)
| TLit (k : bool) (s : str)        (* k = true: CHAR, false: STRING; s = literal text incl. quotes *)
| TU (o : uop) | TB (o : bop)
| TOr | TLP | TRP                  (* '|' '(' ')' *)
| TAssign | TSemi | TArrow | TLB | TRB   (* '=' ';' "=>" '{' '}' *)
| TOther (code : N).               (* any other token kind *)

(* tpl/ast expressions; ENil = the nil ast.Expr stored in UnaryExpr.X after a missing factor *)
Inductive ge :=
| EIdent (s : str) | ELit (k : bool) (s : str)
| EUn (o : uop) (x : ge) | EBin (o : bop) (x y : ge)
| ESeq (l : list ge) | EChoice (l : list ge) | ENil.

(* ---------- printer with minimal parentheses (the documented precedence) ----------
   unary (4) > ++ (3) > % (2) > sequence (1) > | (0) *)
Definition level (e : ge) : nat :=
  match e with EChoice _ => 0 | ESeq _ => 1 | EBin BRem _ _ => 2 | EBin BInc _ _ => 3 | _ => 4 end.

Fixpoint pr (e : ge) : list tok :=
  let at_ (l : nat) (x : ge) := if Nat.ltb (level x) l then TLP :: pr x ++ [TRP] else pr x in
  match e with
  | EIdent s => [TIdent s]
  | ELit k s => [TLit k s]
  | EUn o x => TU o :: at_ 4 x
  | EBin BRem x y => at_ 2 x ++ TB BRem :: at_ 3 y
  | EBin BInc x y => at_ 3 x ++ TB BInc :: at_ 4 y
  | ESeq l => flat_map (at_ 2) l
  | EChoice l => match l with
                 | [] => []
                 | a :: t => at_ 1 a ++ flat_map (fun x => TOr :: at_ 1 x) t
                 end
  | ENil => []
  end.
Definition at_ (l : nat) (x : ge) := if Nat.ltb (level x) l then TLP :: pr x ++ [TRP] else pr x.

(* ---------- the expression parser ---------- *)
Inductive st :=
| SExpr | SOrLoop (acc : list ge) | STermList (acc : list ge) | STerm | SRemLoop (x : ge)
| STerm2 | SIncLoop (x : ge) | SFactor.

(* result: None = out of fuel; Some (Some e | None = "ok == false", rest, number of errors added) *)
Definition R := option (option ge * list tok * nat).

(* parseTermList's final switch: 1 term -> the term; 0 terms -> error "expected factor" and an
   empty Sequence (fallthrough); otherwise a Sequence *)
Definition mkseq (acc : list ge) : ge * nat :=
  match acc with [x] => (x, 0) | [] => (ESeq [], 1) | _ => (ESeq acc, 0) end.

Fixpoint P (fuel : nat) (s : st) (ts : list tok) : R :=
  match fuel with O => None | S f =>
  match s with
  | SExpr =>                                  (* parseExpr *)
      match P f (STermList []) ts with
      | Some (Some t, r, n) =>
          match r with
          | TOr :: _ => match P f (SOrLoop [t]) r with Some (x, r', m) => Some (x, r', n+m) | None => None end
          | _ => Some (Some t, r, n)
          end
      | x => x
      end
  | SOrLoop acc =>                            (* for p.tok == token.OR { next; parseTermList; append } *)
      match ts with
      | TOr :: r => match P f (STermList []) r with
                    | Some (Some t, r', n) => match P f (SOrLoop (acc ++ [t])) r' with Some (x, r'', m) => Some (x, r'', n+m) | None => None end
                    | x => x
                    end
      | _ => Some (Some (EChoice acc), ts, 0)
      end
  | STermList acc =>                          (* for { term, ok := parseTerm(); if !ok break; append } *)
      match P f STerm ts with
      | Some (Some t, r, n) => match P f (STermList (acc ++ [t])) r with Some (x, r', m) => Some (x, r', n+m) | None => None end
      | Some (None, r, n) => let '(e, m) := mkseq acc in Some (Some e, r, n+m)
      | None => None
      end
  | STerm =>                                  (* parseTerm *)
      match P f STerm2 ts with
      | Some (Some x, r, n) => match P f (SRemLoop x) r with Some (y, r', m) => Some (y, r', n+m) | None => None end
      | x => x
      end
  | SRemLoop x =>                             (* for p.tok == token.REM *)
      match ts with
      | TB BRem :: r => match P f STerm2 r with
                        | Some (Some y, r', n) => match P f (SRemLoop (EBin BRem x y)) r' with Some (z, r'', m) => Some (z, r'', n+m) | None => None end
                        | Some (None, r', n) => Some (None, r', S n)   (* error; returns x,false: x is dropped by the caller *)
                        | None => None
                        end
      | _ => Some (Some x, ts, 0)
      end
  | STerm2 =>                                 (* parseTerm2 *)
      match P f SFactor ts with
      | Some (Some x, r, n) => match P f (SIncLoop x) r with Some (y, r', m) => Some (y, r', n+m) | None => None end
      | x => x
      end
  | SIncLoop x =>                             (* for p.tok == token.INC *)
      match ts with
      | TB BInc :: r => match P f SFactor r with
                        | Some (Some y, r', n) => match P f (SIncLoop (EBin BInc x y)) r' with Some (z, r'', m) => Some (z, r'', n+m) | None => None end
                        | Some (None, r', n) => Some (None, r', S n)
                        | None => None
                        end
      | _ => Some (Some x, ts, 0)
      end
  | SFactor =>                                (* parseFactor *)
      match ts with
      | TIdent s :: r => Some (Some (EIdent s), r, 0)
      | TLit k s :: r => Some (Some (ELit k s), r, 0)
      | TU o :: r => match P f SFactor r with
                     | Some (Some x, r', n) => Some (Some (EUn o x), r', n)
                     | Some (None, r', n) => Some (Some (EUn o ENil), r', S n)   (* error, X = nil, still ok *)
                     | None => None
                     end
      | TLP :: r => match P f SExpr r with
                    | Some (Some e, r', n) =>          (* p.expect(token.RPAREN): error if absent, always next() *)
                        match r' with
                        | TRP :: r'' => Some (Some e, r'', n)
                        | _ :: r'' => Some (Some e, r'', S n)
                        | [] => Some (Some e, [], S n)
                        end
                    | x => x
                    end
      | _ => Some (None, ts, 0)
      end
  end end.

(* fuel that always suffices (Proofs/C31.v: P_total) *)
Definition fuel_of (ts : list tok) : nat := 8 * length ts + 8.

(* ---------- rules and files ---------- *)
(* lambdaExpr after "=>" and expect('{'): skip to the matching '}' ; false = EOF reached *)
Fixpoint lambda_loop (level : nat) (ts : list tok) : list tok * bool :=
  match ts with
  | [] => ([], false)
  | TRB :: r => match level with
                | S (S l) => lambda_loop (S l) r
                | _ => (r, true)             (* level-- == 0: next(); return ok *)
                end
  | TLB :: r => lambda_loop (S level) r
  | _ :: r => lambda_loop level r
  end.

(* p.expect(tok): (rest after next(), errors added) *)
Definition expect (want : tok -> bool) (ts : list tok) : list tok * nat :=
  match ts with
  | [] => ([], 1)
  | t :: r => (r, if want t then 0 else 1)
  end.
Definition is_assign t := match t with TAssign => true | _ => false end.
Definition is_semi t := match t with TSemi => true | _ => false end.
Definition is_lb t := match t with TLB => true | _ => false end.

Definition rule := (str * ge)%type.

(* parseRule on a stream whose head is known to be IDENT name; None = out of fuel *)
Definition parse_rule_body (fuel : nat) (ts : list tok) : option (ge * list tok * nat) :=
  let '(r1, n1) := expect is_assign ts in
  match P fuel SExpr r1 with
  | Some (Some e, r2, n2) =>
      let '(r3, n3) :=
        match r2 with
        | TArrow :: r => let '(r', n') := expect is_lb r in (fst (lambda_loop 1 r'), n')
        | _ => (r2, 0)
        end in
      let '(r4, n4) := expect is_semi r3 in
      Some (e, r4, n1 + n2 + n3 + n4)
  | Some (None, r2, n2) => None          (* unreachable: parseExpr always returns an expression *)
  | None => None
  end.

(* parseFile: for p.tok != EOF { rule := parseRule(); if rule == nil break; append } *)
Fixpoint parse_file_loop (k : nat) (fuel : nat) (ts : list tok) (acc : list rule) (nerr : nat)
  : M (list rule * nat) :=
  match k with O => OutOfFuel | S k' =>
  match ts with
  | [] => Ok (rev acc, nerr)
  | TIdent name :: r =>
      match parse_rule_body fuel r with
      | Some (e, r', n) => parse_file_loop k' fuel r' ((name, e) :: acc) (nerr + n)
      | None => OutOfFuel
      end
  | _ => Ok (rev acc, S nerr)            (* errorExpected 'IDENT'; parseRule returns nil; break *)
  end end.

Definition parse_file (ts : list tok) : M (list rule * nat) :=
  parse_file_loop (S (length ts)) (fuel_of ts) ts [] 0.

Definition print_rule (r : rule) : list tok := TIdent (fst r) :: TAssign :: pr (snd r) ++ [TSemi].
Definition print_file (rs : list rule) : list tok := flat_map print_rule rs.

(* a tree the parser can produce without reporting an error: no nil operand, no empty or
   one-element Sequence/Choice *)
Fixpoint wf (e : ge) : Prop :=
  match e with
  | EIdent _ | ELit _ _ => True
  | EUn _ x => wf x
  | EBin _ x y => wf x /\ wf y
  | ESeq l => 2 <= length l /\ (fix all l := match l with [] => True | x :: t => wf x /\ all t end) l
  | EChoice l => 2 <= length l /\ (fix all l := match l with [] => True | x :: t => wf x /\ all t end) l
  | ENil => False
  end.

(* the "empty rule" of the property statement: an empty Sequence or a nil operand somewhere *)
Fixpoint has_hole (e : ge) : bool :=
  match e with
  | EIdent _ | ELit _ _ => false
  | EUn _ x => has_hole x
  | EBin _ x y => has_hole x || has_hole y
  | ESeq l => match l with [] => true | _ => existsb has_hole l end
  | EChoice l => existsb has_hole l
  | ENil => true
  end.
