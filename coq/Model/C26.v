(* C26 — cmd/internal/gopfmt/fmt.go: writeFileWithBackup over a file-system model.  No proofs here.

   The statement list REGENERATED from the source (Gen/FmtOps.v: gen_wfb) is interpreted:
   every statement that performs a file-system-mutating system call appends that call to a
   trace and applies it to the file system; every fallible call may fail (record `faults`),
   f.Write may be performed as several write calls and may fail after a prefix.  A crash is a
   prefix of the trace (`crash_state`).

   File system: one directory.  names -> entries (a regular file = an inode number, or a symbolic
   link to another name of the directory), inode numbers -> (content, permission bits).  os.Stat
   follows a link, os.Lstat does not (a link's own mode is 0777); rename replaces the entry itself. *)
From Coq Require Import List NArith Bool.
Import ListNotations.
From V Require Import Base.C26Ops Gen.FmtOps.

Definition name := N.
Definition ino := N.
Record inode := mkI { content : list N; mode : N }.
Inductive entry := EFile (i : ino) | ELink (t : name).
Record fs := mkFS { ents : name -> option entry; inos : ino -> option inode }.

Definition set {A} (f : N -> option A) (k : N) (v : option A) : N -> option A :=
  fun x => if N.eqb x k then v else f x.

(* the inode a name leads to (one level of symbolic link) *)
Definition resolve (s : fs) (n : name) : option ino :=
  match ents s n with
  | Some (EFile i) => Some i
  | Some (ELink t) => match ents s t with Some (EFile i) => Some i | _ => None end
  | None => None
  end.
(* what reading / stat-ing the path gives: content and permission bits *)
Definition read (s : fs) (n : name) : option (list N * N) :=
  match resolve s n with
  | Some i => match inos s i with Some nd => Some (content nd, mode nd) | None => None end
  | None => None
  end.
Definition stat_mode (follow : bool) (s : fs) (n : name) : option N :=
  if follow then option_map snd (read s n)
  else match ents s n with
       | Some (EFile i) => option_map mode (inos s i)
       | Some (ELink _) => Some 511%N          (* lstat of a symbolic link: 0777 *)
       | None => None
       end.

(* file-system-mutating system calls *)
Inductive sys :=
| SysCreate (n : name) (i : ino) (samedir : bool)
                                         (* openat(n, O_RDWR|O_CREAT|O_EXCL, 0600) -> new inode i; samedir: the name is
                                            created in the directory of the path (observed, not interpreted) *)
| SysWrite (i : ino) (chunk : list N)    (* write(fd of i, chunk) *)
| SysFchmod (i : ino) (m : N)            (* fchmod(fd of i, m) *)
| SysClose (i : ino)                     (* close(fd of i) *)
| SysUnlink (n : name)                   (* unlinkat(n) *)
| SysRename (a b : name)                 (* renameat(a, b) *)
| SysStat (follow : bool) (n : name).    (* newfstatat(n, follow / AT_SYMLINK_NOFOLLOW): mutates nothing; in the
                                            trace so that the recorded call sequence can be compared *)

Definition apply1 (x : sys) (s : fs) : fs :=
  match x with
  | SysCreate n i _ => mkFS (set (ents s) n (Some (EFile i))) (set (inos s) i (Some (mkI [] 384%N)))   (* 0600 *)
  | SysWrite i c => match inos s i with
                    | Some nd => mkFS (ents s) (set (inos s) i (Some (mkI (content nd ++ c) (mode nd))))
                    | None => s end
  | SysFchmod i m => match inos s i with
                     | Some nd => mkFS (ents s) (set (inos s) i (Some (mkI (content nd) m)))
                     | None => s end
  | SysClose _ => s
  | SysUnlink n => mkFS (set (ents s) n None) (inos s)
  | SysRename a b => match ents s a with
                     | Some e => mkFS (set (set (ents s) a None) b (Some e)) (inos s)
                     | None => s end
  | SysStat _ _ => s
  end.
Definition apply_all (l : list sys) (s : fs) : fs := fold_left (fun s x => apply1 x s) l s.

(* the environment of one call *)
Record env := mkEnv { path : name; tmp : name; tino : ino; target : list N;
                      bare : bool (* the path was given without a directory part *) }.
(* which calls fail; how f.Write is split into write calls *)
Record faults := mkFl { fl_create : bool; wr : list (list N); wr_ok : bool; fl_stat : bool; fl_chmod : bool;
                        fl_close : bool; fl_remove : bool; fl_rename : bool }.

Record mstate := mkM { cur : fs; err : bool; fi : option N; ret : bool; trace : list sys;
                       nodir : bool (* the variable dir is "" : os.CreateTemp would use os.TempDir() *) }.

Definition emit (m : mstate) (x : sys) : mstate :=
  mkM (apply1 x (cur m)) (err m) (fi m) (ret m) (trace m ++ [x]) (nodir m).
Definition emits (m : mstate) (l : list sys) : mstate :=
  mkM (apply_all l (cur m)) (err m) (fi m) (ret m) (trace m ++ l) (nodir m).
Definition set_err (m : mstate) (b : bool) : mstate := mkM (cur m) b (fi m) (ret m) (trace m) (nodir m).
Definition set_ret (m : mstate) : mstate := mkM (cur m) (err m) (fi m) true (trace m) (nodir m).
Definition set_fi (m : mstate) (v : option N) : mstate := mkM (cur m) (err m) v (ret m) (trace m) (nodir m).
Definition set_nodir (m : mstate) (b : bool) : mstate := mkM (cur m) (err m) (fi m) (ret m) (trace m) b.

Section Exec.
Variable e : env.
Variable fl : faults.

Fixpoint exec1 (s : fstmt) (m : mstate) : mstate :=
  let seq := fix seq (l : list fstmt) (m : mstate) : mstate :=
               match l with [] => m | x :: t => if ret m then m else seq t (exec1 x m) end in
  match s with
  | STmpName => m
  | SSplitPath => set_nodir m (bare e)
  | SDirDot => set_nodir m false
  | SCreateTemp => if fl_create fl then set_err m true else emit m (SysCreate (tmp e) (tino e) (negb (nodir m)))
  | SRetIfErr => if err m then set_ret m else m
  | SWrite => set_err (emits m (map (SysWrite (tino e)) (wr fl))) (negb (wr_ok fl))
  | SIfNoErr b => if err m then m else seq b m
  | SIfStat follow b =>
      if fl_stat fl then m
      else match stat_mode follow (cur m) (path e) with
           | Some md => seq b (set_fi (emit m (SysStat follow (path e))) (Some md))
           | None => m end
  | SChmodStat => match fi m with
                  | Some md => if fl_chmod fl then set_err m true else emit m (SysFchmod (tino e) md)
                  | None => set_err m true end
  | SCloseKeepErr => let m' := emit m (SysClose (tino e)) in
                     if err m' then m' else set_err m' (fl_close fl)
  | SIfErr b => if err m then seq b m else m
  | SRemoveTmp => if fl_remove fl then m else emit m (SysUnlink (tmp e))
  | SRemovePath => emit m (SysUnlink (path e))
  | SReturn => set_ret m
  | SReturnRename => set_ret (if fl_rename fl then set_err m true else emit m (SysRename (tmp e) (path e)))
  | SRenameElse b => if fl_rename fl then seq b (set_err m true) else emit m (SysRename (tmp e) (path e))
  end.

Fixpoint exec (l : list fstmt) (m : mstate) : mstate :=
  match l with [] => m | x :: t => if ret m then m else exec t (exec1 x m) end.

End Exec.

Definition start (s : fs) : mstate := mkM s false None false [] false.
(* one run of the code in /repo now *)
Definition run_wfb (e : env) (fl : faults) (s : fs) : mstate := exec e fl gen_wfb (start s).
(* the file system after a crash that let the first k mutating calls through *)
Definition crash_state (e : env) (fl : faults) (s : fs) (k : nat) : fs :=
  apply_all (firstn k (trace (run_wfb e fl s))) s.

(* the modelled statement list (the proofs are about it; Props/C26.v carries gen_wfb = model_wfb) *)
Definition model_wfb : list fstmt :=
  [SSplitPath; SDirDot; SCreateTemp; SRetIfErr; STmpName; SWrite; SIfNoErr [SIfStat true [SChmodStat]]; SCloseKeepErr;
   SIfErr [SRemoveTmp; SReturn]; SRenameElse [SRemoveTmp]; SReturn].

Definition no_faults (tgt : list N) : faults := mkFl false [tgt] true false false false false false.

(* ---- a concrete directory for the model runner: path = name 1, a link target = name 2, tmp = name 3 *)
Definition fs_regular (old : list N) (m : N) : fs :=
  mkFS (set (fun _ => None) 1%N (Some (EFile 10%N))) (set (fun _ => None) 10%N (Some (mkI old m))).
Definition fs_symlink (old : list N) (m : N) : fs :=
  mkFS (set (set (fun _ => None) 2%N (Some (EFile 10%N))) 1%N (Some (ELink 2%N)))
       (set (fun _ => None) 10%N (Some (mkI old m))).
Definition env0 (tgt : list N) (b : bool) : env := mkEnv 1%N 3%N 11%N tgt b.
