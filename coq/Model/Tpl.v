(* M-TPL: model of tpl/matcher/match.go (no RetProcs).  No proofs here.

   Matchers are an inductive type; rule references are indices into an environment
   [env : list (option m)] (None = a Var whose Elem is nil).  [run] is one fuel-indexed function
   whose states are Matcher.Match and the loops of Choices.Match, gSequence.Match and
   gRepeat0/gRepeat1.Match with their accumulators.  A result is (n, result, failed) — n is
   returned on failure as well, because Choices.Match commits on n > 0 && stops[i].

   Not modelled: RetProcs (hence no Dyn errors), error values/texts, Context.Left/LastErr.
   A Choice with zero options (not producible by the TPL parser) would return n = -1 in Go;
   the model returns 0. *)
From Coq Require Import List NArith ZArith Bool Arith.
Import ListNotations.
From V Require Import Base.Prelude Base.TplRes Gen.Tokens.
Local Open Scope nat_scope.

Record tokn := mkT { ttok : Z; tlit : str; tpos : Z }.

(* types.Token.End: Pos + len(Lit), or Pos + Tok.Len() when Lit is empty (translated Token.Len) *)
Definition tok_end (t : tokn) : M Z :=
  match tlit t with
  | [] => match tpl_Len (ttok t) with Ok n => Ok (tpos t + n)%Z | _ => Panic end   (* Len is loop-free: no fuel *)
  | l => Ok (tpos t + zlen l)%Z
  end.

Inductive m :=
| MTrue | MWS | MStr (q : N) | MTok (t : Z) | MLit (t : Z) (lit : str)
| MChoice (opts : list m) (stops : list bool) | MSeq (items : list m)
| MRep0 (r : m) | MRep1 (r : m) | MRep01 (r : m) | MAdj (a b : m) | MVar (v : nat).

(* func List(a, b) = Sequence(a, Repeat0(Sequence(b, a))) *)
Definition MList (a b : m) : m := MSeq [a; MRep0 (MSeq [b; a])].

Definition STRING : Z := tpl_STRING.

(* ---------------- First sets, CheckConflicts ---------------- *)
Inductive fi := FTok (t : Z) | FLit (t : Z) (l : str).
Inductive fres := FOk (f : list fi) (mayEmpty : bool) | FRec (v : nat) | FFuel.

Section WithEnv.
Variable env : list (option m).

(* Matcher.First(in); visiting = the Vars whose Elem is currently nil-ed "to stop recursion";
   FRec = panic(RecursiveError) *)
Fixpoint first (fuel : nat) (visiting : list nat) (g : m) (acc : list fi) : fres :=
  match fuel with O => FFuel | S f =>
  match g with
  | MTrue | MWS => FOk acc true
  | MStr _ => FOk (acc ++ [FTok STRING]) false
  | MTok t => FOk (acc ++ [FTok t]) false
  | MLit t l => FOk (acc ++ [FLit t l]) false
  | MChoice opts _ =>
      (fix go (os : list m) (acc : list fi) (me : bool) : fres :=
         match os with
         | [] => FOk acc me
         | o :: t => match first f visiting o acc with
                     | FOk a e => go t a (me || e)
                     | x => x end
         end) opts acc false
  | MSeq items =>
      (fix go (is : list m) (acc : list fi) : fres :=
         match is with
         | [] => FOk acc false      (* Go: mayEmpty keeps its zero value for an empty sequence *)
         | i :: t => match first f visiting i acc with
                     | FOk a true => match t with [] => FOk a true | _ => go t a end
                     | x => x end
         end) items acc
  | MRep0 r | MRep01 r => match first f visiting r acc with FOk a _ => FOk a true | x => x end
  | MRep1 r => first f visiting r acc
  | MAdj a _ => match first f visiting a acc with FOk x _ => FOk x false | x => x end
  | MVar i =>
      if existsb (Nat.eqb i) visiting then FRec i
      else match nth_error env i with
           | Some (Some e) => first f (i :: visiting) e acc
           | _ => FRec i      (* Elem == nil: panic(RecursiveError) as well *)
           end
  end end.

(* hasConflictMe: a token kind conflicts with the same kind or any literal of that kind; a literal
   conflicts only with the identical literal (not with its bare kind) *)
Definition conflict_me (me : fi) (next : list fi) : bool :=
  match me with
  | FTok t => existsb (fun n => match n with FTok t' => Z.eqb t' t | FLit t' _ => Z.eqb t' t end) next
  | FLit t l => existsb (fun n => match n with FLit t' l' => Z.eqb t' t && str_eqb l' l | FTok _ => false end) next
  end.
Definition has_conflict (me next : list fi) : bool := existsb (fun x => conflict_me x next) me.

(* stops[i] = option i conflicts with no later option *)
Fixpoint stops_of (firsts : list (list fi)) : list bool :=
  match firsts with
  | [] => []
  | me :: t => negb (existsb (has_conflict me) t) :: stops_of t
  end.

Definition choice_stops (fuel : nat) (opts : list m) : option (list bool) :=
  let fs := map (fun o => first fuel [] o []) opts in
  if forallb (fun r => match r with FOk _ _ => true | _ => false end) fs
  then Some (stops_of (map (fun r => match r with FOk a _ => a | _ => [] end) fs)) else None.

(* CheckConflicts on every Choices of g (computed once, at compile time): None = RecursiveError *)
Fixpoint fill (fuel : nat) (g : m) : option m :=
  match g with
  | MChoice opts _ =>
      match choice_stops fuel opts with
      | None => None
      | Some st =>
        (fix go (os : list m) (acc : list m) : option m :=
           match os with
           | [] => Some (MChoice (rev acc) st)
           | o :: t => match fill fuel o with Some o' => go t (o' :: acc) | None => None end
           end) opts []
      end
  | MSeq items =>
      (fix go (is : list m) (acc : list m) : option m :=
         match is with
         | [] => Some (MSeq (rev acc))
         | o :: t => match fill fuel o with Some o' => go t (o' :: acc) | None => None end
         end) items []
  | MRep0 r => option_map MRep0 (fill fuel r)
  | MRep1 r => option_map MRep1 (fill fuel r)
  | MRep01 r => option_map MRep01 (fill fuel r)
  | MAdj a b => match fill fuel a, fill fuel b with Some a', Some b' => Some (MAdj a' b') | _, _ => None end
  | x => Some x
  end.

(* ---------------- Match ---------------- *)
Variable toks : list tokn.        (* ctx.toks; src is always the suffix toks[i:] *)

Inductive rs :=
| SM (g : m) (i : nat)                                               (* g.Match(toks[i:], ctx) *)
| SCh (opts : list m) (stops : list bool) (i : nat) (nmax : nat)     (* Choices.Match loop *)
| SSq (items : list m) (i : nat) (n : nat) (acc : list res)          (* gSequence.Match loop *)
| SRp (r : m) (i : nat) (n : nat) (acc : list res).                  (* gRepeat0/1.Match loop *)

Definition out := M (nat * res * bool).     (* (n, result, err != nil) *)
Definition okr (n : nat) (r : res) : out := Ok (n, r, false).
Definition failr (n : nat) : out := Ok (n, RNil, true).

Fixpoint run (fuel : nat) (s : rs) : out :=
  match fuel with O => OutOfFuel | S f =>
  match s with
  | SM g i =>
    let src0 := nth_error toks i in
    match g with
    | MTrue => okr 0 RNil
    | MWS =>                       (* matches iff not at the start, not at the end, and a gap precedes *)
        match src0, i with
        | Some t, S j =>
            match nth_error toks j with
            | Some p => e <- tok_end p ;; if negb (Z.eqb e (tpos t)) then okr 0 RNil else failr 0
            | None => Panic
            end
        | _, _ => failr 0
        end
    | MStr q =>
        match src0 with
        | None => failr 0
        | Some t => if negb (Z.eqb (ttok t) STRING) then failr 0
                    else match tlit t with
                         | c :: _ => if N.eqb c q then okr 1 (RTok i) else failr 0
                         | [] => Panic                    (* t.Lit[0] *)
                         end
        end
    | MTok k =>
        match src0 with
        | None => failr 0
        | Some t => if Z.eqb (ttok t) k then okr 1 (RTok i) else failr 0
        end
    | MLit k l =>
        match src0 with
        | None => failr 0
        | Some t => if Z.eqb (ttok t) k && str_eqb (tlit t) l then okr 1 (RTok i) else failr 0
        end
    | MChoice opts stops => run f (SCh opts stops i 0)
    | MSeq items => run f (SSq items i 0 [])
    | MRep0 r => run f (SRp r i 0 [])
    | MRep1 r =>
        match run f (SM r i) with
        | Ok (n0, x0, false) => run f (SRp r i n0 [x0])
        | x => x
        end
    | MRep01 r =>
        match run f (SM r i) with
        | Ok (n, x, false) => okr n x
        | Ok (_, _, true) => okr 0 RNil
        | x => x
        end
    | MAdj a b =>
        match run f (SM a i) with
        | Ok (n, r0, false) =>
            if Nat.eqb n 0 then failr 0                              (* errAdjoinEmpty *)
            else match run f (SM b (i + n)) with
                 | Ok (n1, r1, false) =>
                     if Nat.eqb n1 0 then failr n                    (* errAdjoinEmpty *)
                     else match nth_error toks (i + n - 1), nth_error toks (i + n) with
                          | Some p, Some q =>
                              e <- tok_end p ;;
                              if Z.eqb e (tpos q) then okr (n + n1) (RList [r0; r1]) else failr n   (* "not adjoin" *)
                          | _, _ => Panic
                          end
                 | Ok (_, _, true) => failr n
                 | x => x
                 end
        | x => x
        end
    | MVar v =>
        match nth_error env v with
        | Some (Some e) => run f (SM e i)
        | _ => failr 0                                               (* variable not assigned *)
        end
    end
  | SCh opts stops i nmax =>
      match opts with
      | [] => failr nmax
      | o :: t =>
          match run f (SM o i) with
          | Ok (n, r, false) => okr n r
          | Ok (n, r, true) =>
              match stops with
              | s :: st => if Nat.ltb 0 n && s then Ok (n, r, true)      (* committed: n > 0 && stops[i] *)
                           else run f (SCh t st i (Nat.max nmax n))
              | [] => Panic                                              (* stops[i] out of range *)
              end
          | x => x
          end
      end
  | SSq items i n acc =>
      match items with
      | [] => okr n (RList (rev acc))
      | it :: t =>
          match run f (SM it (i + n)) with
          | Ok (n1, r, false) => run f (SSq t i (n + n1) (r :: acc))
          | Ok (n1, _, true) => failr (n + n1)
          | x => x
          end
      end
  | SRp r i n acc =>
      match run f (SM r (i + n)) with
      | Ok (n1, x, false) => run f (SRp r i (n + n1) (x :: acc))
      | Ok (_, _, true) => okr n (RList (rev acc))
      | x => x
      end
  end end.

End WithEnv.

(* Compiler.Match: Doc.Match(toks) *)
Definition match_doc (env : list (option m)) (toks : list tokn) (fuel : nat) (doc : nat) : out :=
  run env toks fuel (SM (MVar doc) 0).

(* size, used by the fuel bound *)
Fixpoint msize (g : m) : nat :=
  match g with
  | MChoice opts _ => S (fold_right (fun x a => S (msize x + a)) 0 opts)
  | MSeq items => S (fold_right (fun x a => S (msize x + a)) 0 items)
  | MRep0 r | MRep1 r | MRep01 r => S (S (msize r))
  | MAdj a b => S (msize a + msize b)
  | _ => 1
  end.
