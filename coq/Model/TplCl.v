(* Model of tpl/cl/compile.go: compileExpr, tokenExpr, checkToken, NewEx (no proofs here).

   Input: the rules of a parsed grammar file (Model/C31.v: rule = name * ge).
   strconv.UnquoteChar / strconv.Unquote are NOT modelled: their results are an input of the
   model ([unq]); the identifier table, the special names and Token.Len are generated from the
   source (Gen/TplCl.v, Gen/Tokens.v).
   Result of [compile]: Panic (a Go panic escapes NewEx) | Ok None (error list / ErrNoDocFound /
   RecursiveError) | Ok (Some (env, doc)).  Error texts and positions are not modelled; the error
   COUNT of compileExpr is kept because "any error" decides the outcome. *)
From Coq Require Import List NArith ZArith Bool Arith.
Import ListNotations.
From V Require Import Base.Prelude Base.TplRes Gen.Tokens Gen.TplCl Model.C31 Model.Tpl.
Local Open Scope nat_scope.

Inductive uq :=
| UqErr                                               (* err != nil *)
| UqChar (v : Z) (multibyte : bool) (tail : bool)     (* UnquoteChar: value, multibyte, tail != "" *)
| UqStr (v : str).                                    (* Unquote: value *)

Fixpoint sassoc (k : str) (l : list (str * Z)) : option Z :=
  match l with [] => None | (k', v) :: t => if str_eqb k k' then Some v else sassoc k t end.

Fixpoint index_of (k : str) (l : list str) (i : nat) : option nat :=
  match l with [] => None | k' :: t => if str_eqb k k' then Some i else index_of k t (S i) end.

(* token.ForEach(0, …) as used by checkToken: the first operator in (operator_beg, operator_end)
   whose spelling is v *)
Fixpoint find_spelling (v : str) (from : Z) (l : list str) : option Z :=
  match l with
  | [] => None
  | s :: t => if negb (str_eqb s []) && str_eqb s v then Some from else find_spelling v (from + 1)%Z t
  end.
Definition for_each_find (v : str) : option Z :=
  let lo := (tpl_operator_beg + 1)%Z in
  let n := Z.to_nat (tpl_operator_end - lo) in
  find_spelling v lo (firstn n (skipn (Z.to_nat lo) tpl_tokens)).

(* func checkToken(v string) (ret token.Token, ok bool) — v non-empty here *)
Definition check_token (v : str) : option Z :=
  match v with
  | [c] => Some (Z.of_N c)
  | _ => for_each_find v
  end.

Definition is_ident_start (c : N) : bool :=
  ((97 <=? c) && (c <=? 122) || (65 <=? c) && (c <=? 90) || (c =? 95))%N.

Section Compile.
Variable unq : bool -> str -> uq.      (* true: UnquoteChar(lit[1:len-1], '\''); false: Unquote(lit) *)
Variable rules : list str.             (* ctx.rules: declared names, first declaration wins *)

Definition cres := M (option m * nat).   (* (matcher | !ok, errors added) *)
Definition c_ok (g : m) : cres := Ok (Some g, 0).
Definition c_err_ok (g : m) : cres := Ok (Some g, 1).
Definition c_fail : cres := Ok (None, 1).

(* func tokenExpr(tok, expr, ctx) *)
Definition token_expr (tok : Z) : cres :=
  n <- tpl_Len tok ;; if Z.ltb 0 n then c_ok (MTok tok) else c_fail.

Definition compile_ident (name : str) : cres :=
  match index_of name rules 0 with
  | Some i => c_ok (MVar i)
  | None =>
    match sassoc name tplcl_idents with
    | Some t => c_ok (MTok t)
    | None =>
      match sassoc name tplcl_string_names with
      | Some q => c_ok (MStr (Z.to_N q))
      | None => if str_eqb name tplcl_space_name then c_ok MWS
                else c_err_ok (MStr 0)          (* "`%s` is undefined"; still returns String(0), true *)
      end
    end
  end.

Definition compile_lit (k : bool) (lit : str) : cres :=
  if k then                                         (* token.CHAR *)
    if Nat.ltb (length lit) 2 then Panic            (* lit[1:len(lit)-1] *)
    else match unq true lit with
         | UqChar v multibyte tail => if tail || multibyte then c_fail else token_expr v
         | _ => c_fail
         end
  else                                              (* token.STRING *)
    match unq false lit with
    | UqStr [] => c_ok MTrue
    | UqStr (c :: v') =>
        if is_ident_start c then c_ok (MLit tpl_IDENT (c :: v'))
        else match check_token (c :: v') with
             | Some t => token_expr t
             | None => c_fail
             end
    | _ => c_fail
    end.

Fixpoint compile_expr (e : ge) : cres :=
  match e with
  | EIdent name => compile_ident name
  | ELit k lit => compile_lit k lit
  | ESeq items =>
      (fix go (l : list ge) (acc : list m) (nerr : nat) : cres :=
         match l with
         | [] => Ok (Some (MSeq (rev acc)), nerr)
         | x :: t => match compile_expr x with
                     | Ok (Some g, n) => go t (g :: acc) (nerr + n)
                     | Ok (None, n) => Ok (None, nerr + n)
                     | Panic => Panic | OutOfFuel => OutOfFuel
                     end
         end) items [] 0
  | EChoice opts =>
      (fix go (l : list ge) (acc : list m) (nerr : nat) : cres :=
         match l with
         | [] => Ok (Some (MChoice (rev acc) []), nerr)      (* stops are set later by CheckConflicts *)
         | x :: t => match compile_expr x with
                     | Ok (Some g, n) => go t (g :: acc) (nerr + n)
                     | Ok (None, n) => Ok (None, nerr + n)
                     | Panic => Panic | OutOfFuel => OutOfFuel
                     end
         end) opts [] 0
  | EUn o x =>
      match compile_expr x with
      | Ok (Some g, n) => Ok (Some (match o with UQuest => MRep01 g | UMul => MRep0 g | UAdd => MRep1 g end), n)
      | y => y
      end
  | EBin o x y =>
      match compile_expr x with
      | Ok (gx, n1) =>
          match compile_expr y with
          | Ok (gy, n2) =>
              match gx, gy with
              | Some a, Some b => Ok (Some (match o with BRem => MList a b | BInc => MAdj a b end), n1 + n2)
              | _, _ => Ok (None, n1 + n2)
              end
          | z => z
          end
      | z => z
      end
  | ENil => Panic                                   (* default: ctx.addError(expr.Pos(), …) on a nil Expr *)
  end.

End Compile.

(* duplicates among the declared names: each adds one error in NewEx's first loop *)
Fixpoint dup_count (names : list str) (seen : list str) : nat :=
  match names with
  | [] => 0
  | n :: t => if existsb (str_eqb n) seen then S (dup_count t seen) else dup_count t (n :: seen)
  end.

(* the second loop of NewEx: compile every declaration; result: bodies per DECLARATION, error count *)
Fixpoint compile_rules (unq : bool -> str -> uq) (names : list str) (rs : list rule) : M (list (option m) * nat) :=
  match rs with
  | [] => Ok ([], 0)
  | (_, e) :: t =>
      r <- compile_expr unq names e ;;
      rest <- compile_rules unq names t ;;
      Ok (fst r :: fst rest, snd r + snd rest)
  end.

(* fuel of First: a path descends through the option and then through each rule body at most once
   (Var.First nils Elem while inside); twice the total size + the number of rules is ample *)
Definition fill_fuel (env : list (option m)) : nat :=
  S (2 * fold_right (fun o a => match o with Some g => msize g | None => 0 end + a) (length env) env).

(* CheckConflicts for every choice of every compiled body; None = RecursiveError *)
Fixpoint fill_env (env0 : list (option m)) (fuel : nat) (l : list (option m)) : option (list (option m)) :=
  match l with
  | [] => Some []
  | None :: t => option_map (cons None) (fill_env env0 fuel t)
  | Some g :: t => match fill env0 fuel g, fill_env env0 fuel t with
                   | Some g', Some t' => Some (Some g' :: t')
                   | _, _ => None
                   end
  end.

(* cl.NewEx on one file *)
Definition compile (unq : bool -> str -> uq) (rs : list rule) : M (option (list (option m) * nat)) :=
  let names := map fst rs in
  r <- compile_rules unq names rs ;;
  let '(bodies, nerr) := r in
  if negb (Nat.eqb (nerr + dup_count names []) 0) then Ok None         (* some error (or ErrNoDocFound) *)
  else match bodies with
       | [] => Ok None                                                   (* ErrNoDocFound *)
       | _ => match fill_env bodies (fill_fuel bodies) bodies with
              | Some env => Ok (Some (env, 0))                           (* doc = the first rule *)
              | None => Ok None                                          (* RecursiveError *)
              end
       end.
