(* C39 — model of the jsonrpc2 connection state machine (x/jsonrpc2/conn.go).  No proofs here.

   A labelled transition system.  The state is the inFlightState of the Connection, the done
   channel, the seq counter, the AsyncCalls, the incoming requests and one program counter per
   goroutine-like activity (Call / Notify / Respond / Cancel / Close / Wait invocations, the
   readIncoming goroutine, the handleAsync goroutine, newConnection).  There is exactly one
   transition per  c.updateInFlight(func…)  critical section of the source (18 sites, listed in
   [modelled_sites] with the hash of the body the transition was written against), each followed
   by the shared idle/shutdown epilogue [epi]; the remaining labels are local steps of a thread
   (atomic.AddInt64, retire outside a section, req.ctx.Err(), req.cancel()) and environment
   steps (API invocations, messages / errors delivered by the Reader, results of Writer.Write,
   results of Preempt / Handle, returns of the API functions).

   step : state -> label -> result     (Ok s' | Panic p | Disabled)
   Panic = one of the three panics of conn.go (or the modelled counter underflow). *)
From Coq Require Import List NArith ZArith Bool Arith String.
Import ListNotations.
From V Require Import Base.ConnView Gen.ConnSites.

(* ------------------------------------------------------------------ data *)
Inductive id := IInt (z : Z) | IStr (n : N).          (* jsonrpc2.ID: int64 or string (tagged) *)
Definition id_eqb (a b : id) : bool :=
  match a, b with
  | IInt x, IInt y => Z.eqb x y
  | IStr x, IStr y => N.eqb x y
  | _, _ => false
  end.

(* error classes (what the harness can observe of an error value) *)
Definition e_closing : N := 1.       (* ErrClientClosing (wrapped or not) *)
Definition e_marshal : N := 2.       (* "marshaling call parameters" *)
Definition e_read : N := 3.          (* the error the Reader returned *)
Definition e_write : N := 4.         (* the error Writer.Write returned *)
Definition e_ctx : N := 5.           (* context.Canceled *)
Definition e_srvclosing : N := 6.    (* ErrServerClosing (wrapped or not) *)
Definition e_invalid : N := 7.       (* ErrInvalidRequest: request ID already in use *)
Definition e_nomethod : N := 8.      (* ErrMethodNotFound (ErrNotHandled is mapped to it) *)
Definition e_app : N := 100.         (* e_app + k: application error k returned by a handler / peer *)

Inductive body := BResult (tag : N) | BErr (code : N).
Record response := { rs_id : id; rs_body : body }.

(* what Preempt / Handle / the argument of Respond deliver *)
Inductive outcome := ONotHandled | OAsync | OOk (tag : N) | OErr (code : N) | OBad (* unmarshalable result *).

Inductive wres := WOk | WFail | WFailCtx.   (* Writer.Write: nil / error with live ctx / error with ctx.Err() != nil *)

Inductive msg := MResp (r : response) | MReq (i : option id).   (* what Reader.Read delivers *)

(* ------------------------------------------------------------------ program counters *)
(* processResult, shared by its three callers *)
Inductive prs :=
  | PDelete (o : outcome)      (* before  updateInFlight{delete(s.incomingByID, req.ID)} *)
  | PWrite (r : response)      (* before  c.write(response) *)
  | PWErr                      (* write failed: before the write-error section *)
  | PDec.                      (* before  updateInFlight{s.incoming--} *)

Inductive cpc :=               (* Connection.Call *)
  | CNew                       (* before atomic.AddInt64(&c.seq, 1) *)
  | CReg                       (* before the registering section *)
  | CRetire (e : N)            (* before ac.retire outside a section (marshal error / shutting down) *)
  | CWrite                     (* before c.write(call) *)
  | CWErr                      (* write failed with a live ctx: before the write-error section *)
  | CWFailed (e : N)           (* write failed with error class e: before the section that un-registers and retires *)
  | CRet | CReturned.
Record callrec := { c_pc : cpc; c_bad : bool; c_id : option id; c_resp : option response; c_reg : bool }.

Inductive npc := NNew | NWrite | NWErr | NEnd (ok : bool) | NRet (ok : bool) | NReturned.   (* Connection.Notify *)
Record notifrec := { n_pc : npc; n_bad : bool }.

Inductive rsub := RAccept | RPreempt | RPreempting | REnqueue | RPR (p : prs).
Inductive rpc :=               (* readIncoming goroutine *)
  | RNone | RIdle | RResp (r : response) | RBusy (r : nat) (sub : rsub) | RErr | RExited.

Inductive hsub := HCheck | HCancelled | HInvoke | HHandling | HPR (p : prs).
Inductive hpc := HNone | HDeq | HBusy (r : nat) (sub : hsub).   (* handleAsync goroutine *)

Inductive ppc :=               (* Connection.Respond *)
  | PLookup (i : id) (o : outcome) | PBusy (r : nat) (p : prs) | PRet (found : bool) | PReturned.
Inductive kpc := KLookup (i : id) | KFire (r : nat) | KRet | KReturned.   (* Connection.Cancel *)
Inductive clpc := ClNew | ClWait | ClRet | ClReturned.                    (* Close (from ClNew) / Wait (from ClWait) *)
Inductive mpc := MBind | MStarted.                                        (* newConnection *)

Record reqrec := {
  rq_id : option id;           (* Request.ID: None = notification (also after the duplicate-ID reset) *)
  rq_cancelled : bool;         (* req.ctx cancelled *)
  rq_answers : nat }.          (* ghost: number of response writes attempted for this request *)

(* ------------------------------------------------------------------ state *)
Record state := {
  (* inFlightState *)
  s_connClosing : bool; s_reading : bool; s_readErr : bool; s_writeErr : bool; s_closer : bool;
  s_outgoing : list (id * nat);        (* outgoingCalls: ID -> AsyncCall handle *)
  s_outNotifs : nat;
  s_incoming : nat;
  s_byID : list (id * nat);            (* incomingByID: ID -> request handle *)
  s_queue : list nat;                  (* handlerQueue *)
  s_handlerRunning : bool;
  (* Connection *)
  s_done : bool; s_seq : Z;
  (* heap *)
  s_calls : list callrec; s_reqs : list reqrec;
  s_asyncs : list nat;                 (* requests whose handler returned ErrAsyncResponse and that no Respond has taken yet *)
  (* threads *)
  s_notifs : list notifrec; s_reader : rpc; s_handler : hpc; s_resps : list ppc;
  s_cancels : list kpc; s_closers : list clpc; s_main : mpc;
  s_preempter : bool;                  (* options.Preempter != nil *)
  (* ghost observables *)
  s_rwc_closes : nat; s_ondones : nat; s_rwc_acked : nat; s_ondone_acked : nat }.

Definition init (preempter : bool) : state := {|
  s_connClosing := false; s_reading := false; s_readErr := false; s_writeErr := false; s_closer := true;
  s_outgoing := []; s_outNotifs := 0; s_incoming := 0; s_byID := []; s_queue := []; s_handlerRunning := false;
  s_done := false; s_seq := 0%Z; s_calls := []; s_reqs := []; s_asyncs := [];
  s_notifs := []; s_reader := RNone; s_handler := HNone; s_resps := []; s_cancels := []; s_closers := [];
  s_main := MBind; s_preempter := preempter;
  s_rwc_closes := 0; s_ondones := 0; s_rwc_acked := 0; s_ondone_acked := 0 |}.

(* setters *)
Definition set_connClosing v s := {| s_connClosing := v; s_reading := s_reading s; s_readErr := s_readErr s; s_writeErr := s_writeErr s; s_closer := s_closer s; s_outgoing := s_outgoing s; s_outNotifs := s_outNotifs s; s_incoming := s_incoming s; s_byID := s_byID s; s_queue := s_queue s; s_handlerRunning := s_handlerRunning s; s_done := s_done s; s_seq := s_seq s; s_calls := s_calls s; s_reqs := s_reqs s; s_asyncs := s_asyncs s; s_notifs := s_notifs s; s_reader := s_reader s; s_handler := s_handler s; s_resps := s_resps s; s_cancels := s_cancels s; s_closers := s_closers s; s_main := s_main s; s_preempter := s_preempter s; s_rwc_closes := s_rwc_closes s; s_ondones := s_ondones s; s_rwc_acked := s_rwc_acked s; s_ondone_acked := s_ondone_acked s |}.
Definition set_reading v s := {| s_connClosing := s_connClosing s; s_reading := v; s_readErr := s_readErr s; s_writeErr := s_writeErr s; s_closer := s_closer s; s_outgoing := s_outgoing s; s_outNotifs := s_outNotifs s; s_incoming := s_incoming s; s_byID := s_byID s; s_queue := s_queue s; s_handlerRunning := s_handlerRunning s; s_done := s_done s; s_seq := s_seq s; s_calls := s_calls s; s_reqs := s_reqs s; s_asyncs := s_asyncs s; s_notifs := s_notifs s; s_reader := s_reader s; s_handler := s_handler s; s_resps := s_resps s; s_cancels := s_cancels s; s_closers := s_closers s; s_main := s_main s; s_preempter := s_preempter s; s_rwc_closes := s_rwc_closes s; s_ondones := s_ondones s; s_rwc_acked := s_rwc_acked s; s_ondone_acked := s_ondone_acked s |}.
Definition set_readErr v s := {| s_connClosing := s_connClosing s; s_reading := s_reading s; s_readErr := v; s_writeErr := s_writeErr s; s_closer := s_closer s; s_outgoing := s_outgoing s; s_outNotifs := s_outNotifs s; s_incoming := s_incoming s; s_byID := s_byID s; s_queue := s_queue s; s_handlerRunning := s_handlerRunning s; s_done := s_done s; s_seq := s_seq s; s_calls := s_calls s; s_reqs := s_reqs s; s_asyncs := s_asyncs s; s_notifs := s_notifs s; s_reader := s_reader s; s_handler := s_handler s; s_resps := s_resps s; s_cancels := s_cancels s; s_closers := s_closers s; s_main := s_main s; s_preempter := s_preempter s; s_rwc_closes := s_rwc_closes s; s_ondones := s_ondones s; s_rwc_acked := s_rwc_acked s; s_ondone_acked := s_ondone_acked s |}.
Definition set_writeErr v s := {| s_connClosing := s_connClosing s; s_reading := s_reading s; s_readErr := s_readErr s; s_writeErr := v; s_closer := s_closer s; s_outgoing := s_outgoing s; s_outNotifs := s_outNotifs s; s_incoming := s_incoming s; s_byID := s_byID s; s_queue := s_queue s; s_handlerRunning := s_handlerRunning s; s_done := s_done s; s_seq := s_seq s; s_calls := s_calls s; s_reqs := s_reqs s; s_asyncs := s_asyncs s; s_notifs := s_notifs s; s_reader := s_reader s; s_handler := s_handler s; s_resps := s_resps s; s_cancels := s_cancels s; s_closers := s_closers s; s_main := s_main s; s_preempter := s_preempter s; s_rwc_closes := s_rwc_closes s; s_ondones := s_ondones s; s_rwc_acked := s_rwc_acked s; s_ondone_acked := s_ondone_acked s |}.
Definition set_closer v s := {| s_connClosing := s_connClosing s; s_reading := s_reading s; s_readErr := s_readErr s; s_writeErr := s_writeErr s; s_closer := v; s_outgoing := s_outgoing s; s_outNotifs := s_outNotifs s; s_incoming := s_incoming s; s_byID := s_byID s; s_queue := s_queue s; s_handlerRunning := s_handlerRunning s; s_done := s_done s; s_seq := s_seq s; s_calls := s_calls s; s_reqs := s_reqs s; s_asyncs := s_asyncs s; s_notifs := s_notifs s; s_reader := s_reader s; s_handler := s_handler s; s_resps := s_resps s; s_cancels := s_cancels s; s_closers := s_closers s; s_main := s_main s; s_preempter := s_preempter s; s_rwc_closes := s_rwc_closes s; s_ondones := s_ondones s; s_rwc_acked := s_rwc_acked s; s_ondone_acked := s_ondone_acked s |}.
Definition set_outgoing v s := {| s_connClosing := s_connClosing s; s_reading := s_reading s; s_readErr := s_readErr s; s_writeErr := s_writeErr s; s_closer := s_closer s; s_outgoing := v; s_outNotifs := s_outNotifs s; s_incoming := s_incoming s; s_byID := s_byID s; s_queue := s_queue s; s_handlerRunning := s_handlerRunning s; s_done := s_done s; s_seq := s_seq s; s_calls := s_calls s; s_reqs := s_reqs s; s_asyncs := s_asyncs s; s_notifs := s_notifs s; s_reader := s_reader s; s_handler := s_handler s; s_resps := s_resps s; s_cancels := s_cancels s; s_closers := s_closers s; s_main := s_main s; s_preempter := s_preempter s; s_rwc_closes := s_rwc_closes s; s_ondones := s_ondones s; s_rwc_acked := s_rwc_acked s; s_ondone_acked := s_ondone_acked s |}.
Definition set_outNotifs v s := {| s_connClosing := s_connClosing s; s_reading := s_reading s; s_readErr := s_readErr s; s_writeErr := s_writeErr s; s_closer := s_closer s; s_outgoing := s_outgoing s; s_outNotifs := v; s_incoming := s_incoming s; s_byID := s_byID s; s_queue := s_queue s; s_handlerRunning := s_handlerRunning s; s_done := s_done s; s_seq := s_seq s; s_calls := s_calls s; s_reqs := s_reqs s; s_asyncs := s_asyncs s; s_notifs := s_notifs s; s_reader := s_reader s; s_handler := s_handler s; s_resps := s_resps s; s_cancels := s_cancels s; s_closers := s_closers s; s_main := s_main s; s_preempter := s_preempter s; s_rwc_closes := s_rwc_closes s; s_ondones := s_ondones s; s_rwc_acked := s_rwc_acked s; s_ondone_acked := s_ondone_acked s |}.
Definition set_incoming v s := {| s_connClosing := s_connClosing s; s_reading := s_reading s; s_readErr := s_readErr s; s_writeErr := s_writeErr s; s_closer := s_closer s; s_outgoing := s_outgoing s; s_outNotifs := s_outNotifs s; s_incoming := v; s_byID := s_byID s; s_queue := s_queue s; s_handlerRunning := s_handlerRunning s; s_done := s_done s; s_seq := s_seq s; s_calls := s_calls s; s_reqs := s_reqs s; s_asyncs := s_asyncs s; s_notifs := s_notifs s; s_reader := s_reader s; s_handler := s_handler s; s_resps := s_resps s; s_cancels := s_cancels s; s_closers := s_closers s; s_main := s_main s; s_preempter := s_preempter s; s_rwc_closes := s_rwc_closes s; s_ondones := s_ondones s; s_rwc_acked := s_rwc_acked s; s_ondone_acked := s_ondone_acked s |}.
Definition set_byID v s := {| s_connClosing := s_connClosing s; s_reading := s_reading s; s_readErr := s_readErr s; s_writeErr := s_writeErr s; s_closer := s_closer s; s_outgoing := s_outgoing s; s_outNotifs := s_outNotifs s; s_incoming := s_incoming s; s_byID := v; s_queue := s_queue s; s_handlerRunning := s_handlerRunning s; s_done := s_done s; s_seq := s_seq s; s_calls := s_calls s; s_reqs := s_reqs s; s_asyncs := s_asyncs s; s_notifs := s_notifs s; s_reader := s_reader s; s_handler := s_handler s; s_resps := s_resps s; s_cancels := s_cancels s; s_closers := s_closers s; s_main := s_main s; s_preempter := s_preempter s; s_rwc_closes := s_rwc_closes s; s_ondones := s_ondones s; s_rwc_acked := s_rwc_acked s; s_ondone_acked := s_ondone_acked s |}.
Definition set_queue v s := {| s_connClosing := s_connClosing s; s_reading := s_reading s; s_readErr := s_readErr s; s_writeErr := s_writeErr s; s_closer := s_closer s; s_outgoing := s_outgoing s; s_outNotifs := s_outNotifs s; s_incoming := s_incoming s; s_byID := s_byID s; s_queue := v; s_handlerRunning := s_handlerRunning s; s_done := s_done s; s_seq := s_seq s; s_calls := s_calls s; s_reqs := s_reqs s; s_asyncs := s_asyncs s; s_notifs := s_notifs s; s_reader := s_reader s; s_handler := s_handler s; s_resps := s_resps s; s_cancels := s_cancels s; s_closers := s_closers s; s_main := s_main s; s_preempter := s_preempter s; s_rwc_closes := s_rwc_closes s; s_ondones := s_ondones s; s_rwc_acked := s_rwc_acked s; s_ondone_acked := s_ondone_acked s |}.
Definition set_handlerRunning v s := {| s_connClosing := s_connClosing s; s_reading := s_reading s; s_readErr := s_readErr s; s_writeErr := s_writeErr s; s_closer := s_closer s; s_outgoing := s_outgoing s; s_outNotifs := s_outNotifs s; s_incoming := s_incoming s; s_byID := s_byID s; s_queue := s_queue s; s_handlerRunning := v; s_done := s_done s; s_seq := s_seq s; s_calls := s_calls s; s_reqs := s_reqs s; s_asyncs := s_asyncs s; s_notifs := s_notifs s; s_reader := s_reader s; s_handler := s_handler s; s_resps := s_resps s; s_cancels := s_cancels s; s_closers := s_closers s; s_main := s_main s; s_preempter := s_preempter s; s_rwc_closes := s_rwc_closes s; s_ondones := s_ondones s; s_rwc_acked := s_rwc_acked s; s_ondone_acked := s_ondone_acked s |}.
Definition set_done v s := {| s_connClosing := s_connClosing s; s_reading := s_reading s; s_readErr := s_readErr s; s_writeErr := s_writeErr s; s_closer := s_closer s; s_outgoing := s_outgoing s; s_outNotifs := s_outNotifs s; s_incoming := s_incoming s; s_byID := s_byID s; s_queue := s_queue s; s_handlerRunning := s_handlerRunning s; s_done := v; s_seq := s_seq s; s_calls := s_calls s; s_reqs := s_reqs s; s_asyncs := s_asyncs s; s_notifs := s_notifs s; s_reader := s_reader s; s_handler := s_handler s; s_resps := s_resps s; s_cancels := s_cancels s; s_closers := s_closers s; s_main := s_main s; s_preempter := s_preempter s; s_rwc_closes := s_rwc_closes s; s_ondones := s_ondones s; s_rwc_acked := s_rwc_acked s; s_ondone_acked := s_ondone_acked s |}.
Definition set_seq v s := {| s_connClosing := s_connClosing s; s_reading := s_reading s; s_readErr := s_readErr s; s_writeErr := s_writeErr s; s_closer := s_closer s; s_outgoing := s_outgoing s; s_outNotifs := s_outNotifs s; s_incoming := s_incoming s; s_byID := s_byID s; s_queue := s_queue s; s_handlerRunning := s_handlerRunning s; s_done := s_done s; s_seq := v; s_calls := s_calls s; s_reqs := s_reqs s; s_asyncs := s_asyncs s; s_notifs := s_notifs s; s_reader := s_reader s; s_handler := s_handler s; s_resps := s_resps s; s_cancels := s_cancels s; s_closers := s_closers s; s_main := s_main s; s_preempter := s_preempter s; s_rwc_closes := s_rwc_closes s; s_ondones := s_ondones s; s_rwc_acked := s_rwc_acked s; s_ondone_acked := s_ondone_acked s |}.
Definition set_calls v s := {| s_connClosing := s_connClosing s; s_reading := s_reading s; s_readErr := s_readErr s; s_writeErr := s_writeErr s; s_closer := s_closer s; s_outgoing := s_outgoing s; s_outNotifs := s_outNotifs s; s_incoming := s_incoming s; s_byID := s_byID s; s_queue := s_queue s; s_handlerRunning := s_handlerRunning s; s_done := s_done s; s_seq := s_seq s; s_calls := v; s_reqs := s_reqs s; s_asyncs := s_asyncs s; s_notifs := s_notifs s; s_reader := s_reader s; s_handler := s_handler s; s_resps := s_resps s; s_cancels := s_cancels s; s_closers := s_closers s; s_main := s_main s; s_preempter := s_preempter s; s_rwc_closes := s_rwc_closes s; s_ondones := s_ondones s; s_rwc_acked := s_rwc_acked s; s_ondone_acked := s_ondone_acked s |}.
Definition set_reqs v s := {| s_connClosing := s_connClosing s; s_reading := s_reading s; s_readErr := s_readErr s; s_writeErr := s_writeErr s; s_closer := s_closer s; s_outgoing := s_outgoing s; s_outNotifs := s_outNotifs s; s_incoming := s_incoming s; s_byID := s_byID s; s_queue := s_queue s; s_handlerRunning := s_handlerRunning s; s_done := s_done s; s_seq := s_seq s; s_calls := s_calls s; s_reqs := v; s_asyncs := s_asyncs s; s_notifs := s_notifs s; s_reader := s_reader s; s_handler := s_handler s; s_resps := s_resps s; s_cancels := s_cancels s; s_closers := s_closers s; s_main := s_main s; s_preempter := s_preempter s; s_rwc_closes := s_rwc_closes s; s_ondones := s_ondones s; s_rwc_acked := s_rwc_acked s; s_ondone_acked := s_ondone_acked s |}.
Definition set_asyncs v s := {| s_connClosing := s_connClosing s; s_reading := s_reading s; s_readErr := s_readErr s; s_writeErr := s_writeErr s; s_closer := s_closer s; s_outgoing := s_outgoing s; s_outNotifs := s_outNotifs s; s_incoming := s_incoming s; s_byID := s_byID s; s_queue := s_queue s; s_handlerRunning := s_handlerRunning s; s_done := s_done s; s_seq := s_seq s; s_calls := s_calls s; s_reqs := s_reqs s; s_asyncs := v; s_notifs := s_notifs s; s_reader := s_reader s; s_handler := s_handler s; s_resps := s_resps s; s_cancels := s_cancels s; s_closers := s_closers s; s_main := s_main s; s_preempter := s_preempter s; s_rwc_closes := s_rwc_closes s; s_ondones := s_ondones s; s_rwc_acked := s_rwc_acked s; s_ondone_acked := s_ondone_acked s |}.
Definition set_notifs v s := {| s_connClosing := s_connClosing s; s_reading := s_reading s; s_readErr := s_readErr s; s_writeErr := s_writeErr s; s_closer := s_closer s; s_outgoing := s_outgoing s; s_outNotifs := s_outNotifs s; s_incoming := s_incoming s; s_byID := s_byID s; s_queue := s_queue s; s_handlerRunning := s_handlerRunning s; s_done := s_done s; s_seq := s_seq s; s_calls := s_calls s; s_reqs := s_reqs s; s_asyncs := s_asyncs s; s_notifs := v; s_reader := s_reader s; s_handler := s_handler s; s_resps := s_resps s; s_cancels := s_cancels s; s_closers := s_closers s; s_main := s_main s; s_preempter := s_preempter s; s_rwc_closes := s_rwc_closes s; s_ondones := s_ondones s; s_rwc_acked := s_rwc_acked s; s_ondone_acked := s_ondone_acked s |}.
Definition set_reader v s := {| s_connClosing := s_connClosing s; s_reading := s_reading s; s_readErr := s_readErr s; s_writeErr := s_writeErr s; s_closer := s_closer s; s_outgoing := s_outgoing s; s_outNotifs := s_outNotifs s; s_incoming := s_incoming s; s_byID := s_byID s; s_queue := s_queue s; s_handlerRunning := s_handlerRunning s; s_done := s_done s; s_seq := s_seq s; s_calls := s_calls s; s_reqs := s_reqs s; s_asyncs := s_asyncs s; s_notifs := s_notifs s; s_reader := v; s_handler := s_handler s; s_resps := s_resps s; s_cancels := s_cancels s; s_closers := s_closers s; s_main := s_main s; s_preempter := s_preempter s; s_rwc_closes := s_rwc_closes s; s_ondones := s_ondones s; s_rwc_acked := s_rwc_acked s; s_ondone_acked := s_ondone_acked s |}.
Definition set_handler v s := {| s_connClosing := s_connClosing s; s_reading := s_reading s; s_readErr := s_readErr s; s_writeErr := s_writeErr s; s_closer := s_closer s; s_outgoing := s_outgoing s; s_outNotifs := s_outNotifs s; s_incoming := s_incoming s; s_byID := s_byID s; s_queue := s_queue s; s_handlerRunning := s_handlerRunning s; s_done := s_done s; s_seq := s_seq s; s_calls := s_calls s; s_reqs := s_reqs s; s_asyncs := s_asyncs s; s_notifs := s_notifs s; s_reader := s_reader s; s_handler := v; s_resps := s_resps s; s_cancels := s_cancels s; s_closers := s_closers s; s_main := s_main s; s_preempter := s_preempter s; s_rwc_closes := s_rwc_closes s; s_ondones := s_ondones s; s_rwc_acked := s_rwc_acked s; s_ondone_acked := s_ondone_acked s |}.
Definition set_resps v s := {| s_connClosing := s_connClosing s; s_reading := s_reading s; s_readErr := s_readErr s; s_writeErr := s_writeErr s; s_closer := s_closer s; s_outgoing := s_outgoing s; s_outNotifs := s_outNotifs s; s_incoming := s_incoming s; s_byID := s_byID s; s_queue := s_queue s; s_handlerRunning := s_handlerRunning s; s_done := s_done s; s_seq := s_seq s; s_calls := s_calls s; s_reqs := s_reqs s; s_asyncs := s_asyncs s; s_notifs := s_notifs s; s_reader := s_reader s; s_handler := s_handler s; s_resps := v; s_cancels := s_cancels s; s_closers := s_closers s; s_main := s_main s; s_preempter := s_preempter s; s_rwc_closes := s_rwc_closes s; s_ondones := s_ondones s; s_rwc_acked := s_rwc_acked s; s_ondone_acked := s_ondone_acked s |}.
Definition set_cancels v s := {| s_connClosing := s_connClosing s; s_reading := s_reading s; s_readErr := s_readErr s; s_writeErr := s_writeErr s; s_closer := s_closer s; s_outgoing := s_outgoing s; s_outNotifs := s_outNotifs s; s_incoming := s_incoming s; s_byID := s_byID s; s_queue := s_queue s; s_handlerRunning := s_handlerRunning s; s_done := s_done s; s_seq := s_seq s; s_calls := s_calls s; s_reqs := s_reqs s; s_asyncs := s_asyncs s; s_notifs := s_notifs s; s_reader := s_reader s; s_handler := s_handler s; s_resps := s_resps s; s_cancels := v; s_closers := s_closers s; s_main := s_main s; s_preempter := s_preempter s; s_rwc_closes := s_rwc_closes s; s_ondones := s_ondones s; s_rwc_acked := s_rwc_acked s; s_ondone_acked := s_ondone_acked s |}.
Definition set_closers v s := {| s_connClosing := s_connClosing s; s_reading := s_reading s; s_readErr := s_readErr s; s_writeErr := s_writeErr s; s_closer := s_closer s; s_outgoing := s_outgoing s; s_outNotifs := s_outNotifs s; s_incoming := s_incoming s; s_byID := s_byID s; s_queue := s_queue s; s_handlerRunning := s_handlerRunning s; s_done := s_done s; s_seq := s_seq s; s_calls := s_calls s; s_reqs := s_reqs s; s_asyncs := s_asyncs s; s_notifs := s_notifs s; s_reader := s_reader s; s_handler := s_handler s; s_resps := s_resps s; s_cancels := s_cancels s; s_closers := v; s_main := s_main s; s_preempter := s_preempter s; s_rwc_closes := s_rwc_closes s; s_ondones := s_ondones s; s_rwc_acked := s_rwc_acked s; s_ondone_acked := s_ondone_acked s |}.
Definition set_main v s := {| s_connClosing := s_connClosing s; s_reading := s_reading s; s_readErr := s_readErr s; s_writeErr := s_writeErr s; s_closer := s_closer s; s_outgoing := s_outgoing s; s_outNotifs := s_outNotifs s; s_incoming := s_incoming s; s_byID := s_byID s; s_queue := s_queue s; s_handlerRunning := s_handlerRunning s; s_done := s_done s; s_seq := s_seq s; s_calls := s_calls s; s_reqs := s_reqs s; s_asyncs := s_asyncs s; s_notifs := s_notifs s; s_reader := s_reader s; s_handler := s_handler s; s_resps := s_resps s; s_cancels := s_cancels s; s_closers := s_closers s; s_main := v; s_preempter := s_preempter s; s_rwc_closes := s_rwc_closes s; s_ondones := s_ondones s; s_rwc_acked := s_rwc_acked s; s_ondone_acked := s_ondone_acked s |}.
Definition set_rwc_closes v s := {| s_connClosing := s_connClosing s; s_reading := s_reading s; s_readErr := s_readErr s; s_writeErr := s_writeErr s; s_closer := s_closer s; s_outgoing := s_outgoing s; s_outNotifs := s_outNotifs s; s_incoming := s_incoming s; s_byID := s_byID s; s_queue := s_queue s; s_handlerRunning := s_handlerRunning s; s_done := s_done s; s_seq := s_seq s; s_calls := s_calls s; s_reqs := s_reqs s; s_asyncs := s_asyncs s; s_notifs := s_notifs s; s_reader := s_reader s; s_handler := s_handler s; s_resps := s_resps s; s_cancels := s_cancels s; s_closers := s_closers s; s_main := s_main s; s_preempter := s_preempter s; s_rwc_closes := v; s_ondones := s_ondones s; s_rwc_acked := s_rwc_acked s; s_ondone_acked := s_ondone_acked s |}.
Definition set_ondones v s := {| s_connClosing := s_connClosing s; s_reading := s_reading s; s_readErr := s_readErr s; s_writeErr := s_writeErr s; s_closer := s_closer s; s_outgoing := s_outgoing s; s_outNotifs := s_outNotifs s; s_incoming := s_incoming s; s_byID := s_byID s; s_queue := s_queue s; s_handlerRunning := s_handlerRunning s; s_done := s_done s; s_seq := s_seq s; s_calls := s_calls s; s_reqs := s_reqs s; s_asyncs := s_asyncs s; s_notifs := s_notifs s; s_reader := s_reader s; s_handler := s_handler s; s_resps := s_resps s; s_cancels := s_cancels s; s_closers := s_closers s; s_main := s_main s; s_preempter := s_preempter s; s_rwc_closes := s_rwc_closes s; s_ondones := v; s_rwc_acked := s_rwc_acked s; s_ondone_acked := s_ondone_acked s |}.
Definition set_rwc_acked v s := {| s_connClosing := s_connClosing s; s_reading := s_reading s; s_readErr := s_readErr s; s_writeErr := s_writeErr s; s_closer := s_closer s; s_outgoing := s_outgoing s; s_outNotifs := s_outNotifs s; s_incoming := s_incoming s; s_byID := s_byID s; s_queue := s_queue s; s_handlerRunning := s_handlerRunning s; s_done := s_done s; s_seq := s_seq s; s_calls := s_calls s; s_reqs := s_reqs s; s_asyncs := s_asyncs s; s_notifs := s_notifs s; s_reader := s_reader s; s_handler := s_handler s; s_resps := s_resps s; s_cancels := s_cancels s; s_closers := s_closers s; s_main := s_main s; s_preempter := s_preempter s; s_rwc_closes := s_rwc_closes s; s_ondones := s_ondones s; s_rwc_acked := v; s_ondone_acked := s_ondone_acked s |}.
Definition set_ondone_acked v s := {| s_connClosing := s_connClosing s; s_reading := s_reading s; s_readErr := s_readErr s; s_writeErr := s_writeErr s; s_closer := s_closer s; s_outgoing := s_outgoing s; s_outNotifs := s_outNotifs s; s_incoming := s_incoming s; s_byID := s_byID s; s_queue := s_queue s; s_handlerRunning := s_handlerRunning s; s_done := s_done s; s_seq := s_seq s; s_calls := s_calls s; s_reqs := s_reqs s; s_asyncs := s_asyncs s; s_notifs := s_notifs s; s_reader := s_reader s; s_handler := s_handler s; s_resps := s_resps s; s_cancels := s_cancels s; s_closers := s_closers s; s_main := s_main s; s_preempter := s_preempter s; s_rwc_closes := s_rwc_closes s; s_ondones := s_ondones s; s_rwc_acked := s_rwc_acked s; s_ondone_acked := v |}.

(* ------------------------------------------------------------------ helpers *)
Inductive panic := PRetireTwice | PNonIdleAfterDone | PIncomingZero | PNotifUnderflow.
Inductive result := Ok (s : state) | Panic (p : panic) | Disabled.

Fixpoint alookup {A} (l : list (id * A)) (i : id) : option A :=
  match l with [] => None | (k, v) :: t => if id_eqb i k then Some v else alookup t i end.
Fixpoint adelete {A} (l : list (id * A)) (i : id) : list (id * A) :=
  match l with [] => [] | (k, v) :: t => if id_eqb i k then adelete t i else (k, v) :: adelete t i end.
Fixpoint upd {A} (i : nat) (x : A) (l : list A) : list A :=
  match l, i with
  | [], _ => []
  | _ :: t, O => x :: t
  | a :: t, S i' => a :: upd i' x t
  end.
Fixpoint remove1 (r : nat) (l : list nat) : option (list nat) :=   (* remove one occurrence *)
  match l with
  | [] => None
  | x :: t => if Nat.eqb r x then Some t else match remove1 r t with Some t' => Some (x :: t') | None => None end
  end.

Definition view (s : state) : ifs_view := {|
  v_connClosing := s_connClosing s; v_reading := s_reading s; v_readErr := s_readErr s; v_writeErr := s_writeErr s;
  v_closer := s_closer s; v_closeErr := false;
  v_outgoingCalls := List.length (s_outgoing s); v_outgoingNotifications := s_outNotifs s; v_incoming := s_incoming s;
  v_incomingByID := List.length (s_byID s); v_handlerQueue := List.length (s_queue s); v_handlerRunning := s_handlerRunning s |}.
Definition idle (s : state) : bool := gen_idle (view s).                    (* inFlightState.idle, regenerated *)
Definition shutting_down (s : state) : bool := gen_shutting_down (view s).  (* shuttingDown(..) != nil, regenerated *)

(* the tail of updateInFlight after f(s) *)
Definition epi (s : state) : result :=
  if s_done s then (if idle s then Ok s else Panic PNonIdleAfterDone)
  else if idle s && shutting_down s then
    let s1 := if s_closer s then set_rwc_closes (S (s_rwc_closes s)) (set_closer false s) else s in
    if s_reading s1 then Ok s1 else Ok (set_done true (set_ondones (S (s_ondones s1)) s1))
  else Ok s.

Definition set_c_pc (p : cpc) (cr : callrec) := {| c_pc := p; c_bad := c_bad cr; c_id := c_id cr; c_resp := c_resp cr; c_reg := c_reg cr |}.
Definition set_c_id (i : id) (cr : callrec) := {| c_pc := c_pc cr; c_bad := c_bad cr; c_id := Some i; c_resp := c_resp cr; c_reg := c_reg cr |}.
Definition set_c_resp (r : response) (cr : callrec) := {| c_pc := c_pc cr; c_bad := c_bad cr; c_id := c_id cr; c_resp := Some r; c_reg := c_reg cr |}.
Definition set_c_reg (cr : callrec) := {| c_pc := c_pc cr; c_bad := c_bad cr; c_id := c_id cr; c_resp := c_resp cr; c_reg := true |}.

(* AsyncCall.retire: None = panic("retire called twice") *)
Definition retire (c : nat) (r : response) (calls : list callrec) : option (list callrec) :=
  match nth_error calls c with
  | Some cr => match c_resp cr with Some _ => None | None => Some (upd c (set_c_resp r cr) calls) end
  | None => None
  end.
(* for id, ac := range s.outgoingCalls { ac.retire(&Response{ID: id, Error: err}) } *)
Fixpoint retire_all (l : list (id * nat)) (calls : list callrec) : option (list callrec) :=
  match l with
  | [] => Some calls
  | (i, c) :: t => match retire c {| rs_id := i; rs_body := BErr e_read |} calls with
                   | Some calls' => retire_all t calls'
                   | None => None
                   end
  end.

Definition set_rq_id (o : option id) (q : reqrec) := {| rq_id := o; rq_cancelled := rq_cancelled q; rq_answers := rq_answers q |}.
Definition set_rq_cancelled (q : reqrec) := {| rq_id := rq_id q; rq_cancelled := true; rq_answers := rq_answers q |}.
Definition inc_rq_answers (q : reqrec) := {| rq_id := rq_id q; rq_cancelled := rq_cancelled q; rq_answers := S (rq_answers q) |}.
Definition cancel_req (r : nat) (reqs : list reqrec) : list reqrec :=
  match nth_error reqs r with Some q => upd r (set_rq_cancelled q) reqs | None => reqs end.
Definition cancel_all (l : list (id * nat)) (reqs : list reqrec) : list reqrec :=
  fold_left (fun rs kv => cancel_req (snd kv) rs) l reqs.

(* processResult up to its first section: a call goes through delete/write, a notification straight to the decrement *)
Definition pr_stage (q : reqrec) (o : outcome) : prs :=
  match rq_id q with Some _ => PDelete o | None => PDec end.
Definition resp_of (i : id) (o : outcome) : response :=
  {| rs_id := i; rs_body := match o with OOk t => BResult t | OErr c => BErr c | _ => BErr e_nomethod end |}.

Inductive who := WhoReader | WhoHandler | WhoResp (j : nat).        (* the three callers of processResult *)
Inductive wwho := WECall (c : nat) | WENotify (n : nat) | WEPR (t : who).   (* the callers of Connection.write *)

Definition get_pr (t : who) (s : state) : option (nat * prs) :=
  match t with
  | WhoReader => match s_reader s with RBusy r (RPR p) => Some (r, p) | _ => None end
  | WhoHandler => match s_handler s with HBusy r (HPR p) => Some (r, p) | _ => None end
  | WhoResp j => match nth_error (s_resps s) j with Some (PBusy r p) => Some (r, p) | _ => None end
  end.
Definition set_pr (t : who) (r : nat) (p : prs) (s : state) : state :=
  match t with
  | WhoReader => set_reader (RBusy r (RPR p)) s
  | WhoHandler => set_handler (HBusy r (HPR p)) s
  | WhoResp j => set_resps (upd j (PBusy r p) (s_resps s)) s
  end.
Definition finish_pr (t : who) (s : state) : state :=
  match t with
  | WhoReader => set_reader RIdle s
  | WhoHandler => set_handler HDeq s
  | WhoResp j => set_resps (upd j (PRet true) (s_resps s)) s
  end.

(* the write-error section:  if s.writeErr == nil { s.writeErr = err; for _, r := range s.incomingByID { r.cancel() } } *)
Definition write_err_body (s : state) : state :=
  if s_writeErr s then s else set_reqs (cancel_all (s_byID s) (s_reqs s)) (set_writeErr true s).

(* ------------------------------------------------------------------ labels *)
Inductive label :=
  (* API invocations *)
  | LCallBegin (bad : bool) | LNotifyBegin (bad : bool) | LRespondBegin (i : id) (o : outcome)
  | LCancelBegin (i : id) | LCloseBegin | LWaitBegin
  (* API returns and observations *)
  | LCallRet (c : nat) (i : id) | LNotifyRet (n : nat) (ok : bool) | LRespondRet (j : nat) (found : bool)
  | LCancelRet (k : nat) | LCloseRet (j : nat) | LAwait (c : nat) (r : response) | LStarted
  | LRwcClose | LOnDone
  (* Reader / Writer / Preempter / Handler *)
  | LReadMsg (m : msg) | LReadErr
  | LWriteCall (c : nat) (w : wres) | LWriteNotify (n : nat) (w : wres) | LWriteResp (t : who) (r : response) (w : wres)
  | LPreemptBegin (r : nat) | LPreemptRet (r : nat) (o : outcome) | LHandleBegin (r : nat) | LHandleRet (r : nat) (o : outcome)
  (* thread-local steps of the implementation *)
  | LCallAlloc (c : nat) | LCallRetire (c : nat) | LHCheck | LCancelFire (k : nat)
  (* the 18 updateInFlight sections *)
  | LStart | LNotifyEnd (n : nat) | LNotifyBeginSec (n : nat) | LCallRegister (c : nat) | LCallWriteFail (c : nat)
  | LRespondLookup (j : nat) | LCancelLookup (k : nat) | LWaitSec (j : nat) | LCloseSet (j : nat)
  | LReadResponse | LReadExit | LAccept | LEnqueue | LDequeue | LCancelledErr
  | LResultDelete (t : who) | LResultDec (t : who) | LWriteErrSec (w : wwho).

Definition is_section (l : label) : bool :=
  match l with
  | LStart | LNotifyEnd _ | LNotifyBeginSec _ | LCallRegister _ | LCallWriteFail _ | LRespondLookup _
  | LCancelLookup _ | LWaitSec _ | LCloseSet _ | LReadResponse | LReadExit | LAccept | LEnqueue | LDequeue
  | LCancelledErr | LResultDelete _ | LResultDec _ | LWriteErrSec _ => true
  | _ => false
  end.

(* the audited source of each section: (function, ordinal, body hash) -- must equal Gen.ConnSites.conn_sites *)
Open Scope string_scope.
Definition modelled_sites : list (string * nat * string) :=
  [("newConnection", 0, "e6230fa058de8a69");             (* LStart *)
   ("Connection.Notify", 0, "bc9ad890f266adcf");         (* LNotifyEnd (the deferred decrement) *)
   ("Connection.Notify", 1, "dbfdb45d6d36f069");         (* LNotifyBeginSec *)
   ("Connection.Call", 0, "4dfb48228e2b7059");           (* LCallRegister *)
   ("Connection.Call", 1, "1aa9a6bf9138eaa2");           (* LCallWriteFail *)
   ("Connection.Respond", 0, "81fe3c1e495584f7");        (* LRespondLookup *)
   ("Connection.Cancel", 0, "81fe3c1e495584f7");         (* LCancelLookup *)
   ("Connection.Wait", 0, "a6a475d8e8b64a52");           (* LWaitSec *)
   ("Connection.Close", 0, "55e434c342aa0cd8");          (* LCloseSet *)
   ("Connection.readIncoming", 0, "9c1d900a63f77a40");   (* LReadResponse *)
   ("Connection.readIncoming", 1, "32859f60c53d02f1");   (* LReadExit *)
   ("Connection.acceptRequest", 0, "7456c748fba7185e");  (* LAccept *)
   ("Connection.acceptRequest", 1, "a73c3f9b4aaa9156");  (* LEnqueue *)
   ("Connection.handleAsync", 0, "c479941680b88d06");    (* LDequeue *)
   ("Connection.handleAsync", 1, "89256a58658294dc");    (* LCancelledErr *)
   ("Connection.processResult", 0, "d2bfd28ad5245a69");  (* LResultDelete *)
   ("Connection.processResult", 1, "cb07596c2652dc49");  (* LResultDec *)
   ("Connection.write", 0, "3ef5a583268e3409")].         (* LWriteErrSec *)
(* the control flow around the sections was read from these function bodies *)
Definition modelled_funcs : list (string * string) :=
  [("Connection.updateInFlight", "ff72ea31b32bfc3e");
   ("inFlightState.idle", "ea679ad2c4778e18");
   ("inFlightState.shuttingDown", "2d78a090b65e8346");
   ("newConnection", "373ed08dc6742b7b");
   ("Connection.Notify", "f4fcf374223a62f9");
   ("Connection.Call", "c16374ddf190e28c");
   ("AsyncCall.retire", "b667df507cc43469");
   ("AsyncCall.Await", "1cdc7b382e99667c");
   ("Connection.Respond", "4df8df73e7437643");
   ("Connection.Cancel", "8fb2a1281d5df299");
   ("Connection.Wait", "8a2d967b936f823b");
   ("Connection.Close", "3650263e64d3c320");
   ("Connection.readIncoming", "2cecc9a0843113e6");
   ("Connection.acceptRequest", "55480dd9c5ba0e51");
   ("Connection.handleAsync", "20768f11bfcca169");
   ("Connection.processResult", "ae4ebe2678746734");
   ("Connection.write", "0326d19d89bfd25d")].
Definition modelled_ifs_fields : list string :=
  ["connClosing bool"; "reading bool"; "readErr error"; "writeErr error"; "closer io.Closer"; "closeErr error";
   "outgoingCalls map[ID]*AsyncCall"; "outgoingNotifications int"; "incoming int";
   "incomingByID map[ID]*incomingRequest"; "handlerQueue []*incomingRequest"; "handlerRunning bool"].
Definition modelled_state_access : list string := ["Connection.updateInFlight"].
Definition modelled_retire_callers : list string := ["Connection.Call"; "Connection.readIncoming"].
Definition modelled_chan_closers : list string := ["AsyncCall.retire"; "Connection.updateInFlight"].
Close Scope string_scope.

(* ------------------------------------------------------------------ transitions *)
Definition new_call (bad : bool) : callrec := {| c_pc := CNew; c_bad := bad; c_id := None; c_resp := None; c_reg := false |}.
Definition new_req (i : option id) : reqrec := {| rq_id := i; rq_cancelled := false; rq_answers := 0 |}.

Definition upd_call (c : nat) (cr : callrec) (s : state) : state := set_calls (upd c cr (s_calls s)) s.
Definition upd_notif (n : nat) (p : npc) (nr : notifrec) (s : state) : state :=
  set_notifs (upd n {| n_pc := p; n_bad := n_bad nr |} (s_notifs s)) s.

(* body of a step, before the epilogue of updateInFlight (applied by [step] to the section labels) *)
Definition body_step (s : state) (l : label) : result :=
  match l with
  (* ---- API invocations: a new thread *)
  | LCallBegin bad => Ok (set_calls (s_calls s ++ [new_call bad]) s)
  | LNotifyBegin bad => Ok (set_notifs (s_notifs s ++ [{| n_pc := NNew; n_bad := bad |}]) s)
  | LRespondBegin i o =>
      match o with ONotHandled | OAsync => Disabled | _ => Ok (set_resps (s_resps s ++ [PLookup i o]) s) end
  | LCancelBegin i => Ok (set_cancels (s_cancels s ++ [KLookup i]) s)
  | LCloseBegin => Ok (set_closers (s_closers s ++ [ClNew]) s)
  | LWaitBegin => Ok (set_closers (s_closers s ++ [ClWait]) s)
  (* ---- returns / observations *)
  | LCallRet c i =>
      match nth_error (s_calls s) c with
      | Some cr => match c_pc cr, c_id cr with
                   | CRet, Some i' => if id_eqb i i' then Ok (upd_call c (set_c_pc CReturned cr) s) else Disabled
                   | _, _ => Disabled end
      | None => Disabled end
  | LNotifyRet n ok =>
      match nth_error (s_notifs s) n with
      | Some nr => match n_pc nr with
                   | NRet ok' => if Bool.eqb ok ok' then Ok (upd_notif n NReturned nr s) else Disabled
                   | _ => Disabled end
      | None => Disabled end
  | LRespondRet j found =>
      match nth_error (s_resps s) j with
      | Some (PRet f) => if Bool.eqb f found then Ok (set_resps (upd j PReturned (s_resps s)) s) else Disabled
      | _ => Disabled end
  | LCancelRet k =>
      match nth_error (s_cancels s) k with
      | Some KRet => Ok (set_cancels (upd k KReturned (s_cancels s)) s)
      | _ => Disabled end
  | LCloseRet j =>
      match nth_error (s_closers s) j with
      | Some ClRet => Ok (set_closers (upd j ClReturned (s_closers s)) s)
      | _ => Disabled end
  | LAwait c r =>                      (* <-ac.ready; return ac.response *)
      match nth_error (s_calls s) c with
      | Some cr => match c_resp cr with
                   | Some r' => if id_eqb (rs_id r) (rs_id r') &&
                                   match rs_body r, rs_body r' with
                                   | BResult a, BResult b => N.eqb a b
                                   | BErr a, BErr b => N.eqb a b
                                   | _, _ => false end
                                then Ok s else Disabled
                   | None => Disabled end
      | None => Disabled end
  | LStarted => match s_main s with MStarted => Ok s | MBind => Disabled end
  | LRwcClose => if Nat.ltb (s_rwc_acked s) (s_rwc_closes s) then Ok (set_rwc_acked (S (s_rwc_acked s)) s) else Disabled
  | LOnDone => if Nat.ltb (s_ondone_acked s) (s_ondones s) then Ok (set_ondone_acked (S (s_ondone_acked s)) s) else Disabled
  (* ---- Reader.Read returns *)
  | LReadMsg m =>
      match s_reader s with
      | RIdle => match m with
                 | MResp r => Ok (set_reader (RResp r) s)
                 | MReq i => Ok (set_reader (RBusy (List.length (s_reqs s)) RAccept) (set_reqs (s_reqs s ++ [new_req i]) s))
                 end
      | _ => Disabled end
  | LReadErr => match s_reader s with RIdle => Ok (set_reader RErr s) | _ => Disabled end
  (* ---- Writer.Write returns *)
  | LWriteCall c w =>
      match nth_error (s_calls s) c with
      | Some cr => match c_pc cr with
                   | CWrite => Ok (upd_call c (set_c_pc (match w with WOk => CRet | WFail => CWErr | WFailCtx => CWFailed e_ctx end) cr) s)
                   | _ => Disabled end
      | None => Disabled end
  | LWriteNotify n w =>
      match nth_error (s_notifs s) n with
      | Some nr => match n_pc nr with
                   | NWrite => Ok (upd_notif n (match w with WOk => NEnd true | WFail => NWErr | WFailCtx => NEnd false end) nr s)
                   | _ => Disabled end
      | None => Disabled end
  | LWriteResp t r w =>
      match get_pr t s with
      | Some (q, PWrite r') =>
          if id_eqb (rs_id r) (rs_id r') &&
             match rs_body r, rs_body r' with
             | BResult a, BResult b => N.eqb a b
             | BErr a, BErr b => N.eqb a b
             | _, _ => false end
          then match w, nth_error (s_reqs s) q with
               | WFailCtx, _ => Disabled          (* the response is written with notDone{ctx}: never cancelled *)
               | _, None => Disabled
               | WOk, Some rq => Ok (set_pr t q PDec (set_reqs (upd q (inc_rq_answers rq) (s_reqs s)) s))
               | WFail, Some rq => Ok (set_pr t q PWErr (set_reqs (upd q (inc_rq_answers rq) (s_reqs s)) s))
               end
          else Disabled
      | _ => Disabled end
  (* ---- Preempter / Handler *)
  | LPreemptBegin r =>
      match s_reader s with
      | RBusy r' RPreempt => if Nat.eqb r r' then Ok (set_reader (RBusy r RPreempting) s) else Disabled
      | _ => Disabled end
  | LPreemptRet r o =>
      match s_reader s with
      | RBusy r' RPreempting =>
          if Nat.eqb r r' then
            match nth_error (s_reqs s) r with
            | None => Disabled
            | Some rq =>
                match o with
                | ONotHandled => Ok (set_reader (RBusy r REnqueue) s)
                | OAsync => match rq_id rq with                 (* contract: never for a notification *)
                            | Some _ => Ok (set_reader RIdle (set_asyncs (r :: s_asyncs s) s))
                            | None => Disabled end
                | _ => Ok (set_reader (RBusy r (RPR (pr_stage rq o))) s)
                end
            end
          else Disabled
      | _ => Disabled end
  | LHandleBegin r =>
      match s_handler s with
      | HBusy r' HInvoke => if Nat.eqb r r' then Ok (set_handler (HBusy r HHandling) s) else Disabled
      | _ => Disabled end
  | LHandleRet r o =>
      match s_handler s with
      | HBusy r' HHandling =>
          if Nat.eqb r r' then
            match nth_error (s_reqs s) r with
            | None => Disabled
            | Some rq =>
                match o with
                | OAsync => match rq_id rq with
                            | Some _ => Ok (set_handler HDeq (set_asyncs (r :: s_asyncs s) s))
                            | None => Disabled end
                | _ => Ok (set_handler (HBusy r (HPR (pr_stage rq o))) s)
                end
            end
          else Disabled
      | _ => Disabled end
  (* ---- thread-local implementation steps *)
  | LCallAlloc c =>                    (* id := Int64ID(atomic.AddInt64(&c.seq, 1)); NewCall(...) *)
      match nth_error (s_calls s) c with
      | Some cr => match c_pc cr with
                   | CNew => let n := (s_seq s + 1)%Z in
                             Ok (set_seq n (upd_call c (set_c_pc (if c_bad cr then CRetire e_marshal else CReg) (set_c_id (IInt n) cr)) s))
                   | _ => Disabled end
      | None => Disabled end
  | LCallRetire c =>                   (* ac.retire(&Response{ID: id, Error: err}) outside a section *)
      match nth_error (s_calls s) c with
      | Some cr => match c_pc cr, c_id cr with
                   | CRetire e, Some i =>
                       match retire c {| rs_id := i; rs_body := BErr e |} (s_calls s) with
                       | Some calls' => Ok (set_calls (upd c (set_c_pc CRet (set_c_resp {| rs_id := i; rs_body := BErr e |} cr)) calls') s)
                       | None => Panic PRetireTwice end
                   | _, _ => Disabled end
      | None => Disabled end
  | LHCheck =>                         (* if err := req.ctx.Err(); err != nil *)
      match s_handler s with
      | HBusy r HCheck => match nth_error (s_reqs s) r with
                          | Some rq => Ok (set_handler (HBusy r (if rq_cancelled rq then HCancelled else HInvoke)) s)
                          | None => Disabled end
      | _ => Disabled end
  | LCancelFire k =>                   (* req.cancel() *)
      match nth_error (s_cancels s) k with
      | Some (KFire r) => Ok (set_cancels (upd k KRet (s_cancels s)) (set_reqs (cancel_req r (s_reqs s)) s))
      | _ => Disabled end
  (* ---- the sections *)
  | LStart =>                          (* newConnection *)
      match s_main s with
      | MBind => if s_done s then Ok (set_main MStarted s)
                 else Ok (set_main MStarted (set_reader RIdle (set_reading true s)))
      | MStarted => Disabled end
  | LNotifyEnd n =>                    (* s.outgoingNotifications-- *)
      match nth_error (s_notifs s) n with
      | Some nr => match n_pc nr with
                   | NEnd ok => match s_outNotifs s with
                                | O => Panic PNotifUnderflow
                                | S k => Ok (upd_notif n (NRet ok) nr (set_outNotifs k s)) end
                   | _ => Disabled end
      | None => Disabled end
  | LNotifyBeginSec n =>
      match nth_error (s_notifs s) n with
      | Some nr => match n_pc nr with
                   | NNew => if match s_outgoing s, s_byID s with [], [] => shutting_down s | _, _ => false end
                             then Ok (upd_notif n (NRet false) nr s)
                             else Ok (upd_notif n (if n_bad nr then NEnd false else NWrite) nr (set_outNotifs (S (s_outNotifs s)) s))
                   | _ => Disabled end
      | None => Disabled end
  | LCallRegister c =>
      match nth_error (s_calls s) c with
      | Some cr => match c_pc cr, c_id cr with
                   | CReg, Some i =>
                       if shutting_down s then Ok (upd_call c (set_c_pc (CRetire e_closing) cr) s)
                       else Ok (set_outgoing ((i, c) :: adelete (s_outgoing s) i) (upd_call c (set_c_pc CWrite (set_c_reg cr)) s))
                   | _, _ => Disabled end
      | None => Disabled end
  | LCallWriteFail c =>                (* if s.outgoingCalls[ac.id] == ac { delete; ac.retire(err) } *)
      match nth_error (s_calls s) c with
      | Some cr => match c_pc cr, c_id cr with
                   | CWFailed e, Some i =>
                       match alookup (s_outgoing s) i with
                       | Some c' =>
                           if Nat.eqb c' c then
                             match retire c {| rs_id := i; rs_body := BErr e |} (s_calls s) with
                             | Some calls' =>
                                 Ok (set_outgoing (adelete (s_outgoing s) i)
                                      (set_calls (upd c (set_c_pc CRet (set_c_resp {| rs_id := i; rs_body := BErr e |} cr)) calls') s))
                             | None => Panic PRetireTwice end
                           else Ok (upd_call c (set_c_pc CRet cr) s)
                       | None => Ok (upd_call c (set_c_pc CRet cr) s)
                       end
                   | _, _ => Disabled end
      | None => Disabled end
  | LRespondLookup j =>                (* req = s.incomingByID[id] *)
      match nth_error (s_resps s) j with
      | Some (PLookup i o) =>
          match alookup (s_byID s) i with
          | None => Ok (set_resps (upd j (PRet false) (s_resps s)) s)
          | Some r =>
              match remove1 r (s_asyncs s), nth_error (s_reqs s) r with   (* contract: only for a pending ErrAsyncResponse *)
              | Some asyncs', Some rq => Ok (set_asyncs asyncs' (set_resps (upd j (PBusy r (pr_stage rq o)) (s_resps s)) s))
              | _, _ => Disabled end
          end
      | _ => Disabled end
  | LCancelLookup k =>
      match nth_error (s_cancels s) k with
      | Some (KLookup i) =>
          Ok (set_cancels (upd k (match alookup (s_byID s) i with Some r => KFire r | None => KRet end) (s_cancels s)) s)
      | _ => Disabled end
  | LWaitSec j =>                      (* <-c.done; updateInFlight{err = s.closeErr} *)
      match nth_error (s_closers s) j with
      | Some ClWait => if s_done s then Ok (set_closers (upd j ClRet (s_closers s)) s) else Disabled
      | _ => Disabled end
  | LCloseSet j =>                     (* s.connClosing = true *)
      match nth_error (s_closers s) j with
      | Some ClNew => Ok (set_closers (upd j ClWait (s_closers s)) (set_connClosing true s))
      | _ => Disabled end
  | LReadResponse =>
      match s_reader s with
      | RResp r =>
          match alookup (s_outgoing s) (rs_id r) with
          | Some c => match retire c r (s_calls s) with
                      | Some calls' => Ok (set_reader RIdle (set_outgoing (adelete (s_outgoing s) (rs_id r)) (set_calls calls' s)))
                      | None => Panic PRetireTwice end
          | None => Ok (set_reader RIdle s)
          end
      | _ => Disabled end
  | LReadExit =>
      match s_reader s with
      | RErr => match retire_all (s_outgoing s) (s_calls s) with
                | Some calls' => Ok (set_reader RExited (set_outgoing [] (set_calls calls' (set_readErr true (set_reading false s)))))
                | None => Panic PRetireTwice end
      | _ => Disabled end
  | LAccept =>
      match s_reader s with
      | RBusy r RAccept =>
          match nth_error (s_reqs s) r with
          | None => Disabled
          | Some rq =>
              let s1 := set_incoming (S (s_incoming s)) s in
              let next := if s_preempter s then RPreempt else REnqueue in
              match rq_id rq with
              | None => Ok (set_reader (RBusy r next) s1)
              | Some i =>
                  match alookup (s_byID s) i with
                  | Some _ =>            (* ID already in use: req.ID = ID{} and processResult as a notification *)
                      Ok (set_reader (RBusy r (RPR PDec)) (set_reqs (upd r (set_rq_id None rq) (s_reqs s)) s1))
                  | None =>
                      let s2 := set_byID ((i, r) :: s_byID s) s1 in
                      if shutting_down s then Ok (set_reader (RBusy r (RPR (PDelete (OErr e_srvclosing)))) s2)
                      else Ok (set_reader (RBusy r next) s2)
                  end
              end
          end
      | _ => Disabled end
  | LEnqueue =>
      match s_reader s with
      | RBusy r REnqueue =>
          match nth_error (s_reqs s) r with
          | None => Disabled
          | Some rq =>
              if shutting_down s then Ok (set_reader (RBusy r (RPR (pr_stage rq (OErr e_srvclosing)))) s)
              else
                let s1 := set_reader RIdle (set_queue (s_queue s ++ [r]) s) in
                if s_handlerRunning s then Ok s1 else Ok (set_handler HDeq (set_handlerRunning true s1))
          end
      | _ => Disabled end
  | LDequeue =>
      match s_handler s with
      | HDeq => match s_queue s with
                | r :: q => Ok (set_handler (HBusy r HCheck) (set_queue q s))
                | [] => Ok (set_handler HNone (set_handlerRunning false s))
                end
      | _ => Disabled end
  | LCancelledErr =>                   (* if s.writeErr != nil { err = ErrServerClosing: writeErr } *)
      match s_handler s with
      | HBusy r HCancelled =>
          match nth_error (s_reqs s) r with
          | Some rq => Ok (set_handler (HBusy r (HPR (pr_stage rq (OErr (if s_writeErr s then e_srvclosing else e_ctx))))) s)
          | None => Disabled end
      | _ => Disabled end
  | LResultDelete t =>                 (* delete(s.incomingByID, req.ID) *)
      match get_pr t s with
      | Some (r, PDelete o) =>
          match nth_error (s_reqs s) r with
          | Some rq => match rq_id rq with
                       | Some i => Ok (set_pr t r (match o with OBad => PDec | _ => PWrite (resp_of i o) end)
                                              (set_byID (adelete (s_byID s) i) s))
                       | None => Disabled end
          | None => Disabled end
      | _ => Disabled end
  | LResultDec t =>                    (* if s.incoming == 0 { panic }; s.incoming-- *)
      match get_pr t s with
      | Some (r, PDec) =>
          match s_incoming s with
          | O => Panic PIncomingZero
          | S k => Ok (finish_pr t (set_reqs (cancel_req r (s_reqs s)) (set_incoming k s)))
          end
      | _ => Disabled end
  | LWriteErrSec w =>
      match w with
      | WECall c =>
          match nth_error (s_calls s) c with
          | Some cr => match c_pc cr with
                       | CWErr => Ok (upd_call c (set_c_pc (CWFailed e_write) cr) (write_err_body s))
                       | _ => Disabled end
          | None => Disabled end
      | WENotify n =>
          match nth_error (s_notifs s) n with
          | Some nr => match n_pc nr with
                       | NWErr => Ok (upd_notif n (NEnd false) nr (write_err_body s))
                       | _ => Disabled end
          | None => Disabled end
      | WEPR t =>
          match get_pr t s with
          | Some (r, PWErr) => Ok (set_pr t r PDec (write_err_body s))
          | _ => Disabled end
      end
  end.

Definition step (s : state) (l : label) : result :=
  match body_step s l with
  | Ok s1 => if is_section l then epi s1 else Ok s1
  | r => r
  end.

Fixpoint run (s : state) (ls : list label) : result :=
  match ls with
  | [] => Ok s
  | l :: t => match step s l with Ok s' => run s' t | r => r end
  end.

(* ------------------------------------------------------------------ label classes and the progress measure *)
(* arrival: the environment starts something new (an API invocation, a message from the peer);
   ack: a pure observation (no implementation progress);  everything else is progress:
   an implementation step or the completion of something the implementation waits for. *)
Definition is_arrival (l : label) : bool :=
  match l with
  | LCallBegin _ | LNotifyBegin _ | LRespondBegin _ _ | LCancelBegin _ | LCloseBegin | LWaitBegin
  | LReadMsg _ => true
  | _ => false end.
Definition is_ack (l : label) : bool :=
  match l with LAwait _ _ | LStarted | LRwcClose | LOnDone => true | _ => false end.
Definition is_progress (l : label) : bool := negb (is_arrival l) && negb (is_ack l).

Definition w_prs (p : prs) : nat := match p with PDec => 1 | PWErr => 2 | PWrite _ => 3 | PDelete _ => 4 end.
Definition w_cpc (p : cpc) : nat :=
  match p with CReturned => 0 | CRet => 1 | CRetire _ => 2 | CWFailed _ => 2 | CWErr => 3 | CWrite => 4 | CReg => 5 | CNew => 6 end.
Definition w_npc (p : npc) : nat :=
  match p with NReturned => 0 | NRet _ => 1 | NEnd _ => 2 | NWErr => 3 | NWrite => 4 | NNew => 5 end.
Definition w_rpc (p : rpc) : nat :=
  match p with
  | RNone | RExited => 0 | RErr => 1 | RIdle => 2 | RResp _ => 3
  | RBusy _ sub => match sub with RPR p => 2 + w_prs p | REnqueue => 14 | RPreempting => 15 | RPreempt => 16 | RAccept => 17 end
  end.
Definition w_hpc (p : hpc) : nat :=
  match p with
  | HNone => 0 | HDeq => 1
  | HBusy _ sub => match sub with HPR p => 1 + w_prs p | HHandling => 6 | HInvoke => 7 | HCancelled => 6 | HCheck => 8 end
  end.
Definition w_queue_item : nat := 9.
Definition w_ppc (p : ppc) : nat :=
  match p with PReturned => 0 | PRet _ => 1 | PBusy _ p => 1 + w_prs p | PLookup _ _ => 7 end.
Definition w_kpc (p : kpc) : nat := match p with KReturned => 0 | KRet => 1 | KFire _ => 2 | KLookup _ => 3 end.
Definition w_clpc (p : clpc) : nat := match p with ClReturned => 0 | ClRet => 1 | ClWait => 2 | ClNew => 3 end.
Definition w_mpc (p : mpc) : nat := match p with MStarted => 0 | MBind => 4 end.
Definition sum (l : list nat) : nat := fold_right Nat.add 0 l.

Definition measure (s : state) : nat :=
  sum (map (fun cr => w_cpc (c_pc cr)) (s_calls s)) + sum (map (fun nr => w_npc (n_pc nr)) (s_notifs s))
  + w_rpc (s_reader s) + w_hpc (s_handler s) + w_queue_item * List.length (s_queue s) + List.length (s_asyncs s)
  + sum (map w_ppc (s_resps s)) + sum (map w_kpc (s_cancels s)) + sum (map w_clpc (s_closers s)) + w_mpc (s_main s).

(* every thread has returned and every observable has been observed *)
Definition quiescent (s : state) : bool :=
  forallb (fun cr => match c_pc cr with CReturned => true | _ => false end) (s_calls s)
  && forallb (fun nr => match n_pc nr with NReturned => true | _ => false end) (s_notifs s)
  && match s_reader s with RNone | RExited => true | _ => false end
  && match s_handler s with HNone => true | _ => false end
  && forallb (fun p => match p with PReturned => true | _ => false end) (s_resps s)
  && forallb (fun p => match p with KReturned => true | _ => false end) (s_cancels s)
  && forallb (fun p => match p with ClReturned => true | _ => false end) (s_closers s)
  && match s_main s with MStarted => true | _ => false end
  && Nat.eqb (s_rwc_acked s) (s_rwc_closes s) && Nat.eqb (s_ondone_acked s) (s_ondones s).

(* ------------------------------------------------------------------ for the history acceptor *)
(* all labels that are not logged by the harness (implementation steps), instantiated for the threads of s *)
Definition tau_labels (s : state) : list label :=
  let cs := seq 0 (List.length (s_calls s)) in
  let ns := seq 0 (List.length (s_notifs s)) in
  let js := seq 0 (List.length (s_resps s)) in
  let ks := seq 0 (List.length (s_cancels s)) in
  let xs := seq 0 (List.length (s_closers s)) in
  [LHCheck; LStart; LReadResponse; LReadExit; LAccept; LEnqueue; LDequeue; LCancelledErr;
   LResultDelete WhoReader; LResultDelete WhoHandler; LResultDec WhoReader; LResultDec WhoHandler;
   LWriteErrSec (WEPR WhoReader); LWriteErrSec (WEPR WhoHandler)]
  ++ flat_map (fun c => [LCallAlloc c; LCallRetire c; LCallRegister c; LCallWriteFail c; LWriteErrSec (WECall c)]) cs
  ++ flat_map (fun n => [LNotifyEnd n; LNotifyBeginSec n; LWriteErrSec (WENotify n)]) ns
  ++ flat_map (fun j => [LRespondLookup j; LResultDelete (WhoResp j); LResultDec (WhoResp j); LWriteErrSec (WEPR (WhoResp j))]) js
  ++ flat_map (fun k => [LCancelLookup k; LCancelFire k]) ks
  ++ flat_map (fun j => [LWaitSec j; LCloseSet j]) xs.
(* the threads that may be the writer of an observed response *)
Definition resp_writers (s : state) : list who :=
  WhoReader :: WhoHandler :: map WhoResp (seq 0 (List.length (s_resps s))).
