(* C21 — the printer's comment merge (printer/printer.go: print, flush, intersperseComments,
   commentBefore, nextComment, and the final flush of Config.fprint).  No proofs here.

   The printer walks the tree and emits a sequence of print items; every non-whitespace item is
   preceded by flush(next, tok), which writes the pending comment groups that lie before the
   item's source offset.  Comment groups are consumed strictly in list order (p.cindex only grows);
   at the end fprint sets impliedSemi = false and flushes with offset = infinity. *)
From Coq Require Import List ZArith Bool.
Import ListNotations.
From V Require Import Base.Prelude Gen.PrinterMerge.
Open Scope Z_scope.

(* a comment group of File.Comments: offset of its first comment, whether it contains a newline
   (commentsHaveNewline), the texts of its comments *)
Record group := { g_off : Z; g_nl : bool; g_texts : list str }.

(* what the tree walk hands to printer.print *)
Inductive item :=
| ITok (off : Z) (text : str) (semi : bool)   (* a token / identifier / literal at source offset off;
                                                 semi = value of impliedSemi after it *)
| IWs (nl : bool).                            (* whitespace; newline / formfeed reset impliedSemi *)

Inductive out := OTok (text : str) | OCom (text : str).

(* commentBefore(next), translated from the source by the generator *)
Definition before (g : group) (next : Z) (implied : bool) : bool :=
  pm_commentBefore (g_off g) next implied (g_nl g).

(* intersperseComments: for p.commentBefore(next) { write the group; p.nextComment() } *)
Fixpoint flush (gs : list group) (next : Z) (implied : bool) : list out * list group :=
  match gs with
  | g :: rest =>
      if before g next implied then
        let '(o, rest') := flush rest next implied in (map OCom (g_texts g) ++ o, rest')
      else ([], gs)
  | [] => ([], [])
  end.

(* printer.print over the item list, then the final flush of fprint *)
Fixpoint run (items : list item) (gs : list group) (implied : bool) : list out :=
  match items with
  | ITok off text semi :: rest =>
      let '(o, gs') := flush gs off implied in
      o ++ OTok text :: run rest gs' semi
  | IWs nl :: rest => run rest gs (if nl then false else implied)
  | [] => fst (flush gs pm_infinity false)          (* p.impliedSemi = false; p.flush({Offset: infinity}, EOF) *)
  end.

Definition print_all (items : list item) (gs : list group) : list out := run items gs false.

Definition comments_of (o : list out) : list str :=
  flat_map (fun x => match x with OCom t => [t] | OTok _ => [] end) o.
Definition tokens_of (o : list out) : list str :=
  flat_map (fun x => match x with OTok t => [t] | OCom _ => [] end) o.
Definition item_tokens (items : list item) : list str :=
  flat_map (fun x => match x with ITok _ t _ => [t] | IWs _ => [] end) items.

(* offsets of a well-formed comment list are real source offsets *)
Definition group_ok (g : group) : bool := (0 <=? g_off g) && (g_off g <? pm_infinity).
