(* Model of normal .gox class files.
   Part A (type view): the class branch of parser.parseValueSpec (what one line of the first top-level var
   block becomes), cl/compile.go preloadGopFile's typInit loop (struct fields with redeclaration check) and
   preloadFile's treatment of the functions of a class file (receiver `this *Class`, static methods,
   functions that already have a receiver).
   Part B (behaviour): a small language of class-file method bodies, its desugaring to the explicit form
   (bare field / method names become this.f / this.m(..) unless a parameter or local is in scope:
   cl/expr.go compileIdent: local object, then class member, then global) and an evaluator of my own
   parameterised by the form.  No proofs here. *)
From Coq Require Import List NArith ZArith Bool.
Import ListNotations.
From V Require Import Base.Prelude.
Open Scope Z_scope.

(* ------------------------------------------------------------------ Part A *)

(* one line of the class var block, as the tokens come (parseValueSpec, inClassFile branch) *)
Inductive spec :=
| SpStarSel (pkg t : str) (tag : option str)                      (* *pkg.T *)
| SpSel (pkg t : str) (tag : option str)                          (* pkg.T  *)
| SpStar (t : str) (tag : option str)                             (* *T     *)
| SpIdents (ids : list str) (typ : option str) (tag : option str). (* a, b T   |   T *)

Inductive texpr := TId (s : str) | TSel (p s : str) | TStar (t : texpr) | TText (s : str).

(* the ValueSpec the parser builds *)
Record vspec := mkvspec { vnames : list str ; vtype : texpr ; vtag : option str }.

Definition parse_spec (sp : spec) : vspec :=
  match sp with
  | SpStarSel p t tag => mkvspec [] (TStar (TSel p t)) tag
  | SpSel p t tag => mkvspec [] (TSel p t) tag
  | SpStar t tag => mkvspec [] (TStar (TId t)) tag
  | SpIdents ids typ tag =>
      match ids, typ with
      | [x], None => mkvspec [] (TId x) tag           (* if len(idents) == 1 && typ == nil { typ = ident; idents = nil } *)
      | _, Some ty => mkvspec ids (TText ty) tag
      | _, None => mkvspec ids (TText []) tag         (* "missing variable type": a syntax error in the parser *)
      end
  end.

(* cl: parseTypeEmbedName *)
Fixpoint embed_name (t : texpr) : str :=
  match t with TId s => s | TSel _ s => s | TStar x => embed_name x | TText s => s end.

Record field := mkfield { fname : str ; ftype : texpr ; fembedded : bool ; ftag : option str }.

Fixpoint mem_str (x : str) (l : list str) : bool :=
  match l with [] => false | y :: t => str_eqb x y || mem_str x t end.

(* typInit for a normal class file: for each spec, for each name: chkRedecl, then types.NewField.
   `seen` = names already declared (checkRedecl.names); a redeclared name is reported and SKIPPED *)
Fixpoint fields_of_names (ns : list str) (ty : texpr) (tag : option str) (seen : list str) : list field * list str :=
  match ns with
  | [] => ([], seen)
  | n :: t =>
      if mem_str n seen then fields_of_names t ty tag seen
      else let '(fs, seen') := fields_of_names t ty tag (n :: seen) in (mkfield n ty false tag :: fs, seen')
  end.

Fixpoint class_fields_from (vs : list vspec) (seen : list str) : list field :=
  match vs with
  | [] => []
  | v :: t =>
      match vnames v with
      | [] =>
          let n := embed_name (vtype v) in
          if mem_str n seen then class_fields_from t seen
          else mkfield n (vtype v) true (vtag v) :: class_fields_from t (n :: seen)
      | ns =>
          let '(fs, seen') := fields_of_names ns (vtype v) (vtag v) seen in
          fs ++ class_fields_from t seen'
      end
  end.

Definition class_fields (specs : list spec) : list field := class_fields_from (map parse_spec specs) [].

(* the functions of a class file *)
Inductive fkind :=
| FPlain                      (* func name(...)            -> method, receiver this *Class *)
| FStatic                     (* func .name(...)           -> package function Gops_Class_name *)
| FRecv (r : str).            (* func (x *Other) name(...) -> unchanged *)

Record gofunc := mkgofunc { gname : str ; grecv : option (str * str * bool) (* name, type, pointer *) }.

Definition uscore : N := 95.
Definition has_us (s : str) : bool := existsb (N.eqb uscore) s.
Definition this_ : str := [116;104;105;115]%N.      (* "this" *)
Definition gops : str := [71;111;112;115]%N.        (* "Gops" *)

(* cl/compile.go staticMethod *)
Definition static_name (tname name : str) : str :=
  let sep := if has_us name || has_us tname then [uscore; uscore] else [uscore] in
  gops ++ sep ++ tname ++ sep ++ name.

Definition class_func (cls : str) (name : str) (k : fkind) : gofunc :=
  match k with
  | FPlain => mkgofunc name (Some (this_, cls, true))
  | FStatic => mkgofunc (static_name cls name) None
  | FRecv r => mkgofunc name (Some ([], r, true))
  end.

Definition class_funcs (cls : str) (fs : list (str * fkind)) : list gofunc :=
  map (fun '(n, k) => class_func cls n k) fs.

(* ------------------------------------------------------------------ Part B *)

Inductive expr :=
| EInt (z : Z)
| EId (x : str)                      (* bare identifier *)
| EThis (f : str)                    (* this.f *)
| EAdd (a b : expr)
| EMul (a b : expr)
| ELt (a b : expr)                   (* 1 / 0 *)
| ECall (m : str) (a : expr)         (* m(a) *)
| EThisCall (m : str) (a : expr).    (* this.m(a) *)

Inductive stmt :=
| SAssign (x : str) (e : expr)       (* x = e *)
| SThisAssign (f : str) (e : expr)   (* this.f = e *)
| SDefine (x : str) (e : expr)       (* x := e *)
| SPrint (e : expr)                  (* echo "P", e *)
| SExpr (e : expr)
| SIf (c : expr) (t f : stmts)       (* if c != 0 {t} else {f} *)
| SReturn (e : expr)
with stmts := SNil | SCons (s : stmt) (r : stmts).

Record method := mkmethod { mname : str ; mparam : str ; mbody : stmts }.
Record class := mkclass { cfields : list str ; cmethods : list method }.

Inductive form := ClassForm | ExplicitForm.

(* ---- desugaring: what cl does with a bare name inside a class file.  scope = parameters and locals in scope *)
Section Desugar.
Variable fields : list str.
Variable meths : list str.

Fixpoint desugar_expr (scope : list str) (e : expr) : expr :=
  match e with
  | EInt z => EInt z
  | EId x => if mem_str x scope then EId x else if mem_str x fields then EThis x else EId x
  | EThis f => EThis f
  | EAdd a b => EAdd (desugar_expr scope a) (desugar_expr scope b)
  | EMul a b => EMul (desugar_expr scope a) (desugar_expr scope b)
  | ELt a b => ELt (desugar_expr scope a) (desugar_expr scope b)
  | ECall m a => if mem_str m scope then ECall m (desugar_expr scope a)
                 else if mem_str m meths then EThisCall m (desugar_expr scope a) else ECall m (desugar_expr scope a)
  | EThisCall m a => EThisCall m (desugar_expr scope a)
  end.

Fixpoint desugar_stmt (scope : list str) (s : stmt) : stmt * list str :=
  match s with
  | SAssign x e =>
      (if mem_str x scope then SAssign x (desugar_expr scope e)
       else if mem_str x fields then SThisAssign x (desugar_expr scope e) else SAssign x (desugar_expr scope e), scope)
  | SThisAssign f e => (SThisAssign f (desugar_expr scope e), scope)
  | SDefine x e => (SDefine x (desugar_expr scope e), x :: scope)
  | SPrint e => (SPrint (desugar_expr scope e), scope)
  | SExpr e => (SExpr (desugar_expr scope e), scope)
  | SIf c t f => (SIf (desugar_expr scope c) (desugar_stmts scope t) (desugar_stmts scope f), scope)
  | SReturn e => (SReturn (desugar_expr scope e), scope)
  end
with desugar_stmts (scope : list str) (b : stmts) : stmts :=
  match b with
  | SNil => SNil
  | SCons s r => let '(s', scope') := desugar_stmt scope s in SCons s' (desugar_stmts scope' r)
  end.
End Desugar.

Definition desugar_method (c : class) (m : method) : method :=
  mkmethod (mname m) (mparam m) (desugar_stmts (cfields c) (map mname (cmethods c)) [mparam m] (mbody m)).
Definition desugar_class (c : class) : class :=
  mkclass (cfields c) (map (desugar_method c) (cmethods c)).

(* ---- evaluator ---- *)
Definition store := list (str * Z).
Fixpoint sget (x : str) (s : store) : option Z :=
  match s with [] => None | (y, v) :: t => if str_eqb x y then Some v else sget x t end.
Fixpoint sset (x : str) (v : Z) (s : store) : store :=
  match s with
  | [] => [(x, v)]
  | (y, w) :: t => if str_eqb x y then (y, v) :: t else (y, w) :: sset x v t
  end.
Definition sval (x : str) (s : store) : Z := match sget x s with Some v => v | None => 0 end.

Record mstate := mkms { sfields : store ; sglobals : store ; strace : list Z }.

Inductive outcome (A : Type) := Val (a : A) | Undefined | Fuel.
Arguments Val {A} a. Arguments Undefined {A}. Arguments Fuel {A}.

Fixpoint find_method (ms : list method) (m : str) : option method :=
  match ms with [] => None | x :: t => if str_eqb m (mname x) then Some x else find_method t m end.

(* result of a statement list: the environment, the state, and Some v if a return was executed *)
Definition sres := (store * mstate * option Z)%type.

Section Eval.
Variable fm : form.
Variable cls : class.

Definition is_field (x : str) : bool := mem_str x (cfields cls).

Fixpoint eval_expr (fuel : nat) (scope : list str) (env : store) (st : mstate) (e : expr) {struct fuel}
  : outcome (Z * mstate) :=
  match fuel with O => Fuel | S f =>
  match e with
  | EInt z => Val (z, st)
  | EId x =>
      if mem_str x scope then Val (sval x env, st)
      else match fm with
           | ClassForm => if is_field x then Val (sval x (sfields st), st) else Val (sval x (sglobals st), st)
           | ExplicitForm => Val (sval x (sglobals st), st)
           end
  | EThis x => Val (sval x (sfields st), st)
  | EAdd a b =>
      match eval_expr f scope env st a with
      | Val (x, st1) => match eval_expr f scope env st1 b with Val (y, st2) => Val (x + y, st2) | o => o end
      | o => o end
  | EMul a b =>
      match eval_expr f scope env st a with
      | Val (x, st1) => match eval_expr f scope env st1 b with Val (y, st2) => Val (x * y, st2) | o => o end
      | o => o end
  | ELt a b =>
      match eval_expr f scope env st a with
      | Val (x, st1) => match eval_expr f scope env st1 b with
                        | Val (y, st2) => Val ((if x <? y then 1 else 0), st2) | o => o end
      | o => o end
  | ECall m a =>
      match eval_expr f scope env st a with
      | Val (v, st1) =>
          if mem_str m scope then Undefined            (* a local is not callable here *)
          else match fm with
               | ClassForm =>                          (* class member first, then package level *)
                   if mem_str m (map mname (cmethods cls)) then call_method f m v st1 else Undefined
               | ExplicitForm => Undefined             (* a package-level function: none is modelled *)
               end
      | o => o end
  | EThisCall m a =>
      match eval_expr f scope env st a with
      | Val (v, st1) => call_method f m v st1
      | o => o end
  end end

with call_method (fuel : nat) (m : str) (v : Z) (st : mstate) {struct fuel} : outcome (Z * mstate) :=
  match fuel with O => Fuel | S f =>
  match find_method (cmethods cls) m with
  | None => Undefined
  | Some md =>
      match eval_stmts f [mparam md] [(mparam md, v)] st (mbody md) with
      | Val (_, st1, Some r) => Val (r, st1)
      | Val (_, st1, None) => Val (0, st1)
      | Undefined => Undefined
      | Fuel => Fuel
      end
  end end

with eval_stmts (fuel : nat) (scope : list str) (env : store) (st : mstate) (b : stmts) {struct fuel}
  : outcome sres :=
  match fuel with O => Fuel | S f =>
  match b with
  | SNil => Val (env, st, None)
  | SCons s r =>
    match s with
    | SAssign x e =>
        match eval_expr f scope env st e with
        | Val (v, st1) =>
            if mem_str x scope then eval_stmts f scope (sset x v env) st1 r
            else match fm with
                 | ClassForm =>
                     if is_field x then eval_stmts f scope env (mkms (sset x v (sfields st1)) (sglobals st1) (strace st1)) r
                     else eval_stmts f scope env (mkms (sfields st1) (sset x v (sglobals st1)) (strace st1)) r
                 | ExplicitForm => eval_stmts f scope env (mkms (sfields st1) (sset x v (sglobals st1)) (strace st1)) r
                 end
        | Undefined => Undefined | Fuel => Fuel end
    | SThisAssign x e =>
        match eval_expr f scope env st e with
        | Val (v, st1) => eval_stmts f scope env (mkms (sset x v (sfields st1)) (sglobals st1) (strace st1)) r
        | Undefined => Undefined | Fuel => Fuel end
    | SDefine x e =>
        match eval_expr f scope env st e with
        | Val (v, st1) => eval_stmts f (x :: scope) ((x, v) :: env) st1 r
        | Undefined => Undefined | Fuel => Fuel end
    | SPrint e =>
        match eval_expr f scope env st e with
        | Val (v, st1) => eval_stmts f scope env (mkms (sfields st1) (sglobals st1) (strace st1 ++ [v])) r
        | Undefined => Undefined | Fuel => Fuel end
    | SExpr e =>
        match eval_expr f scope env st e with
        | Val (_, st1) => eval_stmts f scope env st1 r
        | Undefined => Undefined | Fuel => Fuel end
    | SIf c t e =>
        match eval_expr f scope env st c with
        | Val (v, st1) =>
            match eval_stmts f scope env st1 (if Z.eqb v 0 then e else t) with
            | Val (env1, st2, Some rv) => Val (env1, st2, Some rv)
            | Val (env1, st2, None) =>
                (* the block's own locals go out of scope: keep the outer bindings (possibly updated) *)
                eval_stmts f scope (skipn (length env1 - length env) env1) st2 r
            | Undefined => Undefined | Fuel => Fuel
            end
        | Undefined => Undefined | Fuel => Fuel end
    | SReturn e =>
        match eval_expr f scope env st e with
        | Val (v, st1) => Val (env, st1, Some v)
        | Undefined => Undefined | Fuel => Fuel end
    end
  end end.

(* a scenario: calls c.m(v) on one object, in order; the observable is the list of results, the trace of
   printed values and the final fields *)
Fixpoint run_calls (fuel : nat) (calls : list (str * Z)) (st : mstate) (acc : list Z) : outcome (list Z * mstate) :=
  match calls with
  | [] => Val (rev acc, st)
  | (m, v) :: t =>
      match call_method fuel m v st with
      | Val (r, st1) => run_calls fuel t st1 (r :: acc)
      | Undefined => Undefined
      | Fuel => Fuel
      end
  end.

End Eval.

Definition init_state (c : class) (globals : list str) : mstate :=
  mkms (map (fun f => (f, 0)) (cfields c)) (map (fun g => (g, 0)) globals) [].

Definition run_class (fuel : nat) (c : class) (globals : list str) (calls : list (str * Z)) :=
  run_calls ClassForm c fuel calls (init_state c globals) [].
Definition run_explicit (fuel : nat) (c : class) (globals : list str) (calls : list (str * Z)) :=
  run_calls ExplicitForm (desugar_class c) fuel calls (init_state c globals) [].

(* ---- the same class-form semantics written the usual way: a bare name is a local iff the ENVIRONMENT binds it
   (no static scope is threaded).  Proofs/C11.v shows it coincides with eval_* ClassForm. ---- *)
Definition bound (x : str) (env : store) : bool := match sget x env with Some _ => true | None => false end.

Section EvalDyn.
Variable cls : class.

Fixpoint dyn_expr (fuel : nat) (env : store) (st : mstate) (e : expr) {struct fuel} : outcome (Z * mstate) :=
  match fuel with O => Fuel | S f =>
  match e with
  | EInt z => Val (z, st)
  | EId x =>
      if bound x env then Val (sval x env, st)
      else if is_field cls x then Val (sval x (sfields st), st) else Val (sval x (sglobals st), st)
  | EThis x => Val (sval x (sfields st), st)
  | EAdd a b =>
      match dyn_expr f env st a with
      | Val (x, st1) => match dyn_expr f env st1 b with Val (y, st2) => Val (x + y, st2) | o => o end
      | o => o end
  | EMul a b =>
      match dyn_expr f env st a with
      | Val (x, st1) => match dyn_expr f env st1 b with Val (y, st2) => Val (x * y, st2) | o => o end
      | o => o end
  | ELt a b =>
      match dyn_expr f env st a with
      | Val (x, st1) => match dyn_expr f env st1 b with
                        | Val (y, st2) => Val ((if x <? y then 1 else 0), st2) | o => o end
      | o => o end
  | ECall m a =>
      match dyn_expr f env st a with
      | Val (v, st1) =>
          if bound m env then Undefined
          else if mem_str m (map mname (cmethods cls)) then dyn_call f m v st1 else Undefined
      | o => o end
  | EThisCall m a =>
      match dyn_expr f env st a with
      | Val (v, st1) => dyn_call f m v st1
      | o => o end
  end end

with dyn_call (fuel : nat) (m : str) (v : Z) (st : mstate) {struct fuel} : outcome (Z * mstate) :=
  match fuel with O => Fuel | S f =>
  match find_method (cmethods cls) m with
  | None => Undefined
  | Some md =>
      match dyn_stmts f [(mparam md, v)] st (mbody md) with
      | Val (_, st1, Some r) => Val (r, st1)
      | Val (_, st1, None) => Val (0, st1)
      | Undefined => Undefined
      | Fuel => Fuel
      end
  end end

with dyn_stmts (fuel : nat) (env : store) (st : mstate) (b : stmts) {struct fuel} : outcome sres :=
  match fuel with O => Fuel | S f =>
  match b with
  | SNil => Val (env, st, None)
  | SCons s r =>
    match s with
    | SAssign x e =>
        match dyn_expr f env st e with
        | Val (v, st1) =>
            if bound x env then dyn_stmts f (sset x v env) st1 r
            else if is_field cls x then dyn_stmts f env (mkms (sset x v (sfields st1)) (sglobals st1) (strace st1)) r
            else dyn_stmts f env (mkms (sfields st1) (sset x v (sglobals st1)) (strace st1)) r
        | Undefined => Undefined | Fuel => Fuel end
    | SThisAssign x e =>
        match dyn_expr f env st e with
        | Val (v, st1) => dyn_stmts f env (mkms (sset x v (sfields st1)) (sglobals st1) (strace st1)) r
        | Undefined => Undefined | Fuel => Fuel end
    | SDefine x e =>
        match dyn_expr f env st e with
        | Val (v, st1) => dyn_stmts f ((x, v) :: env) st1 r
        | Undefined => Undefined | Fuel => Fuel end
    | SPrint e =>
        match dyn_expr f env st e with
        | Val (v, st1) => dyn_stmts f env (mkms (sfields st1) (sglobals st1) (strace st1 ++ [v])) r
        | Undefined => Undefined | Fuel => Fuel end
    | SExpr e =>
        match dyn_expr f env st e with
        | Val (_, st1) => dyn_stmts f env st1 r
        | Undefined => Undefined | Fuel => Fuel end
    | SIf c t e =>
        match dyn_expr f env st c with
        | Val (v, st1) =>
            match dyn_stmts f env st1 (if Z.eqb v 0 then e else t) with
            | Val (env1, st2, Some rv) => Val (env1, st2, Some rv)
            | Val (env1, st2, None) => dyn_stmts f (skipn (length env1 - length env) env1) st2 r
            | Undefined => Undefined | Fuel => Fuel
            end
        | Undefined => Undefined | Fuel => Fuel end
    | SReturn e =>
        match dyn_expr f env st e with
        | Val (v, st1) => Val (env, st1, Some v)
        | Undefined => Undefined | Fuel => Fuel end
    end
  end end.

Fixpoint dyn_calls (fuel : nat) (calls : list (str * Z)) (st : mstate) (acc : list Z) : outcome (list Z * mstate) :=
  match calls with
  | [] => Val (rev acc, st)
  | (m, v) :: t =>
      match dyn_call fuel m v st with
      | Val (r, st1) => dyn_calls fuel t st1 (r :: acc)
      | Undefined => Undefined
      | Fuel => Fuel
      end
  end.
End EvalDyn.

Definition run_class_dyn (fuel : nat) (c : class) (globals : list str) (calls : list (str * Z)) :=
  dyn_calls c fuel calls (init_state c globals) [].

(* ---- where the var block may stand: ast.File.ClassFieldsDecl takes the FIRST var declaration among the leading
   general declarations of the class file (imports, consts and types before it are skipped; a func ends the search) ---- *)
Inductive topdecl := TImport | TConst | TType | TVar (specs : list spec) | TFunc.

Fixpoint class_fields_decl (ds : list topdecl) : option (list spec) :=
  match ds with
  | [] => None
  | TVar s :: _ => Some s
  | TFunc :: _ => None
  | _ :: t => class_fields_decl t
  end.

Definition class_struct (ds : list topdecl) : list field :=
  match class_fields_decl ds with Some s => class_fields s | None => [] end.

(* ---- two instances of the class: every instance has its own fields, globals and trace are shared.
   A call is (on the first instance?, method, argument). ---- *)
Definition res2 := (list Z * (store * store) * (store * list Z))%type.

Fixpoint run_objs (fm : form) (cls : class) (fuel : nat) (calls : list (bool * (str * Z)))
    (fa fb gl : store) (tr acc : list Z) : outcome res2 :=
  match calls with
  | [] => Val (rev acc, (fa, fb), (gl, tr))
  | (o, (m, v)) :: t =>
      match call_method fm cls fuel m v (mkms (if o then fa else fb) gl tr) with
      | Val (r, st1) =>
          if o then run_objs fm cls fuel t (sfields st1) fb (sglobals st1) (strace st1) (r :: acc)
          else run_objs fm cls fuel t fa (sfields st1) (sglobals st1) (strace st1) (r :: acc)
      | Undefined => Undefined
      | Fuel => Fuel
      end
  end.

Fixpoint dyn_objs (cls : class) (fuel : nat) (calls : list (bool * (str * Z)))
    (fa fb gl : store) (tr acc : list Z) : outcome res2 :=
  match calls with
  | [] => Val (rev acc, (fa, fb), (gl, tr))
  | (o, (m, v)) :: t =>
      match dyn_call cls fuel m v (mkms (if o then fa else fb) gl tr) with
      | Val (r, st1) =>
          if o then dyn_objs cls fuel t (sfields st1) fb (sglobals st1) (strace st1) (r :: acc)
          else dyn_objs cls fuel t fa (sfields st1) (sglobals st1) (strace st1) (r :: acc)
      | Undefined => Undefined
      | Fuel => Fuel
      end
  end.

(* the first instance is built with a composite literal that sets the first field to 1 (&K{f: 1}), the second with new(K) *)
Definition init_fields (c : class) (first : Z) : store :=
  match cfields c with
  | [] => []
  | f :: t => (f, first) :: map (fun x => (x, 0)) t
  end.
Definition zero_store (l : list str) : store := map (fun x => (x, 0)) l.

Definition run2_class (fuel : nat) (c : class) (globals : list str) calls :=
  run_objs ClassForm c fuel calls (init_fields c 1) (init_fields c 0) (zero_store globals) [] [].
Definition run2_explicit (fuel : nat) (c : class) (globals : list str) calls :=
  run_objs ExplicitForm (desugar_class c) fuel calls (init_fields c 1) (init_fields c 0) (zero_store globals) [] [].
Definition run2_dyn (fuel : nat) (c : class) (globals : list str) calls :=
  dyn_objs c fuel calls (init_fields c 1) (init_fields c 0) (zero_store globals) [] [].
