(* Observables of a scan and the relations between dialects used by C16 and C32.  No proofs. *)
From Coq Require Import List NArith ZArith Bool.
Import ListNotations.
From V Require Import Base.Prelude Gen.ScanTok Model.Scan.
Open Scope Z_scope.

(* what Scan returns, with the package's own token numbering *)
Definition obs (d : dialect) (t : Tok) : Z * Z * str := (code d (ttok t), tpos t, tlit t).
(* the token stream (EOF included) and the error offsets in report order; None = panic / no fuel *)
Definition stream (ul ud : Z -> bool) (d : dialect) (cm : bool) (src : str) : option (list (Z * Z * str) * list Z) :=
  match run ul ud d cm src with
  | Ok (toks, errs) => Some (map (obs d) toks, map fst errs)
  | _ => None
  end.
(* same tokens, and errors at the same set of offsets (the XGo scanner reports the errors of a
   comment it looked ahead through twice) *)
Definition same_offsets (a b : list Z) : Prop := forall o, In o a <-> In o b.
Definition stream_eq (x y : option (list (Z * Z * str) * list Z)) : Prop :=
  match x, y with
  | Some (tx, ex), Some (ty, ey) => tx = ty /\ same_offsets ex ey
  | _, _ => False
  end.
(* decidable version used in computations *)
Fixpoint zmem (o : Z) (l : list Z) : bool := match l with [] => false | x :: t => (x =? o) || zmem o t end.
Definition incl_b (a b : list Z) : bool := forallb (fun o => zmem o b) a.
Fixpoint obs_list_eqb (a b : list (Z * Z * str)) : bool :=
  match a, b with
  | [], [] => true
  | (c1, p1, l1) :: a', (c2, p2, l2) :: b' => (c1 =? c2) && (p1 =? p2) && str_eqb l1 l2 && obs_list_eqb a' b'
  | _, _ => false
  end.
Definition stream_eqb (x y : option (list (Z * Z * str) * list Z)) : bool :=
  match x, y with
  | Some (tx, ex), Some (ty, ey) => obs_list_eqb tx ty && incl_b ex ey && incl_b ey ex
  | _, _ => false
  end.

(* the abstract-token view, for comparing XGo and TPL whose numberings differ: kind, offset, literal *)
Definition aobs (t : Tok) : tk * Z * str := (ttok t, tpos t, tlit t).
Definition astream (ul ud : Z -> bool) (d : dialect) (cm : bool) (src : str) : option (list (tk * Z * str)) :=
  match run ul ud d cm src with
  | Ok (toks, _) => Some (map aobs toks)
  | _ => None
  end.

(* ---- C15: what "every token is the exact source text" means ---- *)
(* src[a:b] *)
Definition sub (src : str) (a b : Z) : str := firstn (Z.to_nat (b - a)) (skipn (Z.to_nat a) src).
Definition is_blank (b : N) : bool := ((b =? 32) || (b =? 9) || (b =? 10) || (b =? 13))%N.
Definition blank_run (g : str) : Prop := Forall (fun b => is_blank b = true) g.
(* [cr_del lit body]: lit is body with some carriage returns deleted (what stripCR does) *)
Inductive cr_del : str -> str -> Prop :=
| crd_nil : cr_del [] []
| crd_keep x l b : cr_del l b -> cr_del (x :: l) (x :: b)
| crd_drop l b : cr_del l b -> cr_del l (13%N :: b).
(* the spelling of a token in the `tokens` array of its package (K-gen) *)
Definition spell_of (d : dialect) (t : tk) : option str :=
  zassoc (code d t) (match d with XGo => xgo_spell | Go => go_spell | Tpl => tpl_spell end).
Definition keywords_of (d : dialect) : list (str * Z) :=
  match d with XGo => xgo_keywords | Go => go_keywords | Tpl => [] end.
(* the relation between the literal Scan returns for token t and the source text [body]
   = src[tpos t : tend t] the token was scanned from *)
Definition lit_ok (d : dialect) (t : Tok) (body : str) : Prop :=
  match ttok t with
  | T_EOF => body = [] /\ tlit t = []
  | T_SEMICOLON =>
      (tlit t = [59%N] /\ body = [59%N])                       (* a ';' of the source *)
      \/ (tlit t = [10%N] /\ (body = [] \/ body = [10%N]))     (* inserted: at a newline, or before a comment / at EOF *)
  | T_IDENT | T_INT | T_FLOAT | T_IMAG | T_RAT | T_UNIT | T_CHAR => tlit t = body /\ body <> []
  | T_KW c => tlit t = body /\ kw_find (keywords_of d) body = Some c
  | T_STRING => body <> [] /\ (tlit t = body \/ tlit t = strip_cr_all body)      (* raw strings lose their \r *)
  | T_CSTRING => exists c, (c = 99%N \/ c = 67%N) /\ body = c :: tlit t          (* c"..." : literal starts at the quote *)
  | T_PYSTRING => body = 112%N :: 121%N :: tlit t                                (* py"..." *)
  | T_COMMENT => body <> [] /\ cr_del (tlit t) body
  | T_ILLEGAL => body <> [] /\ zlen body <= 4        (* one character; the literal is string(ch), U+FFFD for an invalid byte *)
  | _ => tlit t = [] /\ spell_of d (ttok t) = Some body        (* operators and delimiters: the spelling is the source text *)
  end.
(* the tokens, in order, with the text between them: f = end of the previous token *)
Inductive chain (d : dialect) (src : str) (cm : bool) : Z -> list Tok -> Prop :=
| chain_nil f : chain d src cm f []
| chain_cons f t ts :
    f <= tpos t -> tpos t <= tend t -> tend t <= zlen src ->
    (cm = true -> blank_run (sub src f (tpos t))) ->
    lit_ok d t (sub src (tpos t) (tend t)) ->
    chain d src cm (tend t) ts -> chain d src cm f (t :: ts).
(* Init skips a leading byte order mark *)
Definition bom_len (src : str) : Z :=
  match src with 239%N :: 187%N :: 191%N :: _ => 3 | _ => 0 end.
Definition is_auto_semi_tok (t : Tok) : bool :=
  match ttok t with T_SEMICOLON => str_eqb (tlit t) [10%N] | _ => false end.
Definition is_eof_tok (t : Tok) : bool := match ttok t with T_EOF => true | _ => false end.
