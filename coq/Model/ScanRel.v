(* Observables of a scan and the relations between dialects used by C16 and C32.  No proofs. *)
From Coq Require Import List NArith ZArith Bool.
Import ListNotations.
From V Require Import Base.Prelude Gen.ScanTok Model.Scan.
Open Scope Z_scope.

(* what Scan returns, with the package's own token numbering *)
Definition obs (d : dialect) (t : Tok) : Z * Z * str := (code d (ttok t), tpos t, tlit t).
(* the token stream (EOF included) and the error offsets in report order; None = panic / no fuel *)
Definition stream (ul ud : Z -> bool) (d : dialect) (cm : bool) (src : str) : option (list (Z * Z * str) * list Z) :=
  match run ul ud d cm src with
  | Ok (toks, errs) => Some (map (obs d) toks, map fst errs)
  | _ => None
  end.
(* same tokens, and errors at the same set of offsets (the XGo scanner reports the errors of a
   comment it looked ahead through twice) *)
Definition same_offsets (a b : list Z) : Prop := forall o, In o a <-> In o b.
Definition stream_eq (x y : option (list (Z * Z * str) * list Z)) : Prop :=
  match x, y with
  | Some (tx, ex), Some (ty, ey) => tx = ty /\ same_offsets ex ey
  | _, _ => False
  end.
(* decidable version used in computations *)
Fixpoint zmem (o : Z) (l : list Z) : bool := match l with [] => false | x :: t => (x =? o) || zmem o t end.
Definition incl_b (a b : list Z) : bool := forallb (fun o => zmem o b) a.
Fixpoint obs_list_eqb (a b : list (Z * Z * str)) : bool :=
  match a, b with
  | [], [] => true
  | (c1, p1, l1) :: a', (c2, p2, l2) :: b' => (c1 =? c2) && (p1 =? p2) && str_eqb l1 l2 && obs_list_eqb a' b'
  | _, _ => false
  end.
Definition stream_eqb (x y : option (list (Z * Z * str) * list Z)) : bool :=
  match x, y with
  | Some (tx, ex), Some (ty, ey) => obs_list_eqb tx ty && incl_b ex ey && incl_b ey ex
  | _, _ => false
  end.

(* the abstract-token view, for comparing XGo and TPL whose numberings differ: kind, offset, literal *)
Definition aobs (t : Tok) : tk * Z * str := (ttok t, tpos t, tlit t).
Definition astream (ul ud : Z -> bool) (d : dialect) (cm : bool) (src : str) : option (list (tk * Z * str)) :=
  match run ul ud d cm src with
  | Ok (toks, _) => Some (map aobs toks)
  | _ => None
  end.

(* ---- C15: what "every token is the exact source text" means ---- *)
(* src[a:b] *)
Definition sub (src : str) (a b : Z) : str := firstn (Z.to_nat (b - a)) (skipn (Z.to_nat a) src).
Definition is_blank (b : N) : bool := ((b =? 32) || (b =? 9) || (b =? 10) || (b =? 13))%N.
Definition blank_run (g : str) : Prop := Forall (fun b => is_blank b = true) g.
(* [cr_del lit body]: lit is body with some carriage returns deleted (what stripCR does) *)
Inductive cr_del : str -> str -> Prop :=
| crd_nil : cr_del [] []
| crd_keep x l b : cr_del l b -> cr_del (x :: l) (x :: b)
| crd_drop l b : cr_del l b -> cr_del l (13%N :: b).
(* the spelling of a token in the `tokens` array of its package (K-gen) *)
Definition spell_of (d : dialect) (t : tk) : option str :=
  zassoc (code d t) (match d with XGo => xgo_spell | Go => go_spell | Tpl => tpl_spell end).
Definition keywords_of (d : dialect) : list (str * Z) :=
  match d with XGo => xgo_keywords | Go => go_keywords | Tpl => [] end.
(* the relation between the literal Scan returns for token t and the source text [body]
   = src[tpos t : tend t] the token was scanned from *)
Definition lit_ok (d : dialect) (t : Tok) (body : str) : Prop :=
  match ttok t with
  | T_EOF => body = [] /\ tlit t = []
  | T_SEMICOLON =>
      (tlit t = [59%N] /\ body = [59%N])                       (* a ';' of the source *)
      \/ (tlit t = [10%N] /\ (body = [] \/ body = [10%N]))     (* inserted: at a newline, or before a comment / at EOF *)
  | T_IDENT | T_INT | T_FLOAT | T_IMAG | T_RAT | T_UNIT | T_CHAR => tlit t = body /\ body <> []
  | T_KW c => tlit t = body /\ kw_find (keywords_of d) body = Some c
  | T_STRING => body <> [] /\ (tlit t = body \/ tlit t = strip_cr_all body)      (* raw strings lose their \r *)
  | T_CSTRING => exists c, (c = 99%N \/ c = 67%N) /\ body = c :: tlit t          (* c"..." : literal starts at the quote *)
  | T_PYSTRING => body = 112%N :: 121%N :: tlit t                                (* py"..." *)
  | T_COMMENT => body <> [] /\ cr_del (tlit t) body
  | T_ILLEGAL => body <> [] /\ zlen body <= 4        (* one character; the literal is string(ch), U+FFFD for an invalid byte *)
  | _ => tlit t = [] /\ spell_of d (ttok t) = Some body        (* operators and delimiters: the spelling is the source text *)
  end.
(* the tokens, in order, with the text between them: f = end of the previous token *)
Inductive chain (d : dialect) (src : str) (cm : bool) : Z -> list Tok -> Prop :=
| chain_nil f : chain d src cm f []
| chain_cons f t ts :
    f <= tpos t -> tpos t <= tend t -> tend t <= zlen src ->
    (cm = true -> blank_run (sub src f (tpos t))) ->
    lit_ok d t (sub src (tpos t) (tend t)) ->
    chain d src cm (tend t) ts -> chain d src cm f (t :: ts).
(* Init skips a leading byte order mark *)
Definition bom_len (src : str) : Z :=
  match src with
  | b0 :: b1 :: b2 :: _ => if ((b0 =? 239) && (b1 =? 187) && (b2 =? 191))%N then 3 else 0
  | _ => 0
  end.
Definition is_auto_semi_tok (t : Tok) : bool :=
  match ttok t with T_SEMICOLON => str_eqb (tlit t) [10%N] | _ => false end.
Definition is_eof_tok (t : Tok) : bool := match ttok t with T_EOF => true | _ => false end.

(* ---- C32 / C16: the decidable "plain" predicates (no branch that the other dialect lacks) ---- *)
Fixpoint errs_eqb (a b : list (Z * Z)) : bool :=
  match a, b with
  | [], [] => true
  | (o1, c1) :: a', (o2, c2) :: b' => (o1 =? o2) && (c1 =? c2) && errs_eqb a' b'
  | _, _ => false
  end.
Definition sc_eqb (a b : Sc) : bool :=
  (off a =? off b) && str_eqb (rest a) (rest b) && errs_eqb (errs a) (errs b) && (lineoff a =? lineoff b).
(* the condition of skipWhitespace *)
Definition is_blank_rune (semi : bool) (c : Z) : bool :=
  (c =? 32) || (c =? 9) || ((c =? 10) && negb semi) || (c =? 13).

(* check P on every state from which a step of the run of dialect d is taken *)
Fixpoint all_steps (P : St -> bool) (ul ud : Z -> bool) (d : dialect) (fuel : nat) (cm : bool) (st : St) : bool :=
  match fuel with
  | O => true
  | S f =>
    P st &&
    match step ul ud d cm st with
    | Ok (Emit t st') => match ttok t with T_EOF => true | _ => all_steps P ul ud d f cm st' end
    | Ok (Again st') => all_steps P ul ud d f cm st'
    | _ => true
    end
  end.

Section Plain.
Variable ul ud : Z -> bool.

(* TPL vs XGo: the two comment sub-scanners agree on the comment that starts at s *)
Definition sharp_agree (s : Sc) : bool :=
  match scan_comment_x XGo s with
  | Ok (s2, lit, _) => sc_eqb (fst (scan_sharp_tpl s)) s2 && str_eqb (snd (scan_sharp_tpl s)) lit
  | _ => false
  end.
Definition comment_agree (s : Sc) : bool :=
  match scan_comment_x XGo s with
  | Ok (s2, lit, _) => sc_eqb (fst (scan_comment_tpl s)) s2 && str_eqb (snd (scan_comment_tpl s)) lit
  | _ => false
  end.
Definition slash_agree (st : St) (s : Sc) : bool :=
  let '(look, le) := if semi st then find_line_end (S (length (rest (nxt s)))) (nxt s) else (nxt s, false) in
  if semi st && le then true else comment_agree (with_look s look).

(* the XGo scanner, about to take a step from st, takes no branch that tpl/scanner lacks or
   does differently: no keyword, no c"/py" string, no '~' '@' '**', and a comment on which the two
   scanComment variants agree *)
Definition xt_plain (st : St) : bool :=
  match unit st with
  | _ :: _ => true                     (* the pending unit is returned the same way by both *)
  | [] =>
    let s := skip_ws (S (length (rest (sc st)))) (semi st) (sc st) in
    let c := cur s in
    if is_letter ul c then
      let s1 := scan_ident ul ud (S (length (rest s))) s in
      let lit := slice s s1 in
      if Nat.ltb 1 (length lit) then
        match lookup XGo lit with
        | T_KW _ => false
        | _ => negb (str_eqb lit [112; 121]%N && (cur s1 =? 34))
        end
      else negb (((c =? 99) || (c =? 67)) && (cur s1 =? 34))
    else if is_decimal c || ((c =? 46) && is_decimal_b (peek s)) then true
    else
      negb (c =? 126) && negb (c =? 64) && negb ((c =? 42) && (cur (nxt s) =? 42))
      && (if (c =? 35) && negb (semi st) then sharp_agree s else true)
      && (if (c =? 47) && ((cur (nxt s) =? 47) || (cur (nxt s) =? 42)) then slash_agree st s else true)
  end.
Definition shared (cm : bool) (src : str) : bool := all_steps xt_plain ul ud XGo (fuel_of src) cm (init src).
End Plain.

(* ---- C16: XGo vs go/scanner ---- *)
Definition tk_eq_dec (a b : tk) : {a = b} + {a <> b}.
Proof. decide equality. apply Z.eq_dec. Defined.
Definition tk_eqb (a b : tk) : bool := if tk_eq_dec a b then true else false.

Section PlainGo.
Variable ul ud : Z -> bool.

(* the two scanNumber variants (suffix handling) agree on the number that starts at s *)
Definition num_agree (s : Sc) : bool :=
  let '(t1, s1, u1) := scan_number ul ud XGo s in
  let '(t2, s2, u2) := scan_number ul ud Go s in
  tk_eqb t1 t2 && sc_eqb s1 s2 && (u1 =? u2).
(* the two scanComment variants agree on the comment at s (they differ on line directives with
   numbers above 1<<30) *)
Definition comment_agree_go (s : Sc) : bool :=
  match scan_comment_x XGo s, scan_comment_x Go s with
  | Ok (s2, lit, _), Ok (s2', lit', _) => sc_eqb s2 s2' && str_eqb lit lit'
  | _, _ => false
  end.
(* characters that start a token in the default branch of Scan, other than EOF / newline *)
Definition punct_char (c : Z) : bool :=
  existsb (Z.eqb c) [34; 39; 96; 58; 46; 44; 59; 40; 41; 91; 93; 123; 125; 43; 45; 42; 47; 37; 94; 60; 62; 61; 33; 38; 124].
(* after '!' or '...' the XGo scanner has insertSemi set and go/scanner has not: harmless iff
   the next token is on the same line, is not a comment and is not an illegal character *)
Definition safe_follow (s0 : Sc) : bool :=
  let s := skip_ws (S (length (rest s0))) true s0 in
  let c := cur s in
  negb (c =? 10) && negb (c =? -1)
  && negb ((c =? 47) && ((cur (nxt s) =? 47) || (cur (nxt s) =? 42)))
  && (is_letter ul c || is_decimal c || punct_char c).

(* the XGo scanner, about to take a step from st, takes no extension branch and none of the
   branches on which it is known to differ from go/scanner *)
Definition xg_plain (st : St) : bool :=
  match unit st with
  | _ :: _ => false
  | [] =>
    let s := skip_ws (S (length (rest (sc st)))) (semi st) (sc st) in
    let c := cur s in
    if is_letter ul c then
      let s1 := scan_ident ul ud (S (length (rest s))) s in
      let lit := slice s s1 in
      if Nat.ltb 1 (length lit) then negb (str_eqb lit [112; 121]%N && (cur s1 =? 34))       (* py"..." *)
      else negb (((c =? 99) || (c =? 67)) && (cur s1 =? 34))                                  (* c"..." *)
    else if is_decimal c || ((c =? 46) && is_decimal_b (peek s)) then num_agree s              (* unit / r suffix *)
    else
      negb (c =? 35) && negb (c =? 36) && negb (c =? 63) && negb (c =? 126)                   (* # $ ? ~ *)
      && negb ((c =? 45) && (cur (nxt s) =? 62))                                               (* -> *)
      && negb ((c =? 60) && (cur (nxt s) =? 62))                                               (* <> *)
      && negb ((c =? 61) && (cur (nxt s) =? 62))                                               (* => *)
      && (if (c =? 47) && ((cur (nxt s) =? 47) || (cur (nxt s) =? 42))
          then negb (semi st) && comment_agree_go s else true)         (* no comment while a semicolon is pending *)
      && (if (c =? 33) && negb (cur (nxt s) =? 61) then safe_follow (nxt s) else true)          (* ! *)
      && (if (c =? 46) && (cur (nxt s) =? 46) && (peek (nxt s) =? 46)%N && (nparen st =? 0)
          then safe_follow (nxt (nxt (nxt s))) else true)                                       (* ... outside parentheses *)
  end.
Definition go_like (cm : bool) (src : str) : bool := all_steps xg_plain ul ud XGo (fuel_of src) cm (init src).
End PlainGo.
