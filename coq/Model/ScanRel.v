(* Observables of a scan and the relations between dialects used by C16 and C32.  No proofs. *)
From Coq Require Import List NArith ZArith Bool.
Import ListNotations.
From V Require Import Base.Prelude Gen.ScanTok Model.Scan.
Open Scope Z_scope.

(* what Scan returns, with the package's own token numbering *)
Definition obs (d : dialect) (t : Tok) : Z * Z * str := (code d (ttok t), tpos t, tlit t).
(* the token stream (EOF included) and the error offsets in report order; None = panic / no fuel *)
Definition stream (ul ud : Z -> bool) (d : dialect) (cm : bool) (src : str) : option (list (Z * Z * str) * list Z) :=
  match run ul ud d cm src with
  | Ok (toks, errs) => Some (map (obs d) toks, map fst errs)
  | _ => None
  end.
(* same tokens, and errors at the same set of offsets (the XGo scanner reports the errors of a
   comment it looked ahead through twice) *)
Definition same_offsets (a b : list Z) : Prop := forall o, In o a <-> In o b.
Definition stream_eq (x y : option (list (Z * Z * str) * list Z)) : Prop :=
  match x, y with
  | Some (tx, ex), Some (ty, ey) => tx = ty /\ same_offsets ex ey
  | _, _ => False
  end.
(* decidable version used in computations *)
Fixpoint zmem (o : Z) (l : list Z) : bool := match l with [] => false | x :: t => (x =? o) || zmem o t end.
Definition incl_b (a b : list Z) : bool := forallb (fun o => zmem o b) a.
Fixpoint obs_list_eqb (a b : list (Z * Z * str)) : bool :=
  match a, b with
  | [], [] => true
  | (c1, p1, l1) :: a', (c2, p2, l2) :: b' => (c1 =? c2) && (p1 =? p2) && str_eqb l1 l2 && obs_list_eqb a' b'
  | _, _ => false
  end.
Definition stream_eqb (x y : option (list (Z * Z * str) * list Z)) : bool :=
  match x, y with
  | Some (tx, ex), Some (ty, ey) => obs_list_eqb tx ty && incl_b ex ey && incl_b ey ex
  | _, _ => false
  end.

(* the abstract-token view, for comparing XGo and TPL whose numberings differ: kind, offset, literal *)
Definition aobs (t : Tok) : tk * Z * str := (ttok t, tpos t, tlit t).
Definition astream (ul ud : Z -> bool) (d : dialect) (cm : bool) (src : str) : option (list (tk * Z * str)) :=
  match run ul ud d cm src with
  | Ok (toks, _) => Some (map aobs toks)
  | _ => None
  end.
