(* C01 — MiniGo: a small imperative core of Go with an output trace, and the normalisations cl
   performs on plain Go source (observed on the written Go, compared on every run):
     - a marker declaration  const _ = true  is added;
     - redundant parentheses disappear (the tree keeps no ParenExpr);
     - grouped struct fields  a, b int  are split into one field per line;
     - top-level declarations are emitted in LOAD order: symbols are loaded on demand, so a
       variable referenced by an earlier function is emitted before variables declared before it.
   No proofs here. *)
From Coq Require Import List NArith ZArith Bool.
Import ListNotations.
From V Require Import Base.Prelude.

Definition var := N.
Definition fname := N.
Definition label := N.
Definition fld := N.

Inductive value := VInt (n : Z) | VBool (b : bool) | VStr (s : str) | VStruct (fs : list (fld * value)) | VNil.

Inductive binop := Add | Sub | Mul | Lt | Eq | And | Cat.

Inductive expr :=
| EInt (n : Z) | EBool (b : bool) | EStr (s : str)
| EVar (x : var)
| EField (x : var) (f : fld)
| EBin (op : binop) (a b : expr)
| EParen (e : expr).

Inductive stmt :=
| SSkip
| SSeq (a b : stmt)
| SAssign (x : var) (e : expr)
| SFieldAssign (x : var) (f : fld) (e : expr)
| SNew (x : var) (t : N)                              (* x := T{}  for a declared struct type *)
| SPrint (e : expr)                                    (* fmt.Println(e) *)
| SIf (c : expr) (a b : stmt)
| SFor (l : option label) (c : expr) (post body : stmt)   (* [l:] for ; c; post { body } *)
| SBreak (l : option label)
| SContinue (l : option label)
| SPanic (e : expr)
| SCall (f : fname)                                    (* f() for a declared niladic func *)
| SDeferRecover (body : stmt) (x : var) (handler : stmt)
    (* func() { defer func() { if x := recover(); x != nil { handler } }(); body }() *)
| SExit (n : Z).                                       (* os.Exit(n) *)

Inductive decl :=
| DMarker                                              (* const _ = true *)
| DStruct (t : N) (groups : list (list fld * value))   (* type t struct { a, b T; ... } with zero values *)
| DVar (x : var) (e : expr) (pre : stmt)               (* var x = e, `pre` = the observable effects of evaluating e (calls) *)
| DFunc (f : fname) (body : stmt).
Definition prog := list decl.

(* ---------- evaluation ---------- *)
Definition env := list (var * value).
Fixpoint lookup (x : var) (r : env) : option value :=
  match r with [] => None | (y, v) :: t => if N.eqb x y then Some v else lookup x t end.
Definition update (x : var) (v : value) (r : env) : env := (x, v) :: r.

Fixpoint flookup (f : fld) (fs : list (fld * value)) : option value :=
  match fs with [] => None | (g, v) :: t => if N.eqb f g then Some v else flookup f t end.
Fixpoint fupdate (f : fld) (v : value) (fs : list (fld * value)) : list (fld * value) :=
  match fs with [] => [] | (g, w) :: t => if N.eqb f g then (g, v) :: t else (g, w) :: fupdate f v t end.

Definition eval_bin (op : binop) (a b : value) : option value :=
  match op, a, b with
  | Add, VInt x, VInt y => Some (VInt (x + y))
  | Sub, VInt x, VInt y => Some (VInt (x - y))
  | Mul, VInt x, VInt y => Some (VInt (x * y))
  | Lt, VInt x, VInt y => Some (VBool (Z.ltb x y))
  | Eq, VInt x, VInt y => Some (VBool (Z.eqb x y))
  | And, VBool x, VBool y => Some (VBool (x && y))
  | Cat, VStr x, VStr y => Some (VStr (x ++ y))
  | _, _, _ => None
  end.

(* None = a run-time type error: cannot happen in a well-typed program; kept as a stuck state *)
Fixpoint eval_expr (r : env) (e : expr) : option value :=
  match e with
  | EInt n => Some (VInt n) | EBool b => Some (VBool b) | EStr s => Some (VStr s)
  | EVar x => lookup x r
  | EField x f => match lookup x r with Some (VStruct fs) => flookup f fs | _ => None end
  | EBin op a b => match eval_expr r a, eval_expr r b with Some u, Some v => eval_bin op u v | _, _ => None end
  | EParen e => eval_expr r e
  end.

Record state := mk_state { st_env : env; st_out : list value }.
Inductive signal := Normal | Brk (l : option label) | Cont (l : option label) | Panicking (v : value)
                  | Exited (n : Z) | Stuck | OutOfFuel.

Definition fields_of (groups : list (list fld * value)) : list (fld * value) :=
  flat_map (fun g => map (fun f => (f, snd g)) (fst g)) groups.

Fixpoint struct_zero (p : prog) (t : N) : option value :=
  match p with
  | [] => None
  | DStruct u groups :: rest => if N.eqb t u then Some (VStruct (fields_of groups)) else struct_zero rest t
  | _ :: rest => struct_zero rest t
  end.
Fixpoint func_body (p : prog) (f : fname) : option stmt :=
  match p with
  | [] => None
  | DFunc g body :: rest => if N.eqb f g then Some body else func_body rest f
  | _ :: rest => func_body rest f
  end.

Definition label_matches (l : option label) (mine : option label) : bool :=
  match l with None => true | Some a => match mine with Some b => N.eqb a b | None => false end end.

Fixpoint exec (p : prog) (fuel : nat) (s : stmt) (st : state) : signal * state :=
  match fuel with
  | O => (OutOfFuel, st)
  | S f =>
    match s with
    | SSkip => (Normal, st)
    | SSeq a b => match exec p f a st with (Normal, st') => exec p f b st' | r => r end
    | SAssign x e => match eval_expr (st_env st) e with
                     | Some v => (Normal, mk_state (update x v (st_env st)) (st_out st))
                     | None => (Stuck, st) end
    | SFieldAssign x g e =>
      match lookup x (st_env st), eval_expr (st_env st) e with
      | Some (VStruct fs), Some v => (Normal, mk_state (update x (VStruct (fupdate g v fs)) (st_env st)) (st_out st))
      | _, _ => (Stuck, st)
      end
    | SNew x t => match struct_zero p t with
                  | Some v => (Normal, mk_state (update x v (st_env st)) (st_out st))
                  | None => (Stuck, st) end
    | SPrint e => match eval_expr (st_env st) e with
                  | Some v => (Normal, mk_state (st_env st) (st_out st ++ [v]))
                  | None => (Stuck, st) end
    | SIf c a b => match eval_expr (st_env st) c with
                   | Some (VBool true) => exec p f a st
                   | Some (VBool false) => exec p f b st
                   | _ => (Stuck, st) end
    | SFor l c post body =>
      match eval_expr (st_env st) c with
      | Some (VBool false) => (Normal, st)
      | Some (VBool true) =>
        match exec p f body st with
        | (Normal, st') => match exec p f post st' with (Normal, st'') => exec p f (SFor l c post body) st'' | r => r end
        | (Cont m, st') => if label_matches m l
                           then match exec p f post st' with (Normal, st'') => exec p f (SFor l c post body) st'' | r => r end
                           else (Cont m, st')
        | (Brk m, st') => if label_matches m l then (Normal, st') else (Brk m, st')
        | r => r
        end
      | _ => (Stuck, st)
      end
    | SBreak l => (Brk l, st)
    | SContinue l => (Cont l, st)
    | SPanic e => match eval_expr (st_env st) e with Some v => (Panicking v, st) | None => (Stuck, st) end
    | SCall g => match func_body p g with
                 | Some body => match exec p f body st with
                                | (Brk _, st') | (Cont _, st') => (Stuck, st')   (* not valid Go *)
                                | r => r end
                 | None => (Stuck, st) end
    | SDeferRecover body x handler =>
      match exec p f body st with
      | (Panicking v, st') => exec p f handler (mk_state (update x v (st_env st')) (st_out st'))
      | (Brk _, st') | (Cont _, st') => (Stuck, st')
      | r => r
      end
    | SExit n => (Exited n, st)
    end
  end.

(* package initialisation: the variable declarations in source order (their initialisers are
   independent here: each is `pre; x = e`), then main (function 0) *)
Fixpoint init_vars (p : prog) (fuel : nat) (ds : list decl) (st : state) : signal * state :=
  match ds with
  | [] => (Normal, st)
  | DVar x e pre :: rest =>
    match exec p fuel (SSeq pre (SAssign x e)) st with
    | (Normal, st') => init_vars p fuel rest st'
    | r => r
    end
  | _ :: rest => init_vars p fuel rest st
  end.

Definition main_name : fname := 0%N.
(* observable behaviour: how the run ended and what was printed *)
Definition run (fuel : nat) (p : prog) : signal * list value :=
  match init_vars p fuel p (mk_state [] []) with
  | (Normal, st) => let '(sg, st') := exec p fuel (SCall main_name) st in (sg, st_out st')
  | (sg, st) => (sg, st_out st)
  end.

(* ---------- the normalisations ---------- *)
Fixpoint strip (e : expr) : expr :=
  match e with
  | EParen e => strip e
  | EBin op a b => EBin op (strip a) (strip b)
  | e => e
  end.
Fixpoint strip_stmt (s : stmt) : stmt :=
  match s with
  | SSeq a b => SSeq (strip_stmt a) (strip_stmt b)
  | SAssign x e => SAssign x (strip e)
  | SFieldAssign x g e => SFieldAssign x g (strip e)
  | SPrint e => SPrint (strip e)
  | SIf c a b => SIf (strip c) (strip_stmt a) (strip_stmt b)
  | SFor l c post body => SFor l (strip c) (strip_stmt post) (strip_stmt body)
  | SPanic e => SPanic (strip e)
  | SDeferRecover body x h => SDeferRecover (strip_stmt body) x (strip_stmt h)
  | s => s
  end.
(* a, b T  ->  a T; b T *)
Definition split_fields (groups : list (list fld * value)) : list (list fld * value) :=
  flat_map (fun g => map (fun f => ([f], snd g)) (fst g)) groups.
Definition lower_decl (d : decl) : decl :=
  match d with
  | DMarker => DMarker
  | DStruct t groups => DStruct t (split_fields groups)
  | DVar x e pre => DVar x (strip e) (strip_stmt pre)
  | DFunc f body => DFunc f (strip_stmt body)
  end.
Definition lower_go (p : prog) : prog := DMarker :: map lower_decl p.

(* ---------- emission (load) order of the top-level declarations ----------
   loadFile walks the declarations in source order; loading a function compiles its body, and
   an identifier that names a not-yet-loaded package-level variable loads (and emits) that variable
   first (compileIdent -> loadSymbol). *)
Fixpoint expr_vars (e : expr) : list var :=
  match e with
  | EVar x | EField x _ => [x]
  | EBin _ a b => expr_vars a ++ expr_vars b
  | EParen e => expr_vars e
  | _ => []
  end.
Fixpoint stmt_vars (s : stmt) : list var :=
  match s with
  | SSeq a b => stmt_vars a ++ stmt_vars b
  | SAssign x e => expr_vars e ++ [x]
  | SFieldAssign x _ e => x :: expr_vars e
  | SNew x _ => [x]
  | SPrint e | SPanic e => expr_vars e
  | SIf c a b => expr_vars c ++ stmt_vars a ++ stmt_vars b
  | SFor _ c post body => expr_vars c ++ stmt_vars post ++ stmt_vars body
  | SDeferRecover body _ h => stmt_vars body ++ stmt_vars h
  | _ => []
  end.
Fixpoint find_var (p : prog) (x : var) : option decl :=
  match p with
  | [] => None
  | (DVar y e pre as d) :: rest => if N.eqb x y then Some d else find_var rest x
  | _ :: rest => find_var rest x
  end.
Definition mem_var (x : var) (l : list var) : bool := existsb (N.eqb x) l.

(* (emitted declarations in reverse, loaded package-level variables) *)
Definition load_var (p : prog) (acc : list decl * list var) (x : var) : list decl * list var :=
  if mem_var x (snd acc) then acc else
  match find_var p x with
  | Some d => (d :: fst acc, x :: snd acc)
  | None => acc                                  (* a local variable *)
  end.
Definition load_decl (p : prog) (acc : list decl * list var) (d : decl) : list decl * list var :=
  match d with
  | DVar x _ _ => load_var p acc x
  | DFunc f body => let acc' := fold_left (load_var p) (stmt_vars body) acc in (d :: fst acc', snd acc')
  | d => (d :: fst acc, snd acc)
  end.
Definition emit_order (p : prog) : prog := rev (fst (fold_left (load_decl p) p ([], []))).

Definition var_names (p : prog) : list var :=
  flat_map (fun d => match d with DVar x _ _ => [x] | _ => [] end) p.

(* ---------- expression switch with fallthrough (Go spec "Expression switches"; cl/stmt.go compileSwitchStmt
   emits the clauses in source order and a `fallthrough` after every clause body that ends with one) ----------
   A clause = (Some v for `case v:` | None for `default:`, the marker its body prints, ends with fallthrough). *)
Definition clause := (option Z * N * bool)%type.

Fixpoint find_case (v : Z) (cs : list clause) : option (list clause) :=      (* the clauses from the selected one on *)
  match cs with
  | [] => None
  | ((Some w, _, _) as c) :: t => if Z.eqb v w then Some (c :: t) else find_case v t
  | _ :: t => find_case v t
  end.
Fixpoint find_default (cs : list clause) : option (list clause) :=
  match cs with
  | [] => None
  | ((None, _, _) as c) :: t => Some (c :: t)
  | _ :: t => find_default t
  end.
(* run the selected clause, and the following ones as long as fallthrough transfers control *)
Fixpoint run_from (cs : list clause) : list N :=
  match cs with
  | [] => []
  | (_, m, fall) :: t => m :: (if fall then run_from t else [])
  end.
Definition switch_exec (cs : list clause) (v : Z) : list N :=
  match find_case v cs with
  | Some rest => run_from rest
  | None => match find_default cs with Some rest => run_from rest | None => [] end
  end.

(* the seeded mistake "a default clause has nothing to fall into": its fallthrough is dropped *)
Definition drop_default_fallthrough (cs : list clause) : list clause :=
  map (fun c => match c with (None, m, _) => (None, m, false) | c => c end) cs.

(* ---------- keyed struct literal: which field does the key `name` denote? (cl/expr.go lookupField) ----------
   the first field whose name IS the key; Go has no other rule *)
Fixpoint lookup_field (fs : list str) (name : str) : option nat :=
  match fs with
  | [] => None
  | f :: t => if str_eqb f name then Some O else option_map S (lookup_field t name)
  end.
Definition capitalise (s : str) : str :=
  match s with
  | c :: t => (if (97 <=? c)%N && (c <=? 122)%N then (c - 32)%N else c) :: t
  | [] => []
  end.
(* the seeded variant: one pass that also accepts the capitalised spelling of the key *)
Fixpoint lookup_field_alias (fs : list str) (name : str) : option nat :=
  match fs with
  | [] => None
  | f :: t => if str_eqb f name || str_eqb f (capitalise name) then Some O else option_map S (lookup_field_alias t name)
  end.
