(* C04 model.  No proofs here.
   loop_seq  : the Go `for v := s; v cmp e; v post= st { emit v }` loop, on explicit fuel.
   run_shape : interpreter of a generated loop_shape (Gen/RangeLoop.v) -- init assignment with
               temporaries, condition, post statement -- on the three range operands.
   iter_seq  : github.com/qiniu/x@v1.15.0/xgo/range.go  IntRange.Gop_Enum + intRangeIter.Next,
               driven by the `for it := X.Gop_Enum(); ; { v, ok := it.Next(); if !ok {break}; emit v }`
               protocol that gogen emits for a comprehension over a range expression.
   Integers are Z: the property is read "within int range, no overflow". *)
From Coq Require Import List ZArith Bool.
Import ListNotations.
From V Require Import Base.Prelude Base.RangeOps.
Open Scope Z_scope.

Fixpoint loop_seq (fuel : nat) (cmp : cmpop) (post : postop) (i e st : Z) : M (list Z) :=
  match fuel with
  | O => OutOfFuel
  | S f => if cmp_eval cmp i e
           then x <- loop_seq f cmp post (post_eval post i st) e st ;; Ok (i :: x)
           else Ok []
  end.

(* ---- interpreter of a generated shape ---- *)
Record lstate := { st_var : option Z; st_end : option Z; st_step : option Z }.
Definition st0 : lstate := {| st_var := None; st_end := None; st_step := None |}.
Definition get_slot (q : lstate) (s : slot) : option Z :=
  match s with SVar => st_var q | STmpEnd => st_end q | STmpStep => st_step q end.
Definition set_slot (q : lstate) (s : slot) (z : Z) : lstate :=
  match s with
  | SVar => {| st_var := Some z; st_end := st_end q; st_step := st_step q |}
  | STmpEnd => {| st_var := st_var q; st_end := Some z; st_step := st_step q |}
  | STmpStep => {| st_var := st_var q; st_end := st_end q; st_step := Some z |}
  end.
(* reading an unset slot = the emitted Go would not compile: modelled as Panic *)
Definition rd (q : lstate) (s e st : Z) (o : opnd) : M Z :=
  match o with
  | OStart => Ok s | OEnd => Ok e | OStep => Ok st | OConst z => Ok z
  | OSlot x => match get_slot q x with Some z => Ok z | None => Panic end
  end.
(* parallel assignment: all right-hand sides are read in the state BEFORE the assignment *)
Definition rd_opt (q : lstate) (s e st : Z) (o : option opnd) : M (option Z) :=
  match o with None => Ok None | Some o' => z <- rd q s e st o' ;; Ok (Some z) end.
Definition init_state (sh : loop_shape) (s e st : Z) : M lstate :=
  v <- rd st0 s e st (ls_init_var sh) ;;
  a <- rd_opt st0 s e st (ls_init_end sh) ;;
  b <- rd_opt st0 s e st (ls_init_step sh) ;;
  Ok {| st_var := Some v; st_end := a; st_step := b |}.

Fixpoint shape_loop (fuel : nat) (sh : loop_shape) (q : lstate) (s e st : Z) : M (list Z) :=
  match fuel with
  | O => OutOfFuel
  | S f =>
    a <- rd q s e st (ls_cond_lhs sh) ;;
    b <- rd q s e st (ls_cond_rhs sh) ;;
    if cmp_eval (ls_cond_op sh) a b then
      v <- rd q s e st (OSlot SVar) ;;                       (* the value the body sees *)
      p <- rd q s e st (OSlot (ls_post_lhs sh)) ;;
      d <- rd q s e st (ls_post_rhs sh) ;;
      x <- shape_loop f sh (set_slot q (ls_post_lhs sh) (post_eval (ls_post_op sh) p d)) s e st ;;
      Ok (v :: x)
    else Ok []
  end.

Definition run_shape (fuel : nat) (sh : loop_shape) (s e st : Z) : M (list Z) :=
  q <- init_state sh s e st ;;
  shape_loop fuel sh q s e st.

(* ---- the runtime iterator ---- *)
(* Gop_Enum:  n := End - Start + step; if step > 0 { n = (n-1)/step } else { n = (n+1)/step }
   Go's / truncates (Z.quot); step = 0 is an integer-divide-by-zero panic *)
Definition iter_count (s e st : Z) : M Z :=
  let n := e - s + st in
  if 0 <? st then Ok (Z.quot (n - 1) st)
  else if st =? 0 then Panic
  else Ok (Z.quot (n + 1) st).

(* Next: if p.n > 0 { val, ok = p.val, true; p.val += p.step; p.n-- } ; the consumer stops at !ok *)
Fixpoint iter_run (fuel : nat) (n val st : Z) : M (list Z) :=
  match fuel with
  | O => OutOfFuel
  | S f => if 0 <? n then x <- iter_run f (n - 1) (val + st) st ;; Ok (val :: x) else Ok []
  end.

Definition iter_seq (fuel : nat) (s e st : Z) : M (list Z) :=
  n <- iter_count s e st ;; iter_run fuel n s st.

(* NewRange__0 applied to the generated argument list *)
Definition iter_of_args (fuel : nat) (args : list opnd) (s e st : Z) : M (list Z) :=
  match args with
  | [a; b; c] => x <- rd st0 s e st a ;; y <- rd st0 s e st b ;; z <- rd st0 s e st c ;; iter_seq fuel x y z
  | _ => Panic
  end.

(* the closed form both are compared with:  s, s+st, ..., the k-th element being s + k*st *)
Fixpoint arith_list (k : nat) (v st : Z) : list Z :=
  match k with O => [] | S k' => v :: arith_list k' (v + st) st end.
(* number of elements of start:end:step for step > 0 : ceil((e-s)/st), 0 when e <= s *)
Definition count_pos (s e st : Z) : Z := if s <? e then (e - s + st - 1) / st else 0.
Definition range_list (s e st : Z) : list Z := arith_list (Z.to_nat (count_pos s e st)) s st.
(* for step < 0 the documented reading is the mirror image: s, s+st, ... while > e *)
Definition count_neg (s e st : Z) : Z := if e <? s then (s - e + (- st) - 1) / (- st) else 0.
Definition range_list_neg (s e st : Z) : list Z := arith_list (Z.to_nat (count_neg s e st)) s st.

Definition fuel_bound (s e st : Z) : nat := S (S (Z.to_nat ((e - s) / st))).
