(* M-EXPR: token-level model of the expression printer (printer/nodes.go: expr1, binaryExpr,
   selectorExpr, exprList without line information) and of the expression parser
   (parser/parser.go: parseLambdaExpr, parseBinaryExpr, parseUnaryExpr, parseErrWrapExpr,
   parsePrimaryExpr, parseOperand, parseCallOrConversion, parseIndexOrSlice) as reached from
   parser.ParseExpr (lhs = false, allowCmd = false, allowRangeExpr = false, inRHS = true).
   Token codes and the precedence table are the regenerated ones of Gen/Tokens.v.  No proofs here. *)
From Coq Require Import List ZArith Bool.
Import ListNotations.
From V Require Import Base.Prelude Gen.Tokens.
Open Scope Z_scope.

(* ---------- tokens and trees ---------- *)
Inductive tok := TId (s : str) | TLit (k : Z) (s : str) | TOp (z : Z).

Inductive expr :=
| EId (s : str)                                   (* *ast.Ident *)
| ELit (k : Z) (s : str)                          (* *ast.BasicLit *)
| EUn (op : Z) (x : expr)                         (* *ast.UnaryExpr *)
| EStar (x : expr)                                (* *ast.StarExpr *)
| EBin (op : Z) (x y : expr)                      (* *ast.BinaryExpr *)
| EPar (x : expr)                                 (* *ast.ParenExpr *)
| ECall (f : expr) (args : list expr) (ell : bool)(* *ast.CallExpr, NoParenEnd = NoPos *)
| EIdx (x i : expr)                               (* *ast.IndexExpr *)
| ESel (x : expr) (name : str)                    (* *ast.SelectorExpr *)
| EEw (t : Z) (x : expr)                          (* *ast.ErrWrapExpr, Default = nil *)
| EEwd (t : Z) (x d : expr)                       (* *ast.ErrWrapExpr with Default *)
| ELam (lhs : list str) (lp : bool) (rhs : list expr) (rp : bool). (* *ast.LambdaExpr *)

(* token.LowestPrec / UnaryPrec / HighestPrec (token/token.go) *)
Definition LowestPrec : Z := 0.
Definition UnaryPrec : Z := 6.
Definition HighestPrec : Z := 7.

(* Token.Precedence(), regenerated from token/token.go (it cannot panic: no indexing) *)
Definition prec (z : Z) : Z := match xgo_Precedence z with Ok p => p | _ => 0 end.

Definition LP := TOp xgo_LPAREN.
Definition RP := TOp xgo_RPAREN.
Definition COMMA := TOp xgo_COMMA.

(* ---------- printer ----------
   expr1(expr, prec1, depth) restricted to its token output.  BinaryExpr, UnaryExpr, StarExpr,
   ErrWrapExpr with a default and LambdaExpr look at prec1; every other case ignores it.  plev is the
   precedence the printer compares with prec1 ("never parenthesised" = above HighestPrec). *)
Definition plev (e : expr) : Z :=
  match e with
  | EBin op _ _ => prec op
  | EUn _ _ | EStar _ => UnaryPrec
  | EEwd _ _ _ => UnaryPrec             (* ErrWrapExpr: paren := x.Default != nil && token.UnaryPrec < prec1 *)
  | ELam _ _ _ _ => LowestPrec          (* LambdaExpr: parentheses when token.LowestPrec < prec1 *)
  | _ => HighestPrec + 1
  end.

Fixpoint pr (e : expr) : list tok :=           (* expr1(e, LowestPrec, _) *)
  (* expr1(x, p, _): binaryExpr "prec < prec1 => parenthesis needed"; StarExpr/UnaryExpr "prec < prec1" *)
  let at_ (p : Z) (x : expr) := if plev x <? p then LP :: pr x ++ [RP] else pr x in
  (* exprList without positions: x0, x1, ... each through expr0 *)
  let prl (l : list expr) := match l with [] => [] | a :: t => pr a ++ flat_map (fun x => COMMA :: pr x) t end in
  match e with
  | EId s => [TId s]
  | ELit k s => [TLit k s]
  | EBin op x y => at_ (prec op) x ++ TOp op :: at_ (prec op + 1) y
  | EUn op x => TOp op :: at_ UnaryPrec x                  (* p.expr1(x.X, prec, depth) *)
  | EStar x => TOp xgo_MUL :: at_ UnaryPrec x               (* p.expr1(x.X, prec, depth) *)
  | EPar x => match x with
              | EPar _ => pr x                              (* don't print parentheses around an already parenthesized expression *)
              | _ => LP :: pr x ++ [RP]
              end
  | ESel x s => at_ HighestPrec x ++ [TOp xgo_PERIOD; TId s]
  | EIdx x i => at_ HighestPrec x ++ TOp xgo_LBRACK :: pr i ++ [TOp xgo_RBRACK]
  | ECall f args ell => at_ HighestPrec f ++ LP :: prl args ++ (if ell then [TOp xgo_ELLIPSIS; RP] else [RP])
  | EEw t x => at_ HighestPrec x ++ [TOp t]                 (* p.expr1(x.X, token.HighestPrec, depth); p.print(x.Tok) *)
  | EEwd t x d => at_ HighestPrec x ++ TOp t :: TOp xgo_COLON :: at_ UnaryPrec d
                                                            (* ... p.print(token.COLON); p.expr1(x.Default, token.UnaryPrec, depth) *)
  | ELam lhs lp rhs rp =>
      (if lp then LP :: match lhs with [] => [] | a :: t => TId a :: flat_map (fun s => [COMMA; TId s]) t end ++ [RP]
       else match lhs with [] => [] | a :: _ => [TId a] end) ++
      TOp xgo_DRARROW ::
      (if rp then LP :: prl rhs ++ [RP] else match rhs with a :: _ => pr a | [] => [] end)
  end.

Definition at_ (p : Z) (x : expr) := if plev x <? p then LP :: pr x ++ [RP] else pr x.
Definition prl (l : list expr) := match l with [] => [] | a :: t => pr a ++ flat_map (fun x => COMMA :: pr x) t end.

(* ---------- parser ---------- *)
Inductive pv := PE (e : expr) | PT (items : list expr) (ell : bool).   (* an expression, or a tupleExpr *)

(* RErr: the parser has reported (at least) one error.  RUnsup: the input leaves the modelled
   fragment (types, literals in braces, slices, type assertions, lambda bodies).  RFuel: fuel. *)
Inductive res := ROk (v : pv) (r : list tok) | RErr | RUnsup | RFuel.

Inductive st :=
| SExpr                           (* parseExpr(false,false,false) -> parseLambdaExpr *)
| SLam (x : option pv)            (* parseLambdaExpr from "=>" on; x = what was parsed before it *)
| SLamRhs (acc : list expr)       (* the "( e, e, ... )" loop of a lambda body *)
| SBinary (p1 : Z) (atp : bool)   (* parseBinaryExpr(false, p1, allowTuple, false) *)
| SBinLoop (p1 : Z) (x : expr)    (* its for loop, accumulator x *)
| SUnary (atp : bool)             (* parseUnaryExpr *)
| SErrWrap (atp : bool)           (* parseErrWrapExpr *)
| SPrimary (atp : bool)           (* parsePrimaryExpr *)
| SPrimLoop (x : expr)            (* its for loop L, accumulator x *)
| SOperand (atp : bool)           (* parseOperand *)
| STuple (acc : list expr)        (* "(x, y, ...)" items after the first *)
| SArgs (fn : expr) (acc : list expr). (* parseCallOrConversion(fn, false): loop head *)

Definition hd_is (z : Z) (ts : list tok) : bool :=
  match ts with TOp z' :: _ => Z.eqb z' z | _ => false end.

Definition is_unop (z : Z) : bool :=
  Z.eqb z xgo_ADD || Z.eqb z xgo_SUB || Z.eqb z xgo_NOT || Z.eqb z xgo_XOR || Z.eqb z xgo_AND.

(* tokens that start an operand outside the fragment (parseOperand / tryIdentOrType) *)
Definition unsup_operand (z : Z) : bool :=
  Z.eqb z xgo_FUNC || Z.eqb z xgo_LBRACE || Z.eqb z xgo_MAP || Z.eqb z xgo_GOTO || Z.eqb z xgo_TYPE ||
  Z.eqb z xgo_BREAK || Z.eqb z xgo_CONTINUE || Z.eqb z xgo_FALLTHROUGH || Z.eqb z xgo_ENV ||
  Z.eqb z xgo_LBRACK || Z.eqb z xgo_STRUCT || Z.eqb z xgo_INTERFACE || Z.eqb z xgo_CHAN.

Definition kw_as_ident (z : Z) : bool :=
  Z.eqb z xgo_GOTO || Z.eqb z xgo_BREAK || Z.eqb z xgo_CONTINUE || Z.eqb z xgo_FALLTHROUGH.

(* tokPrec with inRHS = true: '=' is taken for '==' *)
Definition tok_op (z : Z) : Z := if Z.eqb z xgo_ASSIGN then xgo_EQL else z.

Fixpoint unpar (e : expr) : expr := match e with EPar x => unpar x | _ => e end.
Definition is_par (e : expr) : bool := match e with EPar _ => true | _ => false end.

Fixpoint idents (l : list expr) : option (list str) :=
  match l with
  | [] => Some []
  | EId s :: t => match idents t with Some r => Some (s :: r) | None => None end
  | _ => None
  end.

(* the Lhs of a lambda from what precedes "=>" (toIdent; ParenExpr => LhsHasParen, retry) *)
Definition lam_lhs (x : option pv) : option (list str * bool) :=
  match x with
  | None => Some ([], false)
  | Some (PT items _) => match idents items with Some l => Some (l, true) | None => None end
  | Some (PE e) => match unpar e with EId s => Some ([s], is_par e) | _ => None end
  end.

(* one layer of the parser: every call of a parser function / loop iteration goes through rec *)
Definition step (rec : st -> list tok -> res) (s : st) (ts : list tok) : res :=
  match s with
  | SExpr =>
      if hd_is xgo_DRARROW ts then rec (SLam None) ts
      else match rec (SBinary (LowestPrec + 1) true) ts with
           | ROk v r =>
               if hd_is xgo_DRARROW r then rec (SLam (Some v)) r
               else match v with
                    | PE e => ROk (PE e) r
                    | PT _ _ => RErr                      (* isTuple && !allowTuple: tuple is not supported *)
                    end
           | x => x
           end
  | SLam x =>
      match ts with
      | TOp _ :: r =>                                      (* "=>"; p.next() *)
          if hd_is xgo_LBRACE r then RUnsup                (* LambdaExpr2 *)
          else
            let k (rhs : list expr) (rp : bool) (r' : list tok) :=
              match lam_lhs x with
              | Some (lhs, lp) => ROk (PE (ELam lhs lp rhs rp)) r'
              | None => RErr                               (* toIdent: expected 'IDENT' *)
              end in
            if hd_is xgo_LPAREN r then
              match rec (SLamRhs []) (tl r) with
              | ROk (PT items _) r' => k items true r'
              | ROk (PE _) _ => RErr
              | y => y
              end
            else match rec SExpr r with
                 | ROk (PE e) r' => k [e] false r'
                 | ROk (PT _ _) _ => RErr
                 | y => y
                 end
      | _ => RErr
      end
  | SLamRhs acc =>
      match rec SExpr ts with
      | ROk (PE e) r =>
          match r with
          | TOp z :: r' =>
              if Z.eqb z xgo_COMMA then rec (SLamRhs (acc ++ [e])) r'
              else if Z.eqb z xgo_RPAREN then ROk (PT (acc ++ [e]) false) r'
              else RErr
          | _ => RErr
          end
      | ROk (PT _ _) _ => RErr
      | y => y
      end
  | SBinary p1 atp =>
      match rec (SUnary atp) ts with
      | ROk (PE x) r => rec (SBinLoop p1 x) r
      | y => y                                             (* a tuple is returned at once *)
      end
  | SBinLoop p1 x =>
      match ts with
      | TOp z :: r =>
          let op := tok_op z in
          let oprec := prec op in
          if oprec <? p1 then ROk (PE x) ts
          else if negb (Z.eqb z op) then RErr              (* p.expect(op) with tok '=' and op '==' *)
          else match rec (SBinary (oprec + 1) false) r with
               | ROk (PE y) r' => rec (SBinLoop p1 (EBin op x y)) r'
               | ROk (PT _ _) _ => RErr
               | y => y
               end
      | _ => if 0 <? p1 then ROk (PE x) ts else RUnsup     (* IDENT, literal, EOF: precedence 0; p1 >= 1 always *)
      end
  | SUnary atp =>
      match ts with
      | TOp z :: r =>
          if is_unop z || Z.eqb z xgo_ARROW then
            match rec (SUnary false) r with
            | ROk (PE x) r' => ROk (PE (EUn z x)) r'
            | ROk (PT _ _) _ => RErr
            | y => y
            end
          else if Z.eqb z xgo_MUL then
            match rec (SUnary false) r with
            | ROk (PE x) r' => ROk (PE (EStar x)) r'
            | ROk (PT _ _) _ => RErr
            | y => y
            end
          else rec (SErrWrap atp) ts
      | _ => rec (SErrWrap atp) ts
      end
  | SErrWrap atp =>
      match rec (SPrimary atp) ts with
      | ROk (PE (EEw t x0)) r =>
          if hd_is xgo_COLON r then
            match rec (SUnary false) (tl r) with
            | ROk (PE d) r' => ROk (PE (EEwd t x0 d)) r'
            | ROk (PT _ _) _ => RErr
            | y => y
            end
          else ROk (PE (EEw t x0)) r
      | y => y
      end
  | SPrimary atp =>
      match rec (SOperand atp) ts with
      | ROk (PE x) r => rec (SPrimLoop x) r
      | y => y
      end
  | SPrimLoop x =>
      match ts with
      | TOp z :: r =>
          if Z.eqb z xgo_PERIOD then
            match r with
            | TId s :: r' => rec (SPrimLoop (ESel x s)) r'
            | TOp z2 :: _ => if Z.eqb z2 xgo_LPAREN || kw_as_ident z2 then RUnsup else RErr
            | _ => RErr                                    (* expected selector or type assertion *)
            end
          else if Z.eqb z xgo_LBRACK then                  (* parseIndexOrSlice *)
            if hd_is xgo_COLON r then RUnsup
            else match rec SExpr r with                    (* parseRHS *)
                 | ROk (PE i) r' =>
                     match r' with
                     | TOp z2 :: r'' =>
                         if Z.eqb z2 xgo_COLON || Z.eqb z2 xgo_COMMA then RUnsup
                         else if Z.eqb z2 xgo_RBRACK then rec (SPrimLoop (EIdx x i)) r''
                         else RErr
                     | _ => RErr
                     end
                 | ROk (PT _ _) _ => RErr
                 | y => y
                 end
          else if Z.eqb z xgo_LPAREN then rec (SArgs x []) r
          else if Z.eqb z xgo_LBRACE then RUnsup
          else if Z.eqb z xgo_NOT || Z.eqb z xgo_QUESTION then rec (SPrimLoop (EEw z x)) r
          else ROk (PE x) ts
      | _ => ROk (PE x) ts
      end
  | SArgs fn acc =>
      let arg :=
        match rec SExpr ts with                            (* parseRHSOrTypeEx(false) *)
        | ROk (PE a) r =>
            match r with
            | TOp z :: r1 =>
                if Z.eqb z xgo_ELLIPSIS then               (* ellipsis = p.pos; p.next(); atComma; loop ends *)
                  match r1 with
                  | TOp z2 :: r2 =>
                      if Z.eqb z2 xgo_COMMA then
                        match r2 with
                        | TOp z3 :: r3 => if Z.eqb z3 xgo_RPAREN then rec (SPrimLoop (ECall fn (acc ++ [a]) true)) r3 else RErr
                        | _ => RErr
                        end
                      else if Z.eqb z2 xgo_RPAREN then rec (SPrimLoop (ECall fn (acc ++ [a]) true)) r2
                      else RErr
                  | _ => RErr
                  end
                else if Z.eqb z xgo_COMMA then rec (SArgs fn (acc ++ [a])) r1
                else if Z.eqb z xgo_RPAREN then rec (SPrimLoop (ECall fn (acc ++ [a]) false)) r1
                else RErr                                  (* missing ',' in argument list *)
            | _ => RErr
            end
        | ROk (PT _ _) _ => RErr
        | y => y
        end in
      match ts with
      | [] => RErr                                         (* EOF: expected ')' *)
      | TOp z :: r => if Z.eqb z xgo_RPAREN then rec (SPrimLoop (ECall fn acc false)) r else arg
      | _ => arg
      end
  | SOperand atp =>
      match ts with
      | TId s :: r => ROk (PE (EId s)) r
      | TLit k s :: r => ROk (PE (ELit k s)) r
      | TOp z :: r =>
          if Z.eqb z xgo_LPAREN then
            if atp && hd_is xgo_RPAREN r then ROk (PT [] false) (tl r)
            else match rec SExpr r with                    (* parseRHSOrType *)
                 | ROk (PE x) r' =>
                     if atp && (hd_is xgo_COMMA r' || hd_is xgo_ELLIPSIS r') then rec (STuple [x]) r'
                     else match r' with
                          | TOp z2 :: r'' => if Z.eqb z2 xgo_RPAREN then ROk (PE (EPar x)) r'' else RErr
                          | _ => RErr
                          end
                 | ROk (PT _ _) _ => RErr
                 | y => y
                 end
          else if unsup_operand z then RUnsup
          else RErr                                        (* expected operand *)
      | [] => RErr
      end
  | STuple acc =>
      match ts with
      | TOp z :: r =>
          if Z.eqb z xgo_COMMA then
            match rec SExpr r with
            | ROk (PE x) r' => rec (STuple (acc ++ [x])) r'
            | ROk (PT _ _) _ => RErr
            | y => y
            end
          else if Z.eqb z xgo_ELLIPSIS then
            match r with
            | TOp z2 :: r' => if Z.eqb z2 xgo_RPAREN then ROk (PT acc true) r' else RErr
            | _ => RErr
            end
          else if Z.eqb z xgo_RPAREN then ROk (PT acc false) r
          else RErr
      | _ => RErr
      end
  end.

Fixpoint P (fuel : nat) : st -> list tok -> res :=
  match fuel with O => fun _ _ => RFuel | S f => step (P f) end.

(* ParseExprFrom: parseRHS, then EOF expected *)
Definition parse_expr (fuel : nat) (ts : list tok) : res :=
  match P fuel SExpr ts with
  | ROk (PE e) [] => ROk (PE e) []
  | ROk _ _ => RErr
  | y => y
  end.

Definition fuel_for (ts : list tok) : nat := 14 * length ts + 14.   (* enough: Proofs/ExprTotal.v, parse_total *)
Definition parse (ts : list tok) : res := parse_expr (fuel_for ts) ts.

(* ---------- the tree the parser must give back ----------
   norm inserts an EPar wherever the printer inserts parentheses and drops the outer one of a
   doubled EPar (which the printer does not print). *)
Fixpoint norm (e : expr) : expr :=
  let nat_ (p : Z) (x : expr) := if plev x <? p then EPar (norm x) else norm x in
  match e with
  | EId s => EId s
  | ELit k s => ELit k s
  | EBin op x y => EBin op (nat_ (prec op) x) (nat_ (prec op + 1) y)
  | EUn op x => EUn op (nat_ UnaryPrec x)
  | EStar x => EStar (nat_ UnaryPrec x)
  | EPar x => match x with EPar _ => norm x | _ => EPar (norm x) end
  | ESel x s => ESel (nat_ HighestPrec x) s
  | EIdx x i => EIdx (nat_ HighestPrec x) (norm i)
  | ECall f args ell => ECall (nat_ HighestPrec f) (map norm args) ell
  | EEw t x => EEw t (nat_ HighestPrec x)
  | EEwd t x d => EEwd t (nat_ HighestPrec x) (nat_ UnaryPrec d)
  | ELam lhs lp rhs rp => ELam lhs lp (map norm rhs) rp
  end.
Definition nat_ (p : Z) (x : expr) := if plev x <? p then EPar (norm x) else norm x.

Fixpoint strip (e : expr) : expr :=
  match e with
  | EId s => EId s
  | ELit k s => ELit k s
  | EBin op x y => EBin op (strip x) (strip y)
  | EUn op x => EUn op (strip x)
  | EStar x => EStar (strip x)
  | EPar x => strip x
  | ESel x s => ESel (strip x) s
  | EIdx x i => EIdx (strip x) (strip i)
  | ECall f args ell => ECall (strip f) (map strip args) ell
  | EEw t x => EEw t (strip x)
  | EEwd t x d => EEwd t (strip x) (strip d)
  | ELam lhs lp rhs rp => ELam lhs lp (map strip rhs) rp
  end.

(* the precedence level at which the parser reads each kind of expression:
   0 lambda, 1..5 binary, 6 unary and error wrap with default, 8 primary *)
Definition tlev (e : expr) : Z :=
  match e with
  | EBin op _ _ => prec op
  | EUn _ _ | EStar _ => UnaryPrec
  | EEwd _ _ _ => UnaryPrec             (* read by parseErrWrapExpr, i.e. wherever a unary expression is read *)
  | ELam _ _ _ _ => 0
  | _ => 8
  end.

(* ---------- decidable side conditions of the round-trip theorem ---------- *)
Definition is_binop (z : Z) : bool := (0 <=? z) && (z <? 128) && (0 <? prec z).
Definition un_ok (z : Z) : bool := is_unop z || Z.eqb z xgo_ARROW.
Definition ew_ok (z : Z) : bool := Z.eqb z xgo_NOT || Z.eqb z xgo_QUESTION.
Definition is_nil {A} (l : list A) : bool := match l with [] => true | _ => false end.

(* well-formed: operators are operators, a "..." call has an argument, lambda fields are consistent *)
Fixpoint validb (e : expr) : bool :=
  match e with
  | EId _ | ELit _ _ => true
  | EUn op x => un_ok op && validb x
  | EStar x => validb x
  | EPar x => validb x
  | EBin op x y => is_binop op && validb x && validb y
  | ECall f args ell => validb f && forallb validb args && (negb ell || negb (is_nil args))
  | EIdx x i => validb x && validb i
  | ESel x _ => validb x
  | EEw t x => ew_ok t && validb x
  | EEwd t x d => ew_ok t && validb x && validb d
  | ELam lhs lp rhs rp =>
      (lp || (length lhs <=? 1)%nat) && negb (is_nil rhs) && (rp || (length rhs =? 1)%nat) && forallb validb rhs
  end.

Fixpoint nolamb (e : expr) : bool :=
  match e with
  | EId _ | ELit _ _ => true
  | EUn _ x | EStar x | EPar x | ESel x _ | EEw _ x => nolamb x
  | EBin _ x y | EIdx x y | EEwd _ x y => nolamb x && nolamb y
  | ECall f args _ => nolamb f && forallb nolamb args
  | ELam _ _ _ _ => false
  end.

(* does the printed form start with "(" ? *)
Fixpoint starts_lp (e : expr) : bool :=
  match e with
  | EId _ | ELit _ _ | EUn _ _ | EStar _ => false
  | EPar _ => true
  | EBin op x _ => (plev x <? prec op) || starts_lp x
  | ECall x _ _ | EIdx x _ | ESel x _ => (plev x <? HighestPrec) || starts_lp x
  | EEw _ x | EEwd _ x _ => (plev x <? HighestPrec) || starts_lp x
  | ELam _ lp _ _ => lp
  end.

(* an operand printed in context p (parenthesised iff plev x < p) is read back at its place iff
   it is parenthesised or the parser's level for that place, req, is at most its own level *)
Definition ok_at (p req : Z) (x : expr) : bool := (plev x <? p) || (req <=? tlev x).

Fixpoint posokb (e : expr) : bool :=
  match e with
  | EId _ | ELit _ _ => true
  | EBin op x y => ok_at (prec op) (prec op) x && ok_at (prec op + 1) (prec op + 1) y && posokb x && posokb y
  | EUn _ x => ok_at UnaryPrec UnaryPrec x && posokb x
  | EStar x => ok_at UnaryPrec UnaryPrec x && posokb x
  | EPar x => posokb x
  | ECall f args _ => ok_at HighestPrec 8 f && posokb f && forallb posokb args
  | EIdx x i => ok_at HighestPrec 8 x && posokb x && posokb i
  | ESel x _ => ok_at HighestPrec 8 x && posokb x
  | EEw _ x => ok_at HighestPrec 8 x && posokb x
  | EEwd _ x d => ok_at HighestPrec 8 x && ok_at UnaryPrec UnaryPrec d && posokb x && posokb d
  | ELam _ _ rhs rp => forallb posokb rhs && (rp || negb (match rhs with a :: _ => starts_lp a | [] => false end))
  end.

(* no explicit parentheses anywhere (the trees C22 speaks about) *)
Fixpoint noparb (e : expr) : bool :=
  match e with
  | EId _ | ELit _ _ => true
  | EPar _ => false
  | EUn _ x | EStar x | ESel x _ | EEw _ x => noparb x
  | EBin _ x y | EIdx x y | EEwd _ x y => noparb x && noparb y
  | ECall f args _ => noparb f && forallb noparb args
  | ELam _ _ rhs _ => forallb noparb rhs
  end.

(* the printer adds no parentheses and drops none: every operand is at least as tight as its
   position, no doubled parentheses (true of every tree the parser returns) *)
Definition tight (p : Z) (x : expr) : bool := negb (plev x <? p).
Fixpoint noaddb (e : expr) : bool :=
  match e with
  | EId _ | ELit _ _ => true
  | EBin op x y => tight (prec op) x && tight (prec op + 1) y && noaddb x && noaddb y
  | EUn _ x => tight UnaryPrec x && noaddb x
  | EStar x => tight UnaryPrec x && noaddb x
  | EPar x => negb (is_par x) && noaddb x
  | ECall f args _ => tight HighestPrec f && noaddb f && forallb noaddb args
  | EIdx x i => tight HighestPrec x && noaddb x && noaddb i
  | ESel x _ => tight HighestPrec x && noaddb x
  | EEw _ x => tight HighestPrec x && noaddb x
  | EEwd _ x d => tight HighestPrec x && tight UnaryPrec d && noaddb x && noaddb d
  | ELam _ _ rhs _ => forallb noaddb rhs
  end.

(* since the printer parenthesises every operand whose level is below its position, the only operand
   position that can still be misread is a lambda body that starts with "(" (read as a result list) *)
Fixpoint lamokb (e : expr) : bool :=
  match e with
  | EId _ | ELit _ _ => true
  | EUn _ x | EStar x | EPar x | ESel x _ | EEw _ x => lamokb x
  | EBin _ x y | EIdx x y | EEwd _ x y => lamokb x && lamokb y
  | ECall f args _ => lamokb f && forallb lamokb args
  | ELam _ _ rhs rp => forallb lamokb rhs && (rp || negb (match rhs with a :: _ => starts_lp a | [] => false end))
  end.
