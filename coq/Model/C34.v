(* Model of parser/parser_gop.go: ParseFSDir (the loop over the directory listing with its extension
   switch), ParseFSEntry (the single-file variant), defaultClassKind, reqPkg.  No proofs here.

   The parsers themselves are not modelled: every directory entry carries what ParseFSFile (with and
   without the ParseGoPlusClass mode bit) and go/parser.ParseFile return for it; the model is the
   selection / classification / grouping logic around them. *)
From Coq Require Import List NArith ZArith Bool.
Import ListNotations.
From V Require Import Base.Prelude.
Open Scope N_scope.

Definition SLASH : N := 47.
Definition DOT : N := 46.
Definition USCORE : N := 95.

(* path.Ext *)
Fixpoint ext_aux (s : str) (acc : option str) : option str :=
  match s with
  | [] => acc
  | c :: t => if c =? SLASH then ext_aux t None
              else if c =? DOT then ext_aux t (Some (c :: t))
              else ext_aux t acc
  end.
Definition path_ext (s : str) : str := match ext_aux s None with Some e => e | None => [] end.

(* strings.HasPrefix *)
Fixpoint has_prefix (p s : str) : bool :=
  match p, s with
  | [], _ => true
  | x :: p', y :: s' => (x =? y) && has_prefix p' s'
  | _ :: _, [] => false
  end.

Definition ext_xgo : str := [46;120;103;111].
Definition ext_gop : str := [46;103;111;112].
Definition ext_go : str := [46;103;111].
Definition ext_gox : str := [46;103;111;120].
Definition ext_spx : str := [46;115;112;120].
Definition ext_gsh : str := [46;103;115;104].
Definition ext_gmx : str := [46;103;109;120].
Definition main_spx : str := [109;97;105;110;46;115;112;120].
Definition autogen_prefix : str := [103;111;112;95;97;117;116;111;103;101;110].   (* gop_autogen *)
Definition us : str := [USCORE].

(* defaultClassKind: (isProj, ok) *)
Definition default_class_kind (fname : str) : bool * bool :=
  let ext := path_ext fname in
  if str_eqb ext ext_spx then (str_eqb fname main_spx, true)
  else if str_eqb ext ext_gsh || str_eqb ext ext_gmx then (true, true)
  else (false, false).

(* what a parser call returned: the file (None = nil; Some None = file without Name; Some (Some n) =
   package name n) and whether err != nil *)
Definition xout := (option (option str) * bool)%type.

Record entry := mkF {
  f_name : str;          (* d.Name() *)
  f_dir : bool;          (* d.IsDir() *)
  f_info_ok : bool;      (* d.Info() returned no error *)
  f_filt : bool;         (* conf.Filter(info), when there is a filter *)
  f_x_plain : xout;      (* ParseFSFile(..., mode) *)
  f_x_class : xout;      (* ParseFSFile(..., mode|ParseGoPlusClass) *)
  f_go : option str      (* go/parser.ParseFile after ReadFile: Some package name, None = any error *)
}.

Record config := mkC {
  c_ck : str -> bool * bool;   (* conf.ClassKind (defaultClassKind when nil) *)
  c_filter : bool;             (* conf.Filter != nil *)
  c_go_as_x : bool             (* conf.Mode & ParseGoAsGoPlus != 0 *)
}.

(* how a selected file is parsed and flagged *)
Inductive kind :=
| KGo                                              (* go/parser, filed under pkg.GoFiles *)
| KX (isProj isClass isNormalGox : bool).          (* XGo parser, f.IsProj / f.IsClass / f.IsNormalGox *)

(* the  switch ext { ... }  of ParseFSDir; None = `continue` *)
Definition classify (c : config) (fname : str) : option kind :=
  let ext := path_ext fname in
  if str_eqb ext ext_xgo || str_eqb ext ext_gop then Some (KX false false false)
  else if str_eqb ext ext_go then
    if has_prefix autogen_prefix fname then None
    else if c_go_as_x c then Some (KX false false false) else Some KGo
  else
    let isNormalGox := str_eqb ext ext_gox in          (* case ".gox": isNormalGox = true; fallthrough *)
    let '(isProj, isClass) := c_ck c fname in
    if isClass then Some (KX isProj true false)
    else if isNormalGox then Some (KX isProj true true)
    else None.

Record item := mkI { i_pkg : str; i_file : str; i_kind : kind }.

(* one iteration of the loop: the file added to the package map (if any) and whether `first` is set *)
Definition step (c : config) (e : entry) : option item * bool :=
  if f_dir e then (None, false) else
  match classify c (f_name e) with
  | None => (None, false)
  | Some k =>
    if negb (has_prefix us (f_name e)) && (negb (c_filter c) || (f_info_ok e && f_filt e)) then
      match k with
      | KGo =>
        match f_go e with
        | Some p => (Some (mkI p (f_name e) KGo), false)
        | None => (None, true)
        end
      | KX isProj isClass isNormalGox =>
        let '(file, err) := if isClass then f_x_class e else f_x_plain e in
        (match file with
         | Some (Some p) => Some (mkI p (f_name e) k)
         | _ => None
         end, err)
      end
    else (None, false)
  end.

(* the files selected, in listing order, and whether an error is returned *)
Fixpoint select_files (c : config) (l : list entry) : list item * bool :=
  match l with
  | [] => ([], false)
  | e :: t =>
    let '(oi, err) := step c e in
    let '(its, err') := select_files c t in
    (match oi with Some i => i :: its | None => its end, err || err')
  end.

(* reqPkg + pkg.Files[filename] = f / pkg.GoFiles[filename] = src : the package map as an association
   list in order of first appearance, each package with its files in order of insertion *)
Fixpoint add_item (it : item) (m : list (str * list item)) : list (str * list item) :=
  match m with
  | [] => [(i_pkg it, [it])]
  | (k, v) :: t => if str_eqb k (i_pkg it) then (k, v ++ [it]) :: t else (k, v) :: add_item it t
  end.
Definition group (its : list item) : list (str * list item) := fold_left (fun m it => add_item it m) its [].

Definition parse_dir (c : config) (l : list entry) : list (str * list item) * bool :=
  let '(its, err) := select_files c l in (group its, err).

(* ParseFSEntry: classification by file name only; None = ErrUnknownFileKind; the flags put on the file
   and the class mode bit are (isProj, isClass, isNormalGox) *)
Definition classify_entry (ck : str -> bool * bool) (fname : str) : option (bool * bool * bool) :=
  let ext := path_ext fname in
  if str_eqb ext ext_xgo || str_eqb ext ext_gop || str_eqb ext ext_go then Some (false, false, false)
  else
    let isNormalGox := str_eqb ext ext_gox in
    let '(isProj, isClass) := ck fname in
    if isClass then Some (isProj, true, false)
    else if isNormalGox then Some (isProj, true, true)
    else None.
