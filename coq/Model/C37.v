(* C37 — model of ast/fromgo/gopast.go and ast/togo/goast.go over the generic tree.
   Both directions are DATA (Gen/AstConv.v: from_table, to_table, regenerated from the two Go
   files); this file is the interpreter of such a table, the specification `strip` (what a
   declaration header is), and the decidable obligation on a pair of tables.  No proofs. *)
From Coq Require Import List String ZArith NArith Bool.
Import ListNotations.
From V Require Import Base.Prelude Base.AstTree Base.AstConv.
Open Scope string_scope.
Open Scope list_scope.

Definition structs := list (string * list (string * fclass)).

(* Go zero value of a field, by class; a nil slice is VNil, an empty non-nil slice is VList [] *)
Definition zero (c : fclass) : value :=
  match c with
  | FPos => VPos 0
  | FTok | FInt => VTok 0
  | FStr => VStr ""
  | FBool => VBool false
  | _ => VNil
  end.

(* &K{f1: v1, ...}: every field of struct K, the named ones set, the others zero *)
Definition field_of (sets : list (string * value)) (f : string) (c : fclass) : value :=
  match assoc f sets with Some v => v | None => zero c end.
Definition mk_node (DS : structs) (k : string) (sets : list (string * value)) : M node :=
  match assoc k DS with
  | None => Panic
  | Some sf => Ok (Node 0 k (map (fun fc => (fst fc, field_of sets (fst fc) (snd fc))) sf))
  end.

Fixpoint mapM {A B} (f : A -> M B) (l : list A) : M (list B) :=
  match l with
  | [] => Ok []
  | x :: t => y <- f x ;; r <- mapM f t ;; Ok (y :: r)
  end.

(* ---------------------------------------------------------------- dispatch (normal form) *)

Definition chain : nat := 8.   (* bound on alias / return-call chains; the obligation checks it suffices *)

(* which composite literal a function builds for a non-nil argument of dynamic kind k:
   through  return fn(v)  aliases, type-switch cases and the static parameter type *)
Fixpoint resolve (T : ctable) (fuel : nat) (fn k : string) : option build :=
  match fuel with
  | O => None
  | S f =>
      match assoc fn T with
      | Some (FAlias g) => resolve T f g k
      | Some (FSwitch _ cases) =>
          match assoc k cases with
          | Some (BBuild b) => Some b
          | Some (BCall g) => resolve T f g k
          | None => None                      (* log.Panicln("unknown expr") *)
          end
      | Some (FBuild ak _ b) => if String.eqb ak k then Some b else None
      | _ => None
      end
  end.

(* does the function return nil for a nil argument (if v == nil { return nil })? otherwise it
   dereferences nil or reaches log.Panicln *)
Fixpoint nil_passes (T : ctable) (fuel : nat) (fn : string) : bool :=
  match fuel with
  | O => false
  | S f =>
      match assoc fn T with
      | Some (FAlias g) => nil_passes T f g
      | Some (FSwitch nc _) => nc
      | Some (FBuild _ nc _) => nc
      | _ => false
      end
  end.

(* ---------------------------------------------------------------- the interpreter *)

Definition in_toks (t : Z) (toks : list Z) : bool := existsb (Z.eqb t) toks.
Definition find_case (t : Z) (cases : list (list Z * string * string)) :=
  find (fun c => in_toks t (fst (fst c))) cases.

(* one iteration of the Specs loop:  switch v.Tok { case toks: l[i] = g(spec.( *K)) ... default: panic } *)
Definition spec_elem (rec : string -> value -> M value) (cases : list (list Z * string * string))
           (t : Z) (x : value) : M value :=
  match find_case t cases with
  | Some (_, g, k) =>
      match x with
      | VNode m => if String.eqb (kind m) k then rec g x else Panic
      | _ => Panic
      end
  | None => Panic
  end.

Section Conv.
  Context (T : ctable).     (* the conversion functions of one direction *)
  Context (DS : structs).   (* struct table of the tree being BUILT *)

  Definition field_val (rec : string -> value -> M value) (n : node) (c : fconv) : M value :=
    match c with
    | CCopy s => Ok (get s n)
    | CCast s => Ok (get s n)                        (* the numeric value is kept *)
    | CCall g s => rec g (get s n)
    | CMap g s => match get s n with       (* l := make([]T, len(v.s)): never nil *)
                  | VList l => xs <- mapM (rec g) l ;; Ok (VList xs)
                  | VNil => Ok (VList [])
                  | _ => Panic
                  end
    | CSpecs s tokf cases =>
        match get s n, get tokf n with
        | VList l, VTok t => xs <- mapM (spec_elem rec cases t) l ;; Ok (VList xs)
        | VNil, VTok _ => Ok (VList [])      (* make([]Spec, 0) *)
        | _, _ => Panic
        end
    | CEmpty k => r <- mk_node DS k [] ;; Ok (VNode r)
    | COpaque => Ok VOther
    end.

  Fixpoint run_sets (rec : string -> value -> M value) (n : node) (sets : list (string * fconv))
    : M (list (string * value)) :=
    match sets with
    | [] => Ok []
    | (f, c) :: t => v <- field_val rec n c ;; r <- run_sets rec n t ;; Ok ((f, v) :: r)
    end.

  Definition run_build (rec : string -> value -> M value) (b : build) (n : node) : M value :=
    vs <- run_sets rec n (b_sets b) ;; r <- mk_node DS (b_kind b) vs ;; Ok (VNode r).

  Fixpoint conv (fuel : nat) (fn : string) (v : value) : M value :=
    match fuel with
    | O => OutOfFuel
    | S f =>
        match assoc fn T with
        | Some (FMapList g nil_if_empty) =>
            (* gopExprs: n == 0 -> nil;  gopIdents / gopDecls: make([]T, len) (non-nil even for nil) *)
            match v with
            | VNil | VList [] => Ok (if nil_if_empty then VNil else VList [])
            | VList l => xs <- mapM (conv f g) l ;; Ok (VList xs)
            | _ => Panic
            end
        | Some _ =>
            match v with
            | VNil => if nil_passes T chain fn then Ok VNil else Panic
            | VNode n => match resolve T chain fn (kind n) with
                         | Some b => run_build (conv f) b n
                         | None => Panic
                         end
            | _ => Panic
            end
        | None => Panic
        end
    end.
End Conv.

(* ---------------------------------------------------------------- the specification *)

(* What of a Go declaration tree is "header": everything except comments, resolved objects,
   the Incomplete flags, function bodies (replaced by an empty block), and of a File everything
   but Package, Name, Decls. *)
Inductive fmode := Keep | Drop | EmptyBlock.

Definition file_dropped : list string :=
  ["FileStart"; "FileEnd"; "Scope"; "Imports"; "Unresolved"; "Comments"; "GoVersion"].

Definition field_mode (k f : string) : fmode :=
  if String.eqb f "Doc" || String.eqb f "Comment" || String.eqb f "Incomplete" then Drop
  else if (String.eqb k "FuncDecl" || String.eqb k "FuncLit") && String.eqb f "Body" then EmptyBlock
  else if String.eqb k "Ident" && String.eqb f "Obj" then Drop
  else if String.eqb k "File" && existsb (String.eqb f) file_dropped then Drop
  else Keep.

Definition atomic (c : fclass) : bool :=
  match c with FPos | FTok | FInt | FStr | FBool => true | _ => false end.

Definition class_of (GS : structs) (k f : string) : fclass :=
  match assoc k GS with
  | Some sf => match assoc f sf with Some c => c | None => FOther end
  | None => FOther
  end.

Definition empty_node (GS : structs) (k : string) : value :=
  match mk_node GS k [] with Ok n => VNode n | _ => VNil end.

Section Strip.
  Context (GS : structs).   (* go/ast struct table *)

  Fixpoint strip (n : node) : node :=
    match n with
    | Node _ k fs =>
        Node 0 k ((fix go (l : list (string * value)) : list (string * value) :=
                     match l with
                     | [] => []
                     | (f, x) :: t =>
                         (f, match field_mode k f with
                             | Keep => if atomic (class_of GS k f) then x else strip_v x
                             | Drop => zero (class_of GS k f)
                             | EmptyBlock => empty_node GS "BlockStmt"
                             end) :: go t
                     end) fs)
    end
  with strip_v (v : value) : value :=
    match v with
    | VNode n => VNode (strip n)
    | VRec n => VRec (strip n)
    | VList l => VList ((fix go (l : list value) : list value :=
                           match l with [] => [] | x :: t => strip_v x :: go t end) l)
    | _ => v
    end.
End Strip.

Fixpoint names_eqb (a b : list string) : bool :=
  match a, b with
  | [], [] => true
  | x :: a', y :: b' => String.eqb x y && names_eqb a' b'
  | _, _ => false
  end.

(* the Go tree has, node by node, exactly the fields of its struct (always true of an exported tree) *)
Definition names_ok (GS : structs) (n : node) : bool :=
  match assoc (kind n) GS with
  | Some sf => names_eqb (map fst sf) (map fst (fields n))
  | None => false
  end.

Section GoOk.
  Context (GS : structs).
  Fixpoint go_ok (n : node) : bool :=
    names_ok GS n &&
    match n with
    | Node _ _ fs =>
        (fix go (l : list (string * value)) : bool :=
           match l with [] => true | (_, x) :: t => go_ok_v x && go t end) fs
    end
  with go_ok_v (v : value) : bool :=
    match v with
    | VNode n => go_ok n
    | VRec n => go_ok n
    | VList l => (fix go (l : list value) : bool :=
                    match l with [] => true | x :: t => go_ok_v x && go t end) l
    | _ => true
    end.
End GoOk.

(* nil and empty slices identified (what go/printer cannot tell apart, except for Field.Names) *)
Fixpoint canon (n : node) : node :=
  match n with
  | Node i k fs =>
      Node i k ((fix go (l : list (string * value)) : list (string * value) :=
                   match l with [] => [] | (f, x) :: t => (f, canon_v x) :: go t end) fs)
  end
with canon_v (v : value) : value :=
  match v with
  | VNode n => VNode (canon n)
  | VRec n => VRec (canon n)
  | VList [] => VNil
  | VList l => VList ((fix go (l : list value) : list value :=
                         match l with [] => [] | x :: t => canon_v x :: go t end) l)
  | _ => v
  end.

(* the whole round trip on a file, as the harness runs it *)
Definition roundtrip (Tf Tt : ctable) (XS GS : structs) (fuel : nat) (t : node) : M value :=
  x <- conv Tf XS fuel "ASTFile" (VNode t) ;; conv Tt GS fuel "ASTFile" x.

(* ---------------------------------------------------------------- the obligation on a pair of tables *)

Definition pairs_t := list (string * string).
Definition paired (P : pairs_t) (a b : string) : bool :=
  existsb (fun p => String.eqb (fst p) a && String.eqb (snd p) b) P.
Definition mem (x : string) (l : list string) : bool := existsb (String.eqb x) l.
Fixpoint nodupb (l : list string) : bool :=
  match l with [] => true | x :: t => negb (mem x t) && nodupb t end.

Definition src_field (c : fconv) : option string :=
  match c with
  | CCopy s | CCast s | CCall _ s | CMap _ s | CSpecs s _ _ => Some s
  | _ => None
  end.

(* the Specs loops of the two directions dispatch alike *)
Definition specs_ok (P : pairs_t) (Tf : ctable) (b1 : build) (xsf : list (string * fclass))
           (tk tk' : string) (cs cs' : list (list Z * string * string)) : bool :=
  mem tk' (map fst xsf) &&
  match assoc tk' (b_sets b1) with
  | Some (CCast s) | Some (CCopy s) => String.eqb s tk
  | _ => false
  end &&
  forallb (fun c => match c with
                    | (toks, g, K) =>
                        forallb (fun t =>
                                   match find_case t cs, find_case t cs' with
                                   | Some (_, g1, K1), Some (_, g', K') =>
                                       String.eqb g1 g && String.eqb K1 K && paired P g g' &&
                                       match resolve Tf chain g K with
                                       | Some bb => String.eqb (b_kind bb) K'
                                       | None => true
                                       end
                                   | _, _ => false
                                   end) toks
                    end) cs.

(* c2 (to-side, reading XGo field F) undoes c1 (from-side, which produced F from Go field f) *)
Definition conv_pair_ok (P : pairs_t) (Tf : ctable) (b1 : build) (xsf : list (string * fclass))
           (f : string) (cls : fclass) (c1 c2 : fconv) : bool :=
  match c1, c2 with
  | CCopy s, CCopy _ => String.eqb s f && atomic cls
  | CCast s, CCast _ => String.eqb s f && atomic cls
  | CCall g s, CCall g' _ => String.eqb s f && paired P g g' && negb (atomic cls)
  | CMap g s, CMap g' _ => String.eqb s f && paired P g g' && negb (atomic cls)
  | CSpecs s tk cs, CSpecs _ tk' cs' => String.eqb s f && negb (atomic cls) && specs_ok P Tf b1 xsf tk tk' cs cs'
  | _, _ => false
  end.

Definition build_pair_ok (P : pairs_t) (Tf : ctable) (XS GS : structs)
           (k : string) (gsf : list (string * fclass)) (b1 b2 : build) : bool :=
  String.eqb (b_kind b2) k &&
  nodupb (map fst gsf) &&
  nodupb (map fst (b_sets b2)) &&
  forallb (fun fc2 => mem (fst fc2) (map fst gsf)) (b_sets b2) &&
  match assoc (b_kind b1) XS, assoc "BlockStmt" GS with
  | Some xsf, Some _ =>
      forallb (fun fc =>
                 let f := fst fc in
                 match field_mode k f with
                 | Keep =>
                     match assoc f (b_sets b2) with
                     | Some c2 =>
                         match src_field c2 with
                         | Some F => mem F (map fst xsf) &&
                                     match assoc F (b_sets b1) with
                                     | Some c1 => conv_pair_ok P Tf b1 xsf f (snd fc) c1 c2
                                     | None => false
                                     end
                         | None => false
                         end
                     | None => false
                     end
                 | Drop => match assoc f (b_sets b2) with None => true | Some _ => false end
                 | EmptyBlock => match assoc f (b_sets b2) with
                                 | Some (CEmpty kb) => String.eqb kb "BlockStmt"
                                 | _ => false
                                 end
                 end) gsf
  | _, _ => false
  end.

Definition fun_ok (P : pairs_t) (Tf Tt : ctable) (XS GS : structs) (ab : string * string) : bool :=
  let (a, b) := ab in
  match assoc a Tf, assoc b Tt with
  | Some (FMapList g _), Some (FMapList g' _) => paired P g g'
  | Some (FMapList _ _), _ => false
  | _, Some (FMapList _ _) => false
  | Some _, Some _ =>
      implb (nil_passes Tf chain a) (nil_passes Tt chain b) &&
      forallb (fun ksf =>
                 match resolve Tf chain a (fst ksf) with
                 | None => true
                 | Some b1 =>
                     match resolve Tt chain b (b_kind b1) with
                     | None => false
                     | Some b2 => build_pair_ok P Tf XS GS (fst ksf) (snd ksf) b1 b2
                     end
                 end) GS
  | _, _ => false
  end.

(* the decidable obligation: P pairs every from-function with the to-function that undoes it *)
Definition tables_preserve (P : pairs_t) (Tf Tt : ctable) (XS GS : structs) : bool :=
  paired P "ASTFile" "ASTFile" && forallb (fun_ok P Tf Tt XS GS) P.

(* P is not guessed by hand: it is inferred from the tables by following the calls from
   (ASTFile, ASTFile); the obligation above is then checked for the inferred P *)
Definition calls_of_build (b1 b2 : build) : list (string * string) :=
  flat_map (fun fc2 =>
              match snd fc2 with
              | CCall g' F | CMap g' F =>
                  match assoc F (b_sets b1) with
                  | Some (CCall g _) | Some (CMap g _) => [(g, g')]
                  | _ => []
                  end
              | CSpecs F _ cs' =>
                  match assoc F (b_sets b1) with
                  | Some (CSpecs _ _ cs) =>
                      flat_map (fun c => match c with (toks, g, _) =>
                                  flat_map (fun t => match find_case t cs' with
                                                     | Some (_, g', _) => [(g, g')]
                                                     | None => [] end) toks end) cs
                  | _ => []
                  end
              | _ => []
              end) (b_sets b2).

Definition calls_of (Tf Tt : ctable) (GS : structs) (ab : string * string) : list (string * string) :=
  let (a, b) := ab in
  match assoc a Tf, assoc b Tt with
  | Some (FMapList g _), Some (FMapList g' _) => [(g, g')]
  | Some _, Some _ =>
      flat_map (fun ksf =>
                  match resolve Tf chain a (fst ksf) with
                  | Some b1 => match resolve Tt chain b (b_kind b1) with
                               | Some b2 => calls_of_build b1 b2
                               | None => []
                               end
                  | None => []
                  end) GS
  | _, _ => []
  end.

Fixpoint add_new (P : pairs_t) (l : list (string * string)) : pairs_t :=
  match l with
  | [] => P
  | (a, b) :: t => if paired P a b then add_new P t else add_new (P ++ [(a, b)]) t
  end.

Fixpoint infer_pairs (fuel : nat) (Tf Tt : ctable) (GS : structs) (P : pairs_t) : pairs_t :=
  match fuel with
  | O => P
  | S f => infer_pairs f Tf Tt GS (add_new P (flat_map (calls_of Tf Tt GS) P))
  end.
