(* MiniGo: the small imperative core of Go that the lowerings of the XGo sugar (C02..C05) target.
   No proofs here.

   values   ints (Z), bools, strings (bytes), opaque floats, errors (with NewFrame wrapping),
            slices, maps (association lists, iteration in insertion order), range objects
   exprs    constants, variables, opaque probe calls (logged in the effect trace), arithmetic and
            comparisons, short-circuit &&, append, slice literals, NewRange, != nil, NewFrame,
            string conversions, stringutil.Concat, and immediately-invoked closures
            `func() (named results) { body }()`
   stmts    := / = (parallel or from one multi-valued expression), m[k] = v, if, the C-style for
            loop, for-range over slices / maps / strings / range objects, return, panic, blocks
   evaluator big-step; expressions return a tuple of values (multi-value returns); the state is
            (environment, effect trace); the only construct that can run forever, the C-style
            loop, re-enters through the parameter `self`, which `exec` instantiates with itself
            on smaller fuel.  Everything else is structural recursion, so lemmas about loop-free
            code need no fuel reasoning.

   Compiler-generated identifiers (_gop_ret, _gop_err, _gop_ok, _autoGo_N, _gop_end, ...) live in
   their own constructors of `name`: user code (NUser) cannot mention them.  This is the model's
   form of "the generated names are fresh". *)
From Coq Require Import List ZArith NArith Bool.
Import ListNotations.
From V Require Import Base.Prelude.
Open Scope Z_scope.

Inductive name :=
  | NUser (n : N)            (* identifiers of the source program *)
  | NRet (i : nat)           (* _gop_ret, _gop_ret2, ... *)
  | NErr                     (* _gop_err *)
  | NOk                      (* _gop_ok *)
  | NAuto (i : nat).         (* _autoGo_N *)

Definition name_eqb (a b : name) : bool :=
  match a, b with
  | NUser x, NUser y => N.eqb x y
  | NRet i, NRet j => Nat.eqb i j
  | NErr, NErr => true
  | NOk, NOk => true
  | NAuto i, NAuto j => Nat.eqb i j
  | _, _ => false
  end.

Definition is_user (x : name) : bool := match x with NUser _ => true | _ => false end.

Inductive err := EBase (n : N) | EFrame (e : err).   (* errors.NewFrame(e, ...) = EFrame e *)
Fixpoint err_root (e : err) : N := match e with EBase n => n | EFrame e' => err_root e' end.

Inductive val :=
  | VInt (z : Z)
  | VBool (b : bool)
  | VStr (s : str)
  | VFloat (repr : str)          (* a float64, identified by its strconv.FormatFloat(f,'g',-1,64) text *)
  | VErr (e : option err)        (* an error value; None = nil *)
  | VList (l : list val)
  | VMap (l : list (val * val))
  | VRange (s e st : Z).         (* *xgo.IntRange *)

Inductive binop := BAdd | BSub | BMul | BRem | BLt | BLe | BGt | BEq | BNe
  | BQuo | BShl | BShr | BAnd | BAndNot | BOr | BXor | BGe.
Inductive conv := CItoa | CFloat | CBool | CError.   (* strconv.Itoa / FormatFloat / FormatBool / .Error() *)

Inductive expr :=
  | EConst (v : val)
  | EVar (x : name)
  | EProbe (id : N) (e : expr)            (* opaque p_id(e): logs (id,[value of e]), returns that value *)
  | ECallP (id : N) (rs : list val)       (* opaque f_id(): logs (id,[]), returns the tuple rs *)
  | ECallA (id : N) (args : list expr) (rs : list val)
                                          (* opaque f_id(args...): arguments evaluated left to right, the callee logs
                                             (id, the argument values it received), returns the tuple rs *)
  | EBin (op : binop) (a b : expr)
  | EAnd (a b : expr)
  | EOr (a b : expr)
  | ENot (a : expr)
  | EAppend (s x : expr)
  | EAppendAll (s x : expr)               (* append(s, x...) *)
  | EList (es : list expr)
  | ENewRange (s e st : expr)
  | ENeNil (e : expr)
  | EFrameOf (e : expr)
  | EToStr (c : conv) (e : expr)
  | EConcat (es : list expr)
  | EClosure (res : list (name * val)) (body : stmt)   (* func() (res...) { body }(); res with zero values *)
with stmt :=
  | SSkip
  | SSeq (a b : stmt)
  | SDefine (xs : list name) (es : list expr)
  | SAssign (xs : list name) (es : list expr)
  | SSetIndex (m : name) (k v : expr)
  | SIf (c : expr) (t f : stmt)
  | SLoop (c : expr) (post body : stmt)               (* for ; c; post { body } *)
  | SRange (k v : option name) (x : expr) (body : stmt)
  | SReturn (es : list expr)
  | SPanic (e : expr)
  | SExpr (e : expr)
  | SBlock (s : stmt).

Definition SFor (init : stmt) (c : expr) (post body : stmt) : stmt := SBlock (SSeq init (SLoop c post body)).

Inductive event := Ev (id : N) (args : list val).
Definition trace := list event.
Definition env := list (name * val).     (* innermost binding first *)

Fixpoint lookup (en : env) (x : name) : option val :=
  match en with [] => None | (y, v) :: t => if name_eqb x y then Some v else lookup t x end.
Fixpoint update (en : env) (x : name) (v : val) : option env :=
  match en with
  | [] => None
  | (y, w) :: t => if name_eqb x y then Some ((y, v) :: t)
                   else match update t x v with Some t' => Some ((y, w) :: t') | None => None end
  end.
(* leave a scope: drop what was declared since the environment had n bindings *)
Definition pop_to (n : nat) (en : env) : env := skipn (length en - n) en.

(* outcome of running code: a value, or an abrupt completion *)
Inductive res (A : Type) :=
  | RVal (a : A)
  | RRet (vs : list val)       (* a return statement is unwinding to the enclosing function *)
  | RPanic (v : val)
  | RFuel
  | RStuck.                    (* ill-typed / unbound: the Go compiler would have rejected the program *)
Arguments RVal {A} a. Arguments RRet {A} vs. Arguments RPanic {A} v. Arguments RFuel {A}. Arguments RStuck {A}.

Definition cast {A B} (r : res A) : res B :=
  match r with RVal _ => RStuck | RRet vs => RRet vs | RPanic v => RPanic v | RFuel => RFuel | RStuck => RStuck end.

Definition one (vs : list val) : option val := match vs with [v] => Some v | _ => None end.

Definition bin_eval (op : binop) (a b : val) : res val :=
  match a, b with
  | VInt x, VInt y =>
    match op with
    | BAdd => RVal (VInt (x + y)) | BSub => RVal (VInt (x - y)) | BMul => RVal (VInt (x * y))
    | BRem => if y =? 0 then RPanic (VStr []) else RVal (VInt (Z.rem x y))
    | BLt => RVal (VBool (x <? y)) | BLe => RVal (VBool (x <=? y)) | BGt => RVal (VBool (y <? x))
    | BEq => RVal (VBool (x =? y)) | BNe => RVal (VBool (negb (x =? y)))
    | BGe => RVal (VBool (y <=? x))
    | BQuo => if y =? 0 then RPanic (VStr []) else RVal (VInt (Z.quot x y))
    | BShl => if y <? 0 then RPanic (VStr []) else RVal (VInt (Z.shiftl x y))
    | BShr => if y <? 0 then RPanic (VStr []) else RVal (VInt (Z.shiftr x y))
    | BAnd => RVal (VInt (Z.land x y)) | BAndNot => RVal (VInt (Z.ldiff x y))
    | BOr => RVal (VInt (Z.lor x y)) | BXor => RVal (VInt (Z.lxor x y))
    end
  | VStr x, VStr y =>
    match op with
    | BAdd => RVal (VStr (x ++ y))
    | BEq => RVal (VBool (str_eqb x y)) | BNe => RVal (VBool (negb (str_eqb x y)))
    | _ => RStuck
    end
  | VBool x, VBool y =>
    match op with BEq => RVal (VBool (Bool.eqb x y)) | BNe => RVal (VBool (negb (Bool.eqb x y))) | _ => RStuck end
  | _, _ => RStuck
  end.

(* decimal rendering of an int (strconv.Itoa) *)
Fixpoint digits (fuel : nat) (n : N) (acc : str) : str :=
  match fuel with
  | O => acc
  | S f => let acc' := (48 + N.modulo n 10)%N :: acc in
           if (n <? 10)%N then acc' else digits f (N.div n 10) acc'
  end.
Definition itoa (z : Z) : str :=
  let n := Z.abs_N z in
  let d := digits (S (N.to_nat (N.log2 n))) n [] in
  if z <? 0 then 45%N :: d else d.

Definition s_true : str := [116; 114; 117; 101]%N.
Definition s_false : str := [102; 97; 108; 115; 101]%N.

Section Conv.
  (* text of an error's Error() method, by root error id and number of frames wrapped around it *)
  Variable err_text : err -> str.

  Definition conv_eval (c : conv) (v : val) : res val :=
    match c, v with
    | CItoa, VInt z => RVal (VStr (itoa z))
    | CFloat, VFloat r => RVal (VStr r)
    | CBool, VBool b => RVal (VStr (if b then s_true else s_false))
    | CError, VErr (Some e) => RVal (VStr (err_text e))
    | CError, VErr None => RPanic (VStr [])        (* nil pointer dereference *)
    | _, _ => RStuck
    end.

  Fixpoint strs (vs : list val) : option str :=
    match vs with
    | [] => Some []
    | VStr s :: t => match strs t with Some r => Some (s ++ r) | None => None end
    | _ :: _ => None
    end.

  Definition map_set (l : list (val * val)) (k v : val) (keq : val -> val -> bool) : list (val * val) :=
    (fix go (l : list (val * val)) : list (val * val) :=
       match l with
       | [] => [(k, v)]
       | (k', v') :: t => if keq k k' then (k', v) :: t else (k', v') :: go t
       end) l.
  Definition key_eqb (a b : val) : bool :=
    match a, b with
    | VInt x, VInt y => x =? y
    | VStr x, VStr y => str_eqb x y
    | VBool x, VBool y => Bool.eqb x y
    | _, _ => false
    end.

  (* the (key, value) pairs a for-range statement enumerates; None = not rangeable *)
  Fixpoint index_from (i : Z) (l : list val) : list (val * val) :=
    match l with [] => [] | v :: t => (VInt i, v) :: index_from (i + 1) t end.
  (* the runtime iterator of a range object, see Model/RangeLoop.v iter_seq; n iterations *)
  Fixpoint range_items (k : nat) (v st : Z) : list (val * val) :=
    match k with O => [] | S k' => (VInt 0, VInt v) :: range_items k' (v + st) st end.
  Definition range_count (s e st : Z) : option Z :=
    let n := e - s + st in
    if 0 <? st then Some (Z.quot (n - 1) st) else if st =? 0 then None else Some (Z.quot (n + 1) st).
  Inductive items := Items (l : list (val * val)) | ItemsPanic | ItemsStuck.
  Definition range_of (v : val) : items :=
    match v with
    | VList l => Items (index_from 0 l)
    | VMap l => Items l
    | VStr s => Items (index_from 0 (map (fun b => VInt (Z.of_N b)) s))   (* ASCII strings only *)
    | VRange s e st => match range_count s e st with
                       | Some n => Items (range_items (Z.to_nat n) s st)
                       | None => ItemsPanic                              (* integer divide by zero *)
                       end
    | _ => ItemsStuck
    end.

  Definition sres := (res unit * env * trace)%type.
  Definition eres := (res (list val) * env * trace)%type.

  Fixpoint bind_all (xs : list name) (vs : list val) (en : env) : option env :=
    match xs, vs with
    | [], [] => Some en
    | x :: xs', v :: vs' => bind_all xs' vs' ((x, v) :: en)
    | _, _ => None
    end.
  Fixpoint assign_all (xs : list name) (vs : list val) (en : env) : option env :=
    match xs, vs with
    | [], [] => Some en
    | x :: xs', v :: vs' => match update en x v with Some en' => assign_all xs' vs' en' | None => None end
    | _, _ => None
    end.
  Definition bind_opt (x : option name) (v : val) (en : env) : env :=
    match x with Some n => (n, v) :: en | None => en end.

  Section Eval.
    Variable self : stmt -> env -> trace -> sres.   (* next iteration of a C-style loop *)

    Fixpoint ev (e : expr) (en : env) (tr : trace) {struct e} : eres :=
      let ev1 (e : expr) (en : env) (tr : trace) (k : val -> env -> trace -> eres) : eres :=
        match ev e en tr with
        | (RVal vs, en', tr') => match one vs with Some v => k v en' tr' | None => (RStuck, en', tr') end
        | (r, en', tr') => (cast r, en', tr')
        end in
      let evs := fix evs (es : list expr) (en : env) (tr : trace) {struct es} : eres :=
        match es with
        | [] => (RVal [], en, tr)
        | e :: t => match ev e en tr with
                    | (RVal vs, en', tr') =>
                      match one vs with
                      | Some v => match evs t en' tr' with
                                  | (RVal r, en'', tr'') => (RVal (v :: r), en'', tr'')
                                  | x => x
                                  end
                      | None => (RStuck, en', tr')
                      end
                    | (r, en', tr') => (cast r, en', tr')
                    end
        end in
      match e with
      | EConst v => (RVal [v], en, tr)
      | EVar x => match lookup en x with Some v => (RVal [v], en, tr) | None => (RStuck, en, tr) end
      | EProbe id a => ev1 a en tr (fun v en' tr' => (RVal [v], en', tr' ++ [Ev id [v]]))
      | ECallP id rs => (RVal rs, en, tr ++ [Ev id []])
      | ECallA id args rs => match evs args en tr with
                             | (RVal vs, en', tr') => (RVal rs, en', tr' ++ [Ev id vs])
                             | x => x
                             end
      | EBin op a b =>
        ev1 a en tr (fun x en1 tr1 => ev1 b en1 tr1 (fun y en2 tr2 =>
          match bin_eval op x y with RVal v => (RVal [v], en2, tr2) | r => (cast r, en2, tr2) end))
      | EAnd a b =>
        ev1 a en tr (fun x en1 tr1 =>
          match x with
          | VBool false => (RVal [VBool false], en1, tr1)
          | VBool true => ev1 b en1 tr1 (fun y en2 tr2 =>
                            match y with VBool _ => (RVal [y], en2, tr2) | _ => (RStuck, en2, tr2) end)
          | _ => (RStuck, en1, tr1)
          end)
      | EOr a b =>
        ev1 a en tr (fun x en1 tr1 =>
          match x with
          | VBool true => (RVal [VBool true], en1, tr1)
          | VBool false => ev1 b en1 tr1 (fun y en2 tr2 =>
                            match y with VBool _ => (RVal [y], en2, tr2) | _ => (RStuck, en2, tr2) end)
          | _ => (RStuck, en1, tr1)
          end)
      | ENot a => ev1 a en tr (fun x en1 tr1 =>
          match x with VBool b => (RVal [VBool (negb b)], en1, tr1) | _ => (RStuck, en1, tr1) end)
      | EAppend s x =>
        ev1 s en tr (fun a en1 tr1 => ev1 x en1 tr1 (fun b en2 tr2 =>
          match a with VList l => (RVal [VList (l ++ [b])], en2, tr2) | _ => (RStuck, en2, tr2) end))
      | EAppendAll s x =>
        ev1 s en tr (fun a en1 tr1 => ev1 x en1 tr1 (fun b en2 tr2 =>
          match a, b with VList l, VList m => (RVal [VList (l ++ m)], en2, tr2) | _, _ => (RStuck, en2, tr2) end))
      | EList es => match evs es en tr with
                    | (RVal vs, en', tr') => (RVal [VList vs], en', tr')
                    | x => x
                    end
      | ENewRange s e st =>
        ev1 s en tr (fun a en1 tr1 => ev1 e en1 tr1 (fun b en2 tr2 => ev1 st en2 tr2 (fun c en3 tr3 =>
          match a, b, c with
          | VInt x, VInt y, VInt z => (RVal [VRange x y z], en3, tr3)
          | _, _, _ => (RStuck, en3, tr3)
          end)))
      | ENeNil a => ev1 a en tr (fun v en' tr' =>
          match v with
          | VErr (Some _) => (RVal [VBool true], en', tr')
          | VErr None => (RVal [VBool false], en', tr')
          | _ => (RStuck, en', tr')
          end)
      | EFrameOf a => ev1 a en tr (fun v en' tr' =>
          match v with
          | VErr (Some x) => (RVal [VErr (Some (EFrame x))], en', tr')
          | _ => (RStuck, en', tr')
          end)
      | EToStr c a => ev1 a en tr (fun v en' tr' =>
          match conv_eval c v with RVal s => (RVal [s], en', tr') | r => (cast r, en', tr') end)
      | EConcat es => match evs es en tr with
                      | (RVal vs, en', tr') =>
                        match strs vs with Some s => (RVal [VStr s], en', tr') | None => (RStuck, en', tr') end
                      | x => x
                      end
      | EClosure rs body =>
        let n := length en in
        let results (en' : env) : option (list val) :=
          (fix go (l : list (name * val)) : option (list val) :=
             match l with
             | [] => Some []
             | (x, _) :: t => match lookup en' x, go t with Some v, Some r => Some (v :: r) | _, _ => None end
             end) rs in
        match ex body (rev rs ++ en) tr with
        | (RVal _, en', tr') | (RRet [], en', tr') =>            (* fell off the end / bare return *)
          match results en' with
          | Some vs => (RVal vs, pop_to n en', tr')
          | None => (RStuck, pop_to n en', tr')
          end
        | (RRet vs, en', tr') => (RVal vs, pop_to n en', tr')
        | (r, en', tr') => (cast r, pop_to n en', tr')
        end
      end
    with ex (s : stmt) (en : env) (tr : trace) {struct s} : sres :=
      let evs := fix evs (es : list expr) (en : env) (tr : trace) {struct es} : eres :=
        match es with
        | [] => (RVal [], en, tr)
        | e :: t => match ev e en tr with
                    | (RVal vs, en', tr') =>
                      match one vs with
                      | Some v => match evs t en' tr' with
                                  | (RVal r, en'', tr'') => (RVal (v :: r), en'', tr'')
                                  | x => x
                                  end
                      | None => (RStuck, en', tr')
                      end
                    | (r, en', tr') => (cast r, en', tr')
                    end
        end in
      (* right-hand sides: one multi-valued expression, or a list of single-valued ones *)
      let rhs (es : list expr) (en : env) (tr : trace) : eres :=
        match es with [e] => ev e en tr | _ => evs es en tr end in
      match s with
      | SSkip => (RVal tt, en, tr)
      | SSeq a b => match ex a en tr with
                    | (RVal _, en', tr') => ex b en' tr'
                    | x => x
                    end
      | SDefine xs es => match rhs es en tr with
                         | (RVal vs, en', tr') =>
                           match bind_all xs vs en' with Some en'' => (RVal tt, en'', tr') | None => (RStuck, en', tr') end
                         | (r, en', tr') => (cast r, en', tr')
                         end
      | SAssign xs es => match rhs es en tr with
                         | (RVal vs, en', tr') =>
                           match assign_all xs vs en' with Some en'' => (RVal tt, en'', tr') | None => (RStuck, en', tr') end
                         | (r, en', tr') => (cast r, en', tr')
                         end
      | SSetIndex m k v =>
        match lookup en m with
        | Some (VMap l) =>
          match ev k en tr with
          | (RVal [kv], en1, tr1) =>
            match ev v en1 tr1 with
            | (RVal [vv], en2, tr2) =>
              match update en2 m (VMap (map_set l kv vv key_eqb)) with
              | Some en3 => (RVal tt, en3, tr2)
              | None => (RStuck, en2, tr2)
              end
            | (RVal _, en2, tr2) => (RStuck, en2, tr2)
            | (r, en2, tr2) => (cast r, en2, tr2)
            end
          | (RVal _, en1, tr1) => (RStuck, en1, tr1)
          | (r, en1, tr1) => (cast r, en1, tr1)
          end
        | _ => (RStuck, en, tr)
        end
      | SIf c t f =>
        match ev c en tr with
        | (RVal [VBool b], en', tr') =>
          let n := length en' in
          match ex (if b then t else f) en' tr' with (r, en'', tr'') => (r, pop_to n en'', tr'') end
        | (RVal _, en', tr') => (RStuck, en', tr')
        | (r, en', tr') => (cast r, en', tr')
        end
      | SLoop c post body =>
        match ev c en tr with
        | (RVal [VBool false], en', tr') => (RVal tt, en', tr')
        | (RVal [VBool true], en', tr') =>
          let n := length en' in
          match ex body en' tr' with
          | (RVal _, en1, tr1) =>
            match ex post (pop_to n en1) tr1 with
            | (RVal _, en2, tr2) => self (SLoop c post body) en2 tr2
            | x => x
            end
          | (r, en1, tr1) => (r, pop_to n en1, tr1)
          end
        | (RVal _, en', tr') => (RStuck, en', tr')
        | (r, en', tr') => (cast r, en', tr')
        end
      | SRange k v x body =>
        match ev x en tr with
        | (RVal [c], en', tr') =>
          match range_of c with
          | Items l =>
            let n := length en' in
            (fix go (l : list (val * val)) (en : env) (tr : trace) {struct l} : sres :=
               match l with
               | [] => (RVal tt, en, tr)
               | (kv, vv) :: t =>
                 match ex body (bind_opt v vv (bind_opt k kv en)) tr with
                 | (RVal _, en1, tr1) => go t (pop_to n en1) tr1
                 | (r, en1, tr1) => (r, pop_to n en1, tr1)
                 end
               end) l en' tr'
          | ItemsPanic => (RPanic (VStr []), en', tr')
          | ItemsStuck => (RStuck, en', tr')
          end
        | (RVal _, en', tr') => (RStuck, en', tr')
        | (r, en', tr') => (cast r, en', tr')
        end
      | SReturn es => match evs es en tr with
                      | (RVal vs, en', tr') => (RRet vs, en', tr')
                      | (r, en', tr') => (cast r, en', tr')
                      end
      | SPanic e => match ev e en tr with
                    | (RVal [v], en', tr') => (RPanic v, en', tr')
                    | (RVal _, en', tr') => (RStuck, en', tr')
                    | (r, en', tr') => (cast r, en', tr')
                    end
      | SExpr e => match ev e en tr with
                   | (RVal _, en', tr') => (RVal tt, en', tr')
                   | (r, en', tr') => (cast r, en', tr')
                   end
      | SBlock b => let n := length en in
                    match ex b en tr with (r, en', tr') => (r, pop_to n en', tr') end
      end.
  End Eval.

  Fixpoint exec (fuel : nat) (s : stmt) (en : env) (tr : trace) : sres :=
    match fuel with
    | O => (RFuel, en, tr)
    | S f => ex (exec f) s en tr
    end.
  Definition eval (fuel : nat) (e : expr) (en : env) (tr : trace) : eres :=
    match fuel with
    | O => (RFuel, en, tr)
    | S f => ev (exec f) e en tr
    end.
End Conv.
