(* M-TPL with RetProcs: model of tpl/matcher/match.go INCLUDING result rewriters (Var.RetProc) and the
   runtime ("Dyn") error paths of every combinator.  No proofs here.

   A RetProc is called by Var.Match after its body matched; if it panics with a string or with a
   *matcher.Error{Dyn: true} (tpl.Panic, BinaryOp's fn) the rule yields a Dyn error, keeping n and the
   un-rewritten result; a *matcher.Error{Dyn: false} gives an ordinary error.  What the code does
   with a Dyn error:
     gSequence   keeps going (the item counts as matched), returns all results with the LAST Dyn error
     gRepeat0/1  keep going likewise; +R returns at once when the FIRST repetition has any error
     gRepeat01   swallows it like any error: (0, nil, nil)
     gAdjoin     a Dyn error of the left operand aborts; of the right operand it is kept if the pair is adjoined
     Choices     treats it as a failure of the option (commit / next option as usual); the final error is the
                 one with the largest n, or errMultiMismatch on a tie — so it is Dyn only if that one was
     Var         passes it up unchanged (its own RetProc is not called)
   The rewriters themselves are a small finite family (what the harness can install through tpl.New):
   identity, wrap, reject a token literal with a Dyn error, reject it with a non-Dyn error, and "boom"
   (always a Dyn error) — the last one makes *R / +R spin when R fails at its left operand without
   consuming (known finding), and is excluded by [rp_safe] in the termination theorem. *)
From Coq Require Import List NArith ZArith Bool Arith.
Import ListNotations.
From V Require Import Base.Prelude Base.TplRes Gen.Tokens Model.Tpl.
Local Open Scope nat_scope.

Inductive ek := EOk | EErr | EDyn.        (* err == nil | ordinary error | isDyn(err) *)

Inductive rp :=
| RpId                      (* func(self any) any { return self } *)
| RpWrap                    (* func(self any) any { return []any{"W", self} } *)
| RpRejDyn (lit : str)      (* panics with a string when self is a token spelled lit *)
| RpRejErr (lit : str)      (* panics with &matcher.Error{Dyn: false} when self is a token spelled lit *)
| RpBoom.                   (* always panics with a string: a Dyn error even when the rule matched NO token *)

Definition rejects (toks : list tokn) (lit : str) (x : res) : bool :=
  match x with
  | RTok i => match nth_error toks i with Some t => str_eqb (tlit t) lit | None => false end
  | _ => false
  end.

Definition rp_apply (toks : list tokn) (p : rp) (x : res) : res * ek :=
  match p with
  | RpId => (x, EOk)
  | RpWrap => (RList [RVal 0; x], EOk)
  | RpRejDyn l => if rejects toks l x then (x, EDyn) else (x, EOk)
  | RpRejErr l => if rejects toks l x then (x, EErr) else (x, EOk)
  | RpBoom => (x, EDyn)
  end.

(* rewriters that raise an error only for a result that is a token (hence only after consuming input) *)
Definition rp_safe (p : rp) : bool := match p with RpBoom => false | _ => true end.

Definition is_eerr (k : ek) : bool := match k with EErr => true | _ => false end.
Definition join (acc k : ek) : ek := match k with EDyn => EDyn | _ => acc end.   (* err = err1 when isDyn(err1) *)

Section WithEnv.
Variable env : list (option (m * option rp)).     (* rule v: Elem and RetProc; None = Elem is nil *)
Variable toks : list tokn.

Inductive rsp :=
| PM (g : m) (i : nat)
| PCh (opts : list m) (stops : list bool) (i : nat) (best : option (nat * ek)) (multi : bool)   (* nMax/errMax (None = -1), multiErr *)
| PSq (items : list m) (i : nat) (n : nat) (acc : list res) (e : ek)
| PRp (r : m) (i : nat) (n : nat) (acc : list res) (e : ek).

Definition outp := M (nat * res * ek).
Definition okp (n : nat) (r : res) : outp := Ok (n, r, EOk).
Definition failp (n : nat) : outp := Ok (n, RNil, EErr).

Fixpoint runp (fuel : nat) (s : rsp) : outp :=
  match fuel with O => OutOfFuel | S f =>
  match s with
  | PM g i =>
    let src0 := nth_error toks i in
    match g with
    | MTrue => okp 0 RNil
    | MWS =>
        match src0, i with
        | Some t, S j =>
            match nth_error toks j with
            | Some p => e <- tok_end p ;; if negb (Z.eqb e (tpos t)) then okp 0 RNil else failp 0
            | None => Panic
            end
        | _, _ => failp 0
        end
    | MStr q =>
        match src0 with
        | None => failp 0
        | Some t => if negb (Z.eqb (ttok t) STRING) then failp 0
                    else match tlit t with
                         | c :: _ => if N.eqb c q then okp 1 (RTok i) else failp 0
                         | [] => Panic
                         end
        end
    | MTok k =>
        match src0 with
        | None => failp 0
        | Some t => if Z.eqb (ttok t) k then okp 1 (RTok i) else failp 0
        end
    | MLit k l =>
        match src0 with
        | None => failp 0
        | Some t => if Z.eqb (ttok t) k && str_eqb (tlit t) l then okp 1 (RTok i) else failp 0
        end
    | MChoice opts stops => runp f (PCh opts stops i None true)
    | MSeq items => runp f (PSq items i 0 [] EOk)
    | MRep0 r => runp f (PRp r i 0 [] EOk)
    | MRep1 r =>
        match runp f (PM r i) with
        | Ok (n0, x0, EOk) => runp f (PRp r i n0 [x0] EOk)
        | Ok (n0, _, k) => Ok (n0, RNil, k)                 (* if err != nil { return }: any error of the first repetition *)
        | x => x
        end
    | MRep01 r =>
        match runp f (PM r i) with
        | Ok (n, x, EOk) => okp n x
        | Ok (_, _, _) => okp 0 RNil                        (* if err != nil { return 0, nil, nil } *)
        | x => x
        end
    | MAdj a b =>
        match runp f (PM a i) with
        | Ok (n, r0, EOk) =>
            if Nat.eqb n 0 then failp 0
            else match runp f (PM b (i + n)) with
                 | Ok (_, _, EErr) => failp n                                   (* err != nil && !isDyn(err) *)
                 | Ok (n1, r1, kb) =>
                     if Nat.eqb n1 0 then failp n
                     else match nth_error toks (i + n - 1), nth_error toks (i + n) with
                          | Some p, Some q =>
                              e <- tok_end p ;;
                              if Z.eqb e (tpos q) then Ok (n + n1, RList [r0; r1], kb) else failp n
                          | _, _ => Panic
                          end
                 | x => x
                 end
        | Ok (n, _, k) => Ok (n, RNil, k)
        | x => x
        end
    | MVar v =>
        match nth_error env v with
        | Some (Some (e, orp)) =>
            match runp f (PM e i) with
            | Ok (n, x, EOk) =>
                match orp with
                | None => okp n x
                | Some p => let '(y, k) := rp_apply toks p x in Ok (n, y, k)
                end
            | x => x
            end
        | _ => failp 0
        end
    end
  | PCh opts stops i best multi =>
      match opts with
      | [] => let nmax := match best with Some (n, _) => n | None => 0 end in
              if multi then failp nmax
              else Ok (nmax, RNil, match best with Some (_, k) => k | None => EErr end)
      | o :: t =>
          match runp f (PM o i) with
          | Ok (n, r, EOk) => okp n r
          | Ok (n, r, k) =>
              match stops with
              | s :: st =>
                  if Nat.ltb 0 n && s then Ok (n, r, k)
                  else match best with
                       | None => runp f (PCh t st i (Some (n, k)) false)
                       | Some (nm, km) =>
                           if Nat.ltb nm n then runp f (PCh t st i (Some (n, k)) false)
                           else if Nat.eqb n nm then runp f (PCh t st i best true)
                           else runp f (PCh t st i best multi)
                       end
              | [] => Panic
              end
          | x => x
          end
      end
  | PSq items i n acc e =>
      match items with
      | [] => Ok (n, RList (rev acc), e)
      | it :: t =>
          match runp f (PM it (i + n)) with
          | Ok (n1, _, EErr) => failp (n + n1)
          | Ok (n1, r, k) => runp f (PSq t i (n + n1) (r :: acc) (join e k))
          | x => x
          end
      end
  | PRp r i n acc e =>
      match runp f (PM r (i + n)) with
      | Ok (_, _, EErr) => Ok (n, RList (rev acc), e)
      | Ok (n1, x, k) => runp f (PRp r i (n + n1) (x :: acc) (join e k))
      | x => x
      end
  end end.

End WithEnv.

Definition match_doc_rp (env : list (option (m * option rp))) (toks : list tokn) (fuel : nat) (doc : nat) : outp :=
  runp env toks fuel (PM (MVar doc) 0).

Definition envp_safe (envp : list (option (m * option rp))) : bool :=
  forallb (fun o => match o with Some (_, Some p) => rp_safe p | _ => true end) envp.

(* attach the rewriters (by rule index) to a compiled environment *)
Fixpoint attach (env : list (option m)) (rps : list (option rp)) : list (option (m * option rp)) :=
  match env with
  | [] => []
  | o :: t => (match o with Some g => Some (g, hd None rps) | None => None end) :: attach t (tl rps)
  end.
