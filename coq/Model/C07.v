(* C07 — the recover skeleton of the compiler (cl/compile.go NewPackage, loadSymbol, loadImport;
   cl/stmt.go compileStmt; x/build/build.go BuildFile/BuildFSDir/BuildDir) in the exception monad
   over ARBITRARY bodies.  No proofs here.

   A computation is a function from a state to an outcome and a new state: Go code mutates
   ctx.errs and the code builder in place, so what was done before a panic stays done.  The
   state is an error list plus an arbitrary "rest of the world" W. *)
From Coq Require Import List NArith ZArith Bool.
Import ListNotations.
From V Require Import Base.Prelude.

Section Skeleton.
  Context {X E W : Type}.           (* panic values, errors, the rest of the compiler state *)
  Variable recover_err : X -> E.    (* pkgCtx.recoverErr: total (type switch + fmt.Errorf) *)

  Record st := mk_st { errs : list E; world : W }.
  Inductive outcome := Done | Raised (x : X).
  Definition comp := st -> outcome * st.

  Definition add_err (e : E) (s : st) : st := mk_st (errs s ++ [e]) (world s).
  (* pkgCtx.handleRecover(e, src): errs = append(errs, recoverErr(e, src)) *)
  Definition handle_recover (x : X) (s : st) : st := add_err (recover_err x) s.

  Definition seq (c1 c2 : comp) : comp :=
    fun s => match c1 s with (Done, s') => c2 s' | r => r end.
  Fixpoint seq_all (cs : list comp) : comp :=
    match cs with [] => fun s => (Done, s) | c :: t => seq c (seq_all t) end.

  (* if enableRecover { defer func() { if e := recover(); e != nil { handler } }() } ; body *)
  Definition guarded (enable : bool) (after : st -> st) (body : comp) : comp :=
    fun s => match body s with
             | (Raised x, s') => if enable then (Done, after (handle_recover x s')) else (Raised x, s')
             | r => r
             end.

  (* compileStmt: handler = handleRecover(e, stmt); ctx.cb.ResetStmt()  (reset: arbitrary) *)
  Variable reset_stmt : st -> st.
  Definition compile_stmt (enable : bool) (body : comp) : comp := guarded enable reset_stmt body.
  Definition compile_stmts (enable : bool) (bodies : list comp) : comp := seq_all (map (compile_stmt enable) bodies).

  (* loadSymbol: handler = handleRecover(e, nil).  A symbol = a declaration part that runs
     outside any statement (signature, recorder events) followed by its statements *)
  Definition load_symbol (enable : bool) (decl : comp) (stmts : list comp) : comp :=
    guarded enable (fun s => s) (seq decl (compile_stmts enable stmts)).
  (* loadImport: handler = handleRecover(e, spec) *)
  Definition load_import (enable : bool) (body : comp) : comp := guarded enable (fun s => s) body.

  (* NewPackage.  args_ok = pkg and conf are non-nil (they are dereferenced before any defer);
     has_rec = conf.Recorder != nil: `defer func() { if p != nil { rec.Complete(p.Types.Scope()) } }()` is
     registered BEFORE the recover defer, hence runs AFTER it, unprotected; since repair 162cdf8 it is
     skipped when p is nil (gogen.NewPackage panicked).
     gogen_new = gogen.NewPackage (sets p); body = everything up to err = ctx.complete();
     tail = genMainFunc / the generated empty main.  All arbitrary. *)
  Inductive result := Escaped (x : option X)          (* None = nil-pointer dereference *)
                    | Returned (p_set : bool) (err : list E) (final : st).

  Definition finish (has_rec : bool) (rec_complete : comp) (p_set : bool) (err : list E) (s : st) : result :=
    if has_rec then
      if p_set then match rec_complete s with
                    | (Raised x, _) => Escaped (Some x)
                    | (Done, s') => Returned p_set err s'
                    end
      else Returned p_set err s              (* if p != nil { ... }: nothing to complete *)
    else Returned p_set err s.

  Definition after_panic (enable has_rec : bool) (rec_complete : comp) (p_set : bool) (x : X) (s : st) : result :=
    if enable then let s' := handle_recover x s in finish has_rec rec_complete p_set (errs s') s'
    else Escaped (Some x).

  Definition new_package (enable has_rec args_ok : bool) (gogen_new body tail rec_complete : comp) (s0 : st) : result :=
    if negb args_ok then Escaped None else
    match gogen_new s0 with
    | (Raised x, s1) => after_panic enable has_rec rec_complete false x s1
    | (Done, s1) =>
      match body s1 with
      | (Raised x, s2) => after_panic enable has_rec rec_complete true x s2
      | (Done, s2) =>
        let err := errs s2 in                        (* err = ctx.complete() *)
        match tail s2 with
        | (Raised x, s3) => after_panic enable has_rec rec_complete true x s3
        | (Done, s3) => finish has_rec rec_complete true err s3
        end
      end
    end.

  (* the body of NewPackage as far as the skeleton goes: class loading (unprotected inside the
     body), then per file the imports (each under loadImport), then the symbols *)
  Definition package_body (enable : bool) (classes : comp) (imports : list comp)
             (symbols : list (comp * list comp)) : comp :=
    seq classes (seq (seq_all (map (load_import enable) imports))
                     (seq_all (map (fun sy => load_symbol enable (fst sy) (snd sy)) symbols))).

  (* x/build BuildFile: defer func() { r := recover(); if r != nil { err = fmt.Errorf(...) } }()
     pkg, err := ctx.ParseFile(..); if err != nil { return nil, err }; return pkg.ToSource() *)
  Inductive bres := BEscaped (x : X) | BErr (e : E) | BData.
  Variable build_err : X -> E.                     (* fmt.Errorf("compile %v failed. %v", ...) *)
  Definition build_file (parse_and_compile : st -> outcome * option E * st) (to_source : st -> outcome * option E) (s : st) : bres :=
    match parse_and_compile s with
    | (Raised x, _, _) => BErr (build_err x)
    | (Done, Some e, _) => BErr e
    | (Done, None, s') => match to_source s' with
                          | (Raised x, _) => BErr (build_err x)
                          | (Done, Some e) => BErr e
                          | (Done, None) => BData
                          end
    end.
End Skeleton.

Arguments Done {X}. Arguments Raised {X} x.
Arguments mk_st {E W} errs world.

(* overloadFuncName: name + "__" + indexTable[idx:idx+1]  over the generated table *)
Definition overload_func_name (table : list N) (name : str) (i : Z) : M str :=
  if (i <? 0)%Z || (zlen table <? i + 1)%Z then Panic          (* slice bounds out of range *)
  else c <- idx table i ;; ret (name ++ [95; 95; c]%N).

(* ---- the instance that is run against the implementation (K-diff) ----
   panic values and errors are numbers (markers); the world is unit.  An item either reports
   an ordinary error (ctx.handleErr), or panics, or both, or nothing. *)
Inductive item := IOk | IErr (n : N) | IPanic (n : N) | IErrPanic (n m : N).
Inductive err := EMsg (n : N) | ERecovered (n : N).

Definition run_item (i : item) : @comp N err unit :=
  fun s => match i with
           | IOk => (Done, s)
           | IErr n => (Done, add_err (EMsg n) s)
           | IPanic n => (Raised n, s)
           | IErrPanic n m => (Raised m, add_err (EMsg n) s)
           end.

(* scenario: class-loading item, import items, symbols (decl item, statement items), tail item,
   Recorder.Complete item; flags *)
Definition scenario_result (enable has_rec : bool) (gogen_item cls : item) (imports : list item)
           (symbols : list (item * list item)) (tail reccomp : item) : @result N err unit :=
  new_package ERecovered enable has_rec true
    (run_item gogen_item)
    (package_body ERecovered (fun s => s) enable (run_item cls) (map run_item imports)
                  (map (fun sy => (run_item (fst sy), map run_item (snd sy))) symbols))
    (run_item tail) (run_item reccomp) (mk_st [] tt).
