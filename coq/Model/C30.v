(* Model of the result helpers of tpl/tpl.go: List, ListOp, RangeOp, BinaryOpNR/R, BinaryExprNR/R.
   No proofs here.  A Go index out of range or a failed type assertion is [Panic].
   The callback fn is a total function of the model returning in M (it may panic). *)
From Coq Require Import List ZArith Bool.
Import ListNotations.
From V Require Import Base.Prelude Base.TplRes.

(* in[1].([]any) : index 1 of the slice, then type assertion *)
Definition second_list (inp : list res) : M (list res) :=
  match inp with
  | _ :: RList next :: _ => Ok next
  | _ => Panic
  end.
(* in[0] *)
Definition first (inp : list res) : M res :=
  match inp with x :: _ => Ok x | [] => Panic end.
(* v.([]any)[1] *)
Definition pair_snd (v : res) : M res :=
  match v with RList (_ :: y :: _) => Ok y | _ => Panic end.

(* func List(in []any) []any *)
Fixpoint map_snd (next : list res) : M (list res) :=
  match next with
  | [] => Ok []
  | v :: t => y <- pair_snd v ;; r <- map_snd t ;; Ok (y :: r)
  end.
Definition list_ (inp : list res) : M (list res) :=
  next <- second_list inp ;;          (* next := in[1].([]any) *)
  x0 <- first inp ;;                  (* ret[0] = in[0] *)
  r <- map_snd next ;;
  Ok (x0 :: r).

(* func ListOp[T](in []any, fn func(v any) T) []T  — fn pure, results in call order *)
Section ListOp.
Context {T : Type} (fn : res -> M T).
Fixpoint map_snd_fn (next : list res) : M (list T) :=
  match next with
  | [] => Ok []
  | v :: t => y <- pair_snd v ;; a <- fn y ;; r <- map_snd_fn t ;; Ok (a :: r)
  end.
Definition list_op (inp : list res) : M (list T) :=
  next <- second_list inp ;;
  x0 <- first inp ;;
  a0 <- fn x0 ;;
  r <- map_snd_fn next ;;
  Ok (a0 :: r).
End ListOp.

(* func RangeOp(in []any, fn func(v any)) : the sequence of arguments fn is called with, and
   whether the call sequence ended by a panic (fn itself does not panic here) *)
Fixpoint range_next (next : list res) : list res * bool :=
  match next with
  | [] => ([], true)
  | v :: t => match pair_snd v with
              | Ok y => let '(tr, ok) := range_next t in (y :: tr, ok)
              | _ => ([], false)
              end
  end.
Definition range_op (inp : list res) : list res * bool :=
  match second_list inp, first inp with
  | Ok next, Ok x0 => let '(tr, ok) := range_next next in (x0 :: tr, ok)
  | _, _ => ([], false)
  end.

Section BinaryOp.
Variable fn : nat -> res -> res -> M res.      (* fn(op *Token, x, y any) any *)

(* next := v.([]any); op := next[0] asserted to be a Token pointer; y := next[1] *)
Definition op_operand (v : res) : M (nat * res) :=
  match v with RList (RTok op :: y :: _) => Ok (op, y) | _ => Panic end.

(* func BinaryOpNR *)
Fixpoint bop_nr_loop (next : list res) (acc : res) : M res :=
  match next with
  | [] => Ok acc
  | v :: t => p <- op_operand v ;; a <- fn (fst p) acc (snd p) ;; bop_nr_loop t a
  end.
Definition bop_nr (inp : list res) : M res :=
  x0 <- first inp ;; next <- second_list inp ;; bop_nr_loop next x0.

(* func BinaryOpR: an operand that is itself a []any is folded first.
   [bop_r r] is BinaryOpR(in, fn) for r = RList in. *)
Fixpoint bop_r (r : res) : M res :=
  match r with
  | RList (x0 :: RList next :: _) =>
      x0' <- (match x0 with RList _ => bop_r x0 | _ => Ok x0 end) ;;
      (fix loop (next : list res) (acc : res) : M res :=
         match next with
         | [] => Ok acc
         | RList (RTok op :: y :: _) :: t =>
             y' <- (match y with RList _ => bop_r y | _ => Ok y end) ;;
             a <- fn op acc y' ;;
             loop t a
         | _ => Panic
         end) next x0'
  | _ => Panic
  end.
End BinaryOp.

(* BinaryExprNR / BinaryExprR: operands must be ast.Expr values; the result is an
   *ast.BinaryExpr{X, OpPos, Op, Y}.  ast.Expr values are modelled as RVal (leaves) and
   RApp (binary nodes). *)
Definition is_expr (r : res) : bool := match r with RVal _ | RApp _ _ _ => true | _ => false end.
Definition mk_bin (op : nat) (x y : res) : M res :=
  if is_expr x && is_expr y then Ok (RApp op x y) else Panic.

Fixpoint bexpr_nr_loop (next : list res) (acc : res) : M res :=
  match next with
  | [] => Ok acc
  | v :: t => p <- op_operand v ;;
              if is_expr (snd p) then bexpr_nr_loop t (RApp (fst p) acc (snd p)) else Panic
  end.
Definition bexpr_nr (inp : list res) : M res :=
  x0 <- first inp ;;
  if is_expr x0 then next <- second_list inp ;; bexpr_nr_loop next x0 else Panic.

Fixpoint bexpr_r (r : res) : M res :=
  match r with
  | RList (x0 :: rest) =>
      x0' <- (match x0 with RList _ => bexpr_r x0 | _ => if is_expr x0 then Ok x0 else Panic end) ;;
      match rest with
      | RList next :: _ =>
        (fix loop (next : list res) (acc : res) : M res :=
           match next with
           | [] => Ok acc
           | RList (RTok op :: y :: _) :: t =>
               y' <- (match y with RList _ => bexpr_r y | _ => if is_expr y then Ok y else Panic end) ;;
               loop t (RApp op acc y')
           | _ => Panic
           end) next x0'
      | _ => Panic
      end
  | _ => Panic
  end.

(* ---- the shape of a result of  R % sep  (= R *(sep R)) ---- *)
Definition mk_list (r0 : res) (pairs : list (res * res)) : list res :=
  [r0; RList (map (fun p => RList [fst p; snd p]) pairs)].

(* nested operand trees: an operand is a non-list value or again a list result whose separators
   are tokens (the result of  (X % op1) % op2 ... ) *)
Inductive nx :=
| NLeaf (v : res)                                  (* v is not an RList *)
| NNode (x0 : nx) (pairs : list (nat * nx)).

Fixpoint nx_res (e : nx) : res :=
  match e with
  | NLeaf v => v
  | NNode x0 pairs => RList [nx_res x0; RList (map (fun p => RList [RTok (fst p); nx_res (snd p)]) pairs)]
  end.

Definition not_list (r : res) : bool := match r with RList _ => false | _ => true end.
Fixpoint nx_ok (e : nx) : bool :=
  match e with
  | NLeaf v => not_list v
  | NNode x0 pairs => nx_ok x0 && forallb (fun p => nx_ok (snd p)) pairs
  end.

(* the reference: fold left, operands evaluated recursively first *)
Section Eval.
Variable fn : nat -> res -> res -> M res.
Fixpoint nx_eval (e : nx) : M res :=
  match e with
  | NLeaf v => Ok v
  | NNode x0 pairs =>
      a0 <- nx_eval x0 ;;
      (fix loop (ps : list (nat * nx)) (acc : res) : M res :=
         match ps with
         | [] => Ok acc
         | (op, y) :: t => y' <- nx_eval y ;; a <- fn op acc y' ;; loop t a
         end) pairs a0
  end.
End Eval.

(* symbolic callback: fn(op, x, y) = App(op, x, y) *)
Definition fn_sym (op : nat) (x y : res) : M res := Ok (RApp op x y).

(* ---- the calculator of tpl/README.md:  expr = operand % ("*" | "/") % ("+" | "-")
        folded with BinaryOp(true, self, fn), against a precedence-climbing evaluator ---- *)
Inductive aop := AAdd | ASub | AMul | AQuo.
Definition prec (o : aop) : nat := match o with AAdd | ASub => 1 | AMul | AQuo => 2 end.
Definition apply_op (o : aop) (x y : Z) : Z :=
  match o with AAdd => x + y | ASub => x - y | AMul => x * y | AQuo => Z.quot x y end%Z.

(* reference: precedence climbing over the flat token sequence  n0 (op n)*  :
   expr(minp): lhs := primary; for { if prec(op) < minp return; next; rhs := expr(prec(op)+1); lhs = op(lhs, rhs) } *)
Fixpoint pcl (f : nat) (minp : nat) (lhs : Z) (rest : list (aop * Z)) : option (Z * list (aop * Z)) :=
  match f with O => None | S f' =>
  match rest with
  | [] => Some (lhs, [])
  | (op, n) :: r =>
      if Nat.ltb (prec op) minp then Some (lhs, rest)
      else match pcl f' (prec op + 1) n r with
           | Some (rhs, r') => pcl f' minp (apply_op op lhs rhs) r'
           | None => None
           end
  end end.
Definition eval_ref (n0 : Z) (rest : list (aop * Z)) : option Z :=
  match pcl (S (length rest)) 1 n0 rest with Some (v, _) => Some v | None => None end.

(* the two-level structure the grammar imposes: terms separated by + -, factors by * / ;
   operators carry the index of their token *)
Definition term := (Z * list (nat * aop * Z))%type.
Definition sum := (term * list (nat * aop * term))%type.

Definition term_nx (t : term) : nx :=
  NNode (NLeaf (RVal (fst t))) (map (fun p => (fst (fst p), NLeaf (RVal (snd p)))) (snd t)).
Definition sum_nx (s : sum) : nx :=
  NNode (term_nx (fst s)) (map (fun p => (fst (fst p), term_nx (snd p))) (snd s)).

Definition term_flat (t : term) : list (aop * Z) := map (fun p => (snd (fst p), snd p)) (snd t).
Definition sum_flat (s : sum) : Z * list (aop * Z) :=
  (fst (fst s), term_flat (fst s) ++ flat_map (fun p => (snd (fst p), fst (snd p)) :: term_flat (snd p)) (snd s)).

Definition term_ok (t : term) : bool := forallb (fun p => Nat.eqb (prec (snd (fst p))) 2) (snd t).
Definition sum_ok (s : sum) : bool :=
  term_ok (fst s) && forallb (fun p => Nat.eqb (prec (snd (fst p))) 1 && term_ok (snd p)) (snd s).

(* the callback of the calculator: looks at op.Tok; operands must be numbers *)
Definition calc_fn (kind : nat -> option aop) (op : nat) (x y : res) : M res :=
  match kind op, x, y with
  | Some o, RVal a, RVal b => Ok (RVal (apply_op o a b))
  | _, _, _ => Panic
  end.

(* the grouping of a flat sequence  n0 (op n)*  that the grammar produces; the k-th operator
   (counting from i) is given token identity i+k *)
Fixpoint group_flat (n0 : Z) (rest : list (aop * Z)) (i : nat) : sum :=
  match rest with
  | [] => ((n0, []), [])
  | (op, n) :: rest' =>
      let s := group_flat n rest' (S i) in
      if Nat.eqb (prec op) 2
      then ((n0, (i, op, fst (fst s)) :: snd (fst s)), snd s)
      else ((n0, []), (i, op, fst s) :: snd s)
  end.
Definition kind_of (rest : list (aop * Z)) (j : nat) : option aop := nth_error (map fst rest) j.

(* the whole calculator on a flat sequence: BinaryOp(true, self, fn) on the grouped result *)
Definition calc (n0 : Z) (rest : list (aop * Z)) : M res :=
  bop_r (calc_fn (kind_of rest)) (nx_res (sum_nx (group_flat n0 rest 0))).
