(* Model of x/jsonrpc2/frame.go: headerWriter.Write and headerReader.Read over a byte stream.
   No proofs here.

   The byte stream is what the bufio.Reader can still deliver (its buffer followed by the
   underlying io.Reader until EOF; transport errors other than EOF are not modelled).
   A call of Read is   read_frame s = Ok (result, total)   where total is the int64 the Go
   method returns = the number of bytes consumed; the next call continues on  skipn total s.
   The JSON codec (EncodeMessage / DecodeMessage) is outside this model: a successful read
   yields the payload bytes that Go hands to DecodeMessage. *)
From Coq Require Import List NArith ZArith Bool.
Import ListNotations.
From V Require Import Base.Prelude Base.Radix.
Open Scope N_scope.

Definition LF : N := 10.
Definition CR : N := 13.
Definition COLON : N := 58.

Definition nlen {A} (l : list A) : N := N.of_nat (length l).

(* bufio.Reader.ReadString('\n'): the bytes up to and including the first LF; when the
   stream ends first, everything that is left and err = io.EOF (third component false) *)
Fixpoint read_string (s : str) : str * str * bool :=
  match s with
  | [] => ([], [], false)
  | c :: t => if c =? LF then ([c], t, true)
              else let '(l, r, ok) := read_string t in (c :: l, r, ok)
  end.

(* strings.TrimSpace.  ASCII white space: \t \n \v \f \r and blank.  The non-ASCII runes with
   unicode.IsSpace are U+0085 U+00A0 U+1680 U+2000..U+200A U+2028 U+2029 U+202F U+205F U+3000;
   a rune decodes (forwards with DecodeRuneInString, backwards with DecodeLastRuneInString) to
   one of them exactly when the bytes at that end are its UTF-8 encoding, an invalid byte
   decodes to RuneError which is not a space and stops the trimming. *)
Definition is_ascii_space (c : N) : bool := ((9 <=? c) && (c <=? 13)) || (c =? 32).
Definition is_usp2 (c1 c2 : N) : bool := (c1 =? 194) && ((c2 =? 133) || (c2 =? 160)).
Definition is_usp3 (c1 c2 c3 : N) : bool :=
  ((c1 =? 225) && (c2 =? 154) && (c3 =? 128))
  || ((c1 =? 226) && (c2 =? 128) && (((128 <=? c3) && (c3 <=? 138)) || (c3 =? 168) || (c3 =? 169) || (c3 =? 175)))
  || ((c1 =? 226) && (c2 =? 129) && (c3 =? 159))
  || ((c1 =? 227) && (c2 =? 128) && (c3 =? 128)).

Fixpoint trim_left (s : str) : str :=
  match s with
  | [] => []
  | c :: t =>
    if is_ascii_space c then trim_left t else
    match t with
    | [] => s
    | c2 :: t2 =>
      if is_usp2 c c2 then trim_left t2 else
      match t2 with
      | [] => s
      | c3 :: t3 => if is_usp3 c c2 c3 then trim_left t3 else s
      end
    end
  end.

(* the same scan on the reversed string: c is the last byte, c2 the one before it, ... *)
Fixpoint trim_left_rev (s : str) : str :=
  match s with
  | [] => []
  | c :: t =>
    if is_ascii_space c then trim_left_rev t else
    match t with
    | [] => s
    | c2 :: t2 =>
      if is_usp2 c2 c then trim_left_rev t2 else
      match t2 with
      | [] => s
      | c3 :: t3 => if is_usp3 c3 c2 c then trim_left_rev t3 else s
      end
    end
  end.
(* rev' = rev_append _ [] : the linear-time reversal (List.rev is quadratic when extracted) *)
Definition trim_right (s : str) : str := rev' (trim_left_rev (rev' s)).
Definition trim_space (s : str) : str := trim_right (trim_left s).

(* strings.IndexRune(line, ':') and the two slices line[:colon], line[colon+1:] *)
Fixpoint split_colon (s : str) : option (str * str) :=
  match s with
  | [] => None
  | c :: t => if c =? COLON then Some ([], t)
              else match split_colon t with Some (a, b) => Some (c :: a, b) | None => None end
  end.

(* strconv.ParseInt(value, 10, 32): optional sign, at least one decimal digit, nothing else
   (no underscores in an explicit base), value within int32; None = any error *)
Definition parse_int32 (v : str) : option Z :=
  match v with
  | [] => None
  | c :: t =>
    let '(neg, ds) := if c =? 43 then (false, t) else if c =? 45 then (true, t) else (false, v) in
    match parse_dec ds with
    | None => None
    | Some n =>
      if neg then (if n <=? 2147483648 then Some (- Z.of_N n)%Z else None)
      else (if n <=? 2147483647 then Some (Z.of_N n) else None)
    end
  end.

Definition content_length : str := [67;111;110;116;101;110;116;45;76;101;110;103;116;104].  (* "Content-Length" *)

(* errors of Read, by what the caller can observe (errors.Is), not by text *)
Inductive rerr :=
| EEOF          (* io.EOF, nothing consumed: clean end of stream *)
| EHdrEOF       (* wraps io.ErrUnexpectedEOF: stream ended inside the header *)
| EHdrLine      (* header line without ':' *)
| EHdrLength    (* Content-Length not an int32, or <= 0 *)
| EHdrMissing   (* blank line reached with length still 0 *)
| EBodyEOF      (* io.EOF from io.ReadFull: no byte of the body available *)
| EBodyShort.   (* io.ErrUnexpectedEOF from io.ReadFull: body shorter than declared *)

Inductive rres := RPayload (p : str) | RErr (e : rerr).

(* result of the header loop *)
Inductive hres :=
| HErr (e : rerr) (total : N)
| HDone (rest : str) (total : N) (length : Z).

(* the  for { ... }  loop of Read; `length` persists across header lines (a later
   Content-Length overrides an earlier one), `total` accumulates len(line) *)
Fixpoint header_loop (fuel : nat) (s : str) (total : N) (length : Z) : M hres :=
  match fuel with
  | O => OutOfFuel
  | S f =>
    let '(line, rest, ok) := read_string s in
    let total := total + nlen line in
    if negb ok then
      Ok (if total =? 0 then HErr EEOF 0 else HErr EHdrEOF total)
    else
      let line := trim_space line in
      match line with
      | [] => Ok (HDone rest total length)
      | _ =>
        match split_colon line with
        | None => Ok (HErr EHdrLine total)
        | Some (name, value) =>
          if str_eqb name content_length then
            match parse_int32 (trim_space value) with
            | None => Ok (HErr EHdrLength total)
            | Some z => if (z <=? 0)%Z then Ok (HErr EHdrLength total) else header_loop f rest total z
            end
          else header_loop f rest total length
        end
      end
  end.

(* headerReader.Read up to (not including) DecodeMessage *)
Definition read_frame (s : str) : M (rres * N) :=
  match header_loop (S (length s)) s 0 0%Z with
  | Ok (HErr e total) => Ok (RErr e, total)
  | Ok (HDone rest total len) =>
    if (len =? 0)%Z then Ok (RErr EHdrMissing, total) else
    let n := Z.to_N len in
    let avail := nlen rest in
    if n <=? avail then Ok (RPayload (firstn (N.to_nat n) rest), total + n)
    else Ok (RErr (if avail =? 0 then EBodyEOF else EBodyShort), total + avail)
  | Panic => Panic
  | OutOfFuel => OutOfFuel
  end.

(* calling Read again and again on the same reader until the clean EOF *)
Fixpoint read_all (fuel : nat) (s : str) : M (list (rres * N)) :=
  match fuel with
  | O => OutOfFuel
  | S f =>
    match read_frame s with
    | Ok (r, n) =>
      match r with
      | RErr EEOF => Ok [(r, n)]
      | _ => match read_all f (skipn (N.to_nat n) s) with
             | Ok l => Ok ((r, n) :: l)
             | Panic => Panic
             | OutOfFuel => OutOfFuel
             end
      end
    | Panic => Panic
    | OutOfFuel => OutOfFuel
    end
  end.
Definition read_stream (s : str) : M (list (rres * N)) := read_all (S (length s)) s.

(* headerWriter.Write: fmt.Fprintf(out, "Content-Length: %v\r\n\r\n", len(data)); out.Write(data) *)
Definition header_prefix : str := content_length ++ [COLON; 32].
Definition write_frame (p : str) : str := header_prefix ++ to_dec (nlen p) ++ [CR; LF; CR; LF] ++ p.
Definition write_stream (ps : list str) : str := concat (map write_frame ps).
