(* Model of x/xgoprojs/proj.go: ParseOne / ParseAll / isFile / isLocal.  No proofs here. *)
From Coq Require Import List NArith Bool.
Import ListNotations.

Definition str := list N.   (* a Go string = its bytes *)
Definition slash : N := 47. Definition bslash : N := 92. Definition dot : N := 46. Definition colon : N := 58.

(* filepath.Ext (unix): suffix beginning at the final dot in the final slash-separated
   element of path; empty if there is no dot. *)
Fixpoint ext_aux (s : str) (acc : option str) : option str :=
  match s with
  | [] => acc
  | c :: t => if N.eqb c slash then ext_aux t None
              else if N.eqb c dot then ext_aux t (Some (c :: t))
              else ext_aux t acc
  end.
Definition ext (s : str) : str := match ext_aux s None with Some e => e | None => [] end.
(* isFile: n := len(filepath.Ext(fname)); return n > 1 *)
Definition is_file (s : str) : bool := Nat.ltb 1 (length (ext s)).

Definition is_letter (c : N) : bool := ((65 <=? c) && (c <=? 90) || (97 <=? c) && (c <=? 122))%N.
(* isLocal: first byte '/', '\\', '.'  or  drive letter followed by ':' (len(ns) >= 2 guard) *)
Definition is_local (s : str) : bool :=
  match s with
  | [] => false
  | c :: t => if (N.eqb c slash || N.eqb c bslash || N.eqb c dot) then true
              else match t with c1 :: _ => N.eqb c1 colon && is_letter c | [] => false end
  end.

Inductive proj := Files (l : list str) | Dir (d : str) | Pkg (p : str).

(* the loop  n := 1; for n < len(args) && isFile(args[n]) { n++ }  as a span *)
Fixpoint span_files (l : list str) : list str * list str :=
  match l with
  | a :: t => if is_file a then let '(x, y) := span_files t in (a :: x, y) else ([], l)
  | [] => ([], [])
  end.

(* ParseOne: None = syscall.ENOENT *)
Definition parse_one (args : list str) : option (proj * list str) :=
  match args with
  | [] => None
  | a :: t => if is_file a then let '(fs, rest) := span_files args in Some (Files fs, rest)
              else if is_local a then Some (Dir a, t) else Some (Pkg a, t)
  end.

Inductive res := Ok (l : list proj) | ErrMixed | OutOfFuel.

(* ParseAll's  for { ... }  loop on explicit fuel *)
Fixpoint parse_all_loop (fuel : nat) (args : list str) (acc : list proj) (hasF hasN : bool) : res :=
  match fuel with
  | O => OutOfFuel
  | S f => match parse_one args with
           | None => if hasF && hasN then ErrMixed else Ok (rev acc)
           | Some (p, next) =>
             match p with
             | Files _ => parse_all_loop f next (p :: acc) true hasN
             | _ => parse_all_loop f next (p :: acc) hasF true
             end
           end
  end.

Definition parse_all (args : list str) : res := parse_all_loop (S (length args)) args [] false false.

Definition args_of (p : proj) : list str := match p with Files l => l | Dir d => [d] | Pkg x => [x] end.
Definition is_files (p : proj) : bool := match p with Files _ => true | _ => false end.
