(* Model of ast/import.go: SortImports, sortSpecs (sort key, dedup, position reassignment),
   collapse, importPath/importName/importComment as record fields.  No proofs here.

   An import spec is the record of what the code reads from it:
     sid      identity of the *ImportSpec (its index in the file before sorting)
     sname    importName(s)    ("" when Name == nil)
     spath    importPath(s)    (strconv.Unquote(Path.Value), "" on error)
     shasc    s.Comment != nil
     sctext   importComment(s) (Comment.Text(), "" when Comment == nil)
     spos/send    s.Pos(), s.End() as offsets
     sline/sendline   lineAt(fset, s.Pos()), lineAt(fset, s.End()) in the line table of the parsed file
   sort.Slice is a parameter `sorter` (any function returning a permutation of its argument that
   is sorted for the less closure); the executable instance is a stable insertion sort.
   Not modelled: the fset line table (MergeLine only renumbers lines after the merged one, so the
   line differences the run-splitting looks at do not change: line numbers are inputs), the
   re-attachment of comment positions and the final sort of the comment list (they only influence
   where the printer puts comments and blank lines). *)
From Coq Require Import List NArith ZArith Bool.
Import ListNotations.
From V Require Import Base.Prelude.
Open Scope Z_scope.

Record spec := mkSpec {
  sid : nat; sname : str; spath : str; shasc : bool; sctext : str;
  spos : Z; send : Z; sline : Z; sendline : Z }.

(* Go's < on strings: bytewise lexicographic, a proper prefix is smaller *)
Fixpoint str_ltb (a b : str) : bool :=
  match a, b with
  | [], [] => false
  | [], _ :: _ => true
  | _ :: _, [] => false
  | x :: a', y :: b' => if N.ltb x y then true else if N.eqb x y then str_ltb a' b' else false
  end.

(* the less closure given to sort.Slice *)
Definition lessb (a b : spec) : bool :=
  if negb (str_eqb (spath a) (spath b)) then str_ltb (spath a) (spath b)
  else if negb (str_eqb (sname a) (sname b)) then str_ltb (sname a) (sname b)
  else str_ltb (sctext a) (sctext b).

(* collapse(prev, next): prev may be removed, leaving only next *)
Definition collapse (prev next : spec) : bool :=
  if negb (str_eqb (spath next) (spath prev)) || negb (str_eqb (sname next) (sname prev)) then false
  else negb (shasc prev).

(* for i, s := range specs { if i == len(specs)-1 || !collapse(s, specs[i+1]) { keep s } } *)
Fixpoint dedupe (l : list spec) : list spec :=
  match l with
  | [] => []
  | s :: rest => match rest with
                 | [] => [s]
                 | n :: _ => if collapse s n then dedupe rest else s :: dedupe rest
                 end
  end.

(* pos[i] = posSpan{s.Pos(), s.End()} recorded before sorting; afterwards spec i of the deduped
   list gets Name.NamePos = Path.ValuePos = pos[i].Start, EndPos = pos[i].End *)
Definition span_of (s : spec) : Z * Z * Z * Z := (spos s, send s, sline s, sendline s).
Definition set_span (s : spec) (p : Z * Z * Z * Z) : spec :=
  let '(a, b, c, d) := p in mkSpec (sid s) (sname s) (spath s) (shasc s) (sctext s) a b c d.
Fixpoint reassign (pos : list (Z * Z * Z * Z)) (l : list spec) {struct l} : M (list spec) :=
  match l with
  | [] => Ok []
  | s :: r => match pos with
              | [] => Panic                                   (* pos[i] out of range *)
              | p :: ps => r' <- reassign ps r ;; Ok (set_span s p :: r')
              end
  end.

Section Sorter.
  Variable sorter : list spec -> list spec.     (* sort.Slice(specs, less) *)

  (* sortSpecs *)
  Definition sort_specs (run : list spec) : M (list spec) :=
    if Nat.leb (length run) 1 then Ok run
    else reassign (map span_of run) (dedupe (sorter run)).

  (* the run-splitting loop of SortImports: `cur` = d.Specs[i:j], prev = d.Specs[j-1] *)
  Fixpoint runs_loop (prev : option spec) (cur : list spec) (l : list spec) : list (list spec) :=
    match l with
    | [] => [cur]                                             (* sortSpecs(d.Specs[i:]) *)
    | s :: r =>
      match prev with
      | Some p => if sline s >? 1 + sendline p                (* j begins a new run *)
                  then cur :: runs_loop (Some s) [s] r
                  else runs_loop (Some s) (cur ++ [s]) r
      | None => runs_loop (Some s) (cur ++ [s]) r              (* j > i is false for j = 0 *)
      end
    end.
  Definition runs (specs : list spec) : list (list spec) := runs_loop None [] specs.

  Fixpoint sort_runs (rs : list (list spec)) : M (list (list spec)) :=
    match rs with
    | [] => Ok []
    | r :: t => r' <- sort_specs r ;; t' <- sort_runs t ;; Ok (r' :: t')
    end.

  (* d.Specs after the loop *)
  Definition sort_block (specs : list spec) : M (list spec) :=
    rs <- sort_runs (runs specs) ;; Ok (concat rs).

  Inductive decl :=
  | ImportDecl (lparen : bool) (specs : list spec)   (* *GenDecl with Tok == IMPORT *)
  | OtherDecl.

  (* SortImports *)
  Fixpoint sort_imports (ds : list decl) : M (list decl) :=
    match ds with
    | [] => Ok []
    | OtherDecl :: _ => Ok ds                                 (* break *)
    | ImportDecl false sp :: r => r' <- sort_imports r ;; Ok (ImportDecl false sp :: r')   (* continue *)
    | ImportDecl true sp :: r =>
      sp' <- sort_block sp ;; r' <- sort_imports r ;; Ok (ImportDecl true sp' :: r')
    end.
End Sorter.

(* executable sorter: stable insertion sort for the less closure *)
Fixpoint insert (x : spec) (l : list spec) : list spec :=
  match l with
  | [] => [x]
  | y :: r => if lessb y x then y :: insert x r else x :: l
  end.
Definition isort (l : list spec) : list spec := fold_right insert [] l.

Definition sort_imports_exec (ds : list decl) : M (list decl) := sort_imports isort ds.
(* the sorted, deduplicated runs of a block (for comparison with the groups of the printed file) *)
Definition block_runs_exec (specs : list spec) : M (list (list spec)) := sort_runs isort (runs specs).

(* a run in which key-equal specs differ in "has a comment" (nil comment vs a comment whose
   Text() is empty): the only case where the outcome depends on how sort.Slice orders ties *)
Definition key_eqb (a b : spec) : bool :=
  str_eqb (spath a) (spath b) && str_eqb (sname a) (sname b) && str_eqb (sctext a) (sctext b).
Definition mixed_ties (run : list spec) : bool :=
  existsb (fun a => existsb (fun b => key_eqb a b && negb (Bool.eqb (shasc a) (shasc b))) run) run.

(* ================================================================================================
   The same code WITH the token.File line table (f.lines: offsets of the line starts).  This is
   the model the differential run executes.  lineAt = File.PositionFor(p, false).Line,
   MergeLine(line) removes the entry of line+1 and panics when there is no such line.  sline and
   sendline of the records are not read here: every line number is computed from the current
   table, exactly as the code does (so a merge can change later run boundaries).
   ================================================================================================ *)
Definition line_at (lines : list Z) (off : Z) : Z :=
  Z.of_nat (length (filter (fun s => s <=? off) lines)).

Fixpoint remove_nth {A} (n : nat) (l : list A) : list A :=
  match l, n with
  | [], _ => []
  | _ :: r, O => r
  | x :: r, S n' => x :: remove_nth n' r
  end.

Definition merge_line (lines : list Z) (line : Z) : M (list Z) :=
  if line <? 1 then Panic                                   (* "invalid line number %d (should be >= 1)" *)
  else if zlen lines <=? line then Panic                    (* "invalid line number %d (should be < %d)" *)
  else Ok (remove_nth (Z.to_nat line) lines).

(* the dedup loop with its else branch:  p := s.Pos(); fset.File(p).MergeLine(lineAt(fset, p)) *)
Fixpoint dedupe_m (lines : list Z) (l : list spec) : M (list spec * list Z) :=
  match l with
  | [] => Ok ([], lines)
  | s :: rest =>
    match rest with
    | [] => Ok ([s], lines)
    | n :: _ => if collapse s n
                then lines' <- merge_line lines (line_at lines (spos s)) ;; dedupe_m lines' rest
                else dl <- dedupe_m lines rest ;; Ok (s :: fst dl, snd dl)
    end
  end.

(* the loop  for rParenLine > lastLine+1 { rParenLine--; MergeLine(rParenLine) }  (n = iterations left) *)
Fixpoint rparen_loop (n : nat) (lines : list Z) (rp : Z) : M (list Z) :=
  match n with
  | O => Ok lines
  | S n' => lines' <- merge_line lines (rp - 1) ;; rparen_loop n' lines' (rp - 1)
  end.

Section SorterLines.
  Variable sorter : list spec -> list spec.

  Definition sort_specs_m (lines : list Z) (run : list spec) : M (list spec * list Z) :=
    if Nat.leb (length run) 1 then Ok (run, lines)
    else dl <- dedupe_m lines (sorter run) ;;
         out <- reassign (map span_of run) (fst dl) ;; Ok (out, snd dl).

  (* the loop of SortImports over d.Specs; out = specs appended so far *)
  Fixpoint block_loop (lines : list Z) (prev : option spec) (cur l out : list spec) : M (list spec * list Z) :=
    match l with
    | [] => ol <- sort_specs_m lines cur ;; Ok (out ++ fst ol, snd ol)
    | s :: r =>
      match prev with
      | Some p => if line_at lines (spos s) >? 1 + line_at lines (send p)
                  then ol <- sort_specs_m lines cur ;; block_loop (snd ol) (Some s) [s] r (out ++ fst ol)
                  else block_loop lines (Some s) (cur ++ [s]) r out
      | None => block_loop lines (Some s) (cur ++ [s]) r out
      end
    end.

  (* one parenthesised import declaration, Rparen at offset rp *)
  Definition sort_block_m (lines : list Z) (rp : Z) (specs : list spec) : M (list spec * list Z) :=
    ol <- block_loop lines None [] specs [] ;;
    match rev (fst ol) with
    | [] => Ok ol                                            (* len(d.Specs) == 0 *)
    | last :: _ =>
      let lastLine := line_at (snd ol) (spos last) in
      let rParenLine := line_at (snd ol) rp in
      lines' <- rparen_loop (Z.to_nat (rParenLine - lastLine - 1)) (snd ol) rParenLine ;;
      Ok (fst ol, lines')
    end.

  Inductive ldecl :=
  | LImport (lparen : bool) (rparen : Z) (specs : list spec)
  | LOther.

  Fixpoint sort_imports_m (lines : list Z) (ds : list ldecl) : M (list ldecl * list Z) :=
    match ds with
    | [] => Ok ([], lines)
    | LOther :: _ => Ok (ds, lines)
    | LImport false rp sp :: r => rl <- sort_imports_m lines r ;; Ok (LImport false rp sp :: fst rl, snd rl)
    | LImport true rp sp :: r =>
      ol <- sort_block_m lines rp sp ;;
      rl <- sort_imports_m (snd ol) r ;; Ok (LImport true rp (fst ol) :: fst rl, snd rl)
    end.
End SorterLines.

Definition sort_imports_lines_exec (lines : list Z) (ds : list ldecl) : M (list ldecl * list Z) :=
  sort_imports_m isort lines ds.

(* the groups of a block as SortImports (or the printer) would see them in line table `lines`:
   a spec starts a new group when its line is more than one past the end line of the previous one *)
Fixpoint groups_loop (lines : list Z) (prev : option spec) (cur : list spec) (l : list spec) : list (list spec) :=
  match l with
  | [] => [cur]
  | s :: r => match prev with
              | Some p => if line_at lines (spos s) >? 1 + line_at lines (send p)
                          then cur :: groups_loop lines (Some s) [s] r
                          else groups_loop lines (Some s) (cur ++ [s]) r
              | None => groups_loop lines (Some s) (cur ++ [s]) r
              end
  end.
Definition groups_in (lines : list Z) (specs : list spec) : list (list spec) := groups_loop lines None [] specs.

Fixpoint path_sorted (l : list spec) : bool :=
  match l with
  | a :: (b :: _) as r => negb (str_ltb (spath b) (spath a)) && path_sorted r
  | _ => true
  end.
