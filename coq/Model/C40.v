(* C40 — x/watcher/changes.go: Changes.FileChanged / Changes.Fetch as a labelled transition
   system.  No proofs here.

   Every goroutine is a thread that is idle or executes one of the two methods; the thread's
   instruction pointer indexes the statement list REGENERATED from the source
   (Gen/ChangesOps.v), so the transition system executes the program that is in /repo now.
   One transition = one statement on the shared state; the mutex is modelled explicitly
   (Lock is enabled only when the mutex is free), sync.Cond as: Wait = atomically {enqueue on
   the notify list; unlock; park}, then re-Lock after a notification; Broadcast = notify every
   parked waiter.  Statements that do not touch p.changed/p.mutex/p.cond (dir := path.Dir(name),
   the fullPath prefixing, return) are folded into the call / return transitions.

   Ghost state: log = the reports (insert statement executed) and fetches (take statement
   executed), newest first. *)
From Coq Require Import List NArith Bool Arith.
Import ListNotations.
From V Require Import Base.C40Ops Gen.ChangesOps.

Definition dir := N.

Inductive wst := Run | Parked | Notified.

Inductive pc :=
| Idle
| InF (d : dir) (ip : nat) (n : nat)          (* in FileChanged(name), d = path.Dir(name); n = local n *)
| InG (ip : nat) (w : wst) (r : option dir).  (* in Fetch; r = result variable dir (None = "") *)

Inductive ev := EReport (d : dir) | EFetch (d : dir).

Record st := mk { changed : list dir; locked : bool; thr : list pc; log : list ev }.

Definition mem (d : dir) (l : list dir) : bool := existsb (N.eqb d) l.
Definition add (d : dir) (l : list dir) : list dir := if mem d l then l else d :: l.
Fixpoint del (d : dir) (l : list dir) : list dir :=
  match l with [] => [] | x :: t => if N.eqb d x then del d t else x :: del d t end.

Definition upd {A} (i : nat) (x : A) (l : list A) : list A :=
  firstn i l ++ match skipn i l with [] => [] | _ :: t => x :: t end.

Definition wake (p : pc) : pc := match p with InG ip Parked r => InG ip Notified r | x => x end.
Definition wake_all (l : list pc) : list pc := map wake l.

Inductive label :=
| LCallF (i : nat) (d : dir)     (* thread i calls FileChanged with directory d *)
| LCallG (i : nat)               (* thread i calls Fetch *)
| LTau (i : nat)                 (* thread i executes its next statement *)
| LTake (i : nat) (d : dir)      (* thread i executes the take statement; the map iteration yields d *)
| LRet (i : nat).                (* thread i returns *)

Section Prog.
Variables pf pg : list cop.      (* the statement lists of FileChanged and Fetch *)

Definition exec_f (s : st) (i : nat) (d : dir) (ip n : nat) : option st :=
  match nth_error pf ip with
  | Some OLock => if locked s then None
                  else Some (mk (changed s) true (upd i (InF d (S ip) n) (thr s)) (log s))
  | Some OUnlock => if locked s then Some (mk (changed s) false (upd i (InF d (S ip) n) (thr s)) (log s))
                    else None    (* sync: unlock of unlocked mutex — fatal, never enabled *)
  | Some OReadLen => Some (mk (changed s) (locked s) (upd i (InF d (S ip) (length (changed s))) (thr s)) (log s))
  | Some OInsert => Some (mk (add d (changed s)) (locked s) (upd i (InF d (S ip) n) (thr s)) (EReport d :: log s))
  | Some (OIfZero OBroadcast) =>
      Some (mk (changed s) (locked s)
               (upd i (InF d (S ip) n) (if Nat.eqb n 0 then wake_all (thr s) else thr s)) (log s))
  | Some OBroadcast => Some (mk (changed s) (locked s) (upd i (InF d (S ip) n) (wake_all (thr s))) (log s))
  | _ => None
  end.

Definition exec_g (s : st) (i : nat) (ip : nat) (w : wst) (r : option dir) (take : option dir) : option st :=
  match w with
  | Parked => None                      (* inside Wait, not notified: no move *)
  | Notified =>                         (* inside Wait, notified: re-Lock; control then returns to the loop condition *)
      match take with
      | None => if locked s then None
                else Some (mk (changed s) true (upd i (InG ip Run r) (thr s)) (log s))
      | Some _ => None
      end
  | Run =>
  match nth_error pg ip, take with
  | Some OLock, None => if locked s then None
                  else Some (mk (changed s) true (upd i (InG (S ip) Run r) (thr s)) (log s))
  | Some OUnlock, None => if locked s then Some (mk (changed s) false (upd i (InG (S ip) Run r) (thr s)) (log s))
                    else None
  | Some (OWhileEmpty OWait), None =>
      match changed s with
      | [] => Some (mk (changed s) false (upd i (InG ip Parked r) (thr s)) (log s))   (* Wait: enqueue+unlock+park *)
      | _ :: _ => Some (mk (changed s) (locked s) (upd i (InG (S ip) Run r) (thr s)) (log s))
      end
  | Some OTakeOne, Some d =>
      if mem d (changed s)
      then Some (mk (del d (changed s)) (locked s) (upd i (InG (S ip) Run (Some d)) (thr s)) (EFetch d :: log s))
      else None
  | Some OTakeOne, None =>
      match changed s with
      | [] => Some (mk (changed s) (locked s) (upd i (InG (S ip) Run r) (thr s)) (log s))  (* empty map: the range body does not run *)
      | _ :: _ => None
      end
  | _, _ => None
  end
  end.

Definition step (s : st) (l : label) : option st :=
  match l with
  | LCallF i d => match nth_error (thr s) i with
                  | Some Idle => Some (mk (changed s) (locked s) (upd i (InF d 0 0) (thr s)) (log s))
                  | _ => None end
  | LCallG i => match nth_error (thr s) i with
                | Some Idle => Some (mk (changed s) (locked s) (upd i (InG 0 Run None) (thr s)) (log s))
                | _ => None end
  | LTau i => match nth_error (thr s) i with
              | Some (InF d ip n) => exec_f s i d ip n
              | Some (InG ip w r) => exec_g s i ip w r None
              | _ => None end
  | LTake i d => match nth_error (thr s) i with
                 | Some (InG ip w r) => exec_g s i ip w r (Some d)
                 | _ => None end
  | LRet i => match nth_error (thr s) i with
              | Some (InF d ip n) => if Nat.eqb ip (length pf)
                                     then Some (mk (changed s) (locked s) (upd i Idle (thr s)) (log s)) else None
              | Some (InG ip Run r) => if Nat.eqb ip (length pg)
                                       then Some (mk (changed s) (locked s) (upd i Idle (thr s)) (log s)) else None
              | _ => None end
  end.

(* value returned by LRet i (Fetch only): the result variable *)
Definition ret_val (s : st) (i : nat) : option (option dir) :=
  match nth_error (thr s) i with
  | Some (InG ip Run r) => if Nat.eqb ip (length pg) then Some r else None
  | _ => None end.

Fixpoint run (s : st) (ls : list label) : option st :=
  match ls with [] => Some s | l :: t => match step s l with Some s' => run s' t | None => None end end.

End Prog.

Definition init (n : nat) : st := mk [] false (repeat Idle n) [].

(* labels that are not a new call: the system's own moves *)
Definition internal (l : label) : bool :=
  match l with LCallF _ _ | LCallG _ => false | _ => true end.

(* the modelled programs: what the proofs in Proofs/C40.v are about; Props/C40.v carries the
   obligation that the regenerated lists equal these *)
Definition model_filechanged : list cop := [OLock; OReadLen; OInsert; OUnlock; OIfZero OBroadcast].
Definition model_fetch : list cop := [OLock; OWhileEmpty OWait; OTakeOne; OUnlock].

(* the transition function of the code in /repo now (extracted; judges the recorded histories) *)
Definition gstep : st -> label -> option st := step gen_filechanged gen_fetch.
Definition gret_val : st -> nat -> option (option dir) := ret_val gen_fetch.

(* can some internal move of thread i happen?  (used by the driver to decide quiescence) *)
Definition enabled_thread (s : st) (i : nat) : bool :=
  match gstep s (LTau i), gstep s (LRet i) with
  | None, None => match changed s with
                  | d :: _ => match gstep s (LTake i d) with Some _ => true | None => false end
                  | [] => false end
  | _, _ => true
  end.
Definition quiescent (s : st) : bool :=
  negb (existsb (enabled_thread s) (seq 0 (length (thr s)))).

(* ghost-log observers *)
Fixpoint pending (l : list ev) (d : dir) : bool :=
  match l with
  | [] => false
  | EReport d' :: t => if N.eqb d d' then true else pending t d
  | EFetch d' :: t => if N.eqb d d' then false else pending t d
  end.

(* ---- vocabulary of the theorems (Props/C40.v) ---- *)
(* states reachable by the code in /repo from n idle goroutines *)
Inductive greach (n : nat) : st -> Prop :=
| greach0 : greach n (init n)
| greachS s l s' : greach n s -> gstep s l = Some s' -> greach n s'.

(* chronological history of reports / fetches *)
Definition hist (s : st) : list ev := rev (log s).

Fixpoint nrep (d : dir) (l : list ev) : nat :=
  match l with [] => 0 | EReport d' :: t => (if N.eqb d d' then 1 else 0) + nrep d t | _ :: t => nrep d t end.
Fixpoint nfet (d : dir) (l : list ev) : nat :=
  match l with [] => 0 | EFetch d' :: t => (if N.eqb d d' then 1 else 0) + nfet d t | _ :: t => nfet d t end.

Definition is_parked (p : pc) : bool := match p with InG _ Parked _ => true | _ => false end.
Definition in_fetch (p : pc) : bool := match p with InG _ _ _ => true | _ => false end.

(* no move of the system itself (anything but a new call) is possible *)
Definition gstuck (s : st) : Prop := forall l, internal l = true -> gstep s l = None.
Definition all_internal (ls : list label) : Prop := forall l, In l ls -> internal l = true.
Definition grun : st -> list label -> option st := run gen_filechanged gen_fetch.
