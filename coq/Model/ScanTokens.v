(* C33: definitions over the generated token tables (Gen/Tokens.v, Gen/ScanTok.v) and the
   scanner model: the operator/keyword tokens of each package, Token.String (table part),
   "scanning the spelling gives back the token".  No proofs here. *)
From Coq Require Import List NArith ZArith Bool.
Import ListNotations.
From V Require Import Base.Prelude Gen.Tokens Gen.ScanTok Model.Scan.
Open Scope Z_scope.

Definition ok_true (m : M bool) : bool := match m with Ok true => true | _ => false end.

(* Token.String(), table part: Some s when 0 <= c < len(tokens) and tokens[c] <> "" (otherwise
   String renders "token(c)") *)
Definition tok_string (tokens : list str) (c : Z) : option str :=
  match idx tokens c with Ok (x :: s) => Some (x :: s) | _ => None end.

(* the operator and keyword tokens of each package, with their spelling in the tokens array *)
Definition xgo_ops : list (Z * str) :=
  filter (fun p => ok_true (xgo_IsOperator (fst p)) || ok_true (xgo_IsKeyword (fst p))) xgo_spell.
Definition go_ops : list (Z * str) :=
  filter (fun p => ok_true (go_IsOperator (fst p)) || ok_true (go_IsKeyword (fst p))) go_spell.
(* tpl/token has no predicates: every token above the literal classes is an operator *)
Definition tpl_ops : list (Z * str) := filter (fun p => tplm_literal_end <? fst p) tpl_spell.

Definition is_auto_semi (t : Tok) : bool :=
  match ttok t with T_SEMICOLON => str_eqb (tlit t) [10%N] | _ => false end.
Definition is_eof (t : Tok) : bool := match ttok t with T_EOF => true | _ => false end.

(* scanning the spelling sp (comments on) gives: the token with code c at offset 0 whose extent
   is all of sp and whose literal is empty (operators), ";" or the keyword itself; then at most
   an automatically inserted semicolon; then EOF; and no error *)
Definition scans_to (ul ud : Z -> bool) (d : dialect) (c : Z) (sp : str) : bool :=
  match run ul ud d true sp with
  | Ok (t :: more, []) =>
    (code d (ttok t) =? c) && (tpos t =? 0) && (tend t =? zlen sp)
    && (str_eqb (tlit t) [] || str_eqb (tlit t) sp)
    && match more with
       | [e] => is_eof e
       | [s; e] => is_auto_semi s && is_eof e
       | _ => false
       end
  | _ => false
  end.

(* every token value with non-zero precedence is an operator (whole array range and margins) *)
Definition prec_ok (prec : Z -> M Z) (isop : Z -> M bool) (c : Z) : bool :=
  match prec c with
  | Ok 0 => true
  | Ok _ => ok_true (isop c)
  | _ => false
  end.
