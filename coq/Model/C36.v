(* Model of tool/imp.go: dirHash / canCl — the exact text fed to SHA-256 for a package directory.
   No proofs here.

   A listing is what os.ReadDir returned (sorted by file name), each entry with what
   DirEntry.IsDir / Name / Info report.  dir_text is the byte string written into the hash by
   the  for _, fi := range fis  loop; fingerprint adds the two "self" lines.  The digest itself
   (SHA-256 + base64) is not modelled: PkgHash = base64(SHA256(fingerprint)). *)
From Coq Require Import List NArith ZArith Bool.
Import ListNotations.
From V Require Import Base.Prelude Base.Radix.
Open Scope N_scope.

Record entry := mkE {
  e_name : str;        (* fi.Name() *)
  e_dir : bool;        (* fi.IsDir() *)
  e_info_ok : bool;    (* fi.Info() returned no error (it fails when the file vanished meanwhile) *)
  e_size : Z;          (* v.Size() *)
  e_mtime : Z          (* v.ModTime().UnixNano() *)
}.

Definition TAB : N := 9.
Definition NL : N := 10.
Definition SLASH : N := 47.
Definition DOT : N := 46.
Definition USCORE : N := 95.

(* path.Ext: the suffix beginning at the final dot in the final slash-separated element; "" if none *)
Fixpoint ext_aux (s : str) (acc : option str) : option str :=
  match s with
  | [] => acc
  | c :: t => if c =? SLASH then ext_aux t None
              else if c =? DOT then ext_aux t (Some (c :: t))
              else ext_aux t acc
  end.
Definition path_ext (s : str) : str := match ext_aux s None with Some e => e | None => [] end.

(* strings.HasPrefix(fname, "_") *)
Definition us_prefix (s : str) : bool := match s with c :: _ => c =? USCORE | [] => false end.

Definition ext_go : str := [46;103;111].          (* .go *)
Definition ext_xgo : str := [46;120;103;111].     (* .xgo *)
Definition ext_gop : str := [46;103;111;112].     (* .gop *)
Definition ext_gox : str := [46;103;111;120].     (* .gox *)

(* strings.LastIndexByte(s, '_') as the split (before, from '_' on); None if absent *)
Fixpoint last_us (s : str) : option (str * str) :=
  match s with
  | [] => None
  | c :: t =>
    match last_us t with
    | Some (a, b) => Some (c :: a, b)
    | None => if c =? USCORE then Some ([], s) else None
    end
  end.

(* modfile.ClassExt = second component of modfile.SplitFname (github.com/goplus/mod) *)
Definition class_ext (fname : str) : str :=
  let e := path_ext fname in
  if str_eqb e ext_gox then
    let cn := firstn (length fname - length e) fname in
    match last_us cn with
    | Some (a, b) => match a with [] => e | _ => b ++ e end     (* n > 0 *)
    | None => e
    end
  else e.

(* canCl: the four source extensions, or an extension registered as a class file in the module
   (mod.IsClass = membership in the module's project map; `classes` lists its keys) *)
Definition can_cl (classes : list str) (fname : str) : bool :=
  let e := path_ext fname in
  if str_eqb e ext_go || str_eqb e ext_xgo || str_eqb e ext_gop || str_eqb e ext_gox then true
  else existsb (str_eqb (class_ext fname)) classes.

Definition file_kw : str := [102;105;108;101].    (* file *)

(* fmt.Fprintf(h, "file\t%s\t%x\t%x\n", fname, v.Size(), v.ModTime().UnixNano()) *)
Definition line (e : entry) : str :=
  file_kw ++ [TAB] ++ e_name e ++ [TAB] ++ to_hex_z (e_size e) ++ [TAB] ++ to_hex_z (e_mtime e) ++ [NL].

(* the loop over the listing, with its three `continue`s and the Info() guard *)
Fixpoint dir_text (classes : list str) (l : list entry) : str :=
  match l with
  | [] => []
  | e :: t =>
    if e_dir e then dir_text classes t
    else if us_prefix (e_name e) || negb (can_cl classes (e_name e)) then dir_text classes t
    else if e_info_ok e then line e ++ dir_text classes t
    else dir_text classes t
  end.

(* if self { "go\t<runtime.Version()>\n" "xgo\t<xgo.Version>\n" } *)
Definition self_text (self : option (str * str)) : str :=
  match self with
  | None => []
  | Some (gov, xgov) => [103;111] ++ [TAB] ++ gov ++ [NL] ++ [120;103;111] ++ [TAB] ++ xgov ++ [NL]
  end.

Definition fingerprint (classes : list str) (self : option (str * str)) (l : list entry) : str :=
  self_text self ++ dir_text classes l.

(* ---- the declarative side: which entries the hash is about *)
Definition relevant (classes : list str) (e : entry) : bool :=
  negb (e_dir e) && negb (us_prefix (e_name e)) && can_cl classes (e_name e) && e_info_ok e.
Definition view (classes : list str) (l : list entry) : list (str * Z * Z) :=
  map (fun e => (e_name e, e_size e, e_mtime e)) (filter (relevant classes) l).

(* ---- a directory as a name-sorted list with unique names, and operations on it (histories) *)
Fixpoint str_ltb (a b : str) : bool :=      (* bytewise lexicographic order = Go string order *)
  match a, b with
  | [], [] => false
  | [], _ :: _ => true
  | _ :: _, [] => false
  | x :: a', y :: b' => if x <? y then true else if y <? x then false else str_ltb a' b'
  end.

Fixpoint put (e : entry) (d : list entry) : list entry :=   (* create or replace by name *)
  match d with
  | [] => [e]
  | x :: t => if str_eqb (e_name e) (e_name x) then e :: t
              else if str_ltb (e_name e) (e_name x) then e :: d
              else x :: put e t
  end.
Fixpoint del (n : str) (d : list entry) : list entry :=
  match d with
  | [] => []
  | x :: t => if str_eqb n (e_name x) then t else x :: del n t
  end.
Fixpoint find (n : str) (d : list entry) : option entry :=
  match d with
  | [] => None
  | x :: t => if str_eqb n (e_name x) then Some x else find n t
  end.

Inductive op :=
| OPut (e : entry)            (* create / overwrite / chtimes / mkdir: the entry named e_name becomes e *)
| ODel (n : str)              (* remove *)
| ORename (a b : str).        (* rename a to b, replacing b; size and mtime travel with the file *)

Definition rename_entry (b : str) (x : entry) : entry := mkE b (e_dir x) (e_info_ok x) (e_size x) (e_mtime x).
Definition apply_op (o : op) (d : list entry) : list entry :=
  match o with
  | OPut e => put e d
  | ODel n => del n d
  | ORename a b => match find a d with
                   | Some x => put (rename_entry b x) (del a d)
                   | None => d
                   end
  end.
(* the directory after each prefix of a history (the state before it first) *)
Fixpoint run (ops : list op) (d : list entry) : list (list entry) :=
  match ops with
  | [] => [d]
  | o :: t => d :: run t (apply_op o d)
  end.
