(* "Productive" grammars: a decidable certificate check under which matching terminates
   (Proofs/TplTerm.v).  A certificate gives every rule a rank and a may-be-empty flag:
     - a rule referenced in a LEFT position (reachable without consuming a token) has a smaller
       rank than the referencing rule            -> no left recursion
     - the body of * and + never matches the empty input   -> no nullable repetition
   No proofs here. *)
From Coq Require Import List NArith ZArith Bool Arith.
Import ListNotations.
From V Require Import Base.Prelude Base.TplRes Model.Tpl.
Local Open Scope nat_scope.

Section Cert.
Variable rk : list nat.        (* rank of rule v *)
Variable nl : list bool.       (* true = rule v may succeed without consuming a token *)
Variable R : nat.              (* strict upper bound of all ranks *)

Definition rank (v : nat) : nat := nth v rk 0.
Definition vnull (v : nat) : bool := nth v nl true.

(* over-approximation of "can succeed consuming no token" *)
Fixpoint nullable (g : m) : bool :=
  match g with
  | MTrue | MWS => true
  | MStr _ | MTok _ | MLit _ _ => false
  | MChoice opts _ => existsb nullable opts
  | MSeq items => forallb nullable items
  | MRep0 _ | MRep01 _ => true
  | MRep1 r => nullable r
  | MAdj _ _ => false
  | MVar v => vnull v
  end.

(* [ok b g]: every rule referenced in a left position of g has rank < b; elsewhere rank < R;
   repetition bodies are not nullable *)
Fixpoint ok (b : nat) (g : m) : bool :=
  match g with
  | MVar v => Nat.ltb (rank v) b
  | MChoice opts _ => forallb (ok b) opts
  | MSeq items =>
      (fix okseq (b : nat) (l : list m) : bool :=
         match l with
         | [] => true
         | it :: t => ok b it && okseq (if nullable it then b else R) t
         end) b items
  | MRep0 r | MRep1 r => negb (nullable r) && ok b r
  | MRep01 r => ok b r
  | MAdj a c => ok b a && ok R c
  | _ => true
  end.

Fixpoint okseq (b : nat) (l : list m) : bool :=
  match l with
  | [] => true
  | it :: t => ok b it && okseq (if nullable it then b else R) t
  end.

Definition body_ok (W : nat) (v : nat) (o : option m) : bool :=
  match o with
  | None => true
  | Some e => Nat.ltb (rank v) R && ok (rank v) e && (vnull v || negb (nullable e)) && Nat.ltb (msize e) W
  end.

Fixpoint env_ok_from (W : nat) (v : nat) (env : list (option m)) : bool :=
  match env with
  | [] => true
  | o :: t => body_ok W v o && env_ok_from W (S v) t
  end.
End Cert.

Definition max_size (env : list (option m)) : nat :=
  fold_right (fun o a => Nat.max (match o with Some g => msize g | None => 0 end) a) 0 env.

(* the certificate check; R and W are derived from the certificate and the grammar *)
Definition cert_R (rk : list nat) : nat := S (fold_right Nat.max 0 rk).
Definition cert_W (env : list (option m)) : nat := S (S (max_size env)).
Definition productive (rk : list nat) (nl : list bool) (env : list (option m)) : bool :=
  env_ok_from rk nl (cert_R rk) (cert_W env) 0 env.

(* fuel that suffices for Doc.Match on a productive grammar (Proofs/TplTerm.v: match_terminates) *)
Definition fuel_bound (rk : list nat) (env : list (option m)) (toks : list tokn) : nat :=
  S ((length toks + 1) * ((cert_R rk + 1) * cert_W env)).

(* a certificate search used by the model runner to report which generated grammars the theorem
   covers: nl by fixpoint iteration from all-false, ranks by iterated relaxation *)
Fixpoint iter_nl (k : nat) (env : list (option m)) (nl : list bool) : list bool :=
  match k with
  | O => nl
  | S k' => iter_nl k' env (map (fun o => match o with Some e => nullable nl e | None => true end) env)
  end.

(* left references of g *)
Fixpoint left_refs (nl : list bool) (g : m) : list nat :=
  match g with
  | MVar v => [v]
  | MChoice opts _ => flat_map (left_refs nl) opts
  | MSeq items =>
      (fix go (l : list m) : list nat :=
         match l with
         | [] => []
         | it :: t => left_refs nl it ++ (if nullable nl it then go t else [])
         end) items
  | MRep0 r | MRep1 r | MRep01 r => left_refs nl r
  | MAdj a _ => left_refs nl a
  | _ => []
  end.

Fixpoint iter_rk (k : nat) (env : list (option m)) (nl : list bool) (rk : list nat) : list nat :=
  match k with
  | O => rk
  | S k' => iter_rk k' env nl
              (map (fun o => match o with
                             | Some e => fold_right (fun v a => Nat.max (S (nth v rk 0)) a) 0 (left_refs nl e)
                             | None => 0 end) env)
  end.

Definition find_cert (env : list (option m)) : list nat * list bool :=
  let n := length env in
  let nl := iter_nl (S n) env (map (fun _ => false) env) in
  (iter_rk (S n) env nl (map (fun _ => 0) env), nl).
Definition is_productive (env : list (option m)) : bool :=
  let '(rk, nl) := find_cert env in productive rk nl env.
