(* C41 — x/fakenet/conn.go: fakeConn over two connFeeders as a labelled transition system.
   No proofs here.

   Threads are goroutines calling Read / Write (connFeeder.do on the reader / writer feeder) or
   Close; each feeder has one worker goroutine (connFeeder.run) and an underlying stream whose
   source call (in.Read / out.Write) is the environment: it returns whenever it likes, or never.

   Go's select on the unbuffered channels input / result and the closable channel done is
   modelled the way the runtime does it (commit by the waker): a goroutine executing a select
   first POLLS — if a case is ready (a partner is PARKED on the channel, or done is closed) it
   takes one of the ready cases; the parked partner is thereby committed to that rendezvous and
   is no partner for anybody else — and otherwise PARKS on all its channels.  close(done) commits
   every goroutine parked on done to its done case.  Poll-and-park is atomic (the runtime holds
   the locks of all channels of the select), as is close.

   fakeConn.Close and connFeeder.close are executed from the statement lists REGENERATED from the
   source (Gen/FeederSelects.v: gen_conn_close, gen_feeder_close). *)
From Coq Require Import List NArith Bool Arith.
Import ListNotations.
From V Require Import Base.LtsLists Base.C41Ops Gen.FeederSelects.

(* what do returns / what the source returns *)
Inductive res :=
| REof                   (* 0, io.EOF produced by a done case *)
| ROk (v : N)            (* a result (n, err) of the source, produced while its stream was usable *)
| RClosed.               (* the error a source call returns BECAUSE its stream has been closed *)

Inductive tpc :=
| Idle
| D1 (f : fid) (b : N)       (* in do(b) on feeder f: about to execute the first select *)
| D1W (f : fid) (b : N)      (* parked in the first select (sender on input, receiver on done) *)
| D2 (f : fid)               (* b was handed to the worker: about to execute the second select *)
| D2W (f : fid)              (* parked in the second select (receiver on result and on done) *)
| DRet (f : fid) (r : res)   (* committed: about to return r *)
| K (ip sub : nat).          (* in fakeConn.Close: statement ip; inside connFeeder.close: statement sub *)

Inductive wpc :=
| W0                         (* about to execute the first select of run *)
| W0W                        (* parked in it (receiver on input and on done) *)
| WC (o : nat) (b : N)       (* received b from thread o: about to call the source *)
| WS (o : nat) (b : N)       (* inside the source *)
| W1 (o : nat) (r : res)     (* about to execute the second select of run *)
| W1W (o : nat) (r : res)    (* parked in it (sender on result, receiver on done) *)
| WX.                        (* returned *)

Record fstate := mkF {
  done : bool;               (* f.done is closed *)
  fclosed : bool;            (* f.closed *)
  mu : bool;                 (* f.mu is held *)
  sclosed : bool;            (* the underlying stream (in / out) has been closed *)
  wk : wpc;
  (* ghost history, newest first *)
  sent : list (nat * N);             (* buffers accepted by the worker, with the sending thread *)
  sourced : list N;                  (* buffers the source has been called with *)
  produced : list (nat * N * res);   (* results of the source: for whom, for which buffer *)
  delivered : list (nat * res) }.    (* results handed to a caller through the result channel *)

Record st := mkS { thr : list tpc; fr : fstate; fw : fstate }.

Definition getf (s : st) (f : fid) : fstate := match f with FR => fr s | FW => fw s end.
Definition setf (s : st) (f : fid) (x : fstate) (t : list tpc) : st :=
  match f with FR => mkS t x (fw s) | FW => mkS t (fr s) x end.


(* field updates *)
Definition w_wk (F : fstate) (w : wpc) : fstate :=
  mkF (done F) (fclosed F) (mu F) (sclosed F) w (sent F) (sourced F) (produced F) (delivered F).
Definition w_mu (F : fstate) (b : bool) : fstate :=
  mkF (done F) (fclosed F) b (sclosed F) (wk F) (sent F) (sourced F) (produced F) (delivered F).
Definition w_sclosed (F : fstate) : fstate :=
  mkF (done F) (fclosed F) (mu F) true (wk F) (sent F) (sourced F) (produced F) (delivered F).
Definition w_accept (F : fstate) (j : nat) (b : N) : fstate :=       (* the worker receives b from thread j *)
  mkF (done F) (fclosed F) (mu F) (sclosed F) (WC j b) ((j, b) :: sent F) (sourced F) (produced F) (delivered F).
Definition w_deliver (F : fstate) (j : nat) (r : res) : fstate :=    (* thread j receives r from the worker *)
  mkF (done F) (fclosed F) (mu F) (sclosed F) W0 (sent F) (sourced F) (produced F) ((j, r) :: delivered F).
Definition w_call (F : fstate) (o : nat) (b : N) : fstate :=
  mkF (done F) (fclosed F) (mu F) (sclosed F) (WS o b) (sent F) (b :: sourced F) (produced F) (delivered F).
Definition w_srcret (F : fstate) (o : nat) (b : N) (r : res) : fstate :=
  mkF (done F) (fclosed F) (mu F) (sclosed F) (W1 o r) (sent F) (sourced F) ((o, b, r) :: produced F) (delivered F).
Definition wake_w (w : wpc) : wpc := match w with W0W => WX | W1W _ _ => WX | x => x end.
Definition w_closedone (F : fstate) (setflag : bool) : fstate :=        (* close(f.done) [and f.closed = true] *)
  mkF true (if setflag then true else fclosed F) (mu F) (sclosed F) (wake_w (wk F)) (sent F) (sourced F) (produced F) (delivered F).


(* close(done): everybody parked on done is committed to the done case *)
Definition wake_done (f : fid) (p : tpc) : tpc :=
  match p with
  | D1W f' _ => if fid_eqb f f' then DRet f REof else p
  | D2W f' => if fid_eqb f f' then DRet f REof else p
  | _ => p
  end.

Definition parked1 (f : fid) (p : tpc) : bool := match p with D1W f' _ => fid_eqb f f' | _ => false end.
Definition parked2 (f : fid) (p : tpc) : bool := match p with D2W f' => fid_eqb f f' | _ => false end.

Inductive label :=
| LCall (i : nat) (f : fid) (b : N)       (* thread i calls do(b) on feeder f (Read: reader, Write: writer) *)
| LPollDone (i : nat)                     (* thread i polls its select and takes the done case *)
| LPollChan (i : nat)                     (* ... takes the channel case: the worker is parked on it *)
| LPark (i : nat)                         (* ... finds no case ready and parks *)
| LRet (i : nat)
| LCallClose (i : nat)                    (* thread i calls fakeConn.Close *)
| LK (i : nat)                            (* thread i executes its next statement of Close / close *)
| LWPollDone (f : fid)                    (* worker of f polls and takes the done case: returns *)
| LWPollChan (f : fid) (j : nat)          (* ... takes the channel case with the parked thread j *)
| LWPark (f : fid)
| LWCall (f : fid)                        (* the worker calls the source *)
| LSrc (f : fid) (r : res).               (* environment: the source returns r *)

Section Prog.
Variable kc : list kop.      (* statements of fakeConn.Close *)
Variable fc : list fop.      (* statements of connFeeder.close *)

Definition step_k (s : st) (i ip sub : nat) : option st :=
  match nth_error kc ip with
  | Some (KCloseFeeder f) =>
      let F := getf s f in
      match nth_error fc sub with
      | Some FLock =>
          if mu F then None
          else Some (setf s f (w_mu F true)
                          (upd i (K ip (S sub)) (thr s)))
      | Some FUnlock =>
          if mu F
          then Some (setf s f (w_mu F false)
                          (upd i (K ip (S sub)) (thr s)))
          else None                            (* unlock of an unlocked mutex: fatal *)
      | Some FMarkCloseDone =>
          if fclosed F then Some (setf s f F (upd i (K ip (S sub)) (thr s)))
          else if done F then None             (* close of a closed channel: panic *)
          else Some (setf s f (w_closedone F true)
                          (upd i (K ip (S sub)) (map (wake_done f) (thr s))))
      | Some FCloseDone =>
          if done F then None
          else Some (setf s f (w_closedone F false)
                          (upd i (K ip (S sub)) (map (wake_done f) (thr s))))
      | Some FOther => None
      | None => Some (mkS (upd i (K (S ip) 0) (thr s)) (fr s) (fw s))      (* connFeeder.close returns *)
      end
  | Some (KCloseStream f) =>
      let F := getf s f in
      Some (setf s f (w_sclosed F)
                 (upd i (K (S ip) 0) (thr s)))
  | None => None
  end.

Definition is_eof (r : res) : bool := match r with REof => true | _ => false end.
Definition is_closed_err (r : res) : bool := match r with RClosed => true | _ => false end.

Definition step (s : st) (l : label) : option st :=
  match l with
  | LCall i f b =>
      match nth_error (thr s) i with
      | Some Idle => Some (mkS (upd i (D1 f b) (thr s)) (fr s) (fw s))
      | _ => None end
  | LPollDone i =>
      match nth_error (thr s) i with
      | Some (D1 f _) | Some (D2 f) =>
          if done (getf s f) then Some (mkS (upd i (DRet f REof) (thr s)) (fr s) (fw s)) else None
      | _ => None end
  | LPollChan i =>
      match nth_error (thr s) i with
      | Some (D1 f b) =>
          let F := getf s f in
          match wk F with
          | W0W => Some (setf s f (w_accept F i b)
                              (upd i (D2 f) (thr s)))
          | _ => None end
      | Some (D2 f) =>
          let F := getf s f in
          match wk F with
          | W1W o r => Some (setf s f (w_deliver F i r)
                                  (upd i (DRet f r) (thr s)))
          | _ => None end
      | _ => None end
  | LPark i =>
      match nth_error (thr s) i with
      | Some (D1 f b) =>
          let F := getf s f in
          if done F then None else
          match wk F with W0W => None | _ => Some (mkS (upd i (D1W f b) (thr s)) (fr s) (fw s)) end
      | Some (D2 f) =>
          let F := getf s f in
          if done F then None else
          match wk F with W1W _ _ => None | _ => Some (mkS (upd i (D2W f) (thr s)) (fr s) (fw s)) end
      | _ => None end
  | LRet i =>
      match nth_error (thr s) i with
      | Some (DRet _ _) => Some (mkS (upd i Idle (thr s)) (fr s) (fw s))
      | Some (K ip sub) => if Nat.eqb ip (length kc) && Nat.eqb sub 0
                           then Some (mkS (upd i Idle (thr s)) (fr s) (fw s)) else None
      | _ => None end
  | LCallClose i =>
      match nth_error (thr s) i with
      | Some Idle => Some (mkS (upd i (K 0 0) (thr s)) (fr s) (fw s))
      | _ => None end
  | LK i =>
      match nth_error (thr s) i with
      | Some (K ip sub) => step_k s i ip sub
      | _ => None end
  | LWPollDone f =>
      let F := getf s f in
      if done F then
        match wk F with
        | W0 | W1 _ _ => Some (setf s f (w_wk F WX) (thr s))
        | _ => None end
      else None
  | LWPollChan f j =>
      let F := getf s f in
      match wk F, nth_error (thr s) j with
      | W0, Some (D1W f' b) =>
          if fid_eqb f f'
          then Some (setf s f (w_accept F j b)
                          (upd j (D2 f) (thr s)))
          else None
      | W1 o r, Some (D2W f') =>
          if fid_eqb f f'
          then Some (setf s f (w_deliver F j r)
                          (upd j (DRet f r) (thr s)))
          else None
      | _, _ => None end
  | LWPark f =>
      let F := getf s f in
      if done F then None else
      match wk F with
      | W0 => if existsb (parked1 f) (thr s) then None
              else Some (setf s f (w_wk F W0W) (thr s))
      | W1 o r => if existsb (parked2 f) (thr s) then None
                  else Some (setf s f (w_wk F (W1W o r)) (thr s))
      | _ => None end
  | LWCall f =>
      let F := getf s f in
      match wk F with
      | WC o b => Some (setf s f (w_call F o b) (thr s))
      | _ => None end
  | LSrc f r =>
      let F := getf s f in
      match wk F with
      | WS o b =>
          if is_eof r then None
          else if is_closed_err r && negb (sclosed F) then None
          else Some (setf s f (w_srcret F o b r) (thr s))
      | _ => None end
  end.

Fixpoint run (s : st) (ls : list label) : option st :=
  match ls with [] => Some s | l :: t => match step s l with Some s' => run s' t | None => None end end.

End Prog.

Definition f0 : fstate := mkF false false false false W0 [] [] [] [].
Definition init (n : nat) : st := mkS (repeat Idle n) f0 f0.

(* the modelled close programs and select tables (the proofs in Proofs/C41.v are about these; Props/C41.v
   carries the obligation that the regenerated ones equal them) *)
Definition model_conn_close : list kop := [KCloseFeeder FR; KCloseFeeder FW; KCloseStream FR; KCloseStream FW].
Definition model_feeder_close : list fop := [FLock; FMarkCloseDone; FUnlock].
(* do: D1 = first select {send b on input -> D2 | done -> return EOF}; D2 = second select {recv r on result ->
   return r | done -> return EOF}.  run: for { W0 = select {recv b on input -> WC | done -> return}; WC = call
   source; W1 = select {send r on result -> W0 | done -> return} } *)
Definition model_do : list sstmt :=
  [SSelect [(CInput, ASendArg); (CDone, ARetEOF)]; SSelect [(CResult, ARecvRet); (CDone, ARetEOF)]].
Definition model_run : list sstmt :=
  [SLoop [SSelect [(CInput, ARecvBuf); (CDone, ARet)]; SCallSource; SSelect [(CResult, ASendResult); (CDone, ARet)]]].
Definition model_chan_caps : list (chn * N) := [(CInput, 0%N); (CResult, 0%N); (CDone, 0%N)].

(* the transition function of the code in /repo now (extracted; judges the recorded histories) *)
Definition gstep : st -> label -> option st := step gen_conn_close gen_feeder_close.
Definition grun : st -> list label -> option st := run gen_conn_close gen_feeder_close.

Inductive greach (n : nat) : st -> Prop :=
| greach0 : greach n (init n)
| greachS s l s' : greach n s -> gstep s l = Some s' -> greach n s'.

(* ---- vocabulary of the theorems ---- *)
Definition in_do (f : fid) (p : tpc) : bool :=
  match p with
  | D1 f' _ | D1W f' _ | D2 f' | D2W f' | DRet f' _ => fid_eqb f f'
  | _ => false end.
Definition is_parked_t (p : tpc) : bool := match p with D1W _ _ | D2W _ => true | _ => false end.
Definition is_parked_w (w : wpc) : bool := match w with W0W | W1W _ _ => true | _ => false end.
(* a thread has left Close with both feeders closed behind it: ip past the two feeder closes *)
Definition pending_buf (w : wpc) : list N := match w with WC _ b => [b] | _ => [] end.
