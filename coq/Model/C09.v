(* Model of the //line directive machinery of cl (cl/stmt.go: commentStmt, commentStmtEx, checkStmtDoc,
   commentFunc, compileStmt and the compile*Stmt functions as far as they touch cb.comments;
   cl/expr.go: compileFuncLit, compileLambdaExpr2; cl/compile.go: loadFuncBody, loadFunc, loadFile order),
   of the text layout gogen's printer gives to a statement that carries such a comment (observed, tied
   by the structural K-diff), and of Go's //line semantics (go_line_of).  No proofs here.

   One piece of state matters: CodeBuilder.comments (`cm`), the comment attached to the NEXT emitted
   Go statement.  commentStmt sets it, the control-statement compilers back it up and restore it,
   loadFuncBody resets it to nil, and a Go statement is emitted (emitStmt) with whatever it holds at that
   moment.  Function bodies are compiled lazily: the first reference to a not yet loaded top-level
   function compiles that function's body on the same CodeBuilder in the middle of the referencing
   statement (loadSymbol -> loadFunc -> loadFuncBody). *)
From Coq Require Import List NArith Bool.
Import ListNotations.
From V Require Import Base.Prelude.

Definition pos := option (N * N).          (* None = token.NoPos ; Some (file, line) *)
Definition dir := option (N * N).          (* cb.comments: None = nil ; Some (f,l) = "\n//line f:l:1" *)

(* one line of the emitted Go text *)
Inductive outline :=
| Dir (f l : N) (col : bool)       (* //line f:l:1   (col=false: //line f:l , the shadow entry) *)
| Doc                              (* a line holding only (part of) a doc comment *)
| Code (id : N) (tag : pos).       (* a code line; id<>0: the line holds the first code of source statement id;
                                      tag: source position of the statement / function whose first code is here *)

(* ---- source statements (projection of the XGo AST on what the directive machinery looks at) ---- *)
Inductive stmt :=
| SSimple (id : N) (p : pos) (ps : parts)                      (* Expr/Assign/Return/IncDec/Defer/Go/Send/Branch *)
| SDecl (id : N) (p : pos) (docp : pos) (hasdoc : bool) (docskip : N) (ps : parts)   (* DeclStmt of a one-spec GenDecl *)
| SBlock (p : pos) (b : stmts)
| SIf (id : N) (p : pos) (init : ostmt) (ps : parts) (b : stmts) (e : els)
| SFor (id : N) (p : pos) (init : ostmt) (ps : parts) (post : ostmt) (b : stmts)
| SRange (id : N) (p : pos) (ps : parts) (b : stmts)          (* RangeStmt / ForPhraseStmt without condition *)
| SPhraseIf (id : N) (p : pos) (ps : parts) (cid : N) (cps : parts) (b : stmts)   (* for v <- x if cond {...} *)
| SSwitch (id : N) (p : pos) (init : ostmt) (ps : parts) (cs : clauses)  (* switch and type switch *)
| SSelect (p : pos) (cs : clauses)
| SLabeled (p : pos) (s : stmt)
with stmts := SNil | SCons (s : stmt) (r : stmts)
with ostmt := ONone | OSome (s : stmt)
with parts :=                       (* what compiling the expressions of a statement header meets, in order *)
| PNil
| PRef (g : N) (r : parts)          (* identifier of top-level function g *)
| PLit (b : stmts) (r : parts)      (* function literal / multi-statement lambda with body b *)
| PLam (id : N) (inner : parts) (r : parts)   (* single-expression lambda  x => e : e holds `inner` *)
with els := ENone | EBlock (b : stmts) | EIf (s : stmt)
with clauses :=
| CNil
| CCons (id : N) (p : pos) (comm : ostmt) (ps : parts) (b : stmts) (ft : bool) (r : clauses).

Inductive decl :=
| DFunc (g : N) (p : pos) (docp : pos) (hasdoc : bool) (docskip : N) (shadow : bool) (body : stmts)
| DMethod (g : N) (p : pos) (docp : pos) (hasdoc : bool) (docskip : N) (body : stmts).
Definition prog := list decl.

(* ---- compiler state ---- *)
Record state := mkst { cm : dir ; unl : list N ; outf : list (N * list outline) }.
Definition set_cm (c : dir) (s : state) : state := mkst c (unl s) (outf s).
Definition set_unl (u : list N) (s : state) : state := mkst (cm s) u (outf s).
Definition add_out (g : N) (ls : list outline) (s : state) : state := mkst (cm s) (unl s) (outf s ++ [(g, ls)]).

Fixpoint memN (x : N) (l : list N) : bool := match l with [] => false | y :: t => N.eqb x y || memN x t end.
Fixpoint removeN (x : N) (l : list N) : list N :=
  match l with [] => [] | y :: t => if N.eqb x y then removeN x t else y :: removeN x t end.

(* commentStmtEx for a statement without doc: start == NoPos -> SetComments(nil) else the //line comment *)
Definition comment_stmt (p : pos) (s : state) : state := set_cm p s.
(* commentStmtEx for a DeclStmt: the NoPos test is on stmt.Pos() and comes first; then Doc.Pos() replaces start *)
Definition comment_decl (p docp : pos) (hasdoc : bool) (s : state) : state :=
  match p with
  | None => set_cm None s
  | Some _ => if hasdoc then set_cm docp s else set_cm p s
  end.

Definition dir_line (c : dir) : list outline := match c with None => [] | Some (f, l) => [Dir f l true] end.
Definition C0 : outline := Code 0 None.
Fixpoint docs (n : nat) : list outline := match n with O => [] | S k => Doc :: docs k end.

(* commentFunc + the printed function: directive (Doc.Pos() if there is a doc, else Name.Pos()), the doc
   lines, the header, the body, the closing brace *)
Definition print_func (p docp : pos) (hasdoc : bool) (docskip : N) (shadow : bool) (body : list outline) : list outline :=
  let d := match p with
           | None => []
           | Some _ => match (if hasdoc then docp else p) with
                       | Some (f, l) => [Dir f l (negb shadow)]
                       | None => []      (* fset.Position(NoPos): cannot happen for a parsed doc *)
                       end
           end in
  d ++ docs (N.to_nat docskip) ++ Code 0 p :: body ++ [C0].

Fixpoint find_func (pr : prog) (g : N) : option decl :=
  match pr with
  | [] => None
  | (DFunc g' _ _ _ _ _ _ as d) :: t => if N.eqb g g' then Some d else find_func t g
  | _ :: t => find_func t g
  end.

Definition R := (list outline * state)%type.

(* header of a statement that may start with an init statement: with an init, the keyword stands alone on
   its line and the init statement (with its own directive) follows *)
Definition header (id : N) (p : pos) (init : ostmt) (il : list outline) : list outline :=
  match init with ONone => [Code id p] | OSome _ => C0 :: il end.

Section WithProg.
Variable pr : prog.

Fixpoint compile_stmt (fuel : nat) (s : stmt) (st : state) {struct fuel} : M R :=
  match fuel with O => OutOfFuel | S f =>
  match s with
  | SSimple id p ps =>
      let st1 := comment_stmt p st in                          (* compileStmt: commentStmt(ctx, stmt) *)
      r <- compile_parts f ps st1 ;;
      let '(ll, st2) := r in
      Ok (dir_line (cm st2) ++ Code id p :: ll, st2)           (* cb.EndStmt(): emitStmt with cb.comments *)
  | SDecl id p docp hasdoc docskip ps =>
      let st1 := comment_decl p docp hasdoc st in
      r <- compile_parts f ps st1 ;;
      let '(ll, st2) := r in
      Ok (dir_line (cm st2) ++ docs (N.to_nat docskip) ++ Code id p :: ll, st2)
  | SBlock p b =>
      let st1 := comment_stmt p st in
      r <- compile_stmts f b st1 ;;                            (* cb.Block(); compileStmts; cb.End(); return *)
      let '(bl, st2) := r in
      Ok (dir_line (cm st2) ++ C0 :: bl ++ [C0], st2)          (* no backup/restore around the block *)
  | SIf id p init ps b e =>
      let st1 := comment_stmt p st in
      let backup := cm st1 in                                  (* comments, once := cb.BackupComments() *)
      r <- compile_ostmt f init st1 ;; let '(il, st2) := r in  (* compileStmt(ctx, v.Init) *)
      r <- compile_parts f ps st2 ;; let '(ll, st3) := r in    (* compileExpr(ctx, v.Cond) *)
      r <- compile_stmts f b st3 ;; let '(bl, st4) := r in
      r <- compile_els f e st4 ;; let '(el, st5) := r in
      let st6 := set_cm backup st5 in                          (* cb.SetComments(comments, once) *)
      Ok (dir_line (cm st6) ++ header id p init il ++ ll ++ bl ++ el, st6)   (* cb.End(v) *)
  | SFor id p init ps post b =>
      let st1 := comment_stmt p st in
      let backup := cm st1 in
      r <- compile_ostmt f init st1 ;; let '(il, st2) := r in
      r <- compile_parts f ps st2 ;; let '(ll, st3) := r in
      r <- compile_stmts f b st3 ;; let '(bl, st4) := r in
      r <- compile_ostmt f post st4 ;; let '(pl, st5) := r in  (* cb.Post(); compileStmt(ctx, v.Post) *)
      let st6 := set_cm backup st5 in
      Ok (dir_line (cm st6) ++ header id p init il ++ ll ++ pl ++ bl ++ [C0], st6)
  | SRange id p ps b =>
      let st1 := comment_stmt p st in
      let backup := cm st1 in
      r <- compile_parts f ps st1 ;; let '(ll, st2) := r in    (* compileExpr(ctx, v.X) *)
      r <- compile_stmts f b st2 ;; let '(bl, st3) := r in
      let st4 := set_cm backup st3 in
      Ok (C0 :: dir_line (cm st4) ++ Code id p :: ll ++ bl ++ [C0], st4)     (* "for" NL directive NL "k, v := range x {" *)
  | SPhraseIf id p ps cid cps b =>
      let st1 := comment_stmt p st in
      let backup := cm st1 in
      r <- compile_parts f ps st1 ;; let '(ll, st2) := r in
      r <- compile_parts f cps st2 ;; let '(cl, st3) := r in   (* cb.If(); compileExpr(ctx, v.Cond); cb.Then() *)
      r <- compile_stmts f b st3 ;; let '(bl, st4) := r in
      let st5 := set_cm backup st4 in                          (* restored BEFORE the inner if is emitted *)
      Ok (C0 :: dir_line (cm st5) ++ Code id p :: ll ++
          (dir_line (cm st5) ++ Code cid None :: cl ++ bl ++ [C0]) ++ [C0], st5)
  | SSwitch id p init ps cs =>
      let st1 := comment_stmt p st in
      let backup := cm st1 in
      r <- compile_ostmt f init st1 ;; let '(il, st2) := r in
      r <- compile_parts f ps st2 ;; let '(ll, st3) := r in
      r <- compile_clauses f cs st3 ;; let '(cl, st4) := r in
      let st5 := set_cm backup st4 in
      Ok (dir_line (cm st5) ++ header id p init il ++ ll ++ cl ++ [C0], st5)
  | SSelect p cs =>
      let st1 := comment_stmt p st in
      let backup := cm st1 in
      r <- compile_clauses f cs st1 ;; let '(cl, st2) := r in
      let st3 := set_cm backup st2 in
      Ok (dir_line (cm st3) ++ C0 :: cl ++ (match cs with CNil => [] | _ => [C0] end), st3)   (* "select {}" is one line *)
  | SLabeled p s1 =>
      let st1 := comment_stmt p st in                          (* overwritten by the inner compileStmt *)
      r <- compile_stmt f s1 st1 ;; let '(sl, st2) := r in
      Ok (C0 :: sl, st2)                                       (* "L:" on its own line *)
  end end

with compile_stmts (fuel : nat) (b : stmts) (st : state) {struct fuel} : M R :=
  match fuel with O => OutOfFuel | S f =>
  match b with
  | SNil => Ok ([], st)
  | SCons s r =>
      x <- compile_stmt f s st ;; let '(l1, st1) := x in
      y <- compile_stmts f r st1 ;; let '(l2, st2) := y in
      Ok (l1 ++ l2, st2)
  end end

with compile_ostmt (fuel : nat) (o : ostmt) (st : state) {struct fuel} : M R :=
  match fuel with O => OutOfFuel | S f =>
  match o with
  | ONone => Ok ([], st)
  | OSome s => compile_stmt f s st
  end end

with compile_parts (fuel : nat) (ps : parts) (st : state) {struct fuel} : M R :=
  match fuel with O => OutOfFuel | S f =>
  match ps with
  | PNil => Ok ([], st)
  | PRef g r =>
      (* first use of a not yet loaded function: loadSymbol deletes it from syms and runs its loader on
         the same CodeBuilder, in the middle of the referring statement *)
      x <- (if memN g (unl st) then load_func f g (set_unl (removeN g (unl st)) st) else Ok st) ;;
      compile_parts f r x
  | PLit b r =>
      let backup := cm st in                                   (* compileFuncLit: BackupComments *)
      x <- compile_stmts f b (set_cm None st) ;;               (* loadFuncBody: cb.SetComments(nil, false) *)
      let '(bl, st1) := x in
      let st2 := set_cm backup st1 in                          (* cb.SetComments(comments, once) *)
      y <- compile_parts f r st2 ;; let '(rl, st3) := y in
      Ok (bl ++ C0 :: rl, st3)
  | PLam id inner r =>
      (* compileLambdaExpr: no backup; the closure body is `return e`, emitted (cb.Return) with the comment
         of the enclosing statement *)
      x <- compile_parts f inner st ;; let '(il, st1) := x in
      y <- compile_parts f r st1 ;; let '(rl, st2) := y in
      Ok (dir_line (cm st1) ++ Code id None :: il ++ C0 :: rl, st2)
  end end

with compile_els (fuel : nat) (e : els) (st : state) {struct fuel} : M R :=
  match fuel with O => OutOfFuel | S f =>
  match e with
  | ENone => Ok ([C0], st)
  | EBlock b =>                                                (* compileStmts(ctx, stmts.List): no commentStmt, no Block *)
      x <- compile_stmts f b st ;; let '(bl, st1) := x in
      (* gogen ifStmt.End: an else block holding exactly one if statement is printed as "else if" *)
      Ok (match b with
          | SCons (SIf _ _ _ _ _ _) SNil => C0 :: bl
          | _ => C0 :: bl ++ [C0]
          end, st1)
  | EIf s =>
      x <- compile_stmt f s st ;; let '(sl, st1) := x in
      Ok (C0 :: sl, st1)                                       (* "} else" NL directive NL "if ..." *)
  end end

with compile_clauses (fuel : nat) (cs : clauses) (st : state) {struct fuel} : M R :=
  match fuel with O => OutOfFuel | S f =>
  match cs with
  | CNil => Ok ([], st)
  | CCons id p comm ps b ft r =>
      x <- compile_parts f ps st ;; let '(el, st1) := x in     (* case expressions *)
      x <- compile_ostmt f comm st1 ;; let '(ml, st2) := x in  (* select: compileStmt(ctx, c.Comm) *)
      x <- compile_stmts f b st2 ;; let '(bl, st3) := x in
      let fl := if ft then dir_line (cm st3) ++ [C0] else [] in (* cb.Fallthrough(): emitted with the current comment *)
      let st4 := comment_stmt p st3 in                         (* commentStmt(ctx, stmt) AFTER the body; then cb.End(c) *)
      y <- compile_clauses f r st4 ;; let '(rl, st5) := y in
      Ok (dir_line (cm st4) ++
          (match comm with ONone => [Code id p] | OSome _ => C0 :: ml end) ++ el ++ bl ++ fl ++ rl, st5)
  end end

(* loadFunc (no receiver): NewFuncWith, commentFunc, loadFuncBody *)
with load_func (fuel : nat) (g : N) (st : state) {struct fuel} : M state :=
  match fuel with O => OutOfFuel | S f =>
  match find_func pr g with
  | Some (DFunc _ p docp hasdoc docskip shadow body) =>
      let backup := cm st in                                   (* loadFuncBody: comments, once := cb.BackupComments() *)
      x <- compile_stmts f body (set_cm None st) ;;            (* cb.SetComments(nil, false) *)
      let '(bl, st1) := x in
      (* defer cb.SetComments(comments, once): the statement that pulled the function in keeps its comment *)
      Ok (add_out g (print_func p docp hasdoc docskip shadow bl) (set_cm backup st1))
  | _ => Ok st
  end end.

(* loadFile: the top-level functions in declaration order (files sorted by path); a function that a previous
   body already pulled in is skipped *)
Fixpoint load_decls (fuel : nat) (ds : list decl) (st : state) : M state :=
  match ds with
  | [] => Ok st
  | DFunc g _ _ _ _ _ _ :: t =>
      x <- (if memN g (unl st) then load_func fuel g (set_unl (removeN g (unl st)) st) else Ok st) ;;
      load_decls fuel t x
  | DMethod _ _ _ _ _ _ :: t => load_decls fuel t st
  end.

(* ctx.inits: the method bodies, after every function has been loaded *)
Fixpoint load_methods (fuel : nat) (ds : list decl) (st : state) : M state :=
  match ds with
  | [] => Ok st
  | DMethod g p docp hasdoc docskip body :: t =>
      x <- compile_stmts fuel body (set_cm None st) ;;
      let '(bl, st1) := x in
      load_methods fuel t (add_out g (print_func p docp hasdoc docskip false bl) st1)
  | _ :: t => load_methods fuel t st
  end.

End WithProg.

Definition func_names (pr : prog) : list N :=
  flat_map (fun d => match d with DFunc g _ _ _ _ _ _ => [g] | _ => [] end) pr.

Definition compile_prog (fuel : nat) (pr : prog) : M (list (N * list outline)) :=
  st <- load_decls pr fuel pr (mkst None (func_names pr) []) ;;
  st' <- load_methods pr fuel pr st ;;
  Ok (outf st').

(* ---- sizes (fuel) ---- *)
Fixpoint size_stmt (s : stmt) : nat :=
  match s with
  | SSimple _ _ ps => 1 + size_parts ps
  | SDecl _ _ _ _ _ ps => 1 + size_parts ps
  | SBlock _ b => 1 + size_stmts b
  | SIf _ _ i ps b e => 1 + size_ostmt i + size_parts ps + size_stmts b + size_els e
  | SFor _ _ i ps po b => 1 + size_ostmt i + size_parts ps + size_ostmt po + size_stmts b
  | SRange _ _ ps b => 1 + size_parts ps + size_stmts b
  | SPhraseIf _ _ ps _ cps b => 1 + size_parts ps + size_parts cps + size_stmts b
  | SSwitch _ _ i ps cs => 1 + size_ostmt i + size_parts ps + size_clauses cs
  | SSelect _ cs => 1 + size_clauses cs
  | SLabeled _ s1 => 1 + size_stmt s1
  end
with size_stmts (b : stmts) : nat := match b with SNil => 1 | SCons s r => 1 + size_stmt s + size_stmts r end
with size_ostmt (o : ostmt) : nat := match o with ONone => 1 | OSome s => 1 + size_stmt s end
with size_parts (ps : parts) : nat :=
  match ps with PNil => 1 | PRef _ r => 1 + size_parts r | PLit b r => 1 + size_stmts b + size_parts r
  | PLam _ i r => 1 + size_parts i + size_parts r end
with size_els (e : els) : nat := match e with ENone => 1 | EBlock b => 1 + size_stmts b | EIf s => 1 + size_stmt s end
with size_clauses (cs : clauses) : nat :=
  match cs with CNil => 1 | CCons _ _ c ps b _ r => 1 + size_ostmt c + size_parts ps + size_stmts b + size_clauses r end.

Definition size_decl (d : decl) : nat :=
  match d with DFunc _ _ _ _ _ _ b => 2 + size_stmts b | DMethod _ _ _ _ _ b => 2 + size_stmts b end.
Definition prog_fuel (pr : prog) : nat := 1 + fold_right (fun d n => size_decl d + n) 0 pr.

(* ---- Go's //line semantics: the position the Go toolchain attributes to text line i.
   cur = position of the current line (None: before any directive, i.e. the physical position in the
   generated file, which is never an XGo position).  A directive gives the NEXT line its (f,l); every
   other line advances the line number by one. ---- *)
Definition next_pos (cur : option (N * N)) : option (N * N) :=
  match cur with Some (f, l) => Some (f, N.succ l) | None => None end.

Fixpoint go_line_from (ls : list outline) (cur : option (N * N)) (i : nat) : option (N * N) :=
  match ls with
  | [] => None
  | x :: r =>
    match i with
    | O => match x with Dir _ _ _ => None | _ => cur end
    | S j => match x with
             | Dir f l _ => go_line_from r (Some (f, l)) j
             | _ => go_line_from r (next_pos cur) j
             end
    end
  end.
Definition go_line_of (ls : list outline) (i : nat) : option (N * N) := go_line_from ls None i.

(* position predicted for the code line of statement id (first line tagged with that id) *)
Fixpoint find_id (ls : list outline) (id : N) (i : nat) : option nat :=
  match ls with
  | [] => None
  | Code k _ :: r => if N.eqb k id then Some i else find_id r id (S i)
  | _ :: r => find_id r id (S i)
  end.
Definition predict (ls : list outline) (id : N) : option (N * N) :=
  match find_id ls id 0 with Some i => go_line_of ls i | None => None end.

(* ---- guards of the theorem (computable, so that the check can evaluate them on every generated package) ---- *)
(* a doc comment is adjacent to its declaration: it starts docskip lines above it, in the same file *)
Definition doc_ok (p docp : pos) (hasdoc : bool) (docskip : N) : bool :=
  if hasdoc then
    match p, docp with
    | Some (f, l), Some (f', l') => N.eqb f f' && N.eqb l (l' + docskip)
    | _, _ => false
    end
  else N.eqb docskip 0.

Fixpoint wf_stmt (s : stmt) : bool :=
  match s with
  | SSimple _ _ ps => wf_parts ps
  | SDecl _ p docp hd dk ps => doc_ok p docp hd dk && wf_parts ps
  | SBlock _ b => wf_stmts b
  | SIf _ _ i ps b e => wf_ostmt i && wf_parts ps && wf_stmts b && wf_els e
  | SFor _ _ i ps po b => wf_ostmt i && wf_parts ps && wf_stmts b && wf_ostmt po
  | SRange _ _ ps b => wf_parts ps && wf_stmts b
  | SPhraseIf _ _ ps _ cps b => wf_parts ps && wf_parts cps && wf_stmts b
  | SSwitch _ _ i ps cs => wf_ostmt i && wf_parts ps && wf_clauses cs
  | SSelect _ cs => wf_clauses cs
  | SLabeled _ s1 => wf_stmt s1
  end
with wf_stmts (b : stmts) : bool := match b with SNil => true | SCons s r => wf_stmt s && wf_stmts r end
with wf_ostmt (o : ostmt) : bool := match o with ONone => true | OSome s => wf_stmt s end
with wf_parts (ps : parts) : bool :=
  match ps with PNil => true | PRef _ r => wf_parts r | PLit b r => wf_stmts b && wf_parts r
  | PLam _ i r => wf_parts i && wf_parts r end
with wf_els (e : els) : bool := match e with ENone => true | EBlock b => wf_stmts b | EIf s => wf_stmt s end
with wf_clauses (cs : clauses) : bool :=
  match cs with
  | CNil => true
  | CCons _ _ c ps b _ r => wf_parts ps && wf_ostmt c && wf_stmts b && wf_clauses r
  end.

Fixpoint nodupb (l : list N) : bool := match l with [] => true | x :: t => negb (memN x t) && nodupb t end.

(* guard of the theorem: every doc comment is adjacent to its declaration *)
Definition wf_decl (d : decl) : bool :=
  match d with
  | DFunc _ p dp hd dk _ body => doc_ok p dp hd dk && wf_stmts body
  | DMethod _ p dp hd dk body => doc_ok p dp hd dk && wf_stmts body
  end.
Definition wf_prog (pr : prog) : bool := forallb wf_decl pr.

(* ---- the source positions whose first code must show up as a tagged line (a statement that starts with an
   init statement has the bare keyword as its first line: its first code is the init statement's) ---- *)
Definition hdr_tag (p : pos) (i : ostmt) : list pos := match i with ONone => [p] | OSome _ => [] end.
Fixpoint tags_stmt (s : stmt) : list pos :=
  match s with
  | SSimple _ p ps => p :: tags_parts ps
  | SDecl _ p _ _ _ ps => p :: tags_parts ps
  | SBlock _ b => tags_stmts b
  | SIf _ p i ps b e => hdr_tag p i ++ tags_ostmt i ++ tags_parts ps ++ tags_stmts b ++ tags_els e
  | SFor _ p i ps po b => hdr_tag p i ++ tags_ostmt i ++ tags_parts ps ++ tags_ostmt po ++ tags_stmts b
  | SRange _ p ps b => p :: tags_parts ps ++ tags_stmts b
  | SPhraseIf _ p ps _ cps b => p :: tags_parts ps ++ tags_parts cps ++ tags_stmts b
  | SSwitch _ p i ps cs => hdr_tag p i ++ tags_ostmt i ++ tags_parts ps ++ tags_clauses cs
  | SSelect _ cs => tags_clauses cs
  | SLabeled _ s1 => tags_stmt s1
  end
with tags_stmts (b : stmts) : list pos := match b with SNil => [] | SCons s r => tags_stmt s ++ tags_stmts r end
with tags_ostmt (o : ostmt) : list pos := match o with ONone => [] | OSome s => tags_stmt s end
with tags_parts (ps : parts) : list pos :=
  match ps with
  | PNil => []
  | PRef _ r => tags_parts r
  | PLit b r => tags_stmts b ++ tags_parts r
  | PLam _ i r => tags_parts i ++ tags_parts r
  end
with tags_els (e : els) : list pos := match e with ENone => [] | EBlock b => tags_stmts b | EIf s => tags_stmt s end
with tags_clauses (cs : clauses) : list pos :=
  match cs with
  | CNil => []
  | CCons _ p c ps b _ r => hdr_tag p c ++ tags_ostmt c ++ tags_parts ps ++ tags_stmts b ++ tags_clauses r
  end.

Definition line_tags (ls : list outline) : list pos :=
  flat_map (fun l => match l with Code _ (Some t) => [Some t] | _ => [] end) ls.
(* the positioned ones *)
Definition somes (l : list pos) : list pos := flat_map (fun p => match p with Some t => [Some t] | None => [] end) l.

(* ---- the file name of a directive: cl/stmt.go fileLineFile = filepath.ToSlash(filepath.Rel(relBaseDir, absFile)),
   for clean absolute slash-separated paths given as lists of components (no ".", no "..", no empty one).
   runtime.Caller reports the directive's name verbatim; the reader resolves it against the base. ---- *)
Definition dotdot : str := [46; 46]%N.
Definition dot1 : str := [46]%N.

Fixpoint strip_common (b t : list str) : list str * list str :=
  match b, t with
  | x :: b', y :: t' => if str_eqb x y then strip_common b' t' else (b, t)
  | _, _ => (b, t)
  end.

Definition rel_path (base targ : list str) : list str :=
  let '(b', t') := strip_common base targ in
  match map (fun _ => dotdot) b' ++ t' with
  | [] => [dot1]                       (* filepath.Rel(x, x) = "." *)
  | l => l
  end.

(* reading a relative name against a base directory: ".." pops, "." stays *)
Fixpoint resolve_path (acc : list str) (rel : list str) : list str :=
  match rel with
  | [] => rev acc
  | c :: r =>
      if str_eqb c dotdot then resolve_path (tl acc) r
      else if str_eqb c dot1 then resolve_path acc r
      else resolve_path (c :: acc) r
  end.
Definition resolve_against (base rel : list str) : list str := resolve_path (rev base) rel.

Definition plain_comp (c : str) : bool := negb (str_eqb c dotdot) && negb (str_eqb c dot1) && negb (match c with [] => true | _ => false end).
