(* MiniScope: model of the recorder protocol of cl (cl/compile.go loadVars/loadConsts/loadFunc/
   defNames, cl/stmt.go compileAssignStmt/compileRangeStmt/compileForPhraseStmt/compileIfStmt/
   compileForStmt, cl/expr.go compileIdent/compileFuncLit/compileCompositeLit, cl/recorder.go
   recordIdent/recordCompositeLit) feeding x/typesutil's Info maps (gopinfo.go: Def/Use/Type/Scope).
   Executable, no proofs here.

   What is modelled AS THE CODE DOES IT (these are the places where the invariants of the Info doc
   comment are decided):
   - the object of every name of a multi-name var/const spec and of a `:=` statement is created with
     ONE position, that of the first name / of the statement
       (loadVars: varDefs.New(v.Names[0].Pos(), typ, names...);  compileAssignStmt:
        cb.DefineVarStart(expr.Pos(), names...));
   - the variables of `for k, v := range x` / `for v <- x` are created without a position
       (cb.ForRangeEx(names, v) / cb.ForRange(names...));
   - defNames records Def(name, scope.Lookup(name.Name)): the blank identifier is never in a scope,
     so it is not recorded; names of a `:=` that already exist in the current scope are not recorded;
   - a local type declaration creates its object without position and records no Def
       (compileType: ctx.cb.NewType(name));
   - recordCompositeLit records rec.Type(v.Type, ...) only when v.Type is not nil (repaired: 1324664).
*)
From Coq Require Import List NArith Bool.
Import ListNotations.

Definition name := N.          (* 0 = the blank identifier "_" *)
Definition pos := N.           (* a valid token.Pos inside the checked file; never 0 for a node of the file *)

Inductive where_ := NoPos | InFile (p : pos) | Ext.   (* types.Object.Pos(): none / in the file / other file *)

Record ident := Id { iname : name; ipos : pos }.

Inductive okind := KVar | KConst | KType | KFunc | KPkg | KBuiltin.
Record obj := Obj { oname : name; opos : where_; okind_ : okind }.

Inductive expr :=
| ELit (p : pos)                                       (* basic literal *)
| EUse (i : ident)                                     (* identifier in expression position *)
| EBin (p : pos) (a b : expr)
| ECall (p : pos) (f : expr) (args : exprs)
| ESel (p : pos) (x sel : ident)                       (* x.Sel, x expected to be an imported package *)
| EFuncLit (p : pos) (params : list ident) (ptyp rtyp : list ident) (bp : pos) (body : stmts)
| EComp (p : pos) (typ : list ident) (elts : exprs)    (* []T{...}; typ = [T] *)
| EXSlice (p : pos) (elts : exprs)                     (* XGo slice literal [a, b] *)
| EXMap (p : pos) (elts : exprs)                       (* XGo untyped map literal {"k": a, ...}: CompositeLit with Type == nil *)
with exprs := ENil | ECons (e : expr) (es : exprs)
with stmt :=
| SVar (names : list ident) (typ : list ident) (vals : exprs)
| SConst (names : list ident) (vals : exprs)
| SType (n : ident) (under : ident)
| SDefine (names : list ident) (vals : exprs)
| SAssign (lhs rhs : exprs)
| SExpr (e : expr)
| SReturn (vals : exprs)
| SBlock (p : pos) (body : stmts)
| SIf (p : pos) (init : stmts) (cond : expr) (bp : pos) (thn : stmts) (els : stmts)
| SFor (p : pos) (init : stmts) (cond : exprs) (post : stmts) (bp : pos) (body : stmts)
| SRange (p : pos) (names : list ident) (x : expr) (bp : pos) (body : stmts)
with stmts := SNil | SCons (s : stmt) (ss : stmts).

(* an embedded field  [*][q.]T : the optional package qualifier and the type-name identifier
   (the star is only text; the field object is declared at the type name: toStructType uses ident.NamePos) *)
Record embed := Emb { equal : list ident; etyp : ident }.

Inductive decl :=
| DStruct (n : ident) (embeds : list embed) (fields : list ident) (ftyp : list ident)
    (* type n struct { embeds...; fields ftyp }  (fields: one grouped field declaration or none) *)
| DImport (nm : list ident) (ppos : pos) (pkgname : name)
| DVar (names : list ident) (typ : list ident) (vals : exprs)
| DConst (names : list ident) (vals : exprs)
| DType (n : ident) (under : ident)
| DFunc (fp : pos) (n : ident) (params : list ident) (ptyp : list ident)
        (results : list ident) (rtyp : list ident) (bp : pos) (body : stmts).

Definition prog := list decl.

(* what the recorder receives *)
Inductive event :=
| EvDef (i : ident) (o : obj)
| EvUse (i : ident) (o : obj)
| EvType (node : where_)          (* rec.Type(expr, tv): the key; NoPos = a nil / position-less node *)
| EvScope (node : pos).

(* ---------------------------------------------------------------- scopes *)

Definition scope := list obj.             (* most recent first *)
Definition env := list scope.             (* innermost first; the last one is the package scope *)

Fixpoint lookup_scope (n : name) (s : scope) : option obj :=
  match s with
  | [] => None
  | o :: t => if N.eqb (oname o) n then Some o else lookup_scope n t
  end.

Fixpoint lookup_env (n : name) (e : env) : option obj :=
  match e with
  | [] => None
  | s :: t => match lookup_scope n s with Some o => Some o | None => lookup_env n t end
  end.

(* universe names used by the generator (types.Universe): int string bool error true false nil len
   iota = codes 1..10 (9 unused) *)
Definition is_universe (n : name) : bool := (N.leb 1 n && N.leb n 10)%bool.

Definition insert (o : obj) (e : env) : env :=
  match e with
  | [] => [[o]]
  | s :: t => (o :: s) :: t
  end.

Definition cur_scope (e : env) : scope := match e with [] => [] | s :: _ => s end.

(* gogen: declare `names` in the innermost scope, all with the one position `w`; the blank
   identifier and (for :=) names that already exist in that scope are not inserted *)
Fixpoint declare (names : list ident) (w : where_) (k : okind) (skip_existing : bool) (e : env) : env :=
  match names with
  | [] => e
  | i :: t =>
    let e' :=
      if N.eqb (iname i) 0 then e
      else if skip_existing then
        match lookup_scope (iname i) (cur_scope e) with Some _ => e | None => insert (Obj (iname i) w k) e end
      else insert (Obj (iname i) w k) e in
    declare t w k skip_existing e'
  end.

(* the same, each name with its own position (parameters, results, type and func names) *)
Fixpoint declare_own (names : list ident) (k : okind) (e : env) : env :=
  match names with
  | [] => e
  | i :: t => declare_own t k (if N.eqb (iname i) 0 then e else insert (Obj (iname i) (InFile (ipos i)) k) e)
  end.

(* defNames(ctx, names, scope): Def(name, o) for every name that scope.Lookup finds; the blank
   identifier is never inserted into a scope by gogen, so Lookup("_") finds nothing *)
Fixpoint def_names (names : list ident) (s : scope) : list event :=
  match names with
  | [] => []
  | i :: t => if N.eqb (iname i) 0 then def_names t s else
              match lookup_scope (iname i) s with
              | Some o => EvDef i o :: def_names t s
              | None => def_names t s
              end
  end.

(* rec.Def(name, obj) with the object just created at the identifier's own position (toParam,
   loadFunc, loadImport, top-level type specs): also for the blank identifier *)
Definition def_own (names : list ident) (k : okind) : list event :=
  map (fun i => EvDef i (Obj (iname i) (InFile (ipos i)) k)) names.

Definition first_pos (names : list ident) : where_ :=
  match names with [] => NoPos | i :: _ => InFile (ipos i) end.

(* compileIdent + recordIdent: local, then package, then universe object *)
Definition use_ident (e : env) (i : ident) : list event :=
  if N.eqb (iname i) 0 then [] else
  match lookup_env (iname i) e with
  | Some o => [EvUse i o; EvType (InFile (ipos i))]
  | None => if is_universe (iname i) then [EvUse i (Obj (iname i) NoPos KBuiltin); EvType (InFile (ipos i))] else []
  end.

Fixpoint use_idents (e : env) (l : list ident) : list event :=
  match l with [] => [] | i :: t => use_ident e i ++ use_idents e t end.

(* names of a := that are new in the current scope (computed before the right-hand side is compiled) *)
Fixpoint new_names (names : list ident) (s : scope) : list ident :=
  match names with
  | [] => []
  | i :: t => match lookup_scope (iname i) s with Some _ => new_names t s | None => i :: new_names t s end
  end.

(* recordCompositeLit: rec.Type(v.Type, ...) only when the literal has a type expression *)
Definition type_node (typ : list ident) : list event :=
  match typ with [] => [] | i :: _ => [EvType (InFile (ipos i))] end.

(* ---------------------------------------------------------------- the resolver *)

Fixpoint r_expr (e : env) (x : expr) {struct x} : list event :=
  match x with
  | ELit p => [EvType (InFile p)]
  | EUse i => use_ident e i
  | EBin p a b => r_expr e a ++ r_expr e b ++ [EvType (InFile p)]
  | ECall p f args => r_expr e f ++ r_exprs e args ++ [EvType (InFile p)]
  | ESel p x sel =>
      match lookup_env (iname x) e with
      | Some o => [EvUse x o; EvUse sel (Obj (iname sel) Ext KFunc); EvType (InFile p)]
      | None => []
      end
  | EFuncLit p params ptyp rtyp bp body =>
      let e1 := declare_own params KVar ([] :: e) in
      use_idents e ptyp ++ use_idents e rtyp ++ def_own params KVar
      ++ [EvType (InFile p); EvScope p] ++ snd (r_stmts e1 body)
  | EComp p typ elts => use_idents e typ ++ r_exprs e elts ++ type_node typ ++ [EvType (InFile p)]
  | EXSlice p elts => r_exprs e elts ++ [EvType (InFile p)]
  | EXMap p elts => r_exprs e elts ++ [EvType (InFile p)]
  end
with r_exprs (e : env) (xs : exprs) {struct xs} : list event :=
  match xs with
  | ENil => []
  | ECons x t => r_expr e x ++ r_exprs e t
  end
with r_stmt (e : env) (s : stmt) {struct s} : env * list event :=
  match s with
  | SVar names typ vals =>
      (* loadVars: varDefs.New(pos, typ, names...) inserts the names BEFORE the initialisers are
         compiled when the type is given (so `var x T = x` refers to the new x, unlike Go);
         without a type the variables appear when the initialisers have been compiled *)
      let e' := declare names (first_pos names) KVar false e in
      (e', use_idents e typ ++ r_exprs (match typ with [] => e | _ => e' end) vals ++ def_names names (cur_scope e'))
  | SConst names vals =>
      let e' := declare names (first_pos names) KConst false e in
      (e', r_exprs e vals ++ def_names names (cur_scope e'))
  | SType n under =>
      (* compileType: cb.NewType(name) -- no position, and no rec.Def for a local type *)
      (declare [n] NoPos KType false e, use_ident e under)
  | SDefine names vals =>
      let nn := new_names names (cur_scope e) in
      let e' := declare names (first_pos names) KVar true e in
      (e', r_exprs e vals ++ def_names nn (cur_scope e'))
  | SAssign lhs rhs => (e, r_exprs e lhs ++ r_exprs e rhs)
  | SExpr x => (e, r_expr e x)
  | SReturn vals => (e, r_exprs e vals)
  | SBlock p body => (e, snd (r_stmts ([] :: e) body) ++ [EvScope p])
  | SIf p init cond bp thn els =>
      let '(e1, ev1) := r_stmts ([] :: e) init in
      (e, ev1 ++ r_expr e1 cond ++ [EvScope p] ++ snd (r_stmts ([] :: e1) thn)
          ++ snd (r_stmts ([] :: e1) els) ++ [EvScope bp])
  | SFor p init cond post bp body =>
      let '(e1, ev1) := r_stmts ([] :: e) init in
      (e, [EvScope p] ++ ev1 ++ r_exprs e1 cond ++ [EvScope bp] ++ snd (r_stmts ([] :: e1) body)
          ++ snd (r_stmts e1 post))
  | SRange p names x bp body =>
      let e1 := declare names NoPos KVar false ([] :: e) in
      (e, r_expr e x ++ def_names names (cur_scope e1) ++ [EvScope p]
          ++ snd (r_stmts ([] :: e1) body) ++ [EvScope bp])
  end
with r_stmts (e : env) (ss : stmts) {struct ss} : env * list event :=
  match ss with
  | SNil => (e, [])
  | SCons s t => let '(e1, ev1) := r_stmt e s in
                 let '(e2, ev2) := r_stmts e1 t in (e2, ev1 ++ ev2)
  end.

(* package scope: every top-level name is visible in every declaration (symbols are loaded on demand) *)
Definition pkg_decl (d : decl) (e : env) : env :=
  match d with
  | DImport nm ppos pkgname =>
      match nm with
      | [] => insert (Obj pkgname (InFile ppos) KPkg) e
      | i :: _ => if N.eqb (iname i) 0 then e else insert (Obj (iname i) (InFile (ipos i)) KPkg) e
      end
  | DStruct n _ _ _ => declare_own [n] KType e
  | DVar names _ _ => declare names (first_pos names) KVar false e
  | DConst names _ => declare names (first_pos names) KConst false e
  | DType n _ => declare_own [n] KType e
  | DFunc _ n _ _ _ _ _ _ => declare_own [n] KFunc e
  end.

Definition pkg_env (p : prog) : env := fold_right pkg_decl [[]] p.

(* toStructType on an embedded field: the type expression is resolved (Use of the qualifier and of the
   type name) and rec.Def(ident, fld) records the field under the type-name identifier, at its position *)
Definition r_embed (e : env) (em : embed) : list event :=
  match equal em with
  | [] => use_ident e (etyp em)
  | q :: _ => match lookup_env (iname q) e with
              | Some o => [EvUse q o; EvUse (etyp em) (Obj (iname (etyp em)) Ext KType)]
              | None => []
              end
  end ++ def_own [etyp em] KVar.

Definition embed_ids (em : embed) : list ident := equal em ++ [etyp em].

Definition r_decl (e : env) (d : decl) : list event :=
  match d with
  | DStruct n embeds fields ftyp =>
      def_own [n] KType ++ flat_map (r_embed e) embeds ++ def_own fields KVar ++ use_idents e ftyp
  | DImport nm _ _ => def_own nm KPkg
  | DVar names typ vals => use_idents e typ ++ r_exprs e vals ++ def_names names (cur_scope e)
  | DConst names vals => r_exprs e vals ++ def_names names (cur_scope e)
  | DType n under => use_ident e under ++ def_own [n] KType
  | DFunc fp n params ptyp results rtyp bp body =>
      let e1 := declare_own results KVar (declare_own params KVar ([] :: e)) in
      def_own [n] KFunc ++ use_idents e ptyp ++ use_idents e rtyp
      ++ def_own params KVar ++ def_own results KVar
      ++ [EvScope fp] ++ snd (r_stmts e1 body)
  end.

Definition file_pos : pos := 1%N.    (* the *ast.File node (rec.Scope(f.File, fileScope)) *)

Definition run (p : prog) : list event :=
  let e := pkg_env p in EvScope file_pos :: flat_map (r_decl e) p.

(* ---------------------------------------------------------------- identifier occurrences, in source order *)

Fixpoint ids_expr (x : expr) : list ident :=
  match x with
  | ELit _ => []
  | EUse i => [i]
  | EBin _ a b => ids_expr a ++ ids_expr b
  | ECall _ f args => ids_expr f ++ ids_exprs args
  | ESel _ x sel => [x; sel]
  | EFuncLit _ params ptyp rtyp _ body => params ++ ptyp ++ rtyp ++ ids_stmts body
  | EComp _ typ elts => typ ++ ids_exprs elts
  | EXSlice _ elts => ids_exprs elts
  | EXMap _ elts => ids_exprs elts
  end
with ids_exprs (xs : exprs) : list ident :=
  match xs with ENil => [] | ECons x t => ids_expr x ++ ids_exprs t end
with ids_stmt (s : stmt) : list ident :=
  match s with
  | SVar names typ vals => names ++ typ ++ ids_exprs vals
  | SConst names vals => names ++ ids_exprs vals
  | SType n under => [n; under]
  | SDefine names vals => names ++ ids_exprs vals
  | SAssign lhs rhs => ids_exprs lhs ++ ids_exprs rhs
  | SExpr x => ids_expr x
  | SReturn vals => ids_exprs vals
  | SBlock _ body => ids_stmts body
  | SIf _ init cond _ thn els => ids_stmts init ++ ids_expr cond ++ ids_stmts thn ++ ids_stmts els
  | SFor _ init cond post _ body => ids_stmts init ++ ids_exprs cond ++ ids_stmts post ++ ids_stmts body
  | SRange _ names x _ body => names ++ ids_expr x ++ ids_stmts body
  end
with ids_stmts (ss : stmts) : list ident :=
  match ss with SNil => [] | SCons s t => ids_stmt s ++ ids_stmts t end.

Definition ids_decl (d : decl) : list ident :=
  match d with
  | DStruct n embeds fields ftyp => n :: flat_map embed_ids embeds ++ fields ++ ftyp
  | DImport nm _ _ => nm
  | DVar names typ vals => names ++ typ ++ ids_exprs vals
  | DConst names vals => names ++ ids_exprs vals
  | DType n under => [n; under]
  | DFunc _ n params ptyp results rtyp _ body => n :: params ++ ptyp ++ results ++ rtyp ++ ids_stmts body
  end.

Definition ids_prog (p : prog) : list ident := flat_map ids_decl p.

(* every node position of the program (identifiers and the other positioned nodes) *)
Fixpoint nodes_expr (x : expr) : list pos :=
  match x with
  | ELit p => [p]
  | EUse i => [ipos i]
  | EBin p a b => p :: nodes_expr a ++ nodes_expr b
  | ECall p f args => p :: nodes_expr f ++ nodes_exprs args
  | ESel p x sel => [p; ipos x; ipos sel]
  | EFuncLit p params ptyp rtyp bp body => p :: bp :: map ipos (params ++ ptyp ++ rtyp) ++ nodes_stmts body
  | EComp p typ elts => p :: map ipos typ ++ nodes_exprs elts
  | EXSlice p elts => p :: nodes_exprs elts
  | EXMap p elts => p :: nodes_exprs elts
  end
with nodes_exprs (xs : exprs) : list pos :=
  match xs with ENil => [] | ECons x t => nodes_expr x ++ nodes_exprs t end
with nodes_stmt (s : stmt) : list pos :=
  match s with
  | SVar names typ vals => map ipos (names ++ typ) ++ nodes_exprs vals
  | SConst names vals => map ipos names ++ nodes_exprs vals
  | SType n under => [ipos n; ipos under]
  | SDefine names vals => map ipos names ++ nodes_exprs vals
  | SAssign lhs rhs => nodes_exprs lhs ++ nodes_exprs rhs
  | SExpr x => nodes_expr x
  | SReturn vals => nodes_exprs vals
  | SBlock p body => p :: nodes_stmts body
  | SIf p init cond bp thn els => p :: bp :: nodes_stmts init ++ nodes_expr cond ++ nodes_stmts thn ++ nodes_stmts els
  | SFor p init cond post bp body => p :: bp :: nodes_stmts init ++ nodes_exprs cond ++ nodes_stmts post ++ nodes_stmts body
  | SRange p names x bp body => p :: bp :: map ipos names ++ nodes_expr x ++ nodes_stmts body
  end
with nodes_stmts (ss : stmts) : list pos :=
  match ss with SNil => [] | SCons s t => nodes_stmt s ++ nodes_stmts t end.

Definition nodes_decl (d : decl) : list pos :=
  match d with
  | DStruct n embeds fields ftyp => ipos n :: map ipos (flat_map embed_ids embeds) ++ map ipos fields ++ map ipos ftyp
  | DImport nm ppos _ => ppos :: map ipos nm
  | DVar names typ vals => map ipos (names ++ typ) ++ nodes_exprs vals
  | DConst names vals => map ipos names ++ nodes_exprs vals
  | DType n under => [ipos n; ipos under]
  | DFunc fp n params ptyp results rtyp bp body =>
      fp :: bp :: ipos n :: map ipos (params ++ ptyp ++ results ++ rtyp) ++ nodes_stmts body
  end.

Definition nodes_prog (p : prog) : list pos := file_pos :: flat_map nodes_decl p.

(* ---------------------------------------------------------------- the Info maps and their projection *)

Fixpoint find_def (evs : list event) (i : ident) : option obj :=
  match evs with
  | [] => None
  | EvDef j o :: t => match find_def t i with Some o' => Some o' | None => if N.eqb (ipos j) (ipos i) then Some o else None end
  | _ :: t => find_def t i
  end.

Fixpoint find_use (evs : list event) (i : ident) : option obj :=
  match evs with
  | [] => None
  | EvUse j o :: t => match find_use t i with Some o' => Some o' | None => if N.eqb (ipos j) (ipos i) then Some o else None end
  | _ :: t => find_use t i
  end.

Inductive mentry := MDef (own : bool) (w : where_) | MUse (w : where_) | MNone.

Definition where_eqb (a b : where_) : bool :=
  match a, b with
  | NoPos, NoPos => true | Ext, Ext => true
  | InFile p, InFile q => N.eqb p q
  | _, _ => false
  end.

Definition entry_of (evs : list event) (i : ident) : mentry :=
  match find_def evs i with
  | Some o => MDef (where_eqb (opos o) (InFile (ipos i))) (opos o)
  | None => match find_use evs i with Some o => MUse (opos o) | None => MNone end
  end.

Definition count_scopes (evs : list event) : nat :=
  length (filter (fun e => match e with EvScope _ => true | _ => false end) evs).
Definition has_nil_type (evs : list event) : bool :=
  existsb (fun e => match e with EvType NoPos => true | _ => false end) evs.

(* the observable compared with the implementation *)
Definition info_map (p : prog) : list (ident * mentry) * nat * bool :=
  let evs := run p in
  (map (fun i => (i, entry_of evs i)) (ids_prog p), count_scopes evs, has_nil_type evs).

(* ---------------------------------------------------------------- the invariants as decidable checks *)

Definition def_ok (ev : event) : bool :=
  match ev with EvDef i o => where_eqb (opos o) (InFile (ipos i)) | _ => true end.
Definition use_ok (ev : event) : bool :=
  match ev with EvUse i o => negb (where_eqb (opos o) (InFile (ipos i))) | _ => true end.
Definition node_ok (nodes : list pos) (ev : event) : bool :=
  match ev with
  | EvType (InFile p) => existsb (N.eqb p) nodes
  | EvType _ => false
  | EvScope p => existsb (N.eqb p) nodes
  | EvDef i _ => existsb (N.eqb (ipos i)) nodes
  | EvUse i _ => existsb (N.eqb (ipos i)) nodes
  end.

(* positions of the path literals of imports without a name (they carry the PkgName object) *)
Definition imp_ppos (p : prog) : list pos :=
  flat_map (fun d => match d with DImport [] ppos _ => [ppos] | _ => [] end) p.

(* well-formed positions: identifier occurrences (and those path literals) are at distinct positions *)
Definition wf_pos (p : prog) : Prop := NoDup (imp_ppos p ++ map ipos (ids_prog p)).

(* ---------------------------------------------------------------- which Defs do not carry their own position *)

(* (position of a non-first name of a multi-name spec, position of the first name of that spec) *)
Definition pairs_of (names : list ident) : list (pos * pos) :=
  match names with [] => [] | h :: t => map (fun i => (ipos i, ipos h)) t end.

Fixpoint nfp_expr (x : expr) : list (pos * pos) :=
  match x with
  | ELit _ | EUse _ | ESel _ _ _ => []
  | EBin _ a b => nfp_expr a ++ nfp_expr b
  | ECall _ f args => nfp_expr f ++ nfp_exprs args
  | EFuncLit _ _ _ _ _ body => nfp_stmts body
  | EComp _ _ elts => nfp_exprs elts
  | EXSlice _ elts => nfp_exprs elts
  | EXMap _ elts => nfp_exprs elts
  end
with nfp_exprs (xs : exprs) : list (pos * pos) :=
  match xs with ENil => [] | ECons x t => nfp_expr x ++ nfp_exprs t end
with nfp_stmt (s : stmt) : list (pos * pos) :=
  match s with
  | SVar names _ vals => pairs_of names ++ nfp_exprs vals
  | SConst names vals => pairs_of names ++ nfp_exprs vals
  | SType _ _ => []
  | SDefine names vals => pairs_of names ++ nfp_exprs vals
  | SAssign lhs rhs => nfp_exprs lhs ++ nfp_exprs rhs
  | SExpr x => nfp_expr x
  | SReturn vals => nfp_exprs vals
  | SBlock _ body => nfp_stmts body
  | SIf _ init cond _ thn els => nfp_stmts init ++ nfp_expr cond ++ nfp_stmts thn ++ nfp_stmts els
  | SFor _ init cond post _ body => nfp_stmts init ++ nfp_exprs cond ++ nfp_stmts post ++ nfp_stmts body
  | SRange _ _ x _ body => nfp_expr x ++ nfp_stmts body
  end
with nfp_stmts (ss : stmts) : list (pos * pos) :=
  match ss with SNil => [] | SCons s t => nfp_stmt s ++ nfp_stmts t end.

(* positions of the variables of range / for-in statements *)
Fixpoint rg_expr (x : expr) : list pos :=
  match x with
  | ELit _ | EUse _ | ESel _ _ _ => []
  | EBin _ a b => rg_expr a ++ rg_expr b
  | ECall _ f args => rg_expr f ++ rg_exprs args
  | EFuncLit _ _ _ _ _ body => rg_stmts body
  | EComp _ _ elts => rg_exprs elts
  | EXSlice _ elts => rg_exprs elts
  | EXMap _ elts => rg_exprs elts
  end
with rg_exprs (xs : exprs) : list pos :=
  match xs with ENil => [] | ECons x t => rg_expr x ++ rg_exprs t end
with rg_stmt (s : stmt) : list pos :=
  match s with
  | SVar _ _ vals => rg_exprs vals
  | SConst _ vals => rg_exprs vals
  | SType _ _ => []
  | SDefine _ vals => rg_exprs vals
  | SAssign lhs rhs => rg_exprs lhs ++ rg_exprs rhs
  | SExpr x => rg_expr x
  | SReturn vals => rg_exprs vals
  | SBlock _ body => rg_stmts body
  | SIf _ init cond _ thn els => rg_stmts init ++ rg_expr cond ++ rg_stmts thn ++ rg_stmts els
  | SFor _ init cond post _ body => rg_stmts init ++ rg_exprs cond ++ rg_stmts post ++ rg_stmts body
  | SRange _ names x _ body => map ipos names ++ rg_expr x ++ rg_stmts body
  end
with rg_stmts (ss : stmts) : list pos :=
  match ss with SNil => [] | SCons s t => rg_stmt s ++ rg_stmts t end.

Definition nfp_decl (d : decl) : list (pos * pos) :=
  match d with
  | DImport _ _ _ | DType _ _ | DStruct _ _ _ _ => []
  | DVar names _ vals => pairs_of names ++ nfp_exprs vals
  | DConst names vals => pairs_of names ++ nfp_exprs vals
  | DFunc _ _ _ _ _ _ _ body => nfp_stmts body
  end.
Definition rg_decl (d : decl) : list pos :=
  match d with
  | DImport _ _ _ | DType _ _ | DStruct _ _ _ _ => []
  | DVar _ _ vals => rg_exprs vals
  | DConst _ vals => rg_exprs vals
  | DFunc _ _ _ _ _ _ _ body => rg_stmts body
  end.
Definition nfp_prog (p : prog) := flat_map nfp_decl p.
Definition rg_prog (p : prog) := flat_map rg_decl p.

(* the verdict on one recorded definition: own position / position of the first name of its spec /
   no position (range variable) *)
Definition def_char (NF : list (pos * pos)) (RG : list pos) (i : ident) (o : obj) : Prop :=
  opos o = InFile (ipos i)
  \/ (exists q, In (ipos i, q) NF /\ opos o = InFile q)
  \/ (In (ipos i) RG /\ opos o = NoPos).

(* package-level names are declared once (a redeclaration is a compile error: no Info) *)
Definition objs_of (names : list ident) (w : where_) (k : okind) : list obj :=
  flat_map (fun i => if N.eqb (iname i) 0 then [] else [Obj (iname i) w k]) names.
Definition pkg_objs (d : decl) : list obj :=
  match d with
  | DImport [] ppos pn => [Obj pn (InFile ppos) KPkg]
  | DImport (i :: _) _ _ => objs_of [i] (InFile (ipos i)) KPkg
  | DVar names _ _ => objs_of names (first_pos names) KVar
  | DConst names _ => objs_of names (first_pos names) KConst
  | DType n _ => objs_of [n] (InFile (ipos n)) KType
  | DStruct n _ _ _ => objs_of [n] (InFile (ipos n)) KType
  | DFunc _ n _ _ _ _ _ _ => objs_of [n] (InFile (ipos n)) KFunc
  end.
Definition pkg_names_distinct (p : prog) : Prop := NoDup (map oname (flat_map pkg_objs p)).
