(* MiniGo + the Go->XGo style conversion of x/format (gopstyle.go Gopstyle/formatFile/formatGenDecl/
   formatFuncDecl, format.go fmtToBuiltin/commandStyleFirst/fncallStartingLowerCase/
   funcLitToLambdaExpr, stmt_expr_or_type.go formatExpr/formatCallExpr/formatSelectorExpr/formatStmt...)
   and an evaluator with Go and XGo name resolution.  Executable, no proofs here.
   Tables (printFuncs, the fmt path, println->echo, the XGo builtin functions) come from Gen/C25.v. *)
From Coq Require Import List NArith ZArith Bool.
Import ListNotations.
From V Require Import Base.Prelude Gen.C25.

Definition name := str.

Inductive expr :=
| EInt (z : Z)
| EStr (s : str)
| EVar (x : name)
| EAdd (a b : expr)
| ECall (f : name) (args : exprs)                       (* f(args) *)
| ESel (x sel : name) (args : exprs)                    (* x.sel(args), x an identifier *)
| EField (x f : name)                                   (* x.f *)
| EFuncLit (ps : list name) (res : nat) (body : stmts)  (* func(ps) (res results) { body } *)
| ELambda (ps : list name) (rhs : exprs)                (* XGo  ps => rhs *)
| ELambda2 (ps : list name) (body : stmts)              (* XGo  ps => { body } *)
| ENew (t : name) (e : expr)                            (* T{e} *)
with exprs := ENil | ECons (e : expr) (es : exprs)
with stmt :=
| SExpr (cmd : bool) (e : expr)                         (* expression statement; cmd = command style *)
| SDefine (x : name) (e : expr)                         (* x := e *)
| SVar (x : name) (e : expr)                            (* var x = e *)
| SIf (c : expr) (thn els : stmts)
| SReturn (r : exprs)                                   (* return / return e *)
| SBlock (b : stmts)
with stmts := SNil | SCons (s : stmt) (ss : stmts).

Inductive decl :=
| DImport (nm : name) (path : str)                      (* nm = explicit name or the last path element *)
| DVar (x : name) (e : expr)
| DType (t : name)
| DFunc (f : name) (ps : list name) (res : bool) (body : stmts)
| DMethod (t r m : name) (ps : list name) (res : bool) (body : stmts).

Record prog := Prog { pdecls : list decl; pshadow : bool; pnopkg : bool }.

(* ================================================================ the formatter *)

Definition is_upper (c : N) : bool := (N.leb c25_lower_lo c && N.leb c c25_lower_hi)%bool.
(* startWithLowerCase *)
Definition lower_first (s : str) : str :=
  match s with c :: t => if is_upper c then (c + 32)%N :: t else s | [] => [] end.

Fixpoint sassoc {A} (k : str) (l : list (str * A)) : option A :=
  match l with [] => None | (k', v) :: t => if str_eqb k k' then Some v else sassoc k t end.

(* fmtToBuiltin: the first pair of printFuncs one of whose spellings is the selector *)
Fixpoint find_print (sel : str) (tbl : list (str * str)) : option str :=
  match tbl with
  | [] => None
  | (u, l) :: t => if (str_eqb u sel || (c25_match_both && str_eqb l sel))%bool then Some l else find_print sel t
  end.
Definition rename_builtin (n : str) : str := match sassoc n c25_renames with Some m => m | None => n end.
Definition fmt_to_builtin (path sel : str) : option str :=
  if str_eqb path c25_fmt_path then option_map rename_builtin (find_print sel c25_print_funcs) else None.

(* formatCtx: the imports and the scope chain; only var/const specs insert names *)
Record fctx := Fctx { imps : list (name * str); scopes : list (list name) }.
Definition in_scope (x : name) (c : fctx) : bool := existsb (existsb (str_eqb x)) (scopes c).
Definition push (c : fctx) : fctx := Fctx (imps c) ([] :: scopes c).
Definition insert (x : name) (c : fctx) : fctx :=
  match scopes c with
  | [] => Fctx (imps c) [[x]]
  | s :: t => Fctx (imps c) ((x :: s) :: t)
  end.

(* formatSelectorExpr on x.sel (x an identifier): (replacement builtin, imports marked used) *)
Definition sel_action (c : fctx) (x sel : name) : option str * list name :=
  if in_scope x c then (None, [])
  else match sassoc x (imps c) with
       | Some path => match fmt_to_builtin path sel with
                      | Some b => (Some b, [])
                      | None => (None, [x])
                      end
       | None => (None, [])
       end.

Definition res_count (res : nat) : nat := res.
Fixpoint elen (es : exprs) : nat := match es with ENil => 0 | ECons _ t => S (elen t) end.

(* funcLitToLambdaExpr: a body that is exactly `return e1..en` with n = the number of results > 0 becomes
   an expression lambda (b2092a4: nres > 0, a bare `return` stays a block lambda; a single `return f(..)`
   forwarding a multi-value call in a literal with n >= 2 results has 1 <> n expressions: block lambda) *)
Definition lam_ok (res : nat) (rs : exprs) : bool := (negb (Nat.eqb res 0) && Nat.eqb (elen rs) (res_count res))%bool.

Fixpoint tr_expr (c : fctx) (e : expr) {struct e} : expr * list name :=
  match e with
  | EInt _ | EStr _ | EVar _ => (e, [])
  | EAdd a b => let '(a', u1) := tr_expr c a in let '(b', u2) := tr_expr c b in (EAdd a' b', u1 ++ u2)
  | ECall f args => let '(args', u) := tr_args c args in (ECall f args', u)
  | ESel x sel args =>
      (* formatExpr(v.Fun) -> formatSelectorExpr; fncallStartingLowerCase; funcLitToLambdaExpr; formatExprs(args) *)
      let '(act, u1) := sel_action c x sel in
      let '(args', u2) := tr_args c args in
      match act with
      | Some b => (ECall b args', u1 ++ u2)
      | None => (ESel x (lower_first sel) args', u1 ++ u2)
      end
  | EField x f =>
      let '(act, u) := sel_action c x f in
      match act with Some b => (EVar b, u) | None => (EField x f, u) end
  | EFuncLit ps res body => let '(b', u) := tr_block c body in (EFuncLit ps res b', u)
  | ELambda ps rhs => let '(r', u) := tr_exprs c rhs in (ELambda ps r', u)
  | ELambda2 ps body => let '(b', u) := tr_block c body in (ELambda2 ps b', u)
  | ENew t e => let '(e', u) := tr_expr c e in (ENew t e', u)
  end
(* plain expression lists (formatExprs) *)
with tr_exprs (c : fctx) (es : exprs) {struct es} : exprs * list name :=
  match es with
  | ENil => (ENil, [])
  | ECons e t => let '(e', u1) := tr_expr c e in let '(t', u2) := tr_exprs c t in (ECons e' t', u1 ++ u2)
  end
(* call arguments: a function literal becomes a lambda first (funcLitToLambdaExpr), then is formatted *)
with tr_args (c : fctx) (es : exprs) {struct es} : exprs * list name :=
  match es with
  | ENil => (ENil, [])
  | ECons e t =>
      let '(e', u1) :=
        match e with
        | EFuncLit ps res body =>
            match body with
            | SCons (SReturn rs) SNil =>
                if lam_ok res rs
                then let '(r', u) := tr_exprs c rs in (ELambda ps r', u)
                else let '(b', u) := tr_block c body in (ELambda2 ps b', u)
            | _ => let '(b', u) := tr_block c body in (ELambda2 ps b', u)
            end
        | _ => tr_expr c e
        end in
      let '(t', u2) := tr_args c t in (ECons e' t', u1 ++ u2)
  end
with tr_stmt (c : fctx) (s : stmt) {struct s} : stmt * fctx * list name :=
  match s with
  | SExpr cmd e =>
      (* commandStyleFirst: a call whose Fun is an identifier or a selector *)
      let cmd' := match e with ECall _ _ | ESel _ _ _ => true | _ => cmd end in
      let '(e', u) := tr_expr c e in (SExpr cmd' e', c, u)
  | SDefine x e => let '(e', u) := tr_expr c e in (SDefine x e', c, u)
  | SVar x e => let '(e', u) := tr_expr c e in (SVar x e', insert x c, u)
  | SIf cnd thn els =>
      let c1 := push c in
      let '(cnd', u1) := tr_expr c1 cnd in
      let '(thn', u2) := tr_block c1 thn in
      let '(els', u3) := tr_block c1 els in
      (SIf cnd' thn' els', c, u1 ++ u2 ++ u3)
  | SReturn r => let '(r', u) := tr_exprs c r in (SReturn r', c, u)
  | SBlock b => let '(b', u) := tr_block c b in (SBlock b', c, u)
  end
with tr_stmts (c : fctx) (ss : stmts) {struct ss} : stmts * list name :=
  match ss with
  | SNil => (SNil, [])
  | SCons s t => let '(s', c1, u1) := tr_stmt c s in let '(t', u2) := tr_stmts c1 t in (SCons s' t', u1 ++ u2)
  end
(* formatBlockStmt: enterBlock ... leaveBlock *)
with tr_block (c : fctx) (ss : stmts) {struct ss} : stmts * list name :=
  match ss with
  | SNil => (SNil, [])
  | SCons s t => let '(s', c1, u1) := tr_stmt (push c) s in let '(t', u2) := tr_stmts c1 t in (SCons s' t', u1 ++ u2)
  end.

(* formatFile, first pass: imports are registered, package-level var specs are formatted and
   inserted in declaration order; functions are delayed *)
Fixpoint pass1 (c : fctx) (ds : list decl) : list decl * fctx * list name :=
  match ds with
  | [] => ([], c, [])
  | d :: t =>
      match d with
      | DImport nm path =>
          let c1 := Fctx (imps c ++ [(nm, path)]) (scopes c) in
          let '(t', c2, u) := pass1 c1 t in (d :: t', c2, u)
      | DVar x e =>
          let '(e', u1) := tr_expr c e in
          let '(t', c2, u2) := pass1 (insert x c) t in (DVar x e' :: t', c2, u1 ++ u2)
      | _ => let '(t', c2, u) := pass1 c t in (d :: t', c2, u)
      end
  end.

(* second pass: the delayed functions, with the final context *)
Fixpoint pass2 (c : fctx) (ds : list decl) : list decl * list name :=
  match ds with
  | [] => ([], [])
  | d :: t =>
      let '(d', u1) :=
        match d with
        | DFunc f ps res body => let '(b', u) := tr_block c body in (DFunc f ps res b', u)
        | DMethod ty r m ps res body => let '(b', u) := tr_block c body in (DMethod ty r m ps res b', u)
        | _ => (d, [])
        end in
      let '(t', u2) := pass2 c t in (d' :: t', u1 ++ u2)
  end.

Definition main_name : name := [109; 97; 105; 110]%N.

(* Gopstyle: main is unwrapped (ShadowEntry) iff it is the last declaration *)
Definition main_is_last (ds : list decl) : bool :=
  match rev ds with
  | DFunc f _ _ _ :: _ =>
      str_eqb f main_name &&
      negb (existsb (fun d => match d with DFunc g _ _ _ => str_eqb g main_name | _ => false end) (tl (rev ds)))
  | _ => false
  end.

(* an unused fmt import is deleted *)
Definition keep_decl (used : list name) (d : decl) : bool :=
  match d with
  | DImport nm path => negb (str_eqb path c25_fmt_path) || existsb (str_eqb nm) used
  | _ => true
  end.

Definition gopstyle_decls (ds : list decl) : list decl * list name :=
  let '(ds1, c, u1) := pass1 (Fctx [] [[]]) ds in
  let '(ds2, u2) := pass2 c ds1 in
  (ds2, u1 ++ u2).

Definition gopstyle (p : prog) : prog :=
  let '(ds, used) := gopstyle_decls (pdecls p) in
  Prog (filter (keep_decl used) ds) (main_is_last (pdecls p)) true.

(* What the produced SOURCE TEXT denotes when it is parsed again: with the entry unwrapped, the
   leading `var x = e` statements of main are read as package-level declarations (the parser reads
   declarations until the first statement). *)
Fixpoint split_leading_vars (ss : stmts) : list decl * stmts :=
  match ss with
  | SCons (SVar x e) t => let '(ds, rest) := split_leading_vars t in (DVar x e :: ds, rest)
  | _ => ([], ss)
  end.
Fixpoint hoist_main (ds : list decl) : list decl :=
  match ds with
  | [] => []
  | [DFunc f ps res body] =>
      if str_eqb f main_name
      then let '(vs, rest) := split_leading_vars body in
           match rest with
           | SNil => vs                       (* nothing is left of main: no entry at all in the text *)
           | _ => vs ++ [DFunc f ps res rest]
           end
      else ds
  | d :: t => d :: hoist_main t
  end.
Definition has_main (ds : list decl) : bool :=
  existsb (fun d => match d with DFunc g _ _ _ => str_eqb g main_name | _ => false end) ds.
Definition printed_view (q : prog) : prog :=
  if pshadow q then let ds := hoist_main (pdecls q) in Prog ds (has_main ds) (pnopkg q) else q.

(* the same without the deletion of the unused import (used by the semantic theorem) *)
Definition gopstyle_keep (p : prog) : prog :=
  Prog (fst (gopstyle_decls (pdecls p))) (main_is_last (pdecls p)) true.

(* ================================================================ evaluation *)

Inductive value :=
| VInt (z : Z)
| VStr (s : str)
| VUnit
| VObj (t : name) (v : value)
| VClos (ps : list name) (body : stmts) (env : list (name * value)).

Definition env := list (name * value).
Definition trace := list str.

Inductive mode := Go | XGo.

Record world := World {
  w_imps : list (name * str);
  w_funcs : list (name * (list name * stmts));
  w_methods : list (name * (name * (name * (list name * stmts))));   (* type -> (method, (receiver, (params, body))) *)
  w_genv : env }.

Definition is_lower (c : N) : bool := (N.leb 97 c && N.leb c 122)%bool.
Definition upper_first (s : str) : str :=
  match s with c :: t => if is_lower c then (c - 32)%N :: t else s | [] => [] end.
Definition exported (s : str) : bool := match s with c :: _ => is_upper c | [] => false end.

Fixpoint find_method (t m : name) (ms : list (name * (name * (name * (list name * stmts))))) : option (name * (list name * stmts)) :=
  match ms with
  | [] => None
  | (t', (m', rb)) :: rest => if (str_eqb t t' && str_eqb m m')%bool then Some rb else find_method t m rest
  end.

(* member lookup: Go exact; XGo exact, else with the first letter capitalised *)
Definition lookup_method (md : mode) (W : world) (t m : name) :=
  match find_method t m (w_methods W) with
  | Some r => Some r
  | None => match md with Go => None | XGo => find_method t (upper_first m) (w_methods W) end
  end.

(* a package member: only exported names exist; XGo capitalises a lower-case selector *)
Definition pkg_member (md : mode) (sel : name) : option name :=
  if exported sel then Some sel
  else match md with Go => None | XGo => if exported (upper_first sel) then Some (upper_first sel) else None end.

Definition dot : N := 46%N.
Fixpoint render (v : value) : str :=
  match v with
  | VInt z => [105%N; Z.to_N (Z.abs z); (if Z.ltb z 0 then 1 else 0)%N]
  | VStr s => 115%N :: s
  | VUnit => [117%N]
  | VObj t v => 111%N :: t ++ dot :: render v
  | VClos _ _ _ => [102%N]
  end.
Fixpoint renders (vs : list value) : str :=
  match vs with [] => [] | v :: t => 40%N :: render v ++ 41%N :: renders t end.

(* a call of a package function is an opaque, logged event; its result is a function of the event *)
Definition ext_event (path f : str) (vs : list value) : str := path ++ dot :: f ++ renders vs.
Definition ext_call (path f : str) (vs : list value) : value * trace :=
  let ev := ext_event path f vs in (VStr ev, [ev]).

Fixpoint bind (ps : list name) (vs : list value) (e : env) : option env :=
  match ps, vs with
  | [], [] => Some e
  | p :: ps', v :: vs' => match bind ps' vs' e with Some e' => Some ((p, v) :: e') | None => None end
  | _, _ => None
  end.

Definition ret1 (r : option value) : value := match r with Some v => v | None => VUnit end.

Fixpoint eval_e (n : nat) (md : mode) (W : world) (en : env) (e : expr) {struct n} : M (value * trace) :=
  match n with O => OutOfFuel | S n' =>
  match e with
  | EInt z => Ok (VInt z, [])
  | EStr s => Ok (VStr s, [])
  | EVar x =>
      match sassoc x en with
      | Some v => Ok (v, [])
      | None =>
        match sassoc x (w_funcs W) with
        | Some (ps, b) => Ok (VClos ps b (w_genv W), [])
        | None =>
          match md with
          | XGo => match sassoc x c25_xgo_builtins with
                   | Some (path, f) => Ok (VStr (path ++ dot :: f), [])
                   | None => Panic
                   end
          | Go => Panic
          end
        end
      end
  | EAdd a b =>
      match eval_e n' md W en a with
      | Ok (VInt x, t1) => match eval_e n' md W en b with
                           | Ok (VInt y, t2) => Ok (VInt (x + y), t1 ++ t2)
                           | Ok _ => Panic | Panic => Panic | OutOfFuel => OutOfFuel
                           end
      | Ok _ => Panic | Panic => Panic | OutOfFuel => OutOfFuel
      end
  | ECall f args =>
      match eval_es n' md W en args with
      | Ok (vs, t1) =>
        match sassoc f en with
        | Some (VClos ps b ce) =>
            match bind ps vs ce with
            | Some e1 => match eval_ss n' md W e1 b with
                         | Ok (r, _, t2) => Ok (ret1 r, t1 ++ t2)
                         | Panic => Panic | OutOfFuel => OutOfFuel
                         end
            | None => Panic
            end
        | Some _ => Panic
        | None =>
          match sassoc f (w_funcs W) with
          | Some (ps, b) =>
              match bind ps vs (w_genv W) with
              | Some e1 => match eval_ss n' md W e1 b with
                           | Ok (r, _, t2) => Ok (ret1 r, t1 ++ t2)
                           | Panic => Panic | OutOfFuel => OutOfFuel
                           end
              | None => Panic
              end
          | None =>
            match md with
            | XGo => match sassoc f c25_xgo_builtins with
                     | Some (path, g) => let '(v, t2) := ext_call path g vs in Ok (v, t1 ++ t2)
                     | None => Panic
                     end
            | Go => Panic
            end
          end
        end
      | Panic => Panic | OutOfFuel => OutOfFuel
      end
  | ESel x sel args =>
      match eval_es n' md W en args with
      | Ok (vs, t1) =>
        match sassoc x en with
        | Some (VObj t pv) =>
            match lookup_method md W t sel with
            | Some (r, (ps, b)) =>
                match bind ps vs (w_genv W) with
                | Some e1 => match eval_ss n' md W ((r, VObj t pv) :: e1) b with
                             | Ok (rv, _, t2) => Ok (ret1 rv, t1 ++ t2)
                             | Panic => Panic | OutOfFuel => OutOfFuel
                             end
                | None => Panic
                end
            | None => Panic
            end
        | Some _ => Panic
        | None =>
          match sassoc x (w_imps W) with
          | Some path => match pkg_member md sel with
                         | Some g => let '(v, t2) := ext_call path g vs in Ok (v, t1 ++ t2)
                         | None => Panic
                         end
          | None => Panic
          end
        end
      | Panic => Panic | OutOfFuel => OutOfFuel
      end
  | EField x f =>
      match sassoc x en with
      | Some (VObj _ pv) => Ok (pv, [])
      | Some _ => Panic
      | None => match sassoc x (w_imps W) with
                | Some path => match pkg_member md f with
                               | Some g => Ok (VStr (path ++ dot :: g), [])
                               | None => Panic
                               end
                | None => Panic
                end
      end
  | EFuncLit ps _ body => Ok (VClos ps body en, [])
  | ELambda ps rhs => Ok (VClos ps (SCons (SReturn rhs) SNil) en, [])
  | ELambda2 ps body => Ok (VClos ps body en, [])
  | ENew t e1 => match eval_e n' md W en e1 with
                 | Ok (v, t1) => Ok (VObj t v, t1)
                 | Panic => Panic | OutOfFuel => OutOfFuel
                 end
  end end
with eval_es (n : nat) (md : mode) (W : world) (en : env) (es : exprs) {struct n} : M (list value * trace) :=
  match n with O => OutOfFuel | S n' =>
  match es with
  | ENil => Ok ([], [])
  | ECons e t => match eval_e n' md W en e with
                 | Ok (v, t1) => match eval_es n' md W en t with
                                 | Ok (vs, t2) => Ok (v :: vs, t1 ++ t2)
                                 | Panic => Panic | OutOfFuel => OutOfFuel
                                 end
                 | Panic => Panic | OutOfFuel => OutOfFuel
                 end
  end end
(* result: (Some v = a return was executed, environment after the statement, trace) *)
with eval_s (n : nat) (md : mode) (W : world) (en : env) (s : stmt) {struct n} : M (option value * env * trace) :=
  match n with O => OutOfFuel | S n' =>
  match s with
  | SExpr _ e => match eval_e n' md W en e with
                 | Ok (_, t1) => Ok (None, en, t1)
                 | Panic => Panic | OutOfFuel => OutOfFuel
                 end
  | SDefine x e => match eval_e n' md W en e with
                   | Ok (v, t1) => Ok (None, (x, v) :: en, t1)
                   | Panic => Panic | OutOfFuel => OutOfFuel
                   end
  | SVar x e => match eval_e n' md W en e with
                | Ok (v, t1) => Ok (None, (x, v) :: en, t1)
                | Panic => Panic | OutOfFuel => OutOfFuel
                end
  | SIf c thn els =>
      match eval_e n' md W en c with
      | Ok (VInt z, t1) =>
          match eval_ss n' md W en (if Z.eqb z 0 then els else thn) with
          | Ok (r, _, t2) => Ok (r, en, t1 ++ t2)
          | Panic => Panic | OutOfFuel => OutOfFuel
          end
      | Ok _ => Panic | Panic => Panic | OutOfFuel => OutOfFuel
      end
  | SReturn ENil => Ok (Some VUnit, en, [])
  | SReturn (ECons e ENil) => match eval_e n' md W en e with
                              | Ok (v, t1) => Ok (Some v, en, t1)
                              | Panic => Panic | OutOfFuel => OutOfFuel
                              end
  | SReturn _ => Panic
  | SBlock b => match eval_ss n' md W en b with
                | Ok (r, _, t1) => Ok (r, en, t1)
                | Panic => Panic | OutOfFuel => OutOfFuel
                end
  end end
with eval_ss (n : nat) (md : mode) (W : world) (en : env) (ss : stmts) {struct n} : M (option value * env * trace) :=
  match n with O => OutOfFuel | S n' =>
  match ss with
  | SNil => Ok (None, en, [])
  | SCons s t => match eval_s n' md W en s with
                 | Ok (Some v, e1, t1) => Ok (Some v, e1, t1)
                 | Ok (None, e1, t1) => match eval_ss n' md W e1 t with
                                        | Ok (r, e2, t2) => Ok (r, e2, t1 ++ t2)
                                        | Panic => Panic | OutOfFuel => OutOfFuel
                                        end
                 | Panic => Panic | OutOfFuel => OutOfFuel
                 end
  end end.

(* the static part of the world *)
Fixpoint funcs_of (ds : list decl) : list (name * (list name * stmts)) :=
  match ds with
  | [] => []
  | DFunc f ps _ b :: t => (f, (ps, b)) :: funcs_of t
  | _ :: t => funcs_of t
  end.
Fixpoint methods_of (ds : list decl) : list (name * (name * (name * (list name * stmts)))) :=
  match ds with
  | [] => []
  | DMethod ty r m ps _ b :: t => (ty, (m, (r, (ps, b)))) :: methods_of t
  | _ :: t => methods_of t
  end.
Fixpoint imports_of (ds : list decl) : list (name * str) :=
  match ds with
  | [] => []
  | DImport nm path :: t => (nm, path) :: imports_of t
  | _ :: t => imports_of t
  end.

(* package-level variables are initialised in declaration order *)
Fixpoint init_vars (n : nat) (md : mode) (W : world) (ds : list decl) (g : env) (tr : trace) : M (env * trace) :=
  match ds with
  | [] => Ok (g, tr)
  | DVar x e :: t =>
      match eval_e n md (World (w_imps W) (w_funcs W) (w_methods W) g) g e with
      | Ok (v, t1) => init_vars n md W t ((x, v) :: g) (tr ++ t1)
      | Panic => Panic | OutOfFuel => OutOfFuel
      end
  | _ :: t => init_vars n md W t g tr
  end.

(* run the program: initialise the package variables, call main; the observable is the trace *)
Definition run (n : nat) (md : mode) (p : prog) : M trace :=
  let ds := pdecls p in
  let W0 := World (imports_of ds) (funcs_of ds) (methods_of ds) [] in
  match init_vars n md W0 ds [] [] with
  | Ok (g, t0) =>
      let W := World (imports_of ds) (funcs_of ds) (methods_of ds) g in
      match sassoc main_name (funcs_of ds) with
      | Some (_, b) => match eval_ss n md W g b with
                       | Ok (_, _, t1) => Ok (t0 ++ t1)
                       | Panic => Panic | OutOfFuel => OutOfFuel
                       end
      | None => Panic
      end
  | Panic => Panic | OutOfFuel => OutOfFuel
  end.

(* ================================================================ side conditions of the preservation theorem *)

(* builtins the formatter can substitute for an fmt function *)
Definition is_subst (b : name) : bool :=
  existsb (fun ul => str_eqb (rename_builtin (snd ul)) b) c25_print_funcs.

(* every binder of the term (:=, var, parameters of function literals / lambdas) satisfies ok *)
Fixpoint good_e (ok : name -> bool) (e : expr) : bool :=
  match e with
  | EInt _ | EStr _ | EVar _ | EField _ _ => true
  | EAdd a b => good_e ok a && good_e ok b
  | ECall _ args => good_es ok args
  | ESel _ _ args => good_es ok args
  | EFuncLit ps _ body => forallb ok ps && good_ss ok body
  | ELambda ps rhs => forallb ok ps && good_es ok rhs
  | ELambda2 ps body => forallb ok ps && good_ss ok body
  | ENew _ e1 => good_e ok e1
  end
with good_es (ok : name -> bool) (es : exprs) : bool :=
  match es with ENil => true | ECons e t => good_e ok e && good_es ok t end
with good_s (ok : name -> bool) (s : stmt) : bool :=
  match s with
  | SExpr _ e => good_e ok e
  | SDefine x e => ok x && good_e ok e
  | SVar x e => ok x && good_e ok e
  | SIf c thn els => good_e ok c && good_ss ok thn && good_ss ok els
  | SReturn r => good_es ok r
  | SBlock b => good_ss ok b
  end
with good_ss (ok : name -> bool) (ss : stmts) : bool :=
  match ss with SNil => true | SCons s t => good_s ok s && good_ss ok t end.

Definition good_decl (ok okf : name -> bool) (d : decl) : bool :=
  match d with
  | DImport _ _ | DType _ => true
  | DVar x e => ok x && good_e ok e
  | DFunc f ps _ b => okf f && forallb ok ps && good_ss ok b
  | DMethod _ r _ ps _ b => ok r && forallb ok ps && good_ss ok b
  end.

Definition not_import (ds : list decl) (x : name) : bool :=
  match sassoc x (imports_of ds) with Some _ => false | None => true end.

(* no variable, parameter or receiver is named like an import *)
Definition no_shadow (p : prog) : bool :=
  forallb (good_decl (not_import (pdecls p)) (fun _ => true)) (pdecls p).
(* no variable, parameter, receiver or function is named like a builtin the formatter substitutes *)
Definition no_builtin_clash (p : prog) : bool :=
  forallb (good_decl (fun x => negb (is_subst x)) (fun f => negb (is_subst f))) (pdecls p).
(* no type has both a method M and its lower-case twin *)
Definition no_case_twin (p : prog) : bool :=
  let ms := methods_of (pdecls p) in
  forallb (fun tm => negb (exported (fst (snd tm))) ||
                     match find_method (fst tm) (lower_first (fst (snd tm))) ms with Some _ => false | None => true end) ms.
(* imports precede the other declarations (every Go file) *)
Fixpoint imports_first (ds : list decl) : bool :=
  match ds with
  | DImport _ _ :: t => imports_first t
  | _ => forallb (fun d => match d with DImport _ _ => false | _ => true end) ds
  end.

(* ---------------------------------------------------------------- side condition allowing TRACKED shadowing *)

(* okb: every := variable and every parameter of a function literal / lambda; okv: every `var` variable *)
Fixpoint goodv_e (okb okv : name -> bool) (e : expr) : bool :=
  match e with
  | EInt _ | EStr _ | EVar _ | EField _ _ => true
  | EAdd a b => goodv_e okb okv a && goodv_e okb okv b
  | ECall _ args => goodv_es okb okv args
  | ESel _ _ args => goodv_es okb okv args
  | EFuncLit ps _ body => forallb okb ps && goodv_ss okb okv body
  | ELambda ps rhs => forallb okb ps && goodv_es okb okv rhs
  | ELambda2 ps body => forallb okb ps && goodv_ss okb okv body
  | ENew _ e1 => goodv_e okb okv e1
  end
with goodv_es (okb okv : name -> bool) (es : exprs) : bool :=
  match es with ENil => true | ECons e t => goodv_e okb okv e && goodv_es okb okv t end
with goodv_s (okb okv : name -> bool) (s : stmt) : bool :=
  match s with
  | SExpr _ e => goodv_e okb okv e
  | SDefine x e => okb x && goodv_e okb okv e
  | SVar x e => okv x && goodv_e okb okv e
  | SIf c thn els => goodv_e okb okv c && goodv_ss okb okv thn && goodv_ss okb okv els
  | SReturn r => goodv_es okb okv r
  | SBlock b => goodv_ss okb okv b
  end
with goodv_ss (okb okv : name -> bool) (ss : stmts) : bool :=
  match ss with SNil => true | SCons s t => goodv_s okb okv s && goodv_ss okb okv t end.

Definition goodv_decl (okb okv okf : name -> bool) (d : decl) : bool :=
  match d with
  | DImport _ _ | DType _ => true
  | DVar x e => okb x && goodv_e okb okv e
  | DFunc f ps _ b => okf f && forallb okb ps && goodv_ss okb okv b
  | DMethod _ r _ ps _ b => okb r && forallb okb ps && goodv_ss okb okv b
  end.

(* No := variable, parameter, receiver or package-level variable is named like an import, nothing is
   named like a builtin the formatter substitutes; `var` statements inside functions MAY be named like an
   import (this is the shadowing formatCtx tracks). *)
Definition scope_safe (p : prog) : bool :=
  let ds := pdecls p in
  forallb (goodv_decl (fun x => not_import ds x && negb (is_subst x))%bool
                      (fun x => negb (is_subst x))
                      (fun f => negb (is_subst f))) ds.
