(* M-SCAN: byte-level model of the three scanners
     XGo : /repo/scanner/scanner.go
     Tpl : /repo/tpl/scanner/scanner.go
     Go  : $GOROOT/src/go/scanner/scanner.go (the installed toolchain, go1.23)
   The three sources are one text with local differences; the model is one text with a
   [dialect] switch at exactly those places.  No proofs here.

   Representation: bytes are N (str = list N), runes and offsets are Z (Go int / rune; -1 = EOF).
   The scanner state is the pair (offset of the current character, bytes from the current
   character on); s.ch is *computed* from it by [cur] (UTF-8 decoding, exact), so
   "s.ch >= 0 <-> input not exhausted" holds by construction.  Errors are a list of
   (offset, code), newest first; lineOffset is carried because line directives look at it.
   Not modelled: the token.File line table (AddLine / AddLineColumnInfo) - it does not
   influence (pos, tok, lit) nor the error offsets. *)
From Coq Require Import List NArith ZArith Bool.
Import ListNotations.
From V Require Import Base.Prelude Gen.ScanTok.
Open Scope Z_scope.

Inductive dialect := XGo | Go | Tpl.
Definition is_go (d : dialect) : bool := match d with Go => true | _ => false end.
Definition is_xgo (d : dialect) : bool := match d with XGo => true | _ => false end.
Definition is_tpl (d : dialect) : bool := match d with Tpl => true | _ => false end.

(* ---- abstract tokens: one constructor per token constant named in a scanner source ---- *)
Inductive tk :=
| T_ILLEGAL | T_EOF | T_COMMENT | T_IDENT | T_INT | T_FLOAT | T_IMAG | T_CHAR | T_STRING
| T_RAT | T_UNIT | T_CSTRING | T_PYSTRING
| T_KW (code : Z)                       (* result of token.Lookup when it is a keyword *)
| T_ADD | T_SUB | T_MUL | T_QUO | T_REM | T_AND | T_OR | T_XOR | T_SHL | T_SHR | T_AND_NOT
| T_ADD_ASSIGN | T_SUB_ASSIGN | T_MUL_ASSIGN | T_QUO_ASSIGN | T_REM_ASSIGN
| T_AND_ASSIGN | T_OR_ASSIGN | T_XOR_ASSIGN | T_SHL_ASSIGN | T_SHR_ASSIGN | T_AND_NOT_ASSIGN
| T_LAND | T_LOR | T_ARROW | T_INC | T_DEC
| T_EQL | T_LSS | T_GTR | T_ASSIGN | T_NOT | T_NEQ | T_LEQ | T_GEQ | T_DEFINE | T_ELLIPSIS
| T_LPAREN | T_LBRACK | T_LBRACE | T_COMMA | T_PERIOD | T_RPAREN | T_RBRACK | T_RBRACE
| T_SEMICOLON | T_COLON
| T_QUESTION | T_DRARROW | T_SRARROW | T_BIDIARROW | T_ENV | T_TILDE | T_AT | T_POW.

(* numeric code of a token in each package, through the generated constants (K-gen);
   -1 = the package has no such token *)
Definition code (d : dialect) (t : tk) : Z :=
  match d with
  | XGo =>
    match t with
    | T_ILLEGAL => xgok_ILLEGAL | T_EOF => xgok_EOF | T_COMMENT => xgok_COMMENT | T_IDENT => xgok_IDENT
    | T_INT => xgok_INT | T_FLOAT => xgok_FLOAT | T_IMAG => xgok_IMAG | T_CHAR => xgok_CHAR
    | T_STRING => xgok_STRING | T_RAT => xgok_RAT | T_UNIT => xgok_UNIT | T_CSTRING => xgok_CSTRING
    | T_PYSTRING => xgok_PYSTRING | T_KW c => c
    | T_ADD => xgok_ADD | T_SUB => xgok_SUB | T_MUL => xgok_MUL | T_QUO => xgok_QUO | T_REM => xgok_REM
    | T_AND => xgok_AND | T_OR => xgok_OR | T_XOR => xgok_XOR | T_SHL => xgok_SHL | T_SHR => xgok_SHR
    | T_AND_NOT => xgok_AND_NOT
    | T_ADD_ASSIGN => xgok_ADD_ASSIGN | T_SUB_ASSIGN => xgok_SUB_ASSIGN | T_MUL_ASSIGN => xgok_MUL_ASSIGN
    | T_QUO_ASSIGN => xgok_QUO_ASSIGN | T_REM_ASSIGN => xgok_REM_ASSIGN
    | T_AND_ASSIGN => xgok_AND_ASSIGN | T_OR_ASSIGN => xgok_OR_ASSIGN | T_XOR_ASSIGN => xgok_XOR_ASSIGN
    | T_SHL_ASSIGN => xgok_SHL_ASSIGN | T_SHR_ASSIGN => xgok_SHR_ASSIGN | T_AND_NOT_ASSIGN => xgok_AND_NOT_ASSIGN
    | T_LAND => xgok_LAND | T_LOR => xgok_LOR | T_ARROW => xgok_ARROW | T_INC => xgok_INC | T_DEC => xgok_DEC
    | T_EQL => xgok_EQL | T_LSS => xgok_LSS | T_GTR => xgok_GTR | T_ASSIGN => xgok_ASSIGN | T_NOT => xgok_NOT
    | T_NEQ => xgok_NEQ | T_LEQ => xgok_LEQ | T_GEQ => xgok_GEQ | T_DEFINE => xgok_DEFINE
    | T_ELLIPSIS => xgok_ELLIPSIS
    | T_LPAREN => xgok_LPAREN | T_LBRACK => xgok_LBRACK | T_LBRACE => xgok_LBRACE | T_COMMA => xgok_COMMA
    | T_PERIOD => xgok_PERIOD | T_RPAREN => xgok_RPAREN | T_RBRACK => xgok_RBRACK | T_RBRACE => xgok_RBRACE
    | T_SEMICOLON => xgok_SEMICOLON | T_COLON => xgok_COLON
    | T_QUESTION => xgok_QUESTION | T_DRARROW => xgok_DRARROW | T_SRARROW => xgok_SRARROW
    | T_BIDIARROW => xgok_BIDIARROW | T_ENV => xgok_ENV | T_TILDE => xgok_TILDE
    | T_AT => -1 | T_POW => -1
    end
  | Go =>
    match t with
    | T_ILLEGAL => gok_ILLEGAL | T_EOF => gok_EOF | T_COMMENT => gok_COMMENT | T_IDENT => gok_IDENT
    | T_INT => gok_INT | T_FLOAT => gok_FLOAT | T_IMAG => gok_IMAG | T_CHAR => gok_CHAR
    | T_STRING => gok_STRING | T_KW c => c
    | T_ADD => gok_ADD | T_SUB => gok_SUB | T_MUL => gok_MUL | T_QUO => gok_QUO | T_REM => gok_REM
    | T_AND => gok_AND | T_OR => gok_OR | T_XOR => gok_XOR | T_SHL => gok_SHL | T_SHR => gok_SHR
    | T_AND_NOT => gok_AND_NOT
    | T_ADD_ASSIGN => gok_ADD_ASSIGN | T_SUB_ASSIGN => gok_SUB_ASSIGN | T_MUL_ASSIGN => gok_MUL_ASSIGN
    | T_QUO_ASSIGN => gok_QUO_ASSIGN | T_REM_ASSIGN => gok_REM_ASSIGN
    | T_AND_ASSIGN => gok_AND_ASSIGN | T_OR_ASSIGN => gok_OR_ASSIGN | T_XOR_ASSIGN => gok_XOR_ASSIGN
    | T_SHL_ASSIGN => gok_SHL_ASSIGN | T_SHR_ASSIGN => gok_SHR_ASSIGN | T_AND_NOT_ASSIGN => gok_AND_NOT_ASSIGN
    | T_LAND => gok_LAND | T_LOR => gok_LOR | T_ARROW => gok_ARROW | T_INC => gok_INC | T_DEC => gok_DEC
    | T_EQL => gok_EQL | T_LSS => gok_LSS | T_GTR => gok_GTR | T_ASSIGN => gok_ASSIGN | T_NOT => gok_NOT
    | T_NEQ => gok_NEQ | T_LEQ => gok_LEQ | T_GEQ => gok_GEQ | T_DEFINE => gok_DEFINE
    | T_ELLIPSIS => gok_ELLIPSIS
    | T_LPAREN => gok_LPAREN | T_LBRACK => gok_LBRACK | T_LBRACE => gok_LBRACE | T_COMMA => gok_COMMA
    | T_PERIOD => gok_PERIOD | T_RPAREN => gok_RPAREN | T_RBRACK => gok_RBRACK | T_RBRACE => gok_RBRACE
    | T_SEMICOLON => gok_SEMICOLON | T_COLON => gok_COLON | T_TILDE => gok_TILDE
    | T_RAT | T_UNIT | T_CSTRING | T_PYSTRING | T_QUESTION | T_DRARROW | T_SRARROW | T_BIDIARROW
    | T_ENV | T_AT | T_POW => -1
    end
  | Tpl =>
    match t with
    | T_ILLEGAL => tplk_ILLEGAL | T_EOF => tplk_EOF | T_COMMENT => tplk_COMMENT | T_IDENT => tplk_IDENT
    | T_INT => tplk_INT | T_FLOAT => tplk_FLOAT | T_IMAG => tplk_IMAG | T_CHAR => tplk_CHAR
    | T_STRING => tplk_STRING | T_RAT => tplk_RAT | T_UNIT => tplk_UNIT
    | T_ADD => tplk_ADD | T_SUB => tplk_SUB | T_MUL => tplk_MUL | T_QUO => tplk_QUO | T_REM => tplk_REM
    | T_AND => tplk_AND | T_OR => tplk_OR | T_XOR => tplk_XOR | T_SHL => tplk_SHL | T_SHR => tplk_SHR
    | T_AND_NOT => tplk_AND_NOT
    | T_ADD_ASSIGN => tplk_ADD_ASSIGN | T_SUB_ASSIGN => tplk_SUB_ASSIGN | T_MUL_ASSIGN => tplk_MUL_ASSIGN
    | T_QUO_ASSIGN => tplk_QUO_ASSIGN | T_REM_ASSIGN => tplk_REM_ASSIGN
    | T_AND_ASSIGN => tplk_AND_ASSIGN | T_OR_ASSIGN => tplk_OR_ASSIGN | T_XOR_ASSIGN => tplk_XOR_ASSIGN
    | T_SHL_ASSIGN => tplk_SHL_ASSIGN | T_SHR_ASSIGN => tplk_SHR_ASSIGN | T_AND_NOT_ASSIGN => tplk_AND_NOT_ASSIGN
    | T_LAND => tplk_LAND | T_LOR => tplk_LOR | T_ARROW => tplk_ARROW | T_INC => tplk_INC | T_DEC => tplk_DEC
    | T_EQL => tplk_EQ | T_LSS => tplk_LT | T_GTR => tplk_GT | T_ASSIGN => tplk_ASSIGN | T_NOT => tplk_NOT
    | T_NEQ => tplk_NE | T_LEQ => tplk_LE | T_GEQ => tplk_GE | T_DEFINE => tplk_DEFINE
    | T_ELLIPSIS => tplk_ELLIPSIS
    | T_LPAREN => tplk_LPAREN | T_LBRACK => tplk_LBRACK | T_LBRACE => tplk_LBRACE | T_COMMA => tplk_COMMA
    | T_PERIOD => tplk_PERIOD | T_RPAREN => tplk_RPAREN | T_RBRACK => tplk_RBRACK | T_RBRACE => tplk_RBRACE
    | T_SEMICOLON => tplk_SEMICOLON | T_COLON => tplk_COLON
    | T_QUESTION => tplk_QUESTION | T_DRARROW => tplk_DRARROW | T_SRARROW => tplk_SRARROW
    | T_BIDIARROW => tplk_BIDIARROW | T_ENV => tplk_ENV | T_TILDE => tplk_TILDE | T_AT => tplk_AT
    | T_POW => tplk_POW
    | T_CSTRING | T_PYSTRING | T_KW _ => -1
    end
  end.

(* token.Lookup (XGo, Go): the generated keyword table; TPL has no keywords *)
Fixpoint kw_find (l : list (str * Z)) (s : str) : option Z :=
  match l with
  | [] => None
  | (k, c) :: t => if str_eqb k s then Some c else kw_find t s
  end.
Definition lookup (d : dialect) (lit : str) : tk :=
  match d with
  | XGo => match kw_find xgo_keywords lit with Some c => T_KW c | None => T_IDENT end
  | Go => match kw_find go_keywords lit with Some c => T_KW c | None => T_IDENT end
  | Tpl => T_IDENT
  end.
(* case token.BREAK, token.CONTINUE, token.FALLTHROUGH, token.RETURN: insertSemi = true *)
Definition kw_semi (d : dialect) (c : Z) : bool :=
  match d with
  | XGo => (c =? xgok_BREAK) || (c =? xgok_CONTINUE) || (c =? xgok_FALLTHROUGH) || (c =? xgok_RETURN)
  | Go => (c =? gok_BREAK) || (c =? gok_CONTINUE) || (c =? gok_FALLTHROUGH) || (c =? gok_RETURN)
  | Tpl => false
  end.

Section Scan.
Variable uni_letter uni_digit : Z -> bool.     (* unicode.IsLetter / unicode.IsDigit on runes >= 0x80 *)
Variable d : dialect.

(* ---- utf8.DecodeRune, exact: (rune, width); (-1, 0) at the end of input ---- *)
Definition contb (b : N) : bool := ((128 <=? b) && (b <=? 191))%N.
Definition RuneError : Z := 65533.
Definition decode (r : str) : Z * nat :=
  match r with
  | [] => (-1, O)
  | b0 :: t =>
    if (b0 <? 128)%N then (Z.of_N b0, 1%nat)
    else if ((194 <=? b0) && (b0 <=? 223))%N then
      match t with
      | b1 :: _ => if contb b1 then ((Z.of_N b0 - 192) * 64 + (Z.of_N b1 - 128), 2%nat) else (RuneError, 1%nat)
      | _ => (RuneError, 1%nat)
      end
    else if ((224 <=? b0) && (b0 <=? 239))%N then
      match t with
      | b1 :: b2 :: _ =>
        let lo := if (b0 =? 224)%N then 160%N else 128%N in
        let hi := if (b0 =? 237)%N then 159%N else 191%N in
        if ((lo <=? b1) && (b1 <=? hi))%N && contb b2
        then ((Z.of_N b0 - 224) * 4096 + (Z.of_N b1 - 128) * 64 + (Z.of_N b2 - 128), 3%nat)
        else (RuneError, 1%nat)
      | _ => (RuneError, 1%nat)
      end
    else if ((240 <=? b0) && (b0 <=? 244))%N then
      match t with
      | b1 :: b2 :: b3 :: _ =>
        let lo := if (b0 =? 240)%N then 144%N else 128%N in
        let hi := if (b0 =? 244)%N then 143%N else 191%N in
        if ((lo <=? b1) && (b1 <=? hi))%N && contb b2 && contb b3
        then ((Z.of_N b0 - 240) * 262144 + (Z.of_N b1 - 128) * 4096 + (Z.of_N b2 - 128) * 64 + (Z.of_N b3 - 128), 4%nat)
        else (RuneError, 1%nat)
      | _ => (RuneError, 1%nat)
      end
    else (RuneError, 1%nat)
  end.

(* error codes (only the offsets are observable; the codes document the site) *)
Definition E_NUL := 1. Definition E_UTF8 := 2. Definition E_BOM := 3. Definition E_COMMENT := 4.
Definition E_RADIX := 10. Definition E_NODIGITS := 11. Definition E_EXP_DEC := 12. Definition E_EXP_HEX := 13.
Definition E_EXP_NODIGITS := 14. Definition E_HEX_NEEDS_P := 15. Definition E_INVALID_DIGIT := 16. Definition E_SEP := 17.
Definition E_ESC_UNKNOWN := 20. Definition E_ESC_EOF := 21. Definition E_ESC_RANGE := 22. Definition E_ESC_CHAR := 23.
Definition E_STRING := 30. Definition E_RUNE_EOF := 31. Definition E_RUNE_BAD := 32. Definition E_RAW := 33.
Definition E_ILLEGAL := 40. Definition E_LINE := 50. Definition E_COL := 51.

Record Sc := mkS { off : Z; rest : str; errs : list (Z * Z); lineoff : Z }.
Definition cur (s : Sc) : Z := fst (decode (rest s)).        (* s.ch *)
Definition bom : Z := 65279.

(* the errors next() reports when it reads the character that starts r, at offset o *)
Definition arrive (o : Z) (r : str) : list (Z * Z) :=
  match r with
  | [] => []
  | b0 :: _ =>
    if (b0 =? 0)%N then [(o, E_NUL)]
    else if (b0 <? 128)%N then []
    else let '(c, w) := decode r in
         if (c =? RuneError) && Nat.eqb w 1 then [(o, E_UTF8)]
         else if (c =? bom) && (0 <? o) then [(o, E_BOM)] else []
  end.
(* next() *)
Definition nxt (s : Sc) : Sc :=
  let '(c, w) := decode (rest s) in
  let r' := skipn w (rest s) in
  let o' := off s + Z.of_nat w in
  mkS o' r' (arrive o' r' ++ errs s) (if c =? 10 then o' else lineoff s).
Definition err (s : Sc) (o code : Z) : Sc := mkS (off s) (rest s) ((o, code) :: errs s) (lineoff s).
(* peek(): the byte after the current character, 0 at EOF *)
Definition peek (s : Sc) : N := nth (snd (decode (rest s))) (rest s) 0%N.
(* s.src[off s0 : off s1] *)
Definition slice (s0 s1 : Sc) : str := firstn (Z.to_nat (off s1 - off s0)) (rest s0).

Definition lower (c : Z) : Z := Z.lor 32 c.
Definition is_decimal (c : Z) : bool := (48 <=? c) && (c <=? 57).
Definition is_hex (c : Z) : bool := is_decimal c || ((97 <=? lower c) && (lower c <=? 102)).
Definition is_letter (c : Z) : bool :=
  ((97 <=? lower c) && (lower c <=? 122)) || (c =? 95) || ((128 <=? c) && uni_letter c).
Definition is_digit (c : Z) : bool := is_decimal c || ((128 <=? c) && uni_digit c).
Definition is_decimal_b (b : N) : bool := ((48 <=? b) && (b <=? 57))%N.
Definition lower_b (b : N) : N := N.lor 32 b.
Definition is_hex_b (b : N) : bool := is_decimal_b b || ((97 <=? lower_b b) && (lower_b b <=? 102))%N.

(* skipWhitespace; semi = s.insertSemi *)
Fixpoint skip_ws (fuel : nat) (semi : bool) (s : Sc) : Sc :=
  match fuel with
  | O => s
  | S f =>
    let c := cur s in
    if (c =? 32) || (c =? 9) || ((c =? 10) && negb semi) || (c =? 13) then skip_ws f semi (nxt s) else s
  end.

(* scanIdentifier's loop (the ASCII fast path of go/scanner is the same function) *)
Fixpoint scan_ident (fuel : nat) (s : Sc) : Sc :=
  match fuel with
  | O => s
  | S f => if is_letter (cur s) || is_digit (cur s) then scan_ident f (nxt s) else s
  end.

(* digits(base, &invalid): (digsep, state, invalid); invalid < 0 = unset *)
Fixpoint digits (fuel : nat) (base : Z) (s : Sc) (inv : Z) (ds : Z) : Z * Sc * Z :=
  match fuel with
  | O => (ds, s, inv)
  | S f =>
    let c := cur s in
    if base <=? 10 then
      if is_decimal c || (c =? 95) then
        let dd := if c =? 95 then 2 else 1 in
        let inv' := if negb (c =? 95) && (48 + base <=? c) && (inv <? 0) then off s else inv in
        digits f base (nxt s) inv' (Z.lor ds dd)
      else (ds, s, inv)
    else
      if is_hex c || (c =? 95) then digits f base (nxt s) inv (Z.lor ds (if c =? 95 then 2 else 1))
      else (ds, s, inv)
  end.

(* invalidSep(x): index of the first invalid separator or -1; dd in {'_' 95, '0' 48, '.' 46} *)
Fixpoint inv_sep (x : str) (i : Z) (dd : Z) (x1 : N) : Z :=
  match x with
  | [] => if dd =? 95 then i - 1 else -1
  | c :: t =>
    if (c =? 95)%N then (if negb (dd =? 48) then i else inv_sep t (i + 1) 95 x1)
    else if is_decimal_b c || ((x1 =? 120)%N && is_hex_b c) then inv_sep t (i + 1) 48 x1
    else if dd =? 95 then i - 1 else inv_sep t (i + 1) 46 x1
  end.
Definition invalid_sep (x : str) : Z :=
  match x with
  | c0 :: c1 :: t =>
    if (c0 =? 48)%N then
      let x1 := lower_b c1 in
      if ((x1 =? 120) || (x1 =? 111) || (x1 =? 98))%N then inv_sep t 2 48 x1 else inv_sep x 0 46 x1
    else inv_sep x 0 46 32%N
  | _ => inv_sep x 0 46 32%N
  end.

(* scanNumber, in its four parts.  prefix: 0 decimal, '0' 48, 'x' 120, 'o' 111, 'b' 98 *)
Definition is_float (t : tk) : bool := match t with T_FLOAT => true | _ => false end.
Definition is_int (t : tk) : bool := match t with T_INT => true | _ => false end.
(* integer part: (tok, base, prefix, digsep, invalid, state) *)
Definition num_int (fuel : nat) (s0 : Sc) : tk * Z * Z * Z * Z * Sc :=
  if negb (cur s0 =? 46) then
    if cur s0 =? 48 then
      let s1 := nxt s0 in
      let lc := lower (cur s1) in
      let '(base, prefix, ds, s2) :=
        if lc =? 120 then (16, 120, 0, nxt s1)
        else if lc =? 111 then (8, 111, 0, nxt s1)
        else if lc =? 98 then (2, 98, 0, nxt s1)
        else (8, 48, 1, s1) in
      let '(ds', s3, inv) := digits fuel base s2 (-1) ds in
      (T_INT, base, prefix, ds', inv, s3)
    else
      let '(ds', s3, inv) := digits fuel 10 s0 (-1) 0 in
      (T_INT, 10, 0, ds', inv, s3)
  else (T_ILLEGAL, 10, 0, 0, -1, s0).
(* fractional part and the "has no digits" check: (tok, digsep, invalid, state) *)
Definition num_frac (fuel : nat) (tok : tk) (base prefix digsep inv : Z) (s : Sc) : tk * Z * Z * Sc :=
  let '(tok, digsep, inv, s) :=
    if cur s =? 46 then
      let s := if (prefix =? 111) || (prefix =? 98) then err s (off s) E_RADIX else s in
      let '(ds', s', inv') := digits fuel base (nxt s) inv digsep in
      (T_FLOAT, ds', inv', s')
    else (tok, digsep, inv, s) in
  (tok, digsep, inv, if Z.land digsep 1 =? 0 then err s (off s) E_NODIGITS else s).
(* exponent: (tok, digsep, state) *)
Definition num_exp (fuel : nat) (tok : tk) (prefix digsep : Z) (s : Sc) : tk * Z * Sc :=
  let e := lower (cur s) in
  if (e =? 101) || (e =? 112) then
    let s := if (e =? 101) && negb (prefix =? 0) && negb (prefix =? 48) then err s (off s) E_EXP_DEC
             else if (e =? 112) && negb (prefix =? 120) then err s (off s) E_EXP_HEX else s in
    let s := nxt s in
    let s := if (cur s =? 43) || (cur s =? 45) then nxt s else s in
    let '(ds, s', _) := digits fuel 10 s (-1) 0 in
    let s' := if Z.land ds 1 =? 0 then err s' (off s') E_EXP_NODIGITS else s' in
    (T_FLOAT, Z.lor digsep ds, s')
  else if (prefix =? 120) && is_float tok then (tok, digsep, err s (off s) E_HEX_NEEDS_P)
  else (tok, digsep, s).
(* suffix: XGo / TPL  i, r, unit (any other identifier);  Go  i.  (tok, state, unit length) *)
Definition num_suffix (fuel : nat) (tok : tk) (s : Sc) : tk * Sc * Z :=
  if is_go d then
    if cur s =? 105 then (T_IMAG, nxt s, 0) else (tok, s, 0)
  else if is_letter (cur s) then
    let s' := scan_ident fuel s in
    let id := slice s s' in
    if str_eqb id [105%N] then (T_IMAG, s', 0)                (* "i" *)
    else if str_eqb id [114%N] then (T_RAT, s', 0)            (* "r" *)
    else (tok, s', off s' - off s)                            (* s.unitVal = id *)
  else (tok, s, 0).
(* scanNumber: (tok, state after number and suffix, length in bytes of the unit suffix) *)
Definition scan_number (s0 : Sc) : tk * Sc * Z :=
  let fuel := S (length (rest s0)) in
  let '(tok, base, prefix, digsep, inv, s) := num_int fuel s0 in
  let '(tok, digsep, inv, s) := num_frac fuel tok base prefix digsep inv s in
  let '(tok, digsep, s) := num_exp fuel tok prefix digsep s in
  let '(tok, s, unit) := num_suffix fuel tok s in
  let lit := firstn (Z.to_nat (off s - unit - off s0)) (rest s0) in
  let s := if is_int tok && (0 <=? inv) then err s inv E_INVALID_DIGIT else s in
  let s := if negb (Z.land digsep 2 =? 0) then
             let i := invalid_sep lit in if 0 <=? i then err s (off s0 + i) E_SEP else s
           else s in
  (tok, s, unit).

Definition digit_val (c : Z) : Z :=
  if is_decimal c then c - 48
  else if (97 <=? lower c) && (lower c <=? 102) then lower c - 97 + 10
  else 16.

(* x > max || 0xD800 <= x && x < 0xE000 *)
Definition esc_invalid (mx x : Z) : bool := (mx <? x) || ((55296 <=? x) && (x <? 57344)).
(* the digit loop of scanEscape *)
Fixpoint esc_loop (n : nat) (base mx offs : Z) (s : Sc) (x : Z) : bool * Sc :=
  match n with
  | O => if esc_invalid mx x then (false, err s offs E_ESC_RANGE) else (true, s)
  | S n' =>
    let dv := digit_val (cur s) in
    if base <=? dv then (false, err s (off s) (if cur s <? 0 then E_ESC_EOF else E_ESC_CHAR))
    else esc_loop n' base mx offs (nxt s) (x * base + dv)
  end.
(* case 'a', 'b', 'f', 'n', 'r', 't', 'v', '\\', quote *)
Definition esc_simple (quote c : Z) : bool :=
  (c =? 97) || (c =? 98) || (c =? 102) || (c =? 110) || (c =? 114) || (c =? 116) || (c =? 118) || (c =? 92) || (c =? quote).
(* the numeric escapes: (n, base, max, does the case consume the letter with s.next()) *)
Definition esc_numeric (c : Z) : option (Z * Z * Z * bool) :=
  if (48 <=? c) && (c <=? 55) then Some (3, 8, 255, false)
  else if c =? 120 then Some (2, 16, 255, true)
  else if c =? 117 then Some (4, 16, 1114111, true)
  else if c =? 85 then Some (8, 16, 1114111, true)
  else None.
(* scanEscape(quote): (ok, state) *)
Definition scan_escape (quote : Z) (s : Sc) : bool * Sc :=
  let offs := off s in
  let c := cur s in
  if esc_simple quote c then (true, nxt s)
  else match esc_numeric c with
       | Some (n, base, mx, consume) => esc_loop (Z.to_nat n) base mx offs (if consume then nxt s else s) 0
       | None => (false, err s offs (if c <? 0 then E_ESC_EOF else E_ESC_UNKNOWN))
       end.

(* scanString: opening quote consumed; offs = position of the quote *)
Fixpoint scan_string (fuel : nat) (offs : Z) (s : Sc) : Sc :=
  match fuel with
  | O => s
  | S f =>
    let c := cur s in
    if (c =? 10) || (c <? 0) then err s offs E_STRING
    else let s1 := nxt s in
         if c =? 34 then s1
         else if c =? 92 then scan_string f offs (snd (scan_escape 34 s1))
         else scan_string f offs s1
  end.

(* scanRune: opening quote consumed *)
Fixpoint scan_rune (fuel : nat) (offs : Z) (s : Sc) (valid : bool) (n : Z) : Sc :=
  match fuel with
  | O => s
  | S f =>
    let c := cur s in
    if (c =? 10) || (c <? 0) then (if valid then err s offs E_RUNE_EOF else s)
    else let s1 := nxt s in
         if c =? 39 then (if valid && negb (n =? 1) then err s1 offs E_RUNE_BAD else s1)
         else if c =? 92 then let '(ok, s2) := scan_escape 39 s1 in scan_rune f offs s2 (valid && ok) (n + 1)
         else scan_rune f offs s1 valid (n + 1)
  end.

(* scanRawString: opening quote consumed *)
Fixpoint scan_raw (fuel : nat) (offs : Z) (s : Sc) : Sc :=
  match fuel with
  | O => s
  | S f =>
    let c := cur s in
    if c <? 0 then err s offs E_RAW
    else let s1 := nxt s in if c =? 96 then s1 else scan_raw f offs s1
  end.

(* stripCR(b, false) of XGo/Go, stripCR(b) of TPL: delete every \r *)
Fixpoint strip_cr_all (b : str) : str :=
  match b with
  | [] => []
  | c :: t => if (c =? 13)%N then strip_cr_all t else c :: strip_cr_all t
  end.
(* stripCR(b, comment) of XGo/Go: i = len(c) so far, prev = c[i-1] *)
Fixpoint strip_cr (b : str) (comment : bool) (i : Z) (prev : N) : str :=
  match b with
  | [] => []
  | c :: t =>
    if negb (c =? 13)%N
       || (comment && (2 <? i) && (prev =? 42)%N && (match t with n :: _ => (n =? 47)%N | [] => false end))
    then c :: strip_cr t comment (i + 1) c
    else strip_cr t comment i prev
  end.

(* for s.ch != '\n' && s.ch >= 0 { if s.ch == '\r' { numCR++ }; s.next() } *)
Fixpoint until_nl (fuel : nat) (s : Sc) (ncr : Z) : Sc * Z :=
  match fuel with
  | O => (s, ncr)
  | S f =>
    let c := cur s in
    if (c =? 10) || (c <? 0) then (s, ncr) else until_nl f (nxt s) (if c =? 13 then ncr + 1 else ncr)
  end.
(* the body loop of a /*-style comment: (state, numCR, terminated, nlOffset (Go; 0 = none)) *)
Fixpoint block_body (fuel : nat) (s : Sc) (ncr : Z) (nl : Z) : Sc * Z * bool * Z :=
  match fuel with
  | O => (s, ncr, false, nl)
  | S f =>
    let c := cur s in
    if c <? 0 then (s, ncr, false, nl)
    else
      let ncr' := if c =? 13 then ncr + 1 else ncr in
      let nl' := if negb (c =? 13) && (c =? 10) && (nl =? 0) then off s else nl in
      let s1 := nxt s in
      if (c =? 42) && (cur s1 =? 47) then (nxt s1, ncr', true, nl') else block_body f s1 ncr' nl'
  end.

Definition nth1 (l : str) : N := nth 1 l 0%N.
Definition str_line_ : str := [108; 105; 110; 101; 32]%N.            (* "line " *)
Fixpoint has_prefix (p l : str) : bool :=
  match p, l with
  | [], _ => true
  | a :: p', b :: l' => (a =? b)%N && has_prefix p' l'
  | _ :: _, [] => false
  end.

(* bytes.LastIndexByte(text, ':') + 1, 0 if absent *)
Fixpoint last_colon (text : str) (i : Z) (acc : Z) : Z :=
  match text with
  | [] => acc
  | c :: t => last_colon t (i + 1) (if (c =? 58)%N then i + 1 else acc)
  end.
(* strconv.ParseUint(s, 10, 0) then int(n): (value as Go int, ok) *)
Fixpoint parse_digits (s : str) (acc : Z) : option Z :=
  match s with
  | [] => Some acc
  | c :: t => if is_decimal_b c then parse_digits t (acc * 10 + (Z.of_N c - 48)) else None
  end.
Definition two64 : Z := 18446744073709551616.
Definition two63 : Z := 9223372036854775808.
Definition parse_uint (s : str) : Z * bool :=
  match s with
  | [] => (0, false)
  | _ => match parse_digits s 0 with
         | Some v => if v <? two64 then ((if v <? two63 then v else v - two64), true)
                     else (two64 - 1 - two64 (* int(MaxUint64) = -1 *), false)
         | None => (0, false)
         end
  end.
(* trailingDigits *)
Definition trailing_digits (text : str) : Z * Z * bool :=
  let i := last_colon text 0 0 in
  if i =? 0 then (0, 0, false)
  else let '(n, ok) := parse_uint (skipn (Z.to_nat i) text) in (i, n, ok).
Definition max_line_col : Z := 1073741824.        (* go/scanner only: 1 << 30 *)
(* updateLineInfo, error part: the errors it reports (offs = position of the comment) *)
Definition line_info_errs (lit : str) (offs : Z) : list (Z * Z) :=
  let text := if (nth1 lit =? 42)%N then firstn (length lit - 2) lit else lit in
  let text := skipn 7 text in
  let offs := offs + 7 in
  let '(i, n, ok) := trailing_digits text in
  if i =? 0 then []
  else if negb ok then [(offs + i, E_LINE)]
  else
    let '(i2, n2, ok2) := trailing_digits (firstn (Z.to_nat (i - 1)) text) in
    let too_big (v : Z) := is_go d && (max_line_col <? v) in
    if ok2 then
      (* i, i2 = i2, i; line, col = n2, n *)
      if (n =? 0) || too_big n then [(offs + i, E_COL)]
      else if (n2 =? 0) || too_big n2 then [(offs + i2, E_LINE)] else []
    else
      if (n =? 0) || too_big n then [(offs + i, E_LINE)] else [].

(* scanComment of XGo and Go, scanning part.  s0 is at the initial '/' or '#' (not yet consumed).
   Result: state after, numCR, "next >= 0" (valid comment), nlOffset (Go; 0 = none). *)
Definition comment_scan (s0 : Sc) : Sc * Z * bool * Z :=
  let fuel := S (length (rest s0)) in
  let offs := off s0 in
  let s := nxt s0 in
  if cur s =? 47 then
    let '(s', n) := until_nl fuel (nxt s) 0 in (s', n, true, 0)
  else if is_go d || (cur s =? 42) then
    let '(s', n, term, nl) := block_body fuel (nxt s) 0 0 in
    if term then (s', n, true, nl) else (err s' offs E_COMMENT, n, false, nl)
  else (* XGo: '#'-style comment, the default *)
    let '(s', n) := until_nl fuel s 0 in (s', n, true, 0).
(* a //-comment line may end in "\r\n": remove the final '\r' first *)
Definition comment_trim (lit0 : str) (ncr : Z) : str * Z :=
  if (0 <? ncr) && (2 <=? zlen lit0) && (nth1 lit0 =? 47)%N && (last lit0 0 =? 13)%N
  then (removelast lit0, ncr - 1) else (lit0, ncr).
(* scanComment: state after, literal, nlOffset *)
Definition scan_comment_x (s0 : Sc) : M (Sc * str * Z) :=
  let offs := off s0 in
  let '(s1, ncr, valid, nl) := comment_scan s0 in
  let '(lit1, ncr1) := comment_trim (slice s0 s1) ncr in
  (* line directives; XGo guards len(lit) >= 2, in go/scanner it always holds *)
  let s2 :=
    if valid && (2 <=? zlen lit1) && ((nth1 lit1 =? 42)%N || (offs =? lineoff s1))
       && has_prefix str_line_ (skipn 2 lit1)
    then mkS (off s1) (rest s1) (line_info_errs lit1 offs ++ errs s1) (lineoff s1)
    else s1 in
  if 0 <? ncr1 then
    (* stripCR(lit, lit[1] == '*'): lit[1] panics on a 1-byte literal *)
    if zlen lit1 <? 2 then Panic
    else Ok (s2, strip_cr lit1 (nth1 lit1 =? 42)%N 0 0%N, nl)
  else Ok (s2, lit1, nl).

(* scanComment of TPL ('/' initial) *)
Fixpoint has_cr (l : str) : bool := match l with [] => false | c :: t => (c =? 13)%N || has_cr t end.
Definition scan_comment_tpl (s0 : Sc) : Sc * str :=
  let fuel := S (length (rest s0)) in
  let offs := off s0 in
  let s := nxt s0 in
  let s1 :=
    if cur s =? 47 then fst (until_nl fuel (nxt s) 0)
    else let '(s', _, term, _) := block_body fuel (nxt s) 0 0 in
         if term then s' else err s' offs E_COMMENT in
  let lit := slice s0 s1 in
  (s1, if has_cr lit then strip_cr_all lit else lit).
(* scanSharpComment of TPL *)
Definition scan_sharp_tpl (s0 : Sc) : Sc * str :=
  let s1 := fst (until_nl (S (length (rest s0))) (nxt s0) 0) in
  (s1, slice s0 s1).

(* findLineEnd (XGo, TPL): look-ahead from the character after the initial '/'.
   Returns the look-ahead state (its errors and lineOffset survive the reset) and the answer. *)
Fixpoint fle_block (fuel : nat) (s : Sc) : Sc * bool :=      (* true: newline inside the comment *)
  match fuel with
  | O => (s, false)
  | S f =>
    let c := cur s in
    if c <? 0 then (s, false)
    else if c =? 10 then (s, true)
    else let s1 := nxt s in
         if (c =? 42) && (cur s1 =? 47) then (nxt s1, false) else fle_block f s1
  end.
Fixpoint find_line_end (fuel : nat) (s : Sc) : Sc * bool :=
  match fuel with
  | O => (s, false)
  | S f =>
    if cur s =? 47 then (s, true)
    else if cur s =? 42 then
      let '(s1, nl) := fle_block (S (length (rest s))) (nxt s) in
      if nl then (s1, true)
      else
        let s2 := skip_ws (S (length (rest s1))) true s1 in
        if (cur s2 <? 0) || (cur s2 =? 10) then (s2, true)
        else if negb (cur s2 =? 47) then (s2, false)
        else find_line_end f (nxt s2)
    else (s, false)
  end.
Definition with_look (s r : Sc) : Sc := mkS (off s) (rest s) (errs r) (lineoff r).

(* switch2 / switch3 / switch4 *)
Definition sw2 (s : Sc) (t0 t1 : tk) : tk * Sc := if cur s =? 61 then (t1, nxt s) else (t0, s).
Definition sw3 (s : Sc) (t0 t1 : tk) (c2 : Z) (t2 : tk) : tk * Sc :=
  if cur s =? 61 then (t1, nxt s) else if cur s =? c2 then (t2, nxt s) else (t0, s).
Definition sw4 (s : Sc) (t0 t1 : tk) (c2 : Z) (t2 t3 : tk) : tk * Sc :=
  if cur s =? 61 then (t1, nxt s)
  else if cur s =? c2 then let s1 := nxt s in if cur s1 =? 61 then (t3, nxt s1) else (t2, s1)
  else (t0, s).

(* string(ch) *)
Definition enc (c : Z) : str :=
  let c := if (c <? 0) || (1114111 <? c) || ((55296 <=? c) && (c <? 57344)) then RuneError else c in
  map Z.to_N
    (if c <? 128 then [c]
     else if c <? 2048 then [192 + c / 64; 128 + c mod 64]
     else if c <? 65536 then [224 + c / 4096; 128 + (c / 64) mod 64; 128 + c mod 64]
     else [240 + c / 262144; 128 + (c / 4096) mod 64; 128 + (c / 64) mod 64; 128 + c mod 64]).

(* ---- Scan ---- *)
Record St := mkSt { sc : Sc; semi : bool; nparen : Z; unit : str; nlpos : Z }.   (* nlpos: Go, 0 = NoPos *)
(* tend: the offset just after the source text of the token (s.offset at return, minus a pending
   unit); not returned by Scan - it is what the theorems call the extent of the token *)
Record Tok := mkTok { tpos : Z; ttok : tk; tlit : str; tend : Z }.
Inductive outcome := Emit (t : Tok) (st : St) | Again (st : St).          (* Again = goto scanAgain *)

Definition tk_eqb_simple (a b : tk) : bool :=
  match a, b with
  | T_INC, T_INC | T_DEC, T_DEC | T_NOT, T_NOT => true
  | _, _ => false
  end.

(* `done:` of Scan: return (pos, t, lit); the scanner is at s', insertSemi := isemi *)
Definition emit (pos : Z) (t : tk) (lit : str) (s' : Sc) (isemi : bool) (np' : Z) (u : str) : M outcome :=
  Ok (Emit (mkTok pos t lit (off s' - zlen u)) (mkSt s' isemi np' u 0)).
(* return pos, s.tokSEMICOLON(), "\n" with s.insertSemi = false: the scanner is left at s' *)
Definition emit_nl (pos : Z) (s' : Sc) (np' : Z) : M outcome :=
  Ok (Emit (mkTok pos T_SEMICOLON [10%N] (off s')) (mkSt s' false np' [] 0)).
Definition np_reset (np : Z) : Z := if is_go d then np else 0.          (* tokSEMICOLON: s.nParen = 0 *)

(* case isLetter(ch): s is the state after skipWhitespace *)
Definition lex_word (st : St) (s : Sc) : M outcome :=
  let pos := off s in
  let np := nparen st in
  let c := cur s in
  let s1 := scan_ident (S (length (rest s))) s in
  let lit := slice s s1 in
  if is_tpl d then emit pos T_IDENT lit s1 true np []
  else if Nat.ltb 1 (length lit) then
    match lookup d lit with
    | T_KW k => emit pos (T_KW k) lit s1 (kw_semi d k) np []
    | _ =>
      if is_xgo d && str_eqb lit [112; 121]%N && (cur s1 =? 34) then            (* py"..." *)
        let s2 := nxt s1 in
        let s3 := scan_string (S (length (rest s2))) (off s2 - 1) s2 in
        emit pos T_PYSTRING (slice s1 s3) s3 true np []
      else emit pos T_IDENT lit s1 true np []
    end
  else if is_xgo d && ((c =? 99) || (c =? 67)) && (cur s1 =? 34) then             (* c"..." *)
    let s2 := nxt s1 in
    let s3 := scan_string (S (length (rest s2))) (off s2 - 1) s2 in
    emit pos T_CSTRING (slice s1 s3) s3 true np []
  else emit pos T_IDENT lit s1 true np [].

(* case isDecimal(ch) || ch == '.' && isDecimal(rune(s.peek())) *)
Definition lex_number (st : St) (s : Sc) : M outcome :=
  let '(t, s1, u) := scan_number s in
  let n := Z.to_nat (off s1 - u - off s) in
  emit (off s) t (firstn n (rest s)) s1 true (nparen st) (firstn (Z.to_nat u) (skipn n (rest s))).

(* a comment was scanned up to s2 (XGo, TPL): COMMENT token, or skip it with insertSemi = false *)
Definition comment_out (comments : bool) (pos : Z) (np : Z) (s2 : Sc) (lit : str) : M outcome :=
  if comments then emit pos T_COMMENT lit s2 false np [] else Ok (Again (mkSt s2 false np [] 0)).

(* case '#' (XGo, TPL); s at the '#', s1 = after s.next() *)
Definition lex_sharp (comments : bool) (st : St) (s s1 : Sc) : M outcome :=
  let pos := off s in
  if semi st then
    (* reset to the '#' (the errors next() reported for the character after it stay),
       return the newline semicolon *)
    emit_nl pos (with_look s s1) 0
  else if is_tpl d then
    let '(s2, lit) := scan_sharp_tpl s in comment_out comments pos (nparen st) s2 lit
  else
    x <- scan_comment_x s ;;
    let '(s2, lit, _) := x in comment_out comments pos (nparen st) s2 lit.

(* case '/' followed by '/' or '*'; s at the first '/', s1 = after s.next() *)
Definition lex_slash_comment (comments : bool) (st : St) (s s1 : Sc) : M outcome :=
  let pos := off s in
  let np := nparen st in
  if is_go d then
    x <- scan_comment_x s ;;
    let '(s2, lit, nl) := x in
    let '(isemi, nlp) := if semi st && negb (nl =? 0) then (false, nl) else (semi st, 0) in
    if comments then Ok (Emit (mkTok pos T_COMMENT lit (off s2)) (mkSt s2 isemi np [] nlp))
    else Ok (Again (mkSt s2 isemi np [] nlp))
  else
    let '(look, le) := if semi st then find_line_end (S (length (rest s1))) s1 else (s1, false) in
    let s := with_look s look in
    if semi st && le then
      (* reset position to the beginning of the comment *)
      emit_nl pos s 0
    else if is_tpl d then
      let '(s2, lit) := scan_comment_tpl s in comment_out comments pos np s2 lit
    else
      x <- scan_comment_x s ;;
      let '(s2, lit, _) := x in comment_out comments pos np s2 lit.

(* the default case of the outer switch: s.next() then switch ch *)
Definition lex_punct (comments : bool) (st : St) (s : Sc) : M outcome :=
  let pos := off s in
  let np := nparen st in
  let c := cur s in
  let s1 := nxt s in                                          (* always make progress *)
  let op (t : tk) (s' : Sc) (isemi : bool) := emit pos t [] s' isemi np [] in
  if c =? -1 then
    (if semi st then emit_nl pos s1 (np_reset np) else emit pos T_EOF [] s1 false np [])
  else if c =? 10 then emit_nl pos s1 (np_reset np)
  else if c =? 34 then
    let s2 := scan_string (S (length (rest s1))) pos s1 in emit pos T_STRING (slice s s2) s2 true np []
  else if c =? 39 then
    let s2 := scan_rune (S (length (rest s1))) pos s1 true 0 in emit pos T_CHAR (slice s s2) s2 true np []
  else if c =? 96 then
    let s2 := scan_raw (S (length (rest s1))) pos s1 in
    let l := slice s s2 in
    emit pos T_STRING (if has_cr l then strip_cr_all l else l) s2 true np []
  else if c =? 58 then let '(t, s2) := sw2 s1 T_COLON T_DEFINE in op t s2 false
  else if c =? 46 then
    if (cur s1 =? 46) && (peek s1 =? 46)%N
    then op T_ELLIPSIS (nxt (nxt s1)) (negb (is_go d) && (np =? 0))
    else op T_PERIOD s1 false
  else if c =? 44 then op T_COMMA s1 false
  else if c =? 59 then emit pos T_SEMICOLON [59%N] s1 false (np_reset np) []
  else if c =? 40 then emit pos T_LPAREN [] s1 false (if is_go d then np else np + 1) []
  else if c =? 41 then emit pos T_RPAREN [] s1 true (if is_go d then np else np - 1) []
  else if c =? 91 then op T_LBRACK s1 false
  else if c =? 93 then op T_RBRACK s1 true
  else if c =? 123 then op T_LBRACE s1 false
  else if c =? 125 then op T_RBRACE s1 true
  else if c =? 43 then
    let '(t, s2) := sw3 s1 T_ADD T_ADD_ASSIGN 43 T_INC in op t s2 (tk_eqb_simple t T_INC)
  else if c =? 45 then
    if negb (is_go d) && (cur s1 =? 62) then op T_SRARROW (nxt s1) false
    else let '(t, s2) := sw3 s1 T_SUB T_SUB_ASSIGN 45 T_DEC in op t s2 (tk_eqb_simple t T_DEC)
  else if c =? 42 then
    if is_tpl d then let '(t, s2) := sw3 s1 T_MUL T_MUL_ASSIGN 42 T_POW in op t s2 false
    else let '(t, s2) := sw2 s1 T_MUL T_MUL_ASSIGN in op t s2 false
  else if negb (is_go d) && (c =? 35) then lex_sharp comments st s s1
  else if c =? 47 then
    if (cur s1 =? 47) || (cur s1 =? 42) then lex_slash_comment comments st s s1
    else let '(t, s2) := sw2 s1 T_QUO T_QUO_ASSIGN in op t s2 false
  else if c =? 37 then let '(t, s2) := sw2 s1 T_REM T_REM_ASSIGN in op t s2 false
  else if c =? 94 then let '(t, s2) := sw2 s1 T_XOR T_XOR_ASSIGN in op t s2 false
  else if c =? 60 then
    if cur s1 =? 45 then op T_ARROW (nxt s1) false
    else if negb (is_go d) && (cur s1 =? 62) then op T_BIDIARROW (nxt s1) false
    else let '(t, s2) := sw4 s1 T_LSS T_LEQ 60 T_SHL T_SHL_ASSIGN in op t s2 false
  else if c =? 62 then let '(t, s2) := sw4 s1 T_GTR T_GEQ 62 T_SHR T_SHR_ASSIGN in op t s2 false
  else if c =? 61 then
    if is_go d then let '(t, s2) := sw2 s1 T_ASSIGN T_EQL in op t s2 false
    else let '(t, s2) := sw3 s1 T_ASSIGN T_EQL 62 T_DRARROW in op t s2 false
  else if c =? 33 then
    let '(t, s2) := sw2 s1 T_NOT T_NEQ in op t s2 (negb (is_go d) && tk_eqb_simple t T_NOT)
  else if c =? 38 then
    if cur s1 =? 94 then let '(t, s2) := sw2 (nxt s1) T_AND_NOT T_AND_NOT_ASSIGN in op t s2 false
    else let '(t, s2) := sw3 s1 T_AND T_AND_ASSIGN 38 T_LAND in op t s2 false
  else if c =? 124 then let '(t, s2) := sw3 s1 T_OR T_OR_ASSIGN 124 T_LOR in op t s2 false
  else if negb (is_go d) && (c =? 63) then op T_QUESTION s1 true
  else if negb (is_go d) && (c =? 36) then op T_ENV s1 false
  else if negb (is_xgo d) && (c =? 126) then op T_TILDE s1 false
  else if is_tpl d && (c =? 64) then op T_AT s1 false
  else
    let s2 := if c =? bom then s1 else err s1 pos E_ILLEGAL in
    emit pos T_ILLEGAL (enc c) s2 (semi st) np [].

(* the outer switch of Scan; s = the state after skipWhitespace *)
Definition lex (comments : bool) (st : St) (s : Sc) : M outcome :=
  let c := cur s in
  if is_letter c then lex_word st s
  else if is_decimal c || ((c =? 46) && is_decimal_b (peek s)) then lex_number st s
  else lex_punct comments st s.

(* one pass through Scan from its top (scanAgain:) to a return or to goto scanAgain *)
Definition step (comments : bool) (st : St) : M outcome :=
  if is_go d && negb (nlpos st =? 0) then
    (* artificial ';' after a /*...*/ comment containing a newline *)
    Ok (Emit (mkTok (nlpos st) T_SEMICOLON [10%N] (nlpos st)) (mkSt (sc st) (semi st) (nparen st) (unit st) 0))
  else
  match unit st with
  | _ :: _ =>
    (* number with unit: a pending unit directly follows its number, blanks are not skipped
       (XGo and, since its repair, TPL; go/scanner has no units) *)
    let s := sc st in
    Ok (Emit (mkTok (off s - zlen (unit st)) T_UNIT (unit st) (off s)) (mkSt s true (nparen st) [] 0))
  | [] => lex comments st (skip_ws (S (length (rest (sc st)))) (semi st) (sc st))
  end.

(* the token stream: Scan until EOF (EOF token included), and the errors in report order *)
Fixpoint scan_all (fuel : nat) (comments : bool) (st : St) (acc : list Tok) : M (list Tok * list (Z * Z)) :=
  match fuel with
  | O => OutOfFuel
  | S f =>
    match step comments st with
    | Panic => Panic
    | OutOfFuel => OutOfFuel
    | Ok (Again st') => scan_all f comments st' acc
    | Ok (Emit t st') =>
      match ttok t with
      | T_EOF => Ok (rev (t :: acc), rev (errs (sc st')))
      | _ => scan_all f comments st' (t :: acc)
      end
    end
  end.

(* Init *)
Definition init (src : str) : St :=
  let s0 := mkS 0 src (arrive 0 src) 0 in
  let s0 := if cur s0 =? bom then nxt s0 else s0 in
  mkSt s0 false 0 [] 0.

Definition fuel_of (src : str) : nat := 2 * length src + 3.
Definition run (comments : bool) (src : str) : M (list Tok * list (Z * Z)) :=
  scan_all (fuel_of src) comments (init src) [].
End Scan.
