(* C06 — a small typed sugar calculus and its lowering to a Go core, following what cl emits
   (cl/expr.go compileListComprehensionExpr / compileErrWrapExpr; observed output):

     [e for x <- src, c]   ~>  func() (_gop_ret []T) { for _, x := range src { if c { _gop_ret = append(_gop_ret, e) } }; return }()
     f(a)?:d               ~>  func() (_gop_ret T) { var _gop_err error; _gop_ret, _gop_err = f(a); if _gop_err != nil { return d }; return }()
     f(a)!                 ~>  same with  { panic(_gop_err) }  in place of  { return d }

   Variables are numbers; 0 = _gop_ret and 1 = _gop_err are the compiler's temporaries, user
   identifiers are >= 2.  Type checkers are executable (no proofs here). *)
From Coq Require Import List NArith ZArith Bool.
Import ListNotations.

Inductive ty := TInt | TBool | TStr | TErr | TList (t : ty).
Fixpoint ty_eqb (a b : ty) : bool :=
  match a, b with
  | TInt, TInt | TBool, TBool | TStr, TStr | TErr, TErr => true
  | TList x, TList y => ty_eqb x y
  | _, _ => false
  end.

Definition var := N.
Definition ret_name : var := 0%N.      (* _gop_ret *)
Definition err_name : var := 1%N.      (* _gop_err *)
Definition is_user (x : var) : bool := (2 <=? x)%N.

(* functions of the signature environment: unary, possibly returning (T, error) *)
Definition fname := N.
Record fsig := { f_arg : ty; f_res : ty; f_fallible : bool }.
Definition sigenv := fname -> option fsig.

Definition env := var -> option ty.
Definition upd (G : env) (x : var) (t : ty) : env := fun y => if N.eqb y x then Some t else G y.

(* ---------- sugar ---------- *)
Inductive sexpr :=
| SVar (x : var) | SInt (n : Z) | SBool (b : bool) | SStr (s : list N)
| SAdd (a b : sexpr) | SLt (a b : sexpr) | SCat (a b : sexpr)
| SCall (f : fname) (a : sexpr)
| SCompr (e : sexpr) (x : var) (src : sexpr)                (* [e for x <- src] *)
| SComprIf (e : sexpr) (x : var) (src : sexpr) (c : sexpr)   (* [e for x <- src, c] *)
| SErrDefault (f : fname) (a d : sexpr)
| SErrPanic (f : fname) (a : sexpr).

Fixpoint stype (S : sigenv) (G : env) (e : sexpr) : option ty :=
  match e with
  | SVar x => G x
  | SInt _ => Some TInt | SBool _ => Some TBool | SStr _ => Some TStr
  | SAdd a b => match stype S G a, stype S G b with Some TInt, Some TInt => Some TInt | _, _ => None end
  | SLt a b => match stype S G a, stype S G b with Some TInt, Some TInt => Some TBool | _, _ => None end
  | SCat a b => match stype S G a, stype S G b with Some TStr, Some TStr => Some TStr | _, _ => None end
  | SCall f a =>
    match S f, stype S G a with
    | Some sg, Some ta => if ty_eqb ta (f_arg sg) && negb (f_fallible sg) then Some (f_res sg) else None
    | _, _ => None
    end
  | SCompr e x src =>
    match stype S G src with
    | Some (TList ts) => match stype S (upd G x ts) e with Some te => Some (TList te) | None => None end
    | _ => None
    end
  | SComprIf e x src c =>
    match stype S G src with
    | Some (TList ts) =>
      match stype S (upd G x ts) c with
      | Some TBool => match stype S (upd G x ts) e with Some te => Some (TList te) | None => None end
      | _ => None
      end
    | _ => None
    end
  | SErrDefault f a d =>
    match S f, stype S G a, stype S G d with
    | Some sg, Some ta, Some td =>
      if ty_eqb ta (f_arg sg) && f_fallible sg && ty_eqb td (f_res sg) then Some (f_res sg) else None
    | _, _, _ => None
    end
  | SErrPanic f a =>
    match S f, stype S G a with
    | Some sg, Some ta => if ty_eqb ta (f_arg sg) && f_fallible sg then Some (f_res sg) else None
    | _, _ => None
    end
  end.

(* every identifier written by the user (free or bound) is a user name *)
Fixpoint names_ok (e : sexpr) : bool :=
  match e with
  | SVar x => is_user x
  | SInt _ | SBool _ | SStr _ => true
  | SAdd a b | SLt a b | SCat a b => names_ok a && names_ok b
  | SCall _ a | SErrPanic _ a => names_ok a
  | SCompr e x src => names_ok e && is_user x && names_ok src
  | SComprIf e x src c => names_ok e && is_user x && names_ok src && names_ok c
  | SErrDefault _ a d => names_ok a && names_ok d
  end.

(* ---------- Go core ---------- *)
Inductive gexpr :=
| GVar (x : var) | GInt (n : Z) | GBool (b : bool) | GStr (s : list N)
| GAdd (a b : gexpr) | GLt (a b : gexpr) | GCat (a b : gexpr)
| GCall (f : fname) (a : gexpr)
| GAppend (l e : gexpr)
| GNeNil (x : var)                                   (* x != nil *)
| GIIFE (t : ty) (body : gstmt)                      (* func() (_gop_ret t) { body; return }() *)
with gstmt :=
| GSkip
| GSeq (a b : gstmt)
| GAssign (x : var) (e : gexpr)                      (* x = e *)
| GAssign2 (x y : var) (f : fname) (a : gexpr)       (* x, y = f(a) *)
| GVarErr (x : var) (rest : gstmt)                   (* var x error; rest *)
| GForRange (x : var) (src : gexpr) (body : gstmt)   (* for _, x := range src { body } *)
| GIf (c : gexpr) (body : gstmt)
| GReturn (e : gexpr)                                (* return e *)
| GPanic (x : var).                                  (* panic(x) *)

(* the Go type checker of the core: gtype for expressions, gok for statements inside a function
   whose (named) result has type r *)
Fixpoint gtype (S : sigenv) (G : env) (e : gexpr) : option ty :=
  match e with
  | GVar x => G x
  | GInt _ => Some TInt | GBool _ => Some TBool | GStr _ => Some TStr
  | GAdd a b => match gtype S G a, gtype S G b with Some TInt, Some TInt => Some TInt | _, _ => None end
  | GLt a b => match gtype S G a, gtype S G b with Some TInt, Some TInt => Some TBool | _, _ => None end
  | GCat a b => match gtype S G a, gtype S G b with Some TStr, Some TStr => Some TStr | _, _ => None end
  | GCall f a =>
    match S f, gtype S G a with
    | Some sg, Some ta => if ty_eqb ta (f_arg sg) && negb (f_fallible sg) then Some (f_res sg) else None
    | _, _ => None
    end
  | GAppend l x =>
    match gtype S G l, gtype S G x with
    | Some (TList t), Some tx => if ty_eqb tx t then Some (TList t) else None
    | _, _ => None
    end
  | GNeNil x => match G x with Some TErr => Some TBool | _ => None end
  | GIIFE t body => if gok S (upd G ret_name t) t body then Some t else None
  end
with gok (S : sigenv) (G : env) (r : ty) (s : gstmt) : bool :=
  match s with
  | GSkip => true
  | GSeq a b => gok S G r a && gok S G r b
  | GAssign x e => match G x, gtype S G e with Some tx, Some te => ty_eqb te tx | _, _ => false end
  | GAssign2 x y f a =>
    match S f, gtype S G a, G x, G y with
    | Some sg, Some ta, Some tx, Some TErr => ty_eqb ta (f_arg sg) && f_fallible sg && ty_eqb tx (f_res sg)
    | _, _, _, _ => false
    end
  | GVarErr x rest => gok S (upd G x TErr) r rest
  | GForRange x src body =>
    match gtype S G src with Some (TList t) => gok S (upd G x t) r body | _ => false end
  | GIf c body => match gtype S G c with Some TBool => gok S G r body | _ => false end
  | GReturn e => match gtype S G e with Some te => ty_eqb te r | None => false end
  | GPanic x => match G x with Some _ => true | None => false end
  end.

(* ---------- lowering (type directed: the result type of the closure is the type cl computed
   for the sugar expression) ---------- *)
Definition ty_or (o : option ty) : ty := match o with Some t => t | None => TInt end.
Definition elem_or (o : option ty) : ty := match o with Some (TList t) => t | _ => TInt end.
Definition res_of (S : sigenv) (f : fname) : ty := match S f with Some sg => f_res sg | None => TInt end.

Fixpoint lower (S : sigenv) (G : env) (e : sexpr) : gexpr :=
  match e with
  | SVar x => GVar x | SInt n => GInt n | SBool b => GBool b | SStr s => GStr s
  | SAdd a b => GAdd (lower S G a) (lower S G b)
  | SLt a b => GLt (lower S G a) (lower S G b)
  | SCat a b => GCat (lower S G a) (lower S G b)
  | SCall f a => GCall f (lower S G a)
  | SCompr e x src =>
    let G' := upd G x (elem_or (stype S G src)) in
    GIIFE (TList (ty_or (stype S G' e)))
          (GForRange x (lower S G src) (GAssign ret_name (GAppend (GVar ret_name) (lower S G' e))))
  | SComprIf e x src c =>
    let G' := upd G x (elem_or (stype S G src)) in
    GIIFE (TList (ty_or (stype S G' e)))
          (GForRange x (lower S G src)
             (GIf (lower S G' c) (GAssign ret_name (GAppend (GVar ret_name) (lower S G' e)))))
  | SErrDefault f a d =>
    GIIFE (res_of S f)
          (GVarErr err_name (GSeq (GAssign2 ret_name err_name f (lower S G a))
                                  (GIf (GNeNil err_name) (GReturn (lower S G d)))))
  | SErrPanic f a =>
    GIIFE (res_of S f)
          (GVarErr err_name (GSeq (GAssign2 ret_name err_name f (lower S G a))
                                  (GIf (GNeNil err_name) (GPanic err_name))))
  end.

(* ---- the instance compared with the compiler: signature and variables of the test prelude ---- *)
(* funcs: 0 inc(int) int; 1 isPos(int) bool; 2 str(int) string; 3 half(int) (int, error);
          4 parse(string) (int, error); 5 dbl([]int) []int; 6 words(string) []string; 7 size(string) int *)
Definition prelude_sig : sigenv := fun f =>
  match f with
  | 0 => Some {| f_arg := TInt; f_res := TInt; f_fallible := false |}
  | 1 => Some {| f_arg := TInt; f_res := TBool; f_fallible := false |}
  | 2 => Some {| f_arg := TInt; f_res := TStr; f_fallible := false |}
  | 3 => Some {| f_arg := TInt; f_res := TInt; f_fallible := true |}
  | 4 => Some {| f_arg := TStr; f_res := TInt; f_fallible := true |}
  | 5 => Some {| f_arg := TList TInt; f_res := TList TInt; f_fallible := false |}
  | 6 => Some {| f_arg := TStr; f_res := TList TStr; f_fallible := false |}
  | 7 => Some {| f_arg := TStr; f_res := TInt; f_fallible := false |}
  | _ => None
  end%N.
(* variables: 2 n int; 3 s string; 4 xs []int; 5 ss []string; 6 b bool; 7 xss [][]int *)
Definition prelude_env : env := fun x =>
  match x with
  | 2 => Some TInt | 3 => Some TStr | 4 => Some (TList TInt) | 5 => Some (TList TStr)
  | 6 => Some TBool | 7 => Some (TList (TList TInt)) | _ => None
  end%N.

Definition lower_prelude (e : sexpr) : option (ty * gexpr) :=
  match stype prelude_sig prelude_env e with
  | Some t => if names_ok e then Some (t, lower prelude_sig prelude_env e) else None
  | None => None
  end.
