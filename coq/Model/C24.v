(* Model of format/formatutil/format_gop.go: RearrangeFuncs, codeOf, firstNonDecl, splitStmts,
   aStmt.isFuncDecl, aStmt.isDecl, tokOf, isFuncDecl, seekAfter, startWith, SourceEx.
   No proofs here.

   The token stream is an INPUT of the model: `toks` is the list of (offset, token) pairs the
   real scanner returns for `src` (mode ScanComments) up to, not including, EOF (an EOF token
   inside the list also ends the loop, like `if tok == token.EOF { return }`).  wpos is
   int(pos) - base, i.e. the byte offset.  Token codes are the regenerated constants of
   Gen/Tokens.v.  Go slice expressions and indexing that can panic return Panic. *)
From Coq Require Import List NArith ZArith Bool.
Import ListNotations.
From V Require Import Base.Prelude Gen.Tokens.
Open Scope Z_scope.

Record word := mkWord { wpos : Z; wtok : Z }.                       (* aWord{pos, tok} *)
Record stmt := mkStmt { words : list word; stok : Z; sat : nat }.   (* aStmt{words, tok, at} *)

(* l[i:] *)
Definition slice_from {A} (l : list A) (i : nat) : M (list A) :=
  if Nat.ltb (length l) i then Panic else Ok (skipn i l).

(* the bytes src[a:b] (pure) and the Go slice expression src[a:b] (panics when out of range;
   the Go bound is cap(src), the model uses len(src): under the tiling hypothesis neither is hit) *)
Definition sub (src : str) (a b : Z) : str := firstn (Z.to_nat (b - a)) (skipn (Z.to_nat a) src).
Definition slice (src : str) (a b : Z) : M str :=
  if (a <? 0) || (b <? a) || (zlen src <? b) then Panic else Ok (sub src a b).

(* tokOf: first non-COMMENT word and its index; words[0].tok, 0 if all are comments *)
Fixpoint tok_of_loop (ws : list word) (i : nat) : option (Z * nat) :=
  match ws with
  | [] => None
  | w :: r => if wtok w =? xgo_COMMENT then tok_of_loop r (S i) else Some (wtok w, i)
  end.
Definition tok_of (ws : list word) : M (Z * nat) :=
  match tok_of_loop ws 0 with
  | Some r => Ok r
  | None => match ws with w :: _ => Ok (wtok w, 0%nat) | [] => Panic end
  end.

(* splitStmts: the for { s.Scan() ... } loop over the token list; `cur` = stmt.words,
   `acc` = stmts (reversed) *)
Fixpoint split_stmts (toks : list word) (level : Z) (cur : list word) (acc : list stmt) : M (list stmt) :=
  match toks with
  | [] => Ok (rev acc)
  | w :: rest =>
    if wtok w =? xgo_EOF then Ok (rev acc) else
    let cur' := cur ++ [w] in
    let level' := if wtok w =? xgo_LBRACE then level + 1
                  else if wtok w =? xgo_RBRACE then level - 1 else level in
    if (wtok w =? xgo_SEMICOLON) && (level' =? 0) then
      ta <- tok_of cur' ;;
      split_stmts rest level' [] (mkStmt cur' (fst ta) (snd ta) :: acc)
    else split_stmts rest level' cur' acc
  end.

(* startWith: skip comments, then compare the first word *)
Fixpoint start_with (ws : list word) (tok : Z) : bool :=
  match ws with
  | [] => false
  | w :: r => if wtok w =? xgo_COMMENT then start_with r tok else wtok w =? tok
  end.

(* seekAfter: words after the tokR closing nesting level 0; nil when there is none *)
Fixpoint seek_after (ws : list word) (tokR tokL : Z) (level : Z) : list word :=
  match ws with
  | [] => []
  | w :: r => if wtok w =? tokR then (if level =? 0 then r else seek_after r tokR tokL (level - 1))
              else if wtok w =? tokL then seek_after r tokR tokL (level + 1)
              else seek_after r tokR tokL level
  end.

(* for len(words) > 0 && words[0].tok == token.COMMENT { words = words[1:] } *)
Fixpoint drop_comments (ws : list word) : list word :=
  match ws with
  | [] => []
  | w :: r => if wtok w =? xgo_COMMENT then drop_comments r else ws
  end.

(* isFuncDecl(words) *)
Definition is_func_decl (ws0 : list word) : M bool :=
  let ws := drop_comments ws0 in
  if start_with ws xgo_LPAREN then
    ws1 <- slice_from ws 1 ;;
    let ws2 := seek_after ws1 xgo_RPAREN xgo_LPAREN 0 in
    if start_with ws2 xgo_LBRACE then Ok false else Ok true
  else Ok true.

(* aStmt.isFuncDecl: s.tok == FUNC && isFuncDecl(s.words[s.at+1:]) *)
Definition stmt_is_func_decl (s : stmt) : M bool :=
  if stok s =? xgo_FUNC then ws <- slice_from (words s) (S (sat s)) ;; is_func_decl ws
  else Ok false.

(* aStmt.isDecl *)
Definition stmt_is_decl (s : stmt) : M bool :=
  if (stok s =? xgo_CONST) || (stok s =? xgo_TYPE) || (stok s =? xgo_VAR) then Ok true
  else if stok s =? xgo_FUNC then ws <- slice_from (words s) (S (sat s)) ;; is_func_decl ws
  else Ok false.

(* firstNonDecl: None = -1 *)
Fixpoint first_non_decl (ss : list stmt) (i : nat) : M (option nat) :=
  match ss with
  | [] => Ok None
  | s :: r => d <- stmt_is_decl s ;; if d then first_non_decl r (S i) else Ok (Some i)
  end.

(* int(s.words[0].pos) - base *)
Definition first_pos (s : stmt) : M Z := w <- idx (words s) 0 ;; Ok (wpos w).

(* codeOf(src, base, i, rest) *)
Definition code_of (src : str) (i : nat) (rest : list stmt) : M str :=
  si <- idx rest (Z.of_nat i) ;;
  from <- first_pos si ;;
  to <- (if Z.of_nat i =? zlen rest - 1 then Ok (zlen src)
         else sn <- idx rest (Z.of_nat i + 1) ;; first_pos sn) ;;
  slice src from to.

(* for i, s := range rest { if s.isFuncDecl() == want { ret = append(ret, codeOf(...)...) } } *)
Fixpoint emit (want : bool) (src : str) (rest todo : list stmt) (i : nat) (ret : str) : M str :=
  match todo with
  | [] => Ok ret
  | s :: r => f <- stmt_is_func_decl s ;;
              if Bool.eqb f want then c <- code_of src i rest ;; emit want src rest r (S i) (ret ++ c)
              else emit want src rest r (S i) ret
  end.

(* RearrangeFuncs (its error result is always nil) *)
Definition rearrange (src : str) (toks : list word) : M str :=
  stmts <- split_stmts toks 0 [] [] ;;
  first <- first_non_decl stmts 0 ;;
  match first with
  | None => Ok src
  | Some k =>
    sk <- idx stmts (Z.of_nat k) ;;
    off <- first_pos sk ;;
    pre <- slice src 0 off ;;
    rest <- slice_from stmts k ;;
    r1 <- emit true src rest rest 0 pre ;;
    emit false src rest rest 0 r1
  end.

(* ---- the scanner's tiling invariant, as a decidable hypothesis: offsets never decrease and
   stay within [0, len(src)] ---- *)
Fixpoint tiling_from (lo n : Z) (toks : list word) : bool :=
  match toks with
  | [] => true
  | w :: r => (lo <=? wpos w) && (wpos w <=? n) && tiling_from (wpos w) n r
  end.
Definition tiling (src : str) (toks : list word) : bool := tiling_from 0 (zlen src) toks.

(* ---- the top-level chunks the property speaks about: the source bytes from the first word
   of a statement to the first word of the next (the last one runs to the end of src), from the
   first non-declaration on, each with the isFuncDecl classification; None = no
   non-declaration statement.  First component = the untouched prefix. ---- *)
Fixpoint starts (ss : list stmt) : M (list Z) :=
  match ss with [] => Ok [] | s :: r => p <- first_pos s ;; ps <- starts r ;; Ok (p :: ps) end.
Fixpoint flags (ss : list stmt) : M (list bool) :=
  match ss with [] => Ok [] | s :: r => b <- stmt_is_func_decl s ;; bs <- flags r ;; Ok (b :: bs) end.
Fixpoint cuts (src : str) (ps : list Z) : list str :=
  match ps with
  | [] => []
  | p :: r => sub src p (match r with q :: _ => q | [] => zlen src end) :: cuts src r
  end.
Definition top_chunks (src : str) (toks : list word) : M (option (str * list (bool * str))) :=
  stmts <- split_stmts toks 0 [] [] ;;
  first <- first_non_decl stmts 0 ;;
  match first with
  | None => Ok None
  | Some k =>
    let rest := skipn k stmts in
    ps <- starts rest ;; fs <- flags rest ;;
    Ok (Some (sub src 0 (hd 0 ps), combine fs (cuts src ps)))
  end.

(* ---- SourceEx(src, class) with format.Source as a parameter: Source src class, None = error.
   Both attempts pass the caller's class flag. ---- *)
Section SourceEx.
  Variable Source : str -> bool -> option str.
  Definition source_ex (src : str) (class : bool) (toks : list word) : M (option str) :=
    match Source src class with
    | Some f => Ok (Some f)
    | None => r <- rearrange src toks ;; Ok (Source r class)
    end.
End SourceEx.
