From Coq Require Extraction ExtrOcamlBasic.
From V Require Import Model.C34.
Extraction "c34model.ml" parse_dir select_files classify classify_entry default_class_kind path_ext.
