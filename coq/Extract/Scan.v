From Coq Require Extraction ExtrOcamlBasic.
From V Require Import Gen.Tokens Gen.ScanTok Model.Scan Model.ScanTokens Model.ScanRel.
Extraction "scanmodel.ml" run code lookup tok_string
  xgo_tokens tpl_tokens go_tokens
  xgo_Precedence xgo_IsOperator xgo_IsLiteral xgo_IsKeyword
  go_Precedence go_IsOperator go_IsLiteral go_IsKeyword tpl_Len
  xgo_ops tpl_ops go_ops go_like shared.
