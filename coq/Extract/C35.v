From Coq Require Extraction ExtrOcamlBasic.
From V Require Import Model.C35.
Extraction "c35model.ml" parse_all is_file is_local.
