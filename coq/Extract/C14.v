From Coq Require Extraction ExtrOcamlBasic.
From V Require Import Gen.Tokens Model.C14.
Extraction "c14model.ml" parse_expr parse_stmt go_dialect xgo_dialect xgo_tokens.
