From Coq Require Extraction ExtrOcamlBasic.
From V Require Import Model.C31 Model.Tpl Model.TplCl Model.TplProd Model.TplRp.
Extraction "tplmmodel.ml" parse_file compile match_doc msize is_productive match_doc_rp attach.
