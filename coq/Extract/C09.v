From Coq Require Extraction ExtrOcamlBasic.
From V Require Import Model.C09.
Extraction "c09model.ml" compile_prog prog_fuel predict go_line_of nodupb func_names wf_prog rel_path.
