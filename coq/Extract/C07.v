From Coq Require Extraction ExtrOcamlBasic.
From V Require Import Model.C07.
Extraction "c07model.ml" scenario_result overload_func_name.
