From Coq Require Extraction ExtrOcamlBasic.
From V Require Import Model.C36.
Extraction "c36model.ml" fingerprint view relevant can_cl class_ext path_ext apply_op run.
