From Coq Require Extraction ExtrOcamlBasic.
From V Require Import Model.C24.
Extraction "c24model.ml" rearrange top_chunks tiling source_ex split_stmts.
