From Coq Require Extraction ExtrOcamlBasic.
From V Require Import Model.C06.
Extraction "c06model.ml" lower_prelude gtype prelude_sig prelude_env.
