From Coq Require Extraction ExtrOcamlBasic.
From V Require Import Gen.C13Parser Model.C13.
Extraction "c13model.ml" run_events sort_errs run_steps_obs trace_body file_wrapper
  sync_stmtStart sync_declStart sync_exprEnd error_limit advance_limit.
