From Coq Require Extraction ExtrOcamlBasic.
From V Require Import Model.C26.
Extraction "c26model.ml" run_wfb crash_state read no_faults fs_regular fs_symlink env0 mkFl.
