From Coq Require Extraction ExtrOcamlBasic.
From V Require Import Model.C31.
Extraction "c31model.ml" parse_file pr print_file.
