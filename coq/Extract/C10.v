From Coq Require Extraction ExtrOcamlBasic.
From V Require Import Model.C10.
Extraction "c10model.ml" preload_overload decode_gopo resolve_exact expected_entry.
