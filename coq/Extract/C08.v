From Coq Require Extraction ExtrOcamlBasic.
From V Require Import Model.C08.
Extraction "c08model.ml" new_package sort_by_path.
