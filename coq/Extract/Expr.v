From Coq Require Extraction ExtrOcamlBasic.
From V Require Import Model.Expr.
Extraction "exprmodel.ml" pr parse norm strip plev tlev validb posokb nolamb noparb noaddb.
