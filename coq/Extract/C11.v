From Coq Require Extraction ExtrOcamlBasic.
From V Require Import Model.C11.
Extraction "c11model.ml" class_fields class_funcs desugar_class run_class run_explicit run_class_dyn class_struct run2_class run2_explicit run2_dyn.
