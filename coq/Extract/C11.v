From Coq Require Extraction ExtrOcamlBasic.
From V Require Import Model.C11.
Extraction "c11model.ml" class_fields class_funcs desugar_class run_class run_explicit run_class_dyn.
