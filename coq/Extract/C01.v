From Coq Require Extraction ExtrOcamlBasic.
From V Require Import Model.C01.
Extraction "c01model.ml" emit_order var_names lower_go run switch_exec.
