From Coq Require Extraction ExtrOcamlBasic.
From V Require Import Model.MiniGo Model.Interp.
Extraction "c05model.ml" split_lit lower_interp eval exec itoa.
