From Coq Require Extraction ExtrOcamlBasic.
From V Require Import Model.C21.
Extraction "c21model.ml" print_all.
