From Coq Require Extraction ExtrOcamlBasic.
From V Require Import Model.C23.
Extraction "c23model.ml" sort_imports_lines_exec groups_in line_at sort_imports_exec block_runs_exec runs mixed_ties path_sorted key_eqb.
