From Coq Require Extraction ExtrOcamlBasic.
From V Require Import Model.C39.
Extraction "c39model.ml" init step tau_labels resp_writers quiescent measure is_section is_progress.
