From Coq Require Extraction ExtrOcamlBasic.
From V Require Import Model.C38.
Extraction "c38model.ml" read_frame read_stream write_frame write_stream.
