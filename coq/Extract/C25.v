From Coq Require Extraction ExtrOcamlBasic.
From V Require Import Model.C25.
Extraction "c25model.ml" gopstyle printed_view run.
