From Coq Require Extraction ExtrOcamlBasic.
From V Require Import Base.AstTree Base.AstConv Model.C37 Gen.AstStructs Gen.GoAstStructs Gen.AstConv.
Extraction "c37model.ml" roundtrip conv strip strip_v go_ok nsize from_table to_table node_structs go_node_structs.
