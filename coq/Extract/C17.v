From Coq Require Extraction ExtrOcamlBasic.
From V Require Import Base.AstTree Base.AstPos Model.C17 Gen.AstPos Gen.Tokens.
Extraction "c17model.ml" pe pos_of end_of subnodes pos_bodies implicit_base xgo_tokens.
