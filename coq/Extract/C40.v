From Coq Require Extraction ExtrOcamlBasic.
From V Require Import Model.C40.
Extraction "c40model.ml" gstep gret_val init quiescent is_parked.
