From Coq Require Extraction ExtrOcamlBasic.
From V Require Import Model.MiniGo Model.Compr.
Extraction "c02model.ml" lower_comprehension lower_forphrase lower_send lower_send_all spec_comprehension pure_op comp_op strip eval exec lookup.
