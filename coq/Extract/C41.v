From Coq Require Extraction ExtrOcamlBasic.
From V Require Import Model.C41.
Extraction "c41model.ml" gstep init getf.
