From Coq Require Extraction ExtrOcamlBasic.
From V Require Import Base.AstTree Model.C18 Gen.AstStructs Gen.AstWalk.
Extraction "c18model.ml" walk_tree wf_tree wf_node conforms subnodes walk_table node_structs rec_structs src_children table_children.
