From Coq Require Extraction ExtrOcamlBasic.
From V Require Import Base.TplRes Model.C30.
Extraction "c30model.ml" list_ list_op range_op bop_nr bop_r bexpr_nr bexpr_r fn_sym calc eval_ref.
