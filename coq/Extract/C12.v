From Coq Require Extraction ExtrOcamlBasic.
From V Require Import Model.C12.
Extraction "c12model.ml" info_map run def_ok use_ok node_ok nodes_prog.
