From Coq Require Extraction ExtrOcamlBasic.
From V Require Import Model.MiniGo Model.ErrWrap.
Extraction "c03model.ml" case_prog eval err_root.
