From Coq Require Extraction ExtrOcamlBasic.
From V Require Import Model.MiniGo Model.ErrWrap.
Extraction "c03model.ml" case_prog lower_closure quest_prelude quest_value opctx_prog eval err_root.
