package main

// GEN-AST (c): the Pos()/End() method bodies of every node kind of /repo/ast (and of go/ast for the
// aliased Comment / CommentGroup)  ->  Gen/AstPos.v (pos_table) + astpos.json.
//
// Fragment: `return E`, `if [n := len(x.F);] C { return E }` followed by more statements,
// `v := x.F` aliases; E and C as in Base/AstPos.v.  A body outside the fragment (a loop) is emitted
// as POpaque and named in the JSON ("unparsed"), never guessed.

import (
	"fmt"
	"go/ast"
	"go/constant"
	"go/token"
	"go/types"
	"path/filepath"
	"runtime"
	"strings"
)

func init() { register("astpos", genAstPos) }

type posBody struct {
	Ret  string   `json:"ret,omitempty"` // Coq term of a pexpr
	Cond string   `json:"cond,omitempty"`
	Then *posBody `json:"then,omitempty"`
	Else *posBody `json:"else,omitempty"`
	Opaq string   `json:"opaque,omitempty"`
	Src  string   `json:"src,omitempty"`
}

type posGen struct {
	ai     *astInfo
	p      *Pkg   // package holding the method (ast or go/ast)
	recv   string // receiver variable
	kind   string
	locals map[string]string // alias -> field; "n" -> "len:F"
}

func (g *posGen) src(n ast.Node) string { return strings.Join(strings.Fields(g.p.Src(n)), " ") }

func (g *posGen) fieldOf(e ast.Expr) (string, bool) {
	if f, ok := sel(e, g.recv); ok {
		return f, true
	}
	if id, ok := e.(*ast.Ident); ok {
		if l, ok := g.locals[id.Name]; ok && !strings.HasPrefix(l, "len:") {
			return l, true
		}
	}
	return "", false
}

// isDirectField: F is a declared (non-promoted) field of the receiver's struct
func (g *posGen) isDirectField(f string) bool {
	for _, fi := range g.ai.S.Nodes[g.kind] {
		if fi.Name == f {
			return true
		}
	}
	return false
}

// promoted field: x.F where F belongs to an embedded node child
func (g *posGen) promoted(f string) (string, bool) {
	for _, fi := range g.ai.S.Nodes[g.kind] {
		if fi.Class != "Node" {
			continue
		}
		for _, cf := range g.ai.S.Nodes[fi.Name] { // embedded field name = its type name
			if cf.Name == f {
				return fi.Name, true
			}
		}
	}
	return "", false
}

func (g *posGen) intConst(e ast.Expr) (int64, bool) {
	if tv, ok := g.p.Info.Types[e]; ok && tv.Value != nil && tv.Value.Kind() == constant.Int {
		v, ok := constant.Int64Val(tv.Value)
		return v, ok
	}
	return 0, false
}

func stripConv(e ast.Expr) ast.Expr {
	for {
		switch x := e.(type) {
		case *ast.ParenExpr:
			e = x.X
			continue
		case *ast.CallExpr:
			// token.Pos(...) / int(...)
			if len(x.Args) == 1 {
				switch f := x.Fun.(type) {
				case *ast.Ident:
					if f.Name == "int" {
						e = x.Args[0]
						continue
					}
				case *ast.SelectorExpr:
					if id, ok := f.X.(*ast.Ident); ok && id.Name == "token" && f.Sel.Name == "Pos" {
						e = x.Args[0]
						continue
					}
				}
			}
		}
		return e
	}
}

// sum: flattens a + b + c
func sumTerms(e ast.Expr) []ast.Expr {
	e = stripConv(e)
	if b, ok := e.(*ast.BinaryExpr); ok && b.Op == token.ADD {
		return append(sumTerms(b.X), sumTerms(b.Y)...)
	}
	return []ast.Expr{e}
}

func (g *posGen) expr(e ast.Expr) (string, error) {
	bad := func() (string, error) { return "", fmt.Errorf("expression outside the fragment: %s", g.src(e)) }
	e = stripConv(e)
	if se, ok := e.(*ast.SelectorExpr); ok && g.src(se) == "token.NoPos" {
		return "PNoPos", nil
	}
	// method calls  x.F.Pos() / x.F[0].Pos() / x.F[n-1].End()
	if c, ok := e.(*ast.CallExpr); ok && len(c.Args) == 0 {
		se, ok := c.Fun.(*ast.SelectorExpr)
		if !ok || (se.Sel.Name != "Pos" && se.Sel.Name != "End") {
			return bad()
		}
		isPos := se.Sel.Name == "Pos"
		if f, ok := g.fieldOf(se.X); ok {
			if isPos {
				return "PChildPos " + coqString(f), nil
			}
			return "PChildEnd " + coqString(f), nil
		}
		if ix, ok := se.X.(*ast.IndexExpr); ok {
			f, ok := g.fieldOf(ix.X)
			if !ok {
				return bad()
			}
			idx := g.src(ix.Index)
			if v, ok := g.intConst(ix.Index); ok && v == 0 {
				if isPos {
					return "PListFirstPos " + coqString(f), nil
				}
				return "PListFirstEnd " + coqString(f), nil
			}
			last := false
			if b, ok := ix.Index.(*ast.BinaryExpr); ok && b.Op == token.SUB {
				if one, ok := g.intConst(b.Y); ok && one == 1 {
					l := g.src(b.X)
					if id, ok := b.X.(*ast.Ident); ok && g.locals[id.Name] == "len:"+f {
						last = true
					}
					if l == "len("+g.src(ix.X)+")" {
						last = true
					}
				}
			}
			_ = idx
			if last && !isPos {
				return "PListLastEnd " + coqString(f), nil
			}
		}
		return bad()
	}
	terms := sumTerms(e)
	// first term: x.F  |  x.C.F (field of a child)  |  promoted field
	base := ""
	switch t := terms[0].(type) {
	case *ast.SelectorExpr:
		if f, ok := g.fieldOf(t); ok {
			if g.isDirectField(f) {
				base = "F:" + f
			} else if emb, ok := g.promoted(f); ok {
				if len(terms) != 1 {
					return bad()
				}
				return fmt.Sprintf("PChildField %s %s", coqString(emb), coqString(f)), nil
			} else {
				return bad()
			}
		} else if inner, ok := t.X.(*ast.SelectorExpr); ok {
			if cf, ok := g.fieldOf(inner); ok && len(terms) == 1 {
				return fmt.Sprintf("PChildField %s %s", coqString(cf), coqString(t.Sel.Name)), nil
			}
			return bad()
		} else {
			return bad()
		}
	default:
		return bad()
	}
	f := base[2:]
	if len(terms) == 1 {
		return fmt.Sprintf("PField %s 0%%Z", coqString(f)), nil
	}
	// x.F + K
	if len(terms) == 2 {
		if k, ok := g.intConst(terms[1]); ok {
			return fmt.Sprintf("PField %s %s", coqString(f), coqZ(k)), nil
		}
	}
	// x.F + len(x.G) [+ len(x.H)]   |   x.F + len(x.G.String())
	var strs []string
	for _, t := range terms[1:] {
		c, ok := stripConv(t).(*ast.CallExpr)
		if !ok || g.src(c.Fun) != "len" || len(c.Args) != 1 {
			return bad()
		}
		if gf, ok := g.fieldOf(c.Args[0]); ok {
			strs = append(strs, gf)
			continue
		}
		if mc, ok := c.Args[0].(*ast.CallExpr); ok && len(mc.Args) == 0 && len(terms) == 2 {
			if ms, ok := mc.Fun.(*ast.SelectorExpr); ok && ms.Sel.Name == "String" {
				if gf, ok := g.fieldOf(ms.X); ok {
					return fmt.Sprintf("PFieldTok %s %s", coqString(f), coqString(gf)), nil
				}
			}
		}
		return bad()
	}
	var qs []string
	for _, s := range strs {
		qs = append(qs, coqString(s))
	}
	return fmt.Sprintf("PFieldStr %s %s", coqString(f), coqList(qs, 0)), nil
}

func (g *posGen) cond(e ast.Expr) (string, error) {
	bad := func() (string, error) { return "", fmt.Errorf("condition outside the fragment: %s", g.src(e)) }
	switch x := e.(type) {
	case *ast.ParenExpr:
		return g.cond(x.X)
	case *ast.UnaryExpr:
		if x.Op == token.NOT {
			c, err := g.cond(x.X)
			if err != nil {
				return "", err
			}
			return "CNot (" + c + ")", nil
		}
	case *ast.BinaryExpr:
		switch x.Op {
		case token.LOR, token.LAND:
			a, err := g.cond(x.X)
			if err != nil {
				return "", err
			}
			b, err := g.cond(x.Y)
			if err != nil {
				return "", err
			}
			if x.Op == token.LOR {
				return fmt.Sprintf("COr (%s) (%s)", a, b), nil
			}
			return fmt.Sprintf("CAnd (%s) (%s)", a, b), nil
		case token.NEQ, token.EQL:
			wrap := func(s string) string {
				if x.Op == token.EQL {
					return "CNot (" + s + ")"
				}
				return s
			}
			if f, ok := g.fieldOf(x.X); ok {
				if isNilIdent(x.Y) {
					return wrap("CNonNil " + coqString(f)), nil
				}
				if g.src(x.Y) == "token.NoPos" {
					return wrap("CValid " + coqString(f)), nil
				}
				if v, ok := g.intConst(x.Y); ok && v == 0 {
					return wrap("CValid " + coqString(f)), nil
				}
			}
			// len(x.F) == 0
			if c, ok := x.X.(*ast.CallExpr); ok && g.src(c.Fun) == "len" && len(c.Args) == 1 {
				if f, ok := g.fieldOf(c.Args[0]); ok {
					if v, ok := g.intConst(x.Y); ok && v == 0 {
						if x.Op == token.EQL {
							return "CNot (CLenPos " + coqString(f) + ")", nil
						}
						return "CLenPos " + coqString(f), nil
					}
				}
			}
		case token.GTR:
			if v, ok := g.intConst(x.Y); ok && v == 0 {
				if c, ok := x.X.(*ast.CallExpr); ok && g.src(c.Fun) == "len" && len(c.Args) == 1 {
					if f, ok := g.fieldOf(c.Args[0]); ok {
						return "CLenPos " + coqString(f), nil
					}
				}
				if id, ok := x.X.(*ast.Ident); ok && strings.HasPrefix(g.locals[id.Name], "len:") {
					return "CLenPos " + coqString(g.locals[id.Name][4:]), nil
				}
			}
		}
	case *ast.CallExpr:
		if len(x.Args) == 0 {
			if se, ok := x.Fun.(*ast.SelectorExpr); ok {
				if se.Sel.Name == "IsValid" {
					if f, ok := g.fieldOf(se.X); ok {
						return "CValid " + coqString(f), nil
					}
				}
				if se.Sel.Name == "Implicit" {
					if id, ok := se.X.(*ast.Ident); ok && id.Name == g.recv {
						return "CImplicit", nil
					}
				}
			}
		}
	case *ast.SelectorExpr:
		if f, ok := g.fieldOf(x); ok {
			for _, fi := range g.ai.S.Nodes[g.kind] {
				if fi.Name == f && fi.Class == "Bool" {
					return "CFlag " + coqString(f), nil
				}
			}
		}
	}
	return bad()
}

func (g *posGen) stmts(list []ast.Stmt) (*posBody, error) {
	if len(list) == 0 {
		return nil, fmt.Errorf("control reaches the end of the method")
	}
	switch s := list[0].(type) {
	case *ast.ReturnStmt:
		if len(s.Results) != 1 {
			return nil, fmt.Errorf("return with %d results", len(s.Results))
		}
		e, err := g.expr(s.Results[0])
		if err != nil {
			return nil, err
		}
		return &posBody{Ret: e}, nil
	case *ast.AssignStmt: // alias  v := x.F
		if s.Tok == token.DEFINE && len(s.Lhs) == 1 && len(s.Rhs) == 1 {
			if id, ok := s.Lhs[0].(*ast.Ident); ok {
				if f, ok := sel(s.Rhs[0], g.recv); ok {
					g.locals[id.Name] = f
					return g.stmts(list[1:])
				}
			}
		}
		return nil, fmt.Errorf("statement outside the fragment: %s", g.src(s))
	case *ast.IfStmt:
		if s.Else != nil {
			return nil, fmt.Errorf("if-else outside the fragment: %s", g.src(s))
		}
		if s.Init != nil {
			as, ok := s.Init.(*ast.AssignStmt)
			okInit := false
			if ok && as.Tok == token.DEFINE && len(as.Lhs) == 1 && len(as.Rhs) == 1 {
				if id, ok := as.Lhs[0].(*ast.Ident); ok {
					if c, ok := as.Rhs[0].(*ast.CallExpr); ok && g.src(c.Fun) == "len" && len(c.Args) == 1 {
						if f, ok := g.fieldOf(c.Args[0]); ok {
							g.locals[id.Name] = "len:" + f
							okInit = true
						}
					}
				}
			}
			if !okInit {
				return nil, fmt.Errorf("if-init outside the fragment: %s", g.src(s.Init))
			}
		}
		c, err := g.cond(s.Cond)
		if err != nil {
			return nil, err
		}
		th, err := g.stmts(s.Body.List)
		if err != nil {
			return nil, err
		}
		el, err := g.stmts(list[1:])
		if err != nil {
			return nil, err
		}
		return &posBody{Cond: c, Then: th, Else: el}, nil
	}
	return nil, fmt.Errorf("statement outside the fragment: %s", g.src(list[0]))
}

func coqPosBody(b *posBody) string {
	switch {
	case b == nil || b.Opaq != "":
		return "POpaque"
	case b.Ret != "":
		return "PRet (" + b.Ret + ")"
	}
	return fmt.Sprintf("PIf (%s) (%s) (%s)", b.Cond, coqPosBody(b.Then), coqPosBody(b.Else))
}

func genAstPos(e *Env) error {
	ai, err := loadAstInfo(e)
	if err != nil {
		return err
	}
	S, err := ai.structs()
	if err != nil {
		return err
	}
	gp, err := e.Load(filepath.Join(runtime.GOROOT(), "src", "go", "ast"), true)
	if err != nil {
		return err
	}
	// implicitBase (Ident.Implicit)
	var implicitBase int64 = -1
	if c, ok := ai.pkg.Types.Scope().Lookup("implicitBase").(*types.Const); ok {
		implicitBase, _ = constant.Int64Val(c.Val())
	}
	if implicitBase < 0 {
		return fmt.Errorf("ast.implicitBase not found")
	}
	out := map[string]map[string]*posBody{}
	var unparsed []string
	var rows []string
	for _, k := range S.NodeOrder {
		out[k] = map[string]*posBody{}
		var bodies [2]string
		for i, m := range []string{"Pos", "End"} {
			p := ai.pkg
			fd := p.Func(k + "." + m)
			if fd == nil { // an alias of a go/ast type
				p = gp
				fd = gp.Func(k + "." + m)
			}
			if fd == nil || fd.Recv == nil || len(fd.Recv.List) != 1 {
				return fmt.Errorf("method %s.%s not found", k, m)
			}
			g := &posGen{ai: ai, p: p, kind: k, locals: map[string]string{}}
			if len(fd.Recv.List[0].Names) == 1 {
				g.recv = fd.Recv.List[0].Names[0].Name
			}
			b, err := g.stmts(fd.Body.List)
			if err != nil {
				// outside the fragment: opaque, reported (never guessed)
				b = &posBody{Opaq: err.Error(), Src: g.src(fd.Body)}
				unparsed = append(unparsed, k+"."+m+": "+err.Error())
			}
			out[k][m] = b
			bodies[i] = coqPosBody(b)
		}
		rows = append(rows, fmt.Sprintf("(%s, (%s,\n      %s))", coqString(k), bodies[0], bodies[1]))
	}
	var sb strings.Builder
	sb.WriteString("From Coq Require Import List String ZArith Bool.\nImport ListNotations.\nFrom V Require Import Base.AstPos.\nOpen Scope string_scope.\n\n")
	fmt.Fprintf(&sb, "(* Obj.Kind >= implicit_base  <=>  Ident.Implicit() *)\nDefinition implicit_base : Z := %s.\n\n", coqZ(implicitBase))
	sb.WriteString("(* per node kind: the bodies of Pos() and End() *)\n")
	fmt.Fprintf(&sb, "Definition pos_bodies : pos_table :=\n  %s.\n", coqList(rows, 1))
	fmt.Fprintf(&sb, "\n(* bodies outside the translated fragment: %d *)\nDefinition pos_unparsed : list string := %s.\n", len(unparsed), func() string {
		var qs []string
		for _, u := range unparsed {
			qs = append(qs, coqString(strings.SplitN(u, ":", 2)[0]))
		}
		return coqList(qs, 0)
	}())
	if err := e.WriteJSON("astpos", map[string]interface{}{"bodies": out, "unparsed": unparsed, "implicit_base": implicitBase}); err != nil {
		return err
	}
	return e.WriteV("AstPos", sb.String())
}
