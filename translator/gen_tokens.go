package main

// GEN-TOK: token tables and predicate bodies of token/token.go, tpl/token/token.go and the
// toolchain's go/token  ->  Gen/Tokens.v + tokens.json.

import (
	"fmt"
	"go/ast"
	"go/constant"
	"go/types"
	"path/filepath"
	"runtime"
	"sort"
	"strings"
)

func init() { register("tokens", genTokens) }

type tokPkg struct {
	Prefix   string            `json:"prefix"`
	Consts   map[string]int64  `json:"consts"`
	ArrayLen int64             `json:"array_len"`
	Spelling map[int64]string  `json:"spelling"`
	Funcs    map[string]string `json:"funcs"` // Go name -> normalised source
}

func genTokens(e *Env) error {
	var out strings.Builder
	out.WriteString("From Coq Require Import List NArith ZArith Bool.\nImport ListNotations.\nFrom V Require Import Base.Prelude.\nOpen Scope Z_scope.\n\n")
	all := map[string]*tokPkg{}
	specs := []struct {
		dir, prefix string
		funcs       []string
	}{
		{"token", "xgo_", []string{"Token.Precedence", "Token.IsLiteral", "Token.IsOperator", "Token.IsKeyword"}},
		{"tpl/token", "tpl_", []string{"Token.Len"}},
		{filepath.Join(runtime.GOROOT(), "src", "go", "token"), "go_", []string{"Token.Precedence", "Token.IsLiteral", "Token.IsOperator", "Token.IsKeyword"}},
	}
	for _, sp := range specs {
		p, err := e.Load(sp.dir, true)
		if err != nil {
			return err
		}
		if p.Types == nil {
			return fmt.Errorf("%s: type check failed", sp.dir)
		}
		tp := &tokPkg{Prefix: sp.prefix, Consts: map[string]int64{}, Spelling: map[int64]string{}, Funcs: map[string]string{}}
		all[sp.prefix] = tp
		// constants of type Token
		var names []string
		for _, name := range p.Types.Scope().Names() {
			c, ok := p.Types.Scope().Lookup(name).(*types.Const)
			if !ok || c.Val().Kind() != constant.Int {
				continue
			}
			if n, ok := c.Type().(*types.Named); !ok || n.Obj().Name() != "Token" {
				continue
			}
			v, _ := constant.Int64Val(c.Val())
			tp.Consts[name] = v
			names = append(names, name)
		}
		sort.Slice(names, func(i, j int) bool {
			if tp.Consts[names[i]] != tp.Consts[names[j]] {
				return tp.Consts[names[i]] < tp.Consts[names[j]]
			}
			return names[i] < names[j]
		})
		// the tokens array
		found := false
		for _, f := range p.Files {
			ast.Inspect(f, func(n ast.Node) bool {
				vs, ok := n.(*ast.ValueSpec)
				if !ok || len(vs.Names) != 1 || vs.Names[0].Name != "tokens" || len(vs.Values) != 1 {
					return true
				}
				cl, ok := vs.Values[0].(*ast.CompositeLit)
				if !ok {
					return true
				}
				at, ok := p.Info.Types[cl].Type.Underlying().(*types.Array)
				if !ok {
					return true
				}
				tp.ArrayLen = at.Len()
				next := int64(0)
				for _, el := range cl.Elts {
					val := el
					if kv, ok := el.(*ast.KeyValueExpr); ok {
						k, _ := constant.Int64Val(p.Info.Types[kv.Key].Value)
						next = k
						val = kv.Value
					}
					if tv := p.Info.Types[val]; tv.Value != nil && tv.Value.Kind() == constant.String {
						tp.Spelling[next] = constant.StringVal(tv.Value)
					}
					next++
				}
				found = true
				return false
			})
		}
		if !found {
			return fmt.Errorf("%s: tokens array not found", sp.dir)
		}
		// emit
		pre := sp.prefix
		fmt.Fprintf(&out, "(* ---- %s ---- *)\n", sp.dir)
		var cs []string
		for _, n := range names {
			cs = append(cs, fmt.Sprintf("(%s, %s)", coqBytes(n), coqZ(tp.Consts[n])))
			fmt.Fprintf(&out, "Definition %s%s : Z := %s.\n", pre, n, coqZ(tp.Consts[n]))
		}
		fmt.Fprintf(&out, "Definition %sconsts : list (str * Z) :=\n  %s.\n", pre, coqList(cs, 4))
		var arr []string
		for i := int64(0); i < tp.ArrayLen; i++ {
			arr = append(arr, coqBytes(tp.Spelling[i]))
		}
		fmt.Fprintf(&out, "Definition %stokens : list str :=\n  %s.\n", pre, coqList(arr, 6))
		arrays := map[string]string{"tokens": pre + "tokens"}
		for _, fn := range sp.funcs {
			fd := p.Func(fn)
			if fd == nil {
				return fmt.Errorf("%s: func %s not found", sp.dir, fn)
			}
			short := fn[strings.IndexByte(fn, '.')+1:]
			def, err := TranslateFunc(p, fd, pre+short, pre, arrays)
			if err != nil {
				return fmt.Errorf("%s: %v", sp.dir, err)
			}
			tp.Funcs[short] = p.Src(fd)
			out.WriteString(def)
		}
		out.WriteString("\n")
	}
	if err := e.WriteJSON("tokens", all); err != nil {
		return err
	}
	return e.WriteV("Tokens", out.String())
}
