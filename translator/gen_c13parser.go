package main

// C13 K-gen: audit tables of the parser package  ->  Gen/C13Parser.v + c13parser.json
//
//   * parser.error / parser.advance: the bodies are recognised piece by piece (normalised
//     through go/printer, so formatting and comments do not matter); the two limits and the
//     comparison operators are extracted.  Any other shape is an error (never a guess).
//   * the sync token sets stmtStart / declStart / exprEnd (token codes from token/token.go)
//   * every function of parser/interface.go and parser/parser_gop.go plus every function that
//     instantiates a `parser` value: wrapper shape (deferred recover, bailout test, re-raise,
//     Sort, Err) and the package-level functions it calls
//   * every construction site of ast.BadExpr / BadStmt / BadDecl with the class of its error witness
//   * every panic( / log.Panic* / log.Fatal* call site with its class
//   * every write access to a `.errors` field

import (
	"fmt"
	"go/ast"
	"go/constant"
	"go/token"
	"go/types"
	"hash/fnv"
	"math/big"
	"sort"
	"strconv"
	"strings"
)

func init() { register("c13parser", genC13Parser) }

type c13Entry struct {
	Name     string   `json:"name"`
	File     string   `json:"file"`
	Exported bool     `json:"exported"`
	Inst     bool     `json:"instantiates_parser"` // declares a variable of type parser
	Recover  bool     `json:"recover"`             // deferred closure starts with the recover/bailout/re-raise statement
	Sorts    bool     `json:"sorts"`               // closure: <p>.errors.Sort() directly followed by err = <p>.errors.Err() or err = <p>.errors
	RawErrs  bool     `json:"raw_errors"`          // closure: err = <p>.errors  (an ErrorList, not an error)
	NilFile  bool     `json:"fills_nil_file"`      // closure: if f == nil { f = &ast.File{...} }
	Merges   bool     `json:"merges_errors"`       // p.errors = append(p.errors, <inst>.errors...)
	Calls    []string `json:"calls"`
}

type c13Site struct {
	Func  string `json:"func"`
	Kind  string `json:"kind"`
	Class int    `json:"class"`
	Why   string `json:"why"`
	Line  int    `json:"line"` // JSON only (not in the .v file)
}

// classes of Bad-node sites
const (
	c13_badNone      = 0 // no error witness found
	c13_badBefore    = 1 // an unconditional p.error/p.errorExpected call dominates the site
	c13_badGuardNil  = 2 // site guarded by `<v> == nil` where <v> := p.<f>(...) and f reports an error on every nil return
	c13_badFlag      = 3 // site sets `ok = false`; `if !ok { ...p.error... }` follows the loop
	c13_badSubErrors = 4 // site guarded by `err != nil` of ParseExprEx and the errors are appended to p.errors
	c13_badCondNil   = 5 // `if cond == nil { cond = Bad }` in a reviewed header function (body hash pinned)
	c13_badTupleFlag = 6 // guarded by isTuple of p.parseRHSOrTypeEx(false): parseLambdaExpr reports msgTupleNotSupported for every tuple it returns with allowTuple == false
)

// classes of panic sites
const (
	c13_panicUnreviewed = 0
	c13_panicBailout    = 1 // panic(bailout{}) in parser.error
	c13_panicReraise    = 2 // panic(e) inside the recover closure of a wrapper, guarded by the bailout type test
	c13_panicAssert     = 3 // panic("go/parser internal error: " + msg) in assert
	c13_panicInternal   = 4 // "internal error" / "unexpected state" string literal
	c13_panicNilFset    = 5 // parseFile: fset == nil precondition
)

func genC13Parser(e *Env) error {
	tokp, err := e.Load("token", true)
	if err != nil {
		return err
	}
	if tokp.Types == nil {
		return fmt.Errorf("token: type check failed")
	}
	tokVal := func(name string) (int64, error) {
		c, ok := tokp.Types.Scope().Lookup(name).(*types.Const)
		if !ok || c.Val().Kind() != constant.Int {
			return 0, fmt.Errorf("token.%s is not an integer constant", name)
		}
		v, _ := constant.Int64Val(c.Val())
		return v, nil
	}
	p, err := e.Load("parser", false)
	if err != nil {
		return err
	}
	src := func(n ast.Node) string { return strings.Join(strings.Fields(p.Src(n)), " ") }

	var out strings.Builder
	out.WriteString("From Coq Require Import List NArith ZArith Bool.\nImport ListNotations.\nFrom V Require Import Base.Prelude.\nOpen Scope Z_scope.\n\n")
	js := map[string]interface{}{}

	// ---------------------------------------------------------------- parser.error
	{
		fd := p.Func("parser.error")
		if fd == nil {
			return fmt.Errorf("parser.error not found")
		}
		b := fd.Body.List
		fail := func(what string) error { return fmt.Errorf("parser.error: unexpected shape (%s): %s", what, src(fd.Body)) }
		if len(b) != 3 {
			return fail("3 statements expected")
		}
		if src(b[0]) != "epos := p.file.Position(pos)" {
			return fail("stmt 0")
		}
		ifs, ok := b[1].(*ast.IfStmt)
		if !ok || ifs.Init != nil || ifs.Else != nil || src(ifs.Cond) != "p.mode&AllErrors == 0" || len(ifs.Body.List) != 3 {
			return fail("stmt 1")
		}
		in := ifs.Body.List
		if src(in[0]) != "n := len(p.errors)" {
			return fail("n :=")
		}
		if1, ok := in[1].(*ast.IfStmt)
		if !ok || if1.Init != nil || if1.Else != nil || src(if1.Cond) != "n > 0 && p.errors[n-1].Pos.Line == epos.Line" || src(if1.Body) != "{ return }" {
			return fail("same-line discard")
		}
		if2, ok := in[2].(*ast.IfStmt)
		if !ok || if2.Init != nil || if2.Else != nil || src(if2.Body) != "{ panic(bailout{}) }" {
			return fail("bailout")
		}
		be, ok := if2.Cond.(*ast.BinaryExpr)
		if !ok || src(be.X) != "n" {
			return fail("bailout condition")
		}
		lit, ok := be.Y.(*ast.BasicLit)
		if !ok || lit.Kind != token.INT {
			return fail("bailout limit")
		}
		lim, _ := strconv.ParseInt(lit.Value, 0, 64)
		if src(b[2]) != "p.errors.Add(epos, msg)" {
			return fail("stmt 2")
		}
		// the comparison  n <op> lim  as a Coq function on Z
		op, err := c13CmpOp(be.Op)
		if err != nil {
			return fail(err.Error())
		}
		fmt.Fprintf(&out, "(* parser.error:  if n %s %d { panic(bailout{}) } *)\n", be.Op, lim)
		fmt.Fprintf(&out, "Definition error_limit : Z := %s.\n", coqZ(lim))
		fmt.Fprintf(&out, "Definition error_bails (n : Z) : bool := %s n error_limit.\n\n", op)
		js["error_limit"] = lim
		js["error_cmp"] = be.Op.String()
	}

	// ---------------------------------------------------------------- parser.advance
	{
		fd := p.Func("parser.advance")
		if fd == nil {
			return fmt.Errorf("parser.advance not found")
		}
		fail := func(what string) error { return fmt.Errorf("parser.advance: unexpected shape (%s): %s", what, src(fd.Body)) }
		if len(fd.Type.Params.List) != 1 || len(fd.Type.Params.List[0].Names) != 1 || fd.Type.Params.List[0].Names[0].Name != "to" || src(fd.Type.Params.List[0].Type) != "map[token.Token]bool" {
			return fail("parameter")
		}
		if len(fd.Body.List) != 1 {
			return fail("1 statement expected")
		}
		fs, ok := fd.Body.List[0].(*ast.ForStmt)
		if !ok || fs.Init != nil || src(fs.Cond) != "p.tok != token.EOF" || src(fs.Post) != "p.next()" || len(fs.Body.List) != 1 {
			return fail("for header")
		}
		ifs, ok := fs.Body.List[0].(*ast.IfStmt)
		if !ok || ifs.Init != nil || ifs.Else != nil || src(ifs.Cond) != "to[p.tok]" || len(ifs.Body.List) != 2 {
			return fail("to[p.tok]")
		}
		if1, ok := ifs.Body.List[0].(*ast.IfStmt)
		if !ok || if1.Init != nil || if1.Else != nil || src(if1.Body) != "{ p.syncCnt++ return }" {
			return fail("no-progress branch")
		}
		and, ok := if1.Cond.(*ast.BinaryExpr)
		if !ok || and.Op != token.LAND || src(and.X) != "p.pos == p.syncPos" {
			return fail("no-progress condition")
		}
		lt, ok := and.Y.(*ast.BinaryExpr)
		if !ok || src(lt.X) != "p.syncCnt" {
			return fail("syncCnt comparison")
		}
		lit, ok := lt.Y.(*ast.BasicLit)
		if !ok || lit.Kind != token.INT {
			return fail("syncCnt limit")
		}
		lim, _ := strconv.ParseInt(lit.Value, 0, 64)
		op, err := c13CmpOp(lt.Op)
		if err != nil {
			return fail(err.Error())
		}
		if2, ok := ifs.Body.List[1].(*ast.IfStmt)
		if !ok || if2.Init != nil || if2.Else != nil || src(if2.Body) != "{ p.syncPos = p.pos p.syncCnt = 0 return }" {
			return fail("progress branch")
		}
		gt, ok := if2.Cond.(*ast.BinaryExpr)
		if !ok || src(gt.X) != "p.pos" || src(gt.Y) != "p.syncPos" {
			return fail("progress condition")
		}
		op2, err := c13CmpOp(gt.Op)
		if err != nil {
			return fail(err.Error())
		}
		fmt.Fprintf(&out, "(* parser.advance:  if p.pos == p.syncPos && p.syncCnt %s %d {cnt++; return}; if p.pos %s p.syncPos {sync; return} *)\n", lt.Op, lim, gt.Op)
		fmt.Fprintf(&out, "Definition advance_limit : Z := %s.\n", coqZ(lim))
		fmt.Fprintf(&out, "Definition advance_cnt_ok (cnt : Z) : bool := %s cnt advance_limit.\n", op)
		fmt.Fprintf(&out, "Definition advance_pos_progress (pos syncpos : Z) : bool := %s pos syncpos.\n\n", op2)
		js["advance_limit"] = lim
		js["advance_cnt_cmp"] = lt.Op.String()
		js["advance_pos_cmp"] = gt.Op.String()
	}

	// ---------------------------------------------------------------- sync sets
	for _, name := range []string{"stmtStart", "declStart", "exprEnd"} {
		var cl *ast.CompositeLit
		for _, f := range p.Files {
			for _, d := range f.Decls {
				gd, ok := d.(*ast.GenDecl)
				if !ok || gd.Tok != token.VAR {
					continue
				}
				for _, s := range gd.Specs {
					vs := s.(*ast.ValueSpec)
					if len(vs.Names) == 1 && vs.Names[0].Name == name && len(vs.Values) == 1 {
						cl, _ = vs.Values[0].(*ast.CompositeLit)
					}
				}
			}
		}
		if cl == nil || src(cl.Type) != "map[token.Token]bool" {
			return fmt.Errorf("sync set %s: not a map[token.Token]bool composite literal", name)
		}
		var codes []int64
		var names []string
		for _, el := range cl.Elts {
			kv, ok := el.(*ast.KeyValueExpr)
			if !ok || src(kv.Value) != "true" {
				return fmt.Errorf("sync set %s: element %s", name, src(el))
			}
			sel, ok := kv.Key.(*ast.SelectorExpr)
			if !ok || src(sel.X) != "token" {
				return fmt.Errorf("sync set %s: key %s", name, src(kv.Key))
			}
			v, err := tokVal(sel.Sel.Name)
			if err != nil {
				return err
			}
			codes = append(codes, v)
			names = append(names, sel.Sel.Name)
		}
		sort.Slice(codes, func(i, j int) bool { return codes[i] < codes[j] })
		sort.Strings(names)
		var cs []string
		for _, c := range codes {
			cs = append(cs, coqZ(c))
		}
		fmt.Fprintf(&out, "(* %s = %s *)\nDefinition sync_%s : list Z := %s.\n", name, strings.Join(names, " "), name, coqList(cs, 0))
		js["sync_"+name] = names
	}
	for _, n := range []string{"EOF", "SEMICOLON", "RBRACE", "RPAREN", "VAR", "IDENT", "INT"} {
		v, err := tokVal(n)
		if err != nil {
			return err
		}
		fmt.Fprintf(&out, "Definition tk_%s : Z := %s.\n", n, coqZ(v))
	}
	out.WriteString("\n")

	// ---------------------------------------------------------------- functions: wrapper shapes, instances
	pkgFuncs := map[string]bool{}
	for _, f := range p.Files {
		for _, d := range f.Decls {
			if fd, ok := d.(*ast.FuncDecl); ok && fd.Recv == nil {
				pkgFuncs[fd.Name.Name] = true
			}
		}
	}
	var entries []c13Entry
	var sites []c13Site
	var panics []c13Site
	var writes []c13Site
	const recoverStmt = "if e := recover(); e != nil { if _, ok := e.(bailout); !ok { panic(e) } }"
	for i, f := range p.Files {
		fname := p.Names[i]
		for _, d := range f.Decls {
			fd, ok := d.(*ast.FuncDecl)
			if !ok || fd.Body == nil {
				continue
			}
			name := fd.Name.Name
			if fd.Recv != nil {
				name = "parser." + name
			}
			en := c13Entry{Name: name, File: fname, Exported: fd.Recv == nil && ast.IsExported(fd.Name.Name)}
			instVars := map[string]bool{}
			calls := map[string]bool{}
			ast.Inspect(fd.Body, func(n ast.Node) bool {
				switch v := n.(type) {
				case *ast.ValueSpec:
					if v.Type != nil && src(v.Type) == "parser" {
						en.Inst = true
						for _, nm := range v.Names {
							instVars[nm.Name] = true
						}
					}
				case *ast.CompositeLit:
					if v.Type != nil && src(v.Type) == "parser" {
						en.Inst = true
					}
				case *ast.CallExpr:
					if id, ok := v.Fun.(*ast.Ident); ok && pkgFuncs[id.Name] {
						calls[id.Name] = true
					}
				case *ast.DeferStmt:
					fl, ok := v.Call.Fun.(*ast.FuncLit)
					if !ok || len(fl.Body.List) == 0 {
						return true
					}
					if src(fl.Body.List[0]) == recoverStmt {
						en.Recover = true
					}
					ls := fl.Body.List
					for k, s := range ls {
						t := src(s)
						if strings.HasSuffix(t, ".errors.Sort()") && k+1 < len(ls) && strings.HasPrefix(src(ls[k+1]), "err = ") &&
							(strings.HasSuffix(src(ls[k+1]), ".errors.Err()") || strings.HasSuffix(src(ls[k+1]), ".errors")) {
							en.Sorts = true // the error list is sorted directly before it is handed out
						}
						if strings.HasPrefix(t, "err = ") && strings.HasSuffix(t, ".errors") {
							en.RawErrs = true
						}
						if strings.HasPrefix(t, "if f == nil { f = &ast.File{") {
							en.NilFile = true
						}
					}
				case *ast.AssignStmt:
					if len(v.Lhs) == 1 && src(v.Lhs[0]) == "p.errors" && len(v.Rhs) == 1 {
						r := src(v.Rhs[0])
						for iv := range instVars {
							if r == "append(p.errors, "+iv+".errors...)" {
								en.Merges = true
							}
						}
					}
				}
				return true
			})
			for c := range calls {
				en.Calls = append(en.Calls, c)
			}
			sort.Strings(en.Calls)
			if fname == "interface.go" || fname == "parser_gop.go" || en.Inst {
				entries = append(entries, en)
			}
			// ---- Bad sites / panic sites / errors writes of this function
			s1, p1, w1, err := c13AuditFunc(p, fd, name, src)
			if err != nil {
				return err
			}
			sites = append(sites, s1...)
			panics = append(panics, p1...)
			writes = append(writes, w1...)
		}
	}
	sort.Slice(entries, func(i, j int) bool { return entries[i].Name < entries[j].Name })
	b2 := func(b bool) string {
		if b {
			return "true"
		}
		return "false"
	}
	out.WriteString("(* functions of interface.go / parser_gop.go and every function instantiating a `parser`:\n   (name, exported, instantiates parser, deferred recover+bailout test+re-raise, Sort directly before err is set, err = p.errors (ErrorList result), fills nil file, merges sub-parser errors, callees) *)\n")
	out.WriteString("Definition entries : list (str * (bool * bool * bool * bool * bool * bool * bool) * list str) :=\n  [")
	for i, en := range entries {
		if i > 0 {
			out.WriteString(";\n   ")
		}
		var cs []string
		for _, c := range en.Calls {
			cs = append(cs, coqBytes(c))
		}
		fmt.Fprintf(&out, "(%s (* %s *), (%s, %s, %s, %s, %s, %s, %s), %s)", coqBytes(en.Name), en.Name,
			b2(en.Exported), b2(en.Inst), b2(en.Recover), b2(en.Sorts), b2(en.RawErrs), b2(en.NilFile), b2(en.Merges), coqList(cs, 0))
	}
	out.WriteString("].\n\n")
	js["entries"] = entries

	emitSites := func(title, def string, l []c13Site) {
		sort.SliceStable(l, func(i, j int) bool {
			if l[i].Func != l[j].Func {
				return l[i].Func < l[j].Func
			}
			if l[i].Kind != l[j].Kind {
				return l[i].Kind < l[j].Kind
			}
			return l[i].Class < l[j].Class
		})
		fmt.Fprintf(&out, "(* %s: (function, kind, class) *)\nDefinition %s : list (str * str * Z) :=\n  [", title, def)
		for i, s := range l {
			if i > 0 {
				out.WriteString(";\n   ")
			}
			fmt.Fprintf(&out, "(%s (* %s *), %s (* %s: %s *), %s)", coqBytes(s.Func), s.Func, coqBytes(s.Kind), s.Kind, s.Why, coqZ(int64(s.Class)))
		}
		out.WriteString("].\n\n")
	}
	emitSites("construction sites of ast.Bad* nodes; class 0 = no error witness, 1 = dominated by p.error/p.errorExpected, 2 = nil-guard of an error-reporting helper, 3 = ok-flag with error after the loop, 4 = non-empty sub-parser error list appended, 5 = cond==nil in a reviewed header (pinned body), 6 = isTuple flag of parseRHSOrTypeEx(false) (parseLambdaExpr reports every tuple it returns when allowTuple is false)", "bad_sites", sites)
	emitSites("panic / log.Panic* / log.Fatal* call sites; class 0 = unreviewed, 1 = bailout, 2 = re-raise of a non-bailout panic in a wrapper, 3 = assert, 4 = internal error / unexpected state, 5 = nil FileSet precondition", "panic_sites", panics)
	emitSites("accesses to an `errors` field other than reads; class 1 = Add, 2 = append of a sub-parser/tpl error list, 3 = Sort inside a wrapper closure, 0 = anything else", "errors_writes", writes)
	// reviewed helper / header functions: normalised body text pinned by hash (FNV-1a 64 of the go/printer text, as Z)
	out.WriteString("(* functions whose body is pinned: (name, FNV-1a-64 of the normalised go/printer text of the declaration) *)\nDefinition pinned_bodies : list (str * Z) :=\n  [")
	var pinnedNames []string
	for n := range c13Pinned {
		pinnedNames = append(pinnedNames, n)
	}
	sort.Strings(pinnedNames)
	pinned := map[string]string{}
	for i, n := range pinnedNames {
		fd := p.Func(n)
		if fd == nil {
			return fmt.Errorf("pinned function %s not found", n)
		}
		h := fnv.New64a()
		h.Write([]byte(src(fd)))
		v := new(big.Int).SetUint64(h.Sum64())
		if i > 0 {
			out.WriteString(";\n   ")
		}
		fmt.Fprintf(&out, "(%s (* %s *), %s%%Z)", coqBytes(n), n, v.String())
		pinned[n] = v.String()
	}
	out.WriteString("].\n\n")
	js["pinned_bodies"] = pinned
	js["bad_sites"] = sites
	js["panic_sites"] = panics
	js["errors_writes"] = writes

	// name -> code of every token.Token constant (the check maps the spellings it uses to names)
	tc := map[string]int64{}
	for _, name := range tokp.Types.Scope().Names() {
		if c, ok := tokp.Types.Scope().Lookup(name).(*types.Const); ok && c.Val().Kind() == constant.Int {
			if n, ok := c.Type().(*types.Named); ok && n.Obj().Name() == "Token" {
				v, _ := constant.Int64Val(c.Val())
				tc[name] = v
			}
		}
	}
	js["token_consts"] = tc
	if err := e.WriteJSON("c13parser", js); err != nil {
		return err
	}
	return e.WriteV("C13Parser", out.String())
}

func c13CmpOp(op token.Token) (string, error) {
	switch op {
	case token.GTR:
		return "Z.gtb", nil
	case token.GEQ:
		return "Z.geb", nil
	case token.LSS:
		return "Z.ltb", nil
	case token.LEQ:
		return "Z.leb", nil
	case token.EQL:
		return "Z.eqb", nil
	}
	return "", fmt.Errorf("comparison operator %s outside the fragment", op)
}

// reviewed header functions for class 5
var c13Headers = map[string]string{
	"parser.parseIfHeader":      "",
	"parser.parseForPhraseCond": "",
}

// functions whose whole body is pinned by hash (reviewed by hand; see Proofs/C13.v)
var c13Pinned = map[string]bool{
	"parser.parseIfHeader":      true, // class 5: cond == nil only after an error was reported
	"parser.parseForPhraseCond": true, // class 5
	"parser.toIdent":            true, // class 2 helper: every nil return follows p.errorExpected
	"parser.parseCallExpr":      true, // class 2 helper: nil return follows p.error unless x is already a BadExpr
	"parser.errorExpected":      true, // always ends in p.error(pos, msg)
}

// helpers that report an error on every path returning nil (audited below by c13NilHelperOK)
var c13NilHelpers = map[string]bool{"toIdent": true, "parseCallExpr": true}

func c13IsErrCall(s ast.Stmt, src func(ast.Node) string) bool {
	es, ok := s.(*ast.ExprStmt)
	if !ok {
		return false
	}
	c, ok := es.X.(*ast.CallExpr)
	if !ok {
		return false
	}
	f := src(c.Fun)
	return f == "p.error" || f == "p.errorExpected"
}

// c13AuditFunc lists the Bad-node sites, panic sites and errors-writes of one function.
func c13AuditFunc(p *Pkg, fd *ast.FuncDecl, fname string, src func(ast.Node) string) (sites, panics, writes []c13Site, err error) {
	line := func(n ast.Node) int { return p.Fset.Position(n.Pos()).Line }
	tupleChainOK := c13TupleChain(p, src)
	// path-sensitive walk: stack of (statement list, index) frames
	type frame struct {
		list []ast.Stmt
		idx  int
		node ast.Node // the statement owning the list (IfStmt, CaseClause, ...)
	}
	var stack []frame
	var inRecoverIf, inDeferClosure int

	dominated := func() bool {
		for _, fr := range stack {
			for k := 0; k < fr.idx; k++ {
				if c13IsErrCall(fr.list[k], src) {
					return true
				}
			}
		}
		return false
	}
	// innermost enclosing if-conditions
	var conds []string
	var condNodes []*ast.IfStmt

	classifyBad := func(cl *ast.CompositeLit) (int, string) {
		if dominated() {
			return c13_badBefore, "error call dominates"
		}
		// enclosing  if <v> == nil  where v := p.<helper>(...) earlier in the function
		for i := len(conds) - 1; i >= 0; i-- {
			c := conds[i]
			if strings.HasSuffix(c, " == nil") {
				v := strings.TrimSuffix(c, " == nil")
				helper := ""
				ast.Inspect(fd.Body, func(n ast.Node) bool {
					as, ok := n.(*ast.AssignStmt)
					if !ok || len(as.Lhs) != 1 || len(as.Rhs) != 1 || src(as.Lhs[0]) != v {
						return true
					}
					if c, ok := as.Rhs[0].(*ast.CallExpr); ok {
						f := src(c.Fun)
						if strings.HasPrefix(f, "p.") && c13NilHelpers[strings.TrimPrefix(f, "p.")] {
							helper = strings.TrimPrefix(f, "p.")
						}
					}
					return true
				})
				if helper != "" {
					return c13_badGuardNil, "guarded by " + c + " of p." + helper
				}
				if v == "cond" {
					if _, ok := c13Headers[fname]; ok && len(stack) == 2 {
						return c13_badCondNil, "cond == nil in reviewed header"
					}
				}
			}
			if c == "err != nil" {
				// expr, err := ParseExprEx(...) ; p.errors = append(p.errors, err...) precedes in this block
				fr := stack[len(stack)-1]
				for k := 0; k < fr.idx; k++ {
					if src(fr.list[k]) == "p.errors = append(p.errors, err...)" {
						return c13_badSubErrors, "non-empty ParseExprEx error list appended"
					}
				}
			}
		}
		// isTuple flag of parseRHSOrTypeEx(false)
		for _, c := range conds {
			if c == "isTuple" && tupleChainOK {
				has := false
				ast.Inspect(fd.Body, func(n ast.Node) bool {
					if as, ok := n.(*ast.AssignStmt); ok && src(as) == "x, isTuple := p.parseRHSOrTypeEx(false)" {
						has = true
					}
					return true
				})
				if has {
					return c13_badTupleFlag, "guarded by isTuple of p.parseRHSOrTypeEx(false); parseLambdaExpr reports the tuple"
				}
			}
		}
		// ok-flag:  `ok = false` earlier in the same block and `if !ok { ... p.error ...}` later in the function
		fr := stack[len(stack)-1]
		flag := false
		for k := 0; k < fr.idx; k++ {
			if src(fr.list[k]) == "ok = false" {
				flag = true
			}
		}
		if flag {
			found := false
			ast.Inspect(fd.Body, func(n ast.Node) bool {
				ifs, ok := n.(*ast.IfStmt)
				if ok && src(ifs.Cond) == "!ok" && ifs.Pos() > cl.Pos() {
					all := true // every branch of the if/else reports
					var chk func(s ast.Stmt) bool
					chk = func(s ast.Stmt) bool {
						switch b := s.(type) {
						case *ast.BlockStmt:
							for _, x := range b.List {
								if c13IsErrCall(x, src) {
									return true
								}
								if i2, ok := x.(*ast.IfStmt); ok && i2.Else != nil && chk(i2.Body) && chk(i2.Else) {
									return true
								}
							}
						}
						return false
					}
					all = chk(ifs.Body)
					if all {
						found = true
					}
				}
				return true
			})
			if found {
				return c13_badFlag, "ok = false; if !ok { p.error } after the loop"
			}
		}
		return c13_badNone, "NO ERROR WITNESS"
	}

	var walkStmts func(list []ast.Stmt, owner ast.Node)
	var walkNode func(n ast.Node)
	walkExprs := func(n ast.Node) {
		// expressions inside a statement (not descending into nested statement lists: FuncLit bodies are walked as statements)
		ast.Inspect(n, func(x ast.Node) bool {
			switch v := x.(type) {
			case *ast.FuncLit:
				// closure body: separate statement context
				isDefer := false
				inDeferClosure++
				_ = isDefer
				walkStmts(v.Body.List, v)
				inDeferClosure--
				return false
			case *ast.CompositeLit:
				t := ""
				if v.Type != nil {
					t = src(v.Type)
				}
				if t == "ast.BadExpr" || t == "ast.BadStmt" || t == "ast.BadDecl" {
					c, why := classifyBad(v)
					sites = append(sites, c13Site{Func: fname, Kind: strings.TrimPrefix(t, "ast."), Class: c, Why: why, Line: line(v)})
				}
			case *ast.CallExpr:
				f := src(v.Fun)
				if f == "panic" || strings.HasPrefix(f, "log.Panic") || strings.HasPrefix(f, "log.Fatal") || f == "os.Exit" {
					c, why := c13_panicUnreviewed, "UNREVIEWED "+src(v)
					arg := ""
					if len(v.Args) > 0 {
						arg = src(v.Args[0])
					}
					switch {
					case f != "panic":
					case arg == "bailout{}" && fname == "parser.error":
						c, why = c13_panicBailout, "bailout"
					case arg == "e" && inRecoverIf > 0:
						c, why = c13_panicReraise, "re-raise of non-bailout panic"
					case fname == "assert" && arg == `"go/parser internal error: " + msg`:
						c, why = c13_panicAssert, "assert"
					case strings.HasPrefix(arg, `"`) && (strings.Contains(arg, "internal error") || strings.Contains(arg, "unexpected state")):
						c, why = c13_panicInternal, arg
					case fname == "parseFile" && strings.Contains(arg, "no token.FileSet provided"):
						// must be guarded by fset == nil
						for _, cnd := range conds {
							if cnd == "fset == nil" {
								c, why = c13_panicNilFset, "fset == nil precondition"
							}
						}
					}
					panics = append(panics, c13Site{Func: fname, Kind: f, Class: c, Why: why, Line: line(v)})
				}
				if sel, ok := v.Fun.(*ast.SelectorExpr); ok {
					recv := src(sel.X)
					if strings.HasSuffix(recv, ".errors") {
						switch sel.Sel.Name {
						case "Add":
							writes = append(writes, c13Site{Func: fname, Kind: recv + ".Add", Class: 1, Why: "Add", Line: line(v)})
						case "Sort":
							c := 0
							if inDeferClosure > 0 {
								c = 3
							}
							writes = append(writes, c13Site{Func: fname, Kind: recv + ".Sort", Class: c, Why: "Sort", Line: line(v)})
						case "Err", "Len", "Error", "Less":
						default:
							writes = append(writes, c13Site{Func: fname, Kind: recv + "." + sel.Sel.Name, Class: 0, Why: "UNREVIEWED method", Line: line(v)})
						}
					}
				}
			}
			return true
		})
	}
	walkNode = func(n ast.Node) {
		switch s := n.(type) {
		case nil:
		case *ast.BlockStmt:
			walkStmts(s.List, s)
		case *ast.IfStmt:
			if s.Init != nil {
				walkNode(s.Init)
			}
			walkExprs(s.Cond)
			c := src(s.Cond)
			conds = append(conds, c)
			condNodes = append(condNodes, s)
			isRec := s.Init != nil && src(s.Init) == "e := recover()"
			if isRec {
				inRecoverIf++
			}
			walkStmts(s.Body.List, s)
			if isRec {
				inRecoverIf--
			}
			conds = conds[:len(conds)-1]
			condNodes = condNodes[:len(condNodes)-1]
			if s.Else != nil {
				conds = append(conds, "!("+c+")")
				walkNode(s.Else)
				conds = conds[:len(conds)-1]
			}
		case *ast.ForStmt:
			if s.Init != nil {
				walkNode(s.Init)
			}
			if s.Cond != nil {
				walkExprs(s.Cond)
			}
			if s.Post != nil {
				walkNode(s.Post)
			}
			walkStmts(s.Body.List, s)
		case *ast.RangeStmt:
			walkExprs(s.X)
			walkStmts(s.Body.List, s)
		case *ast.SwitchStmt:
			if s.Init != nil {
				walkNode(s.Init)
			}
			if s.Tag != nil {
				walkExprs(s.Tag)
			}
			for _, c := range s.Body.List {
				cc := c.(*ast.CaseClause)
				for _, x := range cc.List {
					walkExprs(x)
				}
				walkStmts(cc.Body, cc)
			}
		case *ast.TypeSwitchStmt:
			if s.Init != nil {
				walkNode(s.Init)
			}
			walkNode(s.Assign)
			for _, c := range s.Body.List {
				cc := c.(*ast.CaseClause)
				walkStmts(cc.Body, cc)
			}
		case *ast.SelectStmt:
			for _, c := range s.Body.List {
				cc := c.(*ast.CommClause)
				walkStmts(cc.Body, cc)
			}
		case *ast.LabeledStmt:
			walkNode(s.Stmt)
		case *ast.AssignStmt:
			// writes to <x>.errors
			for k, l := range s.Lhs {
				ls := src(l)
				if strings.HasSuffix(ls, ".errors") || ls == "errors" {
					c, why := 0, "UNREVIEWED assignment "+src(s)
					if k < len(s.Rhs) {
						if ce, ok := s.Rhs[k].(*ast.CallExpr); ok && src(ce.Fun) == "append" && len(ce.Args) == 2 && src(ce.Args[0]) == ls && ce.Ellipsis.IsValid() {
							c, why = 2, "append "+src(ce.Args[1])+"..."
						}
					}
					writes = append(writes, c13Site{Func: fname, Kind: ls + " =", Class: c, Why: why, Line: line(s)})
				}
			}
			walkExprs(s)
		default:
			walkExprs(n)
		}
	}
	walkStmts = func(list []ast.Stmt, owner ast.Node) {
		stack = append(stack, frame{list: list, node: owner})
		for i, s := range list {
			stack[len(stack)-1].idx = i
			walkNode(s)
		}
		stack = stack[:len(stack)-1]
	}
	walkStmts(fd.Body.List, fd)
	return
}

// c13TupleChain checks the three links on which class 6 rests:
//   parseRHSOrTypeEx(allowTuple) passes allowTuple to parseExprEx(false, allowTuple, ...),
//   parseExprEx passes it to parseLambdaExpr(allowTuple, ...) for a non-lhs expression,
//   parseLambdaExpr ends with  `else if isTuple && !allowTuple { p.error(..., msgTupleNotSupported) ... }`
//   directly before its final `return` (the only path on which a tuple leaves it).
func c13TupleChain(p *Pkg, src func(ast.Node) string) bool {
	has := func(fn, stmt string) bool {
		fd := p.Func(fn)
		if fd == nil {
			return false
		}
		found := false
		ast.Inspect(fd.Body, func(n ast.Node) bool {
			if s, ok := n.(ast.Stmt); ok {
				if _, isBlock := s.(*ast.BlockStmt); !isBlock && src(s) == stmt {
					found = true
				}
			}
			return true
		})
		return found
	}
	if !has("parser.parseRHSOrTypeEx", "x, isTuple = p.parseExprEx(false, allowTuple, false, false)") {
		return false
	}
	if !has("parser.parseExprEx", "return p.parseLambdaExpr(allowTuple, allowCmd, allowRangeExpr)") {
		return false
	}
	fd := p.Func("parser.parseLambdaExpr")
	if fd == nil || len(fd.Body.List) < 2 {
		return false
	}
	n := len(fd.Body.List)
	if src(fd.Body.List[n-1]) != "return" {
		return false
	}
	ifs, ok := fd.Body.List[n-2].(*ast.IfStmt)
	if !ok || src(ifs.Cond) != "p.tok == token.DRARROW" {
		return false
	}
	els, ok := ifs.Else.(*ast.IfStmt)
	if !ok || src(els.Cond) != "isTuple && !allowTuple" || len(els.Body.List) == 0 || els.Else != nil {
		return false
	}
	if !c13IsErrCall(els.Body.List[0], src) || !strings.Contains(src(els.Body.List[0]), "msgTupleNotSupported") {
		return false
	}
	// every return inside the `p.tok == token.DRARROW` branch returns isTuple == false
	okRet := true
	ast.Inspect(ifs.Body, func(n ast.Node) bool {
		if _, isLit := n.(*ast.FuncLit); isLit {
			return false
		}
		if r, ok := n.(*ast.ReturnStmt); ok {
			if len(r.Results) != 2 || src(r.Results[1]) != "false" {
				okRet = false
			}
		}
		return true
	})
	return okRet
}
