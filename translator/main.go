// translator: regenerates coq/Gen/*.v (and JSON side copies) from /repo's current source.
//
//	translator -repo /repo -out /verif/coq/Gen -json /verif/build/gen <generator>...
//
// Must be run with cwd = the repository root (the go/types "source" importer resolves the
// module's dependencies from there).  A generator that cannot read the site it translates
// fails loudly (non-zero exit) instead of guessing.
package main

import (
	"bytes"
	"encoding/json"
	"flag"
	"fmt"
	"go/ast"
	"go/importer"
	"go/parser"
	"go/printer"
	"go/token"
	"go/types"
	"os"
	"path/filepath"
	"sort"
	"strings"
)

type Env struct {
	Repo, Out, JSON string
}

type generator func(*Env) error

var generators = map[string]generator{}

func register(name string, g generator) { generators[name] = g }

func main() {
	var e Env
	flag.StringVar(&e.Repo, "repo", "/repo", "repository root")
	flag.StringVar(&e.Out, "out", "", "directory for Gen/*.v")
	flag.StringVar(&e.JSON, "json", "", "directory for JSON side copies")
	flag.Parse()
	names := flag.Args()
	if len(names) == 0 {
		for n := range generators {
			names = append(names, n)
		}
		sort.Strings(names)
	}
	os.MkdirAll(e.Out, 0o755)
	if e.JSON != "" {
		os.MkdirAll(e.JSON, 0o755)
	}
	rc := 0
	for _, n := range names {
		g, ok := generators[n]
		if !ok {
			fmt.Fprintf(os.Stderr, "unknown generator %q\n", n)
			os.Exit(2)
		}
		if err := run(g, &e); err != nil {
			fmt.Printf("translator: generator %s failed: %v\n", n, err)
			rc = 1
		}
	}
	os.Exit(rc)
}

func run(g generator, e *Env) (err error) {
	defer func() {
		if r := recover(); r != nil {
			err = fmt.Errorf("panic: %v", r)
		}
	}()
	return g(e)
}

// WriteV writes Out/<name>.v only if the content changed (keeps make incremental).
func (e *Env) WriteV(name, content string) error {
	p := filepath.Join(e.Out, name+".v")
	content = "(* GENERATED from " + e.Repo + " by /verif/translator — do not edit *)\n" + content
	old, err := os.ReadFile(p)
	if err == nil && string(old) == content {
		fmt.Printf("gen: %s.v unchanged\n", name)
		return nil
	}
	fmt.Printf("gen: %s.v REWRITTEN\n", name)
	return os.WriteFile(p, []byte(content), 0o644)
}

func (e *Env) WriteJSON(name string, v interface{}) error {
	if e.JSON == "" {
		return nil
	}
	b, err := json.MarshalIndent(v, "", " ")
	if err != nil {
		return err
	}
	return os.WriteFile(filepath.Join(e.JSON, name+".json"), b, 0o644)
}

// Pkg is a parsed (and optionally type-checked) package directory of the repository.
type Pkg struct {
	Fset  *token.FileSet
	Files []*ast.File
	Names []string // file names, parallel to Files
	Info  *types.Info
	Types *types.Package
}

// Load parses the non-test .go files of dir (relative to the repo, or absolute).
func (e *Env) Load(dir string, typecheck bool) (*Pkg, error) {
	if !filepath.IsAbs(dir) {
		dir = filepath.Join(e.Repo, dir)
	}
	fset := token.NewFileSet()
	ents, err := os.ReadDir(dir)
	if err != nil {
		return nil, err
	}
	p := &Pkg{Fset: fset}
	for _, ent := range ents {
		n := ent.Name()
		if ent.IsDir() || !strings.HasSuffix(n, ".go") || strings.HasSuffix(n, "_test.go") {
			continue
		}
		f, err := parser.ParseFile(fset, filepath.Join(dir, n), nil, parser.ParseComments)
		if err != nil {
			return nil, err
		}
		if hasIgnoreTag(f) {
			continue
		}
		p.Files = append(p.Files, f)
		p.Names = append(p.Names, n)
	}
	if len(p.Files) == 0 {
		return nil, fmt.Errorf("no Go files in %s", dir)
	}
	if typecheck {
		conf := types.Config{Importer: importer.ForCompiler(fset, "source", nil), Error: func(error) {}}
		p.Info = &types.Info{
			Types: map[ast.Expr]types.TypeAndValue{},
			Defs:  map[*ast.Ident]types.Object{},
			Uses:  map[*ast.Ident]types.Object{},
		}
		tp, _ := conf.Check(p.Files[0].Name.Name, fset, p.Files, p.Info)
		p.Types = tp
	}
	return p, nil
}

func hasIgnoreTag(f *ast.File) bool {
	for _, cg := range f.Comments {
		if cg.Pos() > f.Package {
			break
		}
		for _, c := range cg.List {
			t := c.Text
			if strings.HasPrefix(t, "//go:build") && (strings.Contains(t, "ignore") || strings.Contains(t, "!go1.18")) {
				return true
			}
			if strings.HasPrefix(t, "//go:build verif") {
				return true
			}
		}
	}
	return false
}

// Func finds a top-level function or method: name "F" or "Recv.F" (receiver type name, '*' ignored).
func (p *Pkg) Func(name string) *ast.FuncDecl {
	recv, fn := "", name
	if i := strings.IndexByte(name, '.'); i >= 0 {
		recv, fn = name[:i], name[i+1:]
	}
	for _, f := range p.Files {
		for _, d := range f.Decls {
			fd, ok := d.(*ast.FuncDecl)
			if !ok || fd.Name.Name != fn {
				continue
			}
			r := ""
			if fd.Recv != nil && len(fd.Recv.List) == 1 {
				t := fd.Recv.List[0].Type
				if s, ok := t.(*ast.StarExpr); ok {
					t = s.X
				}
				if ix, ok := t.(*ast.IndexExpr); ok {
					t = ix.X
				}
				if id, ok := t.(*ast.Ident); ok {
					r = id.Name
				}
			}
			if r == recv {
				return fd
			}
		}
	}
	return nil
}

// Src renders a node with go/printer (normalised: independent of the file's formatting/comments).
func (p *Pkg) Src(n ast.Node) string {
	var b bytes.Buffer
	cfg := printer.Config{Mode: printer.RawFormat, Tabwidth: 1}
	cfg.Fprint(&b, token.NewFileSet(), stripComments(n))
	return b.String()
}

func stripComments(n ast.Node) ast.Node { return n } // positions are dropped by the fresh FileSet; comments are not attached to nodes

// coq helpers ---------------------------------------------------------------

func coqBytes(s string) string {
	var parts []string
	for i := 0; i < len(s); i++ {
		parts = append(parts, fmt.Sprint(s[i]))
	}
	return "[" + strings.Join(parts, ";") + "]%N"
}

func coqString(s string) string { // Coq string literal (ASCII printable only; callers check)
	return "\"" + strings.ReplaceAll(s, "\"", "\"\"") + "\""
}

func coqZ(v int64) string {
	if v < 0 {
		return fmt.Sprintf("(%d)%%Z", v)
	}
	return fmt.Sprintf("%d%%Z", v)
}

func coqList(items []string, perLine int) string {
	var b strings.Builder
	b.WriteString("[")
	for i, it := range items {
		if i > 0 {
			b.WriteString(";")
			if perLine > 0 && i%perLine == 0 {
				b.WriteString("\n   ")
			} else {
				b.WriteString(" ")
			}
		}
		b.WriteString(it)
	}
	b.WriteString("]")
	return b.String()
}
