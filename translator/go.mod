module vtranslator

go 1.18
