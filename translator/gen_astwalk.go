package main

// GEN-AST (b): the type switch of ast.Walk  ->  Gen/AstWalk.v + astwalk.json:
// per case, the ordered list of walked fields with their shape and guards.
//
// Fragment read (anything else is an error, never a guess):
//   Walk(v, H.F)                                   node, unguarded
//   if H.F != nil { Walk(v, H.F) }                 node, guarded
//   walkList(v, H.F)                               list
//   for _, x := range H.F { walkList(v, x) }       list of lists
//   for _, x := range H.F { Walk(v, x) }           list (or map)
//   for _, p := range H.F { if e, ok := p.(Expr); ok { Walk(v, e) } }    parts
//   if !H.B { ... }                                steps under "unless B"
//   if H.R != nil { ...steps with holder H.R... }  record access, guarded
//   if e := H.R; e != nil { switch e := e.(type) { case *K: ...steps with holder e... } }

import (
	"fmt"
	"go/ast"
	"go/token"
	"go/types"
	"strings"
)

func init() { register("astwalk", genAstWalk) }

type walkStep struct {
	Unless   string `json:"unless,omitempty"`
	Via      string `json:"via,omitempty"`      // record field of the node
	ViaKind  string `json:"via_kind,omitempty"` // dynamic kind of the record
	ViaGuard bool   `json:"via_guard,omitempty"`
	Shape    string `json:"shape"` // Node List ListList Parts Map
	Field    string `json:"field"`
	Guard    bool   `json:"guard"`
}

type walkCase struct {
	Kinds []string   `json:"kinds"`
	Steps []walkStep `json:"steps"`
}

type walkGen struct {
	ai      *astInfo
	visitor string // name of the visitor parameter
}

type walkCtx struct {
	holder   string // variable holding the struct whose fields are walked
	unless   string
	via      string
	viaKind  string
	viaGuard bool
}

func (g *walkGen) src(n ast.Node) string { return g.ai.pkg.Src(n) }

// sel matches  <holder>.<F>  and returns F
func sel(e ast.Expr, holder string) (string, bool) {
	s, ok := e.(*ast.SelectorExpr)
	if !ok {
		return "", false
	}
	id, ok := s.X.(*ast.Ident)
	if !ok || id.Name != holder {
		return "", false
	}
	return s.Sel.Name, true
}

// call matches  fn(v, arg)
func (g *walkGen) call(s ast.Stmt, fn string) (ast.Expr, bool) {
	es, ok := s.(*ast.ExprStmt)
	if !ok {
		return nil, false
	}
	c, ok := es.X.(*ast.CallExpr)
	if !ok || len(c.Args) != 2 {
		return nil, false
	}
	id, ok := c.Fun.(*ast.Ident)
	if !ok || id.Name != fn {
		return nil, false
	}
	v, ok := c.Args[0].(*ast.Ident)
	if !ok || v.Name != g.visitor {
		return nil, false
	}
	return c.Args[1], true
}

func isNilCmp(e ast.Expr, op token.Token) (ast.Expr, bool) {
	b, ok := e.(*ast.BinaryExpr)
	if !ok || b.Op != op {
		return nil, false
	}
	if id, ok := b.Y.(*ast.Ident); ok && id.Name == "nil" {
		return b.X, true
	}
	return nil, false
}

func (g *walkGen) mk(c walkCtx, shape, field string, guard bool) walkStep {
	return walkStep{Unless: c.unless, Via: c.via, ViaKind: c.viaKind, ViaGuard: c.viaGuard, Shape: shape, Field: field, Guard: guard}
}

func (g *walkGen) stmts(list []ast.Stmt, c walkCtx) ([]walkStep, error) {
	var out []walkStep
	for _, s := range list {
		st, err := g.stmt(s, c)
		if err != nil {
			return nil, err
		}
		out = append(out, st...)
	}
	return out, nil
}

func (g *walkGen) stmt(s ast.Stmt, c walkCtx) ([]walkStep, error) {
	bad := func() ([]walkStep, error) {
		return nil, fmt.Errorf("ast.Walk: statement outside the fragment: %s", g.src(s))
	}
	if a, ok := g.call(s, "Walk"); ok {
		if f, ok := sel(a, c.holder); ok {
			return []walkStep{g.mk(c, "Node", f, false)}, nil
		}
		return bad()
	}
	if a, ok := g.call(s, "walkList"); ok {
		if f, ok := sel(a, c.holder); ok {
			return []walkStep{g.mk(c, "List", f, false)}, nil
		}
		return bad()
	}
	switch s := s.(type) {
	case *ast.IfStmt:
		if s.Else != nil {
			return bad()
		}
		if s.Init == nil {
			// if !H.B { ... }
			if u, ok := s.Cond.(*ast.UnaryExpr); ok && u.Op == token.NOT {
				if f, ok := sel(u.X, c.holder); ok && c.unless == "" {
					c2 := c
					c2.unless = f
					return g.stmts(s.Body.List, c2)
				}
				return bad()
			}
			x, ok := isNilCmp(s.Cond, token.NEQ)
			if !ok {
				return bad()
			}
			f, ok := sel(x, c.holder)
			if !ok {
				return bad()
			}
			// if H.F != nil { Walk(v, H.F) }
			if len(s.Body.List) == 1 {
				if a, ok := g.call(s.Body.List[0], "Walk"); ok {
					if f2, ok := sel(a, c.holder); ok && f2 == f {
						return []walkStep{g.mk(c, "Node", f, true)}, nil
					}
					return bad()
				}
			}
			// if H.R != nil { ...steps on H.R.<F>... }: the record's static type gives its kind
			if c.via != "" {
				return bad()
			}
			kind := ""
			if tv, ok := g.ai.pkg.Info.Types[x]; ok {
				if pt, ok := types.Unalias(tv.Type).(*types.Pointer); ok {
					kind = g.ai.kindName(pt.Elem())
				}
			}
			if kind == "" {
				return bad()
			}
			// rewrite holder: statements use  H.R.F ; introduce a pseudo holder by matching selectors on H.R
			c2 := c
			c2.via, c2.viaKind, c2.viaGuard = f, kind, true
			return g.viaStmts(s.Body.List, c2, func(e ast.Expr) (string, bool) {
				se, ok := e.(*ast.SelectorExpr)
				if !ok {
					return "", false
				}
				if f0, ok := sel(se.X, c.holder); ok && f0 == f {
					return se.Sel.Name, true
				}
				return "", false
			})
		}
		// if e := H.R; e != nil { switch e := e.(type) { case *K: ... } }
		as, ok := s.Init.(*ast.AssignStmt)
		if !ok || as.Tok != token.DEFINE || len(as.Lhs) != 1 || len(as.Rhs) != 1 || c.via != "" {
			return bad()
		}
		ev, ok := as.Lhs[0].(*ast.Ident)
		if !ok {
			return bad()
		}
		f, ok := sel(as.Rhs[0], c.holder)
		if !ok {
			return bad()
		}
		x, ok := isNilCmp(s.Cond, token.NEQ)
		if xi, ok2 := x.(*ast.Ident); !ok || !ok2 || xi.Name != ev.Name {
			return bad()
		}
		if len(s.Body.List) != 1 {
			return bad()
		}
		ts, ok := s.Body.List[0].(*ast.TypeSwitchStmt)
		if !ok || ts.Init != nil {
			return bad()
		}
		tas, ok := ts.Assign.(*ast.AssignStmt)
		if !ok || len(tas.Lhs) != 1 || len(tas.Rhs) != 1 {
			return bad()
		}
		tv, ok := tas.Lhs[0].(*ast.Ident)
		if !ok {
			return bad()
		}
		ta, ok := tas.Rhs[0].(*ast.TypeAssertExpr)
		if !ok || ta.Type != nil {
			return bad()
		}
		if id, ok := ta.X.(*ast.Ident); !ok || id.Name != ev.Name {
			return bad()
		}
		var out []walkStep
		for _, cc := range ts.Body.List {
			cl := cc.(*ast.CaseClause)
			if cl.List == nil {
				if len(cl.Body) != 0 {
					return bad()
				}
				continue
			}
			if len(cl.List) != 1 {
				return bad()
			}
			st, ok := cl.List[0].(*ast.StarExpr)
			if !ok {
				return bad()
			}
			kid, ok := st.X.(*ast.Ident)
			if !ok {
				return bad()
			}
			c2 := c
			c2.via, c2.viaKind, c2.viaGuard = f, kid.Name, true
			c2.holder = tv.Name
			steps, err := g.stmts(cl.Body, c2)
			if err != nil {
				return nil, err
			}
			out = append(out, steps...)
		}
		return out, nil
	case *ast.RangeStmt:
		return g.rangeStmt(s, c, func(e ast.Expr) (string, bool) { return sel(e, c.holder) })
	case *ast.EmptyStmt:
		return nil, nil
	}
	return bad()
}

// statements whose field selectors are matched by selF (used for  H.R.F  inside  if H.R != nil)
func (g *walkGen) viaStmts(list []ast.Stmt, c walkCtx, selF func(ast.Expr) (string, bool)) ([]walkStep, error) {
	var out []walkStep
	for _, s := range list {
		switch s := s.(type) {
		case *ast.RangeStmt:
			st, err := g.rangeStmt(s, c, selF)
			if err != nil {
				return nil, err
			}
			out = append(out, st...)
		default:
			if a, ok := g.call(s, "walkList"); ok {
				if f, ok := selF(a); ok {
					out = append(out, g.mk(c, "List", f, false))
					continue
				}
			}
			return nil, fmt.Errorf("ast.Walk: statement outside the fragment: %s", g.src(s))
		}
	}
	return out, nil
}

func (g *walkGen) rangeStmt(s *ast.RangeStmt, c walkCtx, selF func(ast.Expr) (string, bool)) ([]walkStep, error) {
	bad := func() ([]walkStep, error) {
		return nil, fmt.Errorf("ast.Walk: range statement outside the fragment: %s", g.src(s))
	}
	f, ok := selF(s.X)
	if !ok || s.Tok != token.DEFINE || s.Value == nil || len(s.Body.List) != 1 {
		return bad()
	}
	if k, ok := s.Key.(*ast.Ident); !ok || k.Name != "_" {
		return bad()
	}
	xv, ok := s.Value.(*ast.Ident)
	if !ok {
		return bad()
	}
	b := s.Body.List[0]
	if a, ok := g.call(b, "walkList"); ok {
		if id, ok := a.(*ast.Ident); ok && id.Name == xv.Name {
			return []walkStep{g.mk(c, "ListList", f, false)}, nil
		}
		return bad()
	}
	if a, ok := g.call(b, "Walk"); ok {
		if id, ok := a.(*ast.Ident); ok && id.Name == xv.Name {
			shape := "List"
			if tv, ok := g.ai.pkg.Info.Types[s.X]; ok {
				if _, ok := types.Unalias(tv.Type).Underlying().(*types.Map); ok {
					shape = "Map"
				}
			}
			return []walkStep{g.mk(c, shape, f, false)}, nil
		}
		return bad()
	}
	// if e, ok := part.(Expr); ok { Walk(v, e) }
	is, ok := b.(*ast.IfStmt)
	if !ok || is.Else != nil || is.Init == nil || len(is.Body.List) != 1 {
		return bad()
	}
	as, ok := is.Init.(*ast.AssignStmt)
	if !ok || as.Tok != token.DEFINE || len(as.Lhs) != 2 || len(as.Rhs) != 1 {
		return bad()
	}
	e0, ok0 := as.Lhs[0].(*ast.Ident)
	ok1, ok1b := as.Lhs[1].(*ast.Ident)
	ta, ok2 := as.Rhs[0].(*ast.TypeAssertExpr)
	if !ok0 || !ok1b || !ok2 {
		return bad()
	}
	if id, ok := ta.X.(*ast.Ident); !ok || id.Name != xv.Name {
		return bad()
	}
	if id, ok := ta.Type.(*ast.Ident); !ok || id.Name != "Expr" {
		return bad()
	}
	if id, ok := is.Cond.(*ast.Ident); !ok || id.Name != ok1.Name {
		return bad()
	}
	a, ok := g.call(is.Body.List[0], "Walk")
	if !ok {
		return bad()
	}
	if id, ok := a.(*ast.Ident); !ok || id.Name != e0.Name {
		return bad()
	}
	return []walkStep{g.mk(c, "Parts", f, false)}, nil
}

func coqOptStr(s string) string {
	if s == "" {
		return "None"
	}
	return "(Some " + coqString(s) + ")"
}

func coqBool(b bool) string {
	if b {
		return "true"
	}
	return "false"
}

func coqWStep(s walkStep) string {
	via := "None"
	if s.Via != "" {
		via = fmt.Sprintf("(Some (%s, %s, %s))", coqString(s.Via), coqString(s.ViaKind), coqBool(s.ViaGuard))
	}
	return fmt.Sprintf("WStep %s %s S%s %s %s", coqOptStr(s.Unless), via, s.Shape, coqString(s.Field), coqBool(s.Guard))
}

func genAstWalk(e *Env) error {
	ai, err := loadAstInfo(e)
	if err != nil {
		return err
	}
	fd := ai.pkg.Func("Walk")
	if fd == nil {
		return fmt.Errorf("ast.Walk not found")
	}
	if len(fd.Type.Params.List) != 2 || len(fd.Type.Params.List[0].Names) != 1 || len(fd.Type.Params.List[1].Names) != 1 {
		return fmt.Errorf("ast.Walk: unexpected signature")
	}
	g := &walkGen{ai: ai, visitor: fd.Type.Params.List[0].Names[0].Name}
	nodeParam := fd.Type.Params.List[1].Names[0].Name
	// shape of the body:  if v = v.Visit(node); v == nil { return } ; switch n := node.(type) {...} ; v.Visit(nil)
	body := fd.Body.List
	if len(body) != 3 {
		return fmt.Errorf("ast.Walk: body is not  visit; switch; visit(nil)  (%d statements)", len(body))
	}
	first := strings.Join(strings.Fields(ai.pkg.Src(body[0])), " ")
	wantFirst := fmt.Sprintf("if %[1]s = %[1]s.Visit(%[2]s); %[1]s == nil { return }", g.visitor, nodeParam)
	if first != wantFirst {
		return fmt.Errorf("ast.Walk: first statement is %q, expected %q", first, wantFirst)
	}
	last := strings.Join(strings.Fields(ai.pkg.Src(body[2])), " ")
	if last != g.visitor+".Visit(nil)" {
		return fmt.Errorf("ast.Walk: last statement is %q", last)
	}
	ts, ok := body[1].(*ast.TypeSwitchStmt)
	if !ok || ts.Init != nil {
		return fmt.Errorf("ast.Walk: second statement is not a type switch")
	}
	tas, ok := ts.Assign.(*ast.AssignStmt)
	if !ok || len(tas.Lhs) != 1 {
		return fmt.Errorf("ast.Walk: type switch without binding")
	}
	nv := tas.Lhs[0].(*ast.Ident).Name
	if ta, ok := tas.Rhs[0].(*ast.TypeAssertExpr); !ok || ta.Type != nil || ai.pkg.Src(ta.X) != nodeParam {
		return fmt.Errorf("ast.Walk: type switch is not on the node parameter")
	}
	var cases []walkCase
	seen := map[string]bool{}
	defaultPanics := false
	for _, cc := range ts.Body.List {
		cl := cc.(*ast.CaseClause)
		if cl.List == nil {
			if len(cl.Body) == 1 && strings.HasPrefix(ai.pkg.Src(cl.Body[0]), "panic(") {
				defaultPanics = true
				continue
			}
			return fmt.Errorf("ast.Walk: default case is not a panic")
		}
		var kinds []string
		for _, t := range cl.List {
			st, ok := t.(*ast.StarExpr)
			if !ok {
				return fmt.Errorf("ast.Walk: case %s is not a pointer type", ai.pkg.Src(t))
			}
			id, ok := st.X.(*ast.Ident)
			if !ok {
				return fmt.Errorf("ast.Walk: case %s", ai.pkg.Src(t))
			}
			if seen[id.Name] {
				return fmt.Errorf("ast.Walk: duplicate case %s", id.Name)
			}
			seen[id.Name] = true
			kinds = append(kinds, id.Name)
		}
		holder := nv
		if len(kinds) > 1 && len(cl.Body) > 0 {
			return fmt.Errorf("ast.Walk: multi-type case with a body")
		}
		steps, err := g.stmts(cl.Body, walkCtx{holder: holder})
		if err != nil {
			return err
		}
		if steps == nil {
			steps = []walkStep{}
		}
		cases = append(cases, walkCase{Kinds: kinds, Steps: steps})
	}
	if !defaultPanics {
		return fmt.Errorf("ast.Walk: no panicking default case")
	}
	var rows []string
	for _, c := range cases {
		var ss []string
		for _, s := range c.Steps {
			ss = append(ss, coqWStep(s))
		}
		for _, k := range c.Kinds {
			rows = append(rows, fmt.Sprintf("(%s, %s)", coqString(k), coqList(ss, 0)))
		}
	}
	var out strings.Builder
	out.WriteString(astGenHeader)
	out.WriteString("(* per case of the type switch of ast.Walk: the walked fields in order, with guards *)\n")
	fmt.Fprintf(&out, "Definition walk_table : list (string * list wstep) :=\n  %s.\n", coqList(rows, 1))
	if err := e.WriteJSON("astwalk", cases); err != nil {
		return err
	}
	return e.WriteV("AstWalk", out.String())
}
