package main

// GEN-RECOVERSITES (C07): audit of the recover skeleton of the compiler entry points
//   cl.NewPackage, pkgCtx.loadSymbol, loadImport, compileStmt, x/build Context.BuildFile /
//   BuildFSDir / BuildDir          ->  Gen/RecoverSites.v + recoversites.json
//
// Per entry point: is there a TOP-LEVEL statement `defer func() { ... recover() ... }()`
// (directly, or as the only statement of `if enableRecover { ... }`), the callee names of every
// call that is evaluated BEFORE that defer is registered (they run unprotected), the callees and
// the assigned identifiers of the handler, and whether a re-panic occurs in the handler.
// Also: the initial value of `enableRecover`, and the overload index table of overloadFuncName.
// A site that is missing or whose shape cannot be read makes the generator fail.

import (
	"fmt"
	"go/ast"
	"go/token"
	"sort"
	"strconv"
	"strings"
)

func init() { register("recoversites", genRecoverSites) }

type recoverSite struct {
	Dir          string   `json:"dir"`
	Func         string   `json:"func"`
	HasDefer     bool     `json:"has_defer_recover"`
	Guarded      bool     `json:"guarded_by_enableRecover"`
	StmtsBefore  int      `json:"stmts_before_defer"`
	CallsBefore  []string `json:"calls_before_defer"`
	DefersBefore []string `json:"defers_before"` // other deferred calls registered before (they run AFTER the recover)
	HandlerCalls []string `json:"handler_calls"`
	HandlerSets  []string `json:"handler_assigns"`
	Repanics     bool     `json:"handler_repanics"`
	NamedErr     bool     `json:"named_result_err"`
}

func containsRecover(n ast.Node) bool {
	found := false
	ast.Inspect(n, func(x ast.Node) bool {
		if c, ok := x.(*ast.CallExpr); ok {
			if id, ok := c.Fun.(*ast.Ident); ok && id.Name == "recover" && len(c.Args) == 0 {
				found = true
			}
		}
		return !found
	})
	return found
}

// deferRecover returns the func literal of `defer func(){...recover()...}()`.
func deferRecover(s ast.Stmt) *ast.FuncLit {
	d, ok := s.(*ast.DeferStmt)
	if !ok {
		return nil
	}
	fl, ok := d.Call.Fun.(*ast.FuncLit)
	if !ok || len(d.Call.Args) != 0 || !containsRecover(fl.Body) {
		return nil
	}
	return fl
}

func calleeNames(p *Pkg, n ast.Node) []string {
	var out []string
	seen := map[string]bool{}
	ast.Inspect(n, func(x ast.Node) bool {
		switch c := x.(type) {
		case *ast.DeferStmt:
			if x != n {
				return false // registered, not called here (reported under defers_before)
			}
		case *ast.FuncLit:
			return false // a closure that is only created, not called
		case *ast.CallExpr:
			name := "<func-literal>"
			if _, isLit := c.Fun.(*ast.FuncLit); !isLit {
				name = p.Src(c.Fun)
			}
			if !seen[name] {
				seen[name] = true
				out = append(out, name)
			}
		}
		return true
	})
	sort.Strings(out)
	return out
}

func auditRecover(p *Pkg, dir, fn string) (*recoverSite, error) {
	fd := p.Func(fn)
	if fd == nil || fd.Body == nil {
		return nil, fmt.Errorf("%s: func %s not found", dir, fn)
	}
	s := &recoverSite{Dir: dir, Func: fn, CallsBefore: []string{}, DefersBefore: []string{}, HandlerCalls: []string{}, HandlerSets: []string{}}
	if r := fd.Type.Results; r != nil {
		for _, f := range r.List {
			for _, n := range f.Names {
				if n.Name == "err" {
					s.NamedErr = true
				}
			}
		}
	}
	var handler *ast.FuncLit
	for i, st := range fd.Body.List {
		if fl := deferRecover(st); fl != nil {
			handler, s.StmtsBefore = fl, i
			break
		}
		if ifs, ok := st.(*ast.IfStmt); ok && ifs.Init == nil && ifs.Else == nil && len(ifs.Body.List) == 1 {
			if id, ok := ifs.Cond.(*ast.Ident); ok && id.Name == "enableRecover" {
				if fl := deferRecover(ifs.Body.List[0]); fl != nil {
					handler, s.StmtsBefore, s.Guarded = fl, i, true
					break
				}
			}
		}
	}
	if handler == nil {
		return s, nil
	}
	s.HasDefer = true
	calls := map[string]bool{}
	for _, st := range fd.Body.List[:s.StmtsBefore] {
		// a defer registered earlier runs after the recover handler, unprotected
		ast.Inspect(st, func(x ast.Node) bool {
			if d, ok := x.(*ast.DeferStmt); ok {
				if fl, ok := d.Call.Fun.(*ast.FuncLit); ok {
					for _, c := range calleeNames(p, fl.Body) {
						s.DefersBefore = append(s.DefersBefore, c)
					}
				} else {
					s.DefersBefore = append(s.DefersBefore, p.Src(d.Call.Fun))
				}
				return false
			}
			return true
		})
		for _, c := range calleeNames(p, st) {
			calls[c] = true
		}
	}
	for c := range calls {
		s.CallsBefore = append(s.CallsBefore, c)
	}
	sort.Strings(s.CallsBefore)
	sort.Strings(s.DefersBefore)
	for _, c := range calleeNames(p, handler.Body) {
		if c == "panic" {
			s.Repanics = true
		}
		s.HandlerCalls = append(s.HandlerCalls, c)
	}
	sets := map[string]bool{}
	ast.Inspect(handler.Body, func(x ast.Node) bool {
		if a, ok := x.(*ast.AssignStmt); ok && a.Tok == token.ASSIGN {
			for _, l := range a.Lhs {
				sets[p.Src(l)] = true
			}
		}
		return true
	})
	for k := range sets {
		s.HandlerSets = append(s.HandlerSets, k)
	}
	sort.Strings(s.HandlerSets)
	return s, nil
}

func g9StrList(xs []string) (string, error) {
	var items []string
	for _, x := range xs {
		q, err := g9AsciiString(x)
		if err != nil {
			return "", err
		}
		items = append(items, q)
	}
	return coqList(items, 0), nil
}

func g9Bool(b bool) string {
	if b {
		return "true"
	}
	return "false"
}

func genRecoverSites(e *Env) error {
	specs := []struct {
		dir   string
		funcs []string
	}{
		{"cl", []string{"NewPackage", "pkgCtx.loadSymbol", "loadImport", "compileStmt"}},
		{"x/build", []string{"Context.BuildFile", "Context.BuildFSDir", "Context.BuildDir"}},
	}
	var sites []*recoverSite
	var enableDefault, indexTable string
	for _, sp := range specs {
		p, err := e.Load(sp.dir, false)
		if err != nil {
			return err
		}
		for _, fn := range sp.funcs {
			s, err := auditRecover(p, sp.dir, fn)
			if err != nil {
				return err
			}
			sites = append(sites, s)
		}
		if sp.dir == "cl" {
			for _, f := range p.Files {
				for _, d := range f.Decls {
					gd, ok := d.(*ast.GenDecl)
					if !ok {
						continue
					}
					for _, spc := range gd.Specs {
						vs, ok := spc.(*ast.ValueSpec)
						if !ok {
							continue
						}
						for i, n := range vs.Names {
							if i < len(vs.Values) && n.Name == "enableRecover" && gd.Tok == token.VAR {
								enableDefault = p.Src(vs.Values[i])
							}
							if i < len(vs.Values) && n.Name == "indexTable" && gd.Tok == token.CONST {
								if bl, ok := vs.Values[i].(*ast.BasicLit); ok && bl.Kind == token.STRING {
									v, err := strconv.Unquote(bl.Value)
									if err != nil {
										return err
									}
									indexTable = v
								}
							}
						}
					}
				}
			}
			// overloadFuncName must still be  name + "__" + indexTable[idx:idx+1]
			fd := p.Func("overloadFuncName")
			if fd == nil {
				return fmt.Errorf("cl: overloadFuncName not found")
			}
			if got := strings.Join(strings.Fields(p.Src(fd.Body)), " "); got != `{ return name + "__" + indexTable[idx:idx+1] }` {
				return fmt.Errorf("cl: overloadFuncName has a new body (%s): the hand model overload_func_name must be reviewed", got)
			}
		}
	}
	if enableDefault != "true" && enableDefault != "false" {
		return fmt.Errorf("cl: initial value of enableRecover not found (got %q)", enableDefault)
	}
	if indexTable == "" {
		return fmt.Errorf("cl: const indexTable not found")
	}
	var out strings.Builder
	out.WriteString("From Coq Require Import List String NArith.\nImport ListNotations.\nOpen Scope string_scope.\n\n")
	out.WriteString("Record recover_site := { rs_dir : string; rs_func : string; rs_has_defer : bool; rs_guarded : bool;\n")
	out.WriteString("  rs_calls_before : list string; rs_defers_before : list string; rs_handler_calls : list string;\n")
	out.WriteString("  rs_handler_sets : list string; rs_repanics : bool; rs_named_err : bool }.\n\n")
	var items []string
	for _, s := range sites {
		cb, err := g9StrList(s.CallsBefore)
		if err != nil {
			return err
		}
		db, err := g9StrList(s.DefersBefore)
		if err != nil {
			return err
		}
		hc, err := g9StrList(s.HandlerCalls)
		if err != nil {
			return err
		}
		hs, err := g9StrList(s.HandlerSets)
		if err != nil {
			return err
		}
		items = append(items, fmt.Sprintf("{| rs_dir := %s; rs_func := %s; rs_has_defer := %s; rs_guarded := %s;\n      rs_calls_before := %s;\n      rs_defers_before := %s; rs_handler_calls := %s;\n      rs_handler_sets := %s; rs_repanics := %s; rs_named_err := %s |}",
			coqString(s.Dir), coqString(s.Func), g9Bool(s.HasDefer), g9Bool(s.Guarded), cb, db, hc, hs, g9Bool(s.Repanics), g9Bool(s.NamedErr)))
	}
	fmt.Fprintf(&out, "Definition recover_sites : list recover_site :=\n  %s.\n\n", coqList(items, 1))
	fmt.Fprintf(&out, "Definition enable_recover_default : bool := %s.\n\n", enableDefault)
	fmt.Fprintf(&out, "(* const indexTable of cl/compile.go (overloadFuncName) *)\nDefinition index_table : list N := %s.\n", coqBytes(indexTable))
	if err := e.WriteJSON("recoversites", map[string]interface{}{"sites": sites, "enable_recover_default": enableDefault, "index_table": indexTable}); err != nil {
		return err
	}
	return e.WriteV("RecoverSites", out.String())
}
