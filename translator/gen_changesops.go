package main

// C40 K-gen: x/watcher/changes.go -> Gen/ChangesOps.v
//
// The bodies of Changes.FileChanged and Changes.Fetch are read statement by statement; every
// statement that mentions the shared state of the receiver (fields changed, mutex, cond) must
// have one of the shapes below and is emitted as a constructor of Base/C40Ops.cop; statements
// that mention none of these fields (dir := path.Dir(name), the fullPath prefixing, return) have
// no effect on the shared state and are listed in the JSON side copy only.  A statement on the
// shared state with an unknown shape is an error (never guessed).  Also emitted: which functions
// of the package mention the fields `changed` / `cond`, and whether NewChanges ties cond.L to the
// mutex.

import (
	"fmt"
	"go/ast"
	"go/token"
	"sort"
	"strings"
)

func init() { register("changesops", genChangesOps) }

var changesShared = map[string]bool{"changed": true, "mutex": true, "cond": true}

type chgFn struct {
	recv  string
	p     *Pkg
	ops   []string
	pure  []string
	local map[string]string // local variable -> what it holds ("len" = len(p.changed))
}

// recvField returns the field name if e is <recv>.<field>
func (c *chgFn) recvField(e ast.Expr) string {
	if s, ok := e.(*ast.SelectorExpr); ok {
		if id, ok := s.X.(*ast.Ident); ok && id.Name == c.recv {
			return s.Sel.Name
		}
	}
	return ""
}

// call on a field of the receiver: <recv>.<field>.<method>() with no arguments
func (c *chgFn) fieldCall(e ast.Expr) (field, method string) {
	call, ok := e.(*ast.CallExpr)
	if !ok || len(call.Args) != 0 {
		return "", ""
	}
	s, ok := call.Fun.(*ast.SelectorExpr)
	if !ok {
		return "", ""
	}
	f := c.recvField(s.X)
	if f == "" {
		return "", ""
	}
	return f, s.Sel.Name
}

// len(<recv>.changed)
func (c *chgFn) isLenChanged(e ast.Expr) bool {
	call, ok := e.(*ast.CallExpr)
	if !ok || len(call.Args) != 1 {
		return false
	}
	if id, ok := call.Fun.(*ast.Ident); !ok || id.Name != "len" {
		return false
	}
	return c.recvField(call.Args[0]) == "changed"
}

func isZero(e ast.Expr) bool {
	b, ok := e.(*ast.BasicLit)
	return ok && b.Kind == token.INT && b.Value == "0"
}

func (c *chgFn) mentionsShared(n ast.Node) bool {
	found := false
	ast.Inspect(n, func(x ast.Node) bool {
		if s, ok := x.(*ast.SelectorExpr); ok {
			if id, ok := s.X.(*ast.Ident); ok && id.Name == c.recv && changesShared[s.Sel.Name] {
				found = true
			}
		}
		return !found
	})
	return found
}

// simple statement on the condition variable / mutex
func (c *chgFn) simple(st ast.Stmt) (string, bool) {
	es, ok := st.(*ast.ExprStmt)
	if !ok {
		return "", false
	}
	f, m := c.fieldCall(es.X)
	switch {
	case f == "mutex" && m == "Lock":
		return "OLock", true
	case f == "mutex" && m == "Unlock":
		return "OUnlock", true
	case f == "cond" && m == "Broadcast":
		return "OBroadcast", true
	case f == "cond" && m == "Signal":
		return "OSignal", true
	case f == "cond" && m == "Wait":
		return "OWait", true
	}
	return "", false
}

func (c *chgFn) singleBody(b *ast.BlockStmt) (string, bool) {
	if b == nil || len(b.List) != 1 {
		return "", false
	}
	return c.simple(b.List[0])
}

func (c *chgFn) stmt(st ast.Stmt) error {
	src := strings.Join(strings.Fields(c.p.Src(st)), " ")
	if !c.mentionsShared(st) {
		// uses of a local that holds len(p.changed) are still about the shared state
		usesLen := false
		ast.Inspect(st, func(x ast.Node) bool {
			if id, ok := x.(*ast.Ident); ok && c.local[id.Name] == "len" {
				usesLen = true
			}
			return true
		})
		if !usesLen {
			c.pure = append(c.pure, src)
			return nil
		}
	}
	if op, ok := c.simple(st); ok {
		c.ops = append(c.ops, op)
		return nil
	}
	switch s := st.(type) {
	case *ast.AssignStmt:
		// n := len(p.changed)
		if s.Tok == token.DEFINE && len(s.Lhs) == 1 && len(s.Rhs) == 1 && c.isLenChanged(s.Rhs[0]) {
			if id, ok := s.Lhs[0].(*ast.Ident); ok {
				c.local[id.Name] = "len"
				c.ops = append(c.ops, "OReadLen")
				return nil
			}
		}
		// p.changed[dir] = none{}
		if s.Tok == token.ASSIGN && len(s.Lhs) == 1 && len(s.Rhs) == 1 {
			if ix, ok := s.Lhs[0].(*ast.IndexExpr); ok && c.recvField(ix.X) == "changed" {
				if _, ok := ix.Index.(*ast.Ident); ok {
					if cl, ok := s.Rhs[0].(*ast.CompositeLit); ok && len(cl.Elts) == 0 {
						c.ops = append(c.ops, "OInsert")
						return nil
					}
				}
			}
		}
	case *ast.IfStmt:
		if s.Init == nil && s.Else == nil {
			if be, ok := s.Cond.(*ast.BinaryExpr); ok && be.Op == token.EQL && isZero(be.Y) {
				if body, ok := c.singleBody(s.Body); ok {
					// if n == 0 { ... }  with n the local holding len(p.changed)
					if id, ok := be.X.(*ast.Ident); ok && c.local[id.Name] == "len" {
						c.ops = append(c.ops, "OIfZero "+body)
						return nil
					}
					// if len(p.changed) == 0 { ... }
					if c.isLenChanged(be.X) {
						c.ops = append(c.ops, "OIfEmpty "+body)
						return nil
					}
				}
			}
		}
	case *ast.ForStmt:
		// for len(p.changed) == 0 { ... }
		if s.Init == nil && s.Post == nil && s.Cond != nil {
			if be, ok := s.Cond.(*ast.BinaryExpr); ok && be.Op == token.EQL && isZero(be.Y) && c.isLenChanged(be.X) {
				if body, ok := c.singleBody(s.Body); ok {
					c.ops = append(c.ops, "OWhileEmpty "+body)
					return nil
				}
			}
		}
	case *ast.RangeStmt:
		// for dir = range p.changed { delete(p.changed, dir); break }
		if s.Tok == token.ASSIGN && s.Value == nil && c.recvField(s.X) == "changed" && len(s.Body.List) == 2 {
			key, ok1 := s.Key.(*ast.Ident)
			del, ok2 := s.Body.List[0].(*ast.ExprStmt)
			brk, ok3 := s.Body.List[1].(*ast.BranchStmt)
			if ok1 && ok2 && ok3 && brk.Tok == token.BREAK && brk.Label == nil {
				if call, ok := del.X.(*ast.CallExpr); ok && len(call.Args) == 2 {
					fn, okf := call.Fun.(*ast.Ident)
					arg, oka := call.Args[1].(*ast.Ident)
					if okf && oka && fn.Name == "delete" && c.recvField(call.Args[0]) == "changed" && arg.Name == key.Name {
						c.ops = append(c.ops, "OTakeOne")
						return nil
					}
				}
			}
		}
	}
	return fmt.Errorf("statement on the shared state with an unknown shape: %s", src)
}

func genChangesOps(e *Env) error {
	p, err := e.Load("x/watcher", false)
	if err != nil {
		return err
	}
	type fnOut struct {
		Ops  []string `json:"ops"`
		Pure []string `json:"pure"`
		Src  string   `json:"src"`
	}
	outJSON := map[string]interface{}{}
	lists := map[string]string{}
	for _, name := range []string{"FileChanged", "Fetch"} {
		fd := p.Func("Changes." + name)
		if fd == nil || fd.Body == nil {
			return fmt.Errorf("x/watcher: method Changes.%s not found", name)
		}
		if fd.Recv == nil || len(fd.Recv.List) != 1 || len(fd.Recv.List[0].Names) != 1 {
			return fmt.Errorf("x/watcher: Changes.%s has no named receiver", name)
		}
		c := &chgFn{recv: fd.Recv.List[0].Names[0].Name, p: p, local: map[string]string{}}
		for _, st := range fd.Body.List {
			if _, ok := st.(*ast.DeferStmt); ok {
				return fmt.Errorf("Changes.%s: defer statement (not a straight-line body)", name)
			}
			if err := c.stmt(st); err != nil {
				return fmt.Errorf("Changes.%s: %v", name, err)
			}
		}
		var items []string
		for _, o := range c.ops {
			items = append(items, o)
		}
		lists[name] = coqList(items, 0)
		outJSON[name] = fnOut{Ops: c.ops, Pure: c.pure, Src: p.Src(fd)}
	}
	// who mentions the fields `changed` / `cond` (any receiver / variable name)
	users := map[string]map[string]bool{"changed": {}, "cond": {}}
	condUsesMutex := false
	for _, f := range p.Files {
		for _, d := range f.Decls {
			fd, ok := d.(*ast.FuncDecl)
			if !ok || fd.Body == nil {
				continue
			}
			ast.Inspect(fd.Body, func(x ast.Node) bool {
				switch n := x.(type) {
				case *ast.SelectorExpr:
					if users[n.Sel.Name] != nil {
						users[n.Sel.Name][fd.Name.Name] = true
					}
				case *ast.KeyValueExpr: // composite literal &Changes{changed: ...}
					if id, ok := n.Key.(*ast.Ident); ok && users[id.Name] != nil {
						users[id.Name][fd.Name.Name] = true
					}
				case *ast.AssignStmt:
					// c.cond.L = &c.mutex
					if fd.Name.Name == "NewChanges" && len(n.Lhs) == 1 && len(n.Rhs) == 1 {
						l := strings.Join(strings.Fields(p.Src(n.Lhs[0])), "")
						r := strings.Join(strings.Fields(p.Src(n.Rhs[0])), "")
						if strings.HasSuffix(l, ".cond.L") && strings.HasPrefix(r, "&") && strings.HasSuffix(r, ".mutex") &&
							strings.TrimSuffix(l, ".cond.L") == strings.TrimSuffix(strings.TrimPrefix(r, "&"), ".mutex") {
							condUsesMutex = true
						}
					}
				}
				return true
			})
		}
	}
	strs := func(m map[string]bool) string {
		var ks []string
		for k := range m {
			ks = append(ks, k)
		}
		sort.Strings(ks)
		var items []string
		for _, k := range ks {
			items = append(items, coqString(k)+"%string")
		}
		return coqList(items, 0)
	}
	outJSON["changed_users"] = users["changed"]
	outJSON["cond_users"] = users["cond"]
	outJSON["cond_uses_mutex"] = condUsesMutex
	var out strings.Builder
	out.WriteString("From Coq Require Import List String.\nImport ListNotations.\nFrom V Require Import Base.C40Ops.\n\n")
	out.WriteString("(* x/watcher/changes.go: statements of Changes.FileChanged / Changes.Fetch that touch p.changed, p.mutex, p.cond, in program order *)\n")
	fmt.Fprintf(&out, "Definition gen_filechanged : list cop := %s.\n", lists["FileChanged"])
	fmt.Fprintf(&out, "Definition gen_fetch : list cop := %s.\n", lists["Fetch"])
	out.WriteString("(* functions of package watcher that mention the field `changed` / `cond` *)\n")
	fmt.Fprintf(&out, "Definition gen_changed_users : list string := %s.\n", strs(users["changed"]))
	fmt.Fprintf(&out, "Definition gen_cond_users : list string := %s.\n", strs(users["cond"]))
	out.WriteString("(* NewChanges sets c.cond.L = &c.mutex *)\n")
	fmt.Fprintf(&out, "Definition gen_cond_uses_mutex : bool := %v.\n", condUsesMutex)
	if err := e.WriteJSON("changesops", outJSON); err != nil {
		return err
	}
	return e.WriteV("ChangesOps", out.String())
}
