package main

// GEN printerexpr: the operand contexts of printer/nodes.go expr1 / binaryExpr / selectorExpr  ->  Gen/PrinterExpr.v
//
// For every case of the type switch of (*printer).expr1 (and for the helpers binaryExpr and selectorExpr, attributed
// to BinaryExpr / SelectorExpr) the generator lists
//   - every call that prints an operand:  p.expr1(x.F, CTX, ..) | p.expr0(x.F, ..) | p.expr(x.F) |
//     p.possibleSelectorExpr(x.F, CTX, ..) | p.exprList(.., x.F, ..)   as (kind, field, context text)
//   - every if-condition or assigned expression that mentions prec1 (the parenthesisation decisions) as (kind, text)
// plus the constants token.LowestPrec / UnaryPrec / HighestPrec and the mayCombine table of printer.go.
// Model/Expr.v is written against exactly these contexts; Proofs/ExprGen.v compares the regenerated lists with the
// reviewed ones by computation.  Nothing is guessed: a call whose operand is not of the form x.F / x.F[i] is reported
// with its source text.

import (
	"fmt"
	"go/ast"
	"go/constant"
	"go/token"
	"go/types"
	"sort"
	"strings"
)

func init() { register("printerexpr", genPrinterExpr) }

type pxEntry struct{ Kind, Field, Ctx string }

func genPrinterExpr(e *Env) error {
	p, err := e.Load("printer", true)
	if err != nil {
		return err
	}
	tk, err := e.Load("token", true)
	if err != nil {
		return err
	}
	if p.Types == nil || tk.Types == nil {
		return fmt.Errorf("printer/token: type check failed")
	}
	var out strings.Builder
	out.WriteString("From Coq Require Import List ZArith String.\nImport ListNotations.\nOpen Scope Z_scope.\nOpen Scope string_scope.\n\n")
	for _, n := range []string{"LowestPrec", "UnaryPrec", "HighestPrec"} {
		c, ok := tk.Types.Scope().Lookup(n).(*types.Const)
		if !ok {
			return fmt.Errorf("token.%s not found", n)
		}
		v, exact := constant.Int64Val(c.Val())
		if !exact {
			return fmt.Errorf("token.%s is not an integer constant", n)
		}
		fmt.Fprintf(&out, "Definition px_%s : Z := %s.\n", n, coqZ(v))
	}
	out.WriteString("\n")

	var ops []pxEntry
	var conds []pxEntry
	collect := func(kind string, body []ast.Stmt) {
		for _, st := range body {
			ast.Inspect(st, func(n ast.Node) bool {
				switch v := n.(type) {
				case *ast.IfStmt:
					src := normSrc(p.Src(v.Cond))
					if strings.Contains(src, "prec1") {
						conds = append(conds, pxEntry{kind, "", src})
					}
				case *ast.AssignStmt:
					for _, r := range v.Rhs {
						if _, isCall := r.(*ast.CallExpr); isCall {
							continue
						}
						if src := normSrc(p.Src(r)); strings.Contains(src, "prec1") {
							conds = append(conds, pxEntry{kind, "", src})
						}
					}
				case *ast.CallExpr:
					se, ok := v.Fun.(*ast.SelectorExpr)
					if !ok {
						return true
					}
					if id, ok := se.X.(*ast.Ident); !ok || id.Name != "p" {
						return true
					}
					var opnd ast.Expr
					ctx := ""
					switch se.Sel.Name {
					case "expr1", "possibleSelectorExpr":
						if len(v.Args) >= 2 {
							opnd, ctx = v.Args[0], normSrc(p.Src(v.Args[1]))
						}
					case "expr0":
						if len(v.Args) >= 1 {
							opnd, ctx = v.Args[0], "expr0"
						}
					case "expr":
						if len(v.Args) == 1 {
							opnd, ctx = v.Args[0], "expr"
						}
					case "exprList":
						if len(v.Args) >= 2 {
							opnd, ctx = v.Args[1], "exprList"
						}
					case "identList":
						if len(v.Args) >= 1 {
							opnd, ctx = v.Args[0], "identList"
						}
					case "selectorExpr", "binaryExpr":
						if len(v.Args) >= 1 {
							opnd, ctx = v.Args[0], se.Sel.Name
						}
					default:
						return true
					}
					if opnd == nil {
						return true
					}
					ops = append(ops, pxEntry{kind, normSrc(p.Src(opnd)), ctx})
				}
				return true
			})
		}
	}
	fd := p.Func("printer.expr1")
	if fd == nil {
		return fmt.Errorf("printer.expr1 not found")
	}
	var sw *ast.TypeSwitchStmt
	for _, st := range fd.Body.List {
		if s, ok := st.(*ast.TypeSwitchStmt); ok {
			sw = s
		}
	}
	if sw == nil {
		return fmt.Errorf("printer.expr1: type switch not found")
	}
	for _, c := range sw.Body.List {
		cc := c.(*ast.CaseClause)
		if cc.List == nil {
			continue
		}
		var kinds []string
		for _, t := range cc.List {
			kinds = append(kinds, strings.TrimPrefix(normSrc(p.Src(t)), "*ast."))
		}
		collect(strings.Join(kinds, ","), cc.Body)
	}
	for fn, kind := range map[string]string{"printer.binaryExpr": "BinaryExpr#binaryExpr", "printer.selectorExpr": "SelectorExpr#selectorExpr", "printer.possibleSelectorExpr": "#possibleSelectorExpr"} {
		f := p.Func(fn)
		if f == nil {
			return fmt.Errorf("%s not found", fn)
		}
		collect(kind, f.Body.List)
	}
	sort.SliceStable(ops, func(i, j int) bool { return ops[i].Kind < ops[j].Kind })
	sort.SliceStable(conds, func(i, j int) bool { return conds[i].Kind < conds[j].Kind })
	// only the kinds of Model/Expr.v are emitted into Coq; the full list goes to the JSON side copy
	modelled := map[string]bool{"BinaryExpr": true, "BinaryExpr#binaryExpr": true, "StarExpr": true, "UnaryExpr": true, "ParenExpr": true,
		"SelectorExpr": true, "SelectorExpr#selectorExpr": true, "IndexExpr": true, "CallExpr": true, "ErrWrapExpr": true, "LambdaExpr": true,
		"#possibleSelectorExpr": true, "Ident": true, "BasicLit": true}
	ascii := func(s string) bool {
		for i := 0; i < len(s); i++ {
			if s[i] < 32 || s[i] > 126 {
				return false
			}
		}
		return true
	}
	out.WriteString("(* (node kind of the expr1 type switch, operand, context it is printed in) *)\nDefinition px_operands : list (string * string * string) := [\n")
	first := true
	for _, o := range ops {
		if !modelled[o.Kind] {
			continue
		}
		if !ascii(o.Field) || !ascii(o.Ctx) {
			return fmt.Errorf("non-ASCII source text in expr1 (%s)", o.Kind)
		}
		if !first {
			out.WriteString(";\n")
		}
		first = false
		fmt.Fprintf(&out, "  (%s, %s, %s)", coqString(o.Kind), coqString(o.Field), coqString(o.Ctx))
	}
	out.WriteString("\n].\n\n(* (node kind, condition mentioning prec1) *)\nDefinition px_paren_conds : list (string * string) := [\n")
	first = true
	for _, c := range conds {
		if !ascii(c.Ctx) {
			return fmt.Errorf("non-ASCII source text in expr1 (%s)", c.Kind)
		}
		if !first {
			out.WriteString(";\n")
		}
		first = false
		fmt.Fprintf(&out, "  (%s, %s)", coqString(c.Kind), coqString(c.Ctx))
	}
	out.WriteString("\n].\n\n")

	// mayCombine: switch prev { case token.X: b = next == 'c' || ... }
	mc := p.Func("mayCombine")
	if mc == nil || len(mc.Body.List) < 1 {
		return fmt.Errorf("mayCombine not found")
	}
	msw, ok := mc.Body.List[0].(*ast.SwitchStmt)
	if !ok {
		return fmt.Errorf("mayCombine: switch expected")
	}
	type mcRow struct {
		Tok   int64
		Bytes []int64
	}
	var rows []mcRow
	for _, c := range msw.Body.List {
		cc := c.(*ast.CaseClause)
		if cc.List == nil || len(cc.Body) != 1 {
			return fmt.Errorf("mayCombine: case with a single assignment expected")
		}
		as, ok := cc.Body[0].(*ast.AssignStmt)
		if !ok || as.Tok != token.ASSIGN || len(as.Rhs) != 1 {
			return fmt.Errorf("mayCombine: assignment b = ... expected")
		}
		var bytes []int64
		var walk func(x ast.Expr) error
		walk = func(x ast.Expr) error {
			switch v := x.(type) {
			case *ast.ParenExpr:
				return walk(v.X)
			case *ast.BinaryExpr:
				if v.Op == token.LOR {
					if err := walk(v.X); err != nil {
						return err
					}
					return walk(v.Y)
				}
				if v.Op == token.EQL {
					if id, ok := v.X.(*ast.Ident); ok && id.Name == "next" {
						if tv, ok := p.Info.Types[v.Y]; ok && tv.Value != nil {
							if b, exact := constant.Int64Val(tv.Value); exact {
								bytes = append(bytes, b)
								return nil
							}
						}
					}
				}
			}
			return fmt.Errorf("mayCombine: expression %s outside the fragment", p.Src(x))
		}
		if err := walk(as.Rhs[0]); err != nil {
			return err
		}
		for _, t := range cc.List {
			tv, ok := p.Info.Types[t]
			if !ok || tv.Value == nil {
				return fmt.Errorf("mayCombine: constant case expected")
			}
			v, _ := constant.Int64Val(tv.Value)
			rows = append(rows, mcRow{v, bytes})
		}
	}
	out.WriteString("(* mayCombine(prev, next): token code -> first bytes of the next token that need a separating blank *)\nDefinition px_mayCombine : list (Z * list Z) := [\n")
	for i, r := range rows {
		var bs []string
		for _, b := range r.Bytes {
			bs = append(bs, coqZ(b))
		}
		if i > 0 {
			out.WriteString(";\n")
		}
		fmt.Fprintf(&out, "  (%s, [%s])", coqZ(r.Tok), strings.Join(bs, "; "))
	}
	out.WriteString("\n].\n")
	if err := e.WriteV("PrinterExpr", out.String()); err != nil {
		return err
	}
	return e.WriteJSON("printerexpr", map[string]interface{}{"operands": ops, "paren_conds": conds, "mayCombine": rows})
}
