package main

// gen_c38: the literals of x/jsonrpc2/frame.go that Model/C38.v relies on  ->  Gen/C38.v
//   * headerReader.Read:  the case labels of `switch name`, the delimiter of ReadString, the rune of
//     IndexRune, base and bit size of strconv.ParseInt, the comparisons of a variable with an integer literal
//   * headerWriter.Write: the fmt.Fprintf format and the source text of its arguments

import (
	"fmt"
	"go/ast"
	"go/token"
	"strconv"
	"strings"
)

func init() { register("c38", genC38) }

func g4bCharLit(x ast.Expr) (int64, bool) {
	bl, ok := x.(*ast.BasicLit)
	if !ok || bl.Kind != token.CHAR {
		return 0, false
	}
	r, _, _, err := strconv.UnquoteChar(bl.Value[1:len(bl.Value)-1], '\'')
	return int64(r), err == nil
}
func g4bIntLit(x ast.Expr) (int64, bool) {
	bl, ok := x.(*ast.BasicLit)
	if !ok || bl.Kind != token.INT {
		return 0, false
	}
	v, err := strconv.ParseInt(bl.Value, 0, 64)
	return v, err == nil
}

// calls  <anything>.fn(args)  inside node
func g4bMethodArgs(node ast.Node, fn string) [][]ast.Expr {
	var out [][]ast.Expr
	ast.Inspect(node, func(n ast.Node) bool {
		c, ok := n.(*ast.CallExpr)
		if !ok {
			return true
		}
		if sel, ok := c.Fun.(*ast.SelectorExpr); ok && sel.Sel.Name == fn {
			out = append(out, c.Args)
		}
		return true
	})
	return out
}

func genC38(e *Env) error {
	var out strings.Builder
	out.WriteString(g4bHeader)
	p, fd, err := g4bFunc(e, "x/jsonrpc2", "headerReader.Read")
	if err != nil {
		return err
	}
	sws, err := g4bSwitches(p, fd, "")
	if err != nil {
		return err
	}
	if len(sws) != 1 {
		return fmt.Errorf("headerReader.Read: expected one switch over string literals, found %d", len(sws))
	}
	one := func(what string, calls [][]ast.Expr, n int) ([]ast.Expr, error) {
		if len(calls) != 1 || len(calls[0]) != n {
			return nil, fmt.Errorf("headerReader.Read: expected exactly one %s call with %d arguments", what, n)
		}
		return calls[0], nil
	}
	rs, err := one("ReadString", g4bMethodArgs(fd.Body, "ReadString"), 1)
	if err != nil {
		return err
	}
	delim, ok := g4bCharLit(rs[0])
	if !ok {
		return fmt.Errorf("headerReader.Read: ReadString delimiter is not a character literal")
	}
	ir, err := one("strings.IndexRune", g4bCallArgs(fd.Body, "strings", "IndexRune"), 2)
	if err != nil {
		return err
	}
	sep, ok := g4bCharLit(ir[1])
	if !ok {
		return fmt.Errorf("headerReader.Read: IndexRune rune is not a character literal")
	}
	pi, err := one("strconv.ParseInt", g4bCallArgs(fd.Body, "strconv", "ParseInt"), 3)
	if err != nil {
		return err
	}
	base, ok1 := g4bIntLit(pi[1])
	bits, ok2 := g4bIntLit(pi[2])
	if !ok1 || !ok2 {
		return fmt.Errorf("headerReader.Read: ParseInt base / bit size are not integer literals")
	}
	// comparisons  <variable> <op> <int literal>, in source order (total == 0, colon < 0, length <= 0, length == 0)
	var cmps []string
	ast.Inspect(fd.Body, func(n ast.Node) bool {
		b, ok := n.(*ast.BinaryExpr)
		if !ok {
			return true
		}
		cmp := b.Op == token.EQL || b.Op == token.NEQ || b.Op == token.LSS || b.Op == token.LEQ || b.Op == token.GTR || b.Op == token.GEQ
		if _, ok := b.X.(*ast.Ident); ok && cmp {
			if v, ok := g4bIntLit(b.Y); ok {
				cmps = append(cmps, fmt.Sprintf("%s%d", b.Op.String(), v))
			}
		}
		return true
	})
	trims := len(g4bCallArgs(fd.Body, "strings", "TrimSpace"))
	fmt.Fprintf(&out, "(* headerReader.Read *)\nDefinition reader_header_names : list (list str) := %s.\n", g4bStrListList(sws[0].Labels))
	fmt.Fprintf(&out, "Definition reader_line_delim : N := %d%%N.\nDefinition reader_name_sep : N := %d%%N.\n", delim, sep)
	fmt.Fprintf(&out, "Definition reader_parseint_base : Z := %s.\nDefinition reader_parseint_bits : Z := %s.\n", coqZ(base), coqZ(bits))
	fmt.Fprintf(&out, "Definition reader_int_tests : list str := %s.\n", g4bStrList(cmps))
	fmt.Fprintf(&out, "Definition reader_trimspace_calls : Z := %s.\n\n", coqZ(int64(trims)))

	p, fd, err = g4bFunc(e, "x/jsonrpc2", "headerWriter.Write")
	if err != nil {
		return err
	}
	fp := g4bCallArgs(fd.Body, "fmt", "Fprintf")
	if len(fp) != 1 || len(fp[0]) < 2 {
		return fmt.Errorf("headerWriter.Write: expected exactly one fmt.Fprintf call")
	}
	wf, ok := g4bStrLit(fp[0][1])
	if !ok {
		return fmt.Errorf("headerWriter.Write: format is not a string literal")
	}
	var wargs []string
	for _, x := range fp[0][2:] {
		wargs = append(wargs, g4bShape(p, x))
	}
	fmt.Fprintf(&out, "(* headerWriter.Write *)\nDefinition writer_format : str := %s.\nDefinition writer_format_args : list str := %s.\n", coqBytes(wf), g4bStrList(wargs))
	if err := e.WriteJSON("c38", map[string]interface{}{"names": sws[0].Labels, "delim": delim, "sep": sep, "base": base, "bits": bits,
		"length_tests": cmps, "writer_format": wf, "writer_args": wargs}); err != nil {
		return err
	}
	return e.WriteV("C38", out.String())
}
