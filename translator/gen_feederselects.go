package main

// C41 K-gen: x/fakenet/conn.go -> Gen/FeederSelects.v
//
// Reads: the statement list of fakeConn.Close, the body of connFeeder.close, the select statements of
// connFeeder.do and connFeeder.run with their case lists (in source order), the channel capacities
// in newFeeder, which feeder Read/Write use, which source functions NewConn gives the feeders and
// whether it starts both workers.  Anything that does not have one of the expected shapes is an
// error (never guessed).

import (
	"fmt"
	"go/ast"
	"go/token"
	"strings"
)

func init() { register("feederselects", genFeederSelects) }

type fsGen struct {
	p *Pkg
}

func (g *fsGen) src(n ast.Node) string { return strings.Join(strings.Fields(g.p.Src(n)), " ") }

func recvName(fd *ast.FuncDecl) (string, error) {
	if fd.Recv == nil || len(fd.Recv.List) != 1 || len(fd.Recv.List[0].Names) != 1 {
		return "", fmt.Errorf("%s: no named receiver", fd.Name.Name)
	}
	return fd.Recv.List[0].Names[0].Name, nil
}

// fakeConn.Close
func (g *fsGen) connClose(fd *ast.FuncDecl) ([]string, error) {
	r, err := recvName(fd)
	if err != nil {
		return nil, err
	}
	var ops []string
	for _, st := range fd.Body.List {
		s := g.src(st)
		switch s {
		case r + ".reader.close()":
			ops = append(ops, "KCloseFeeder FR")
		case r + ".writer.close()":
			ops = append(ops, "KCloseFeeder FW")
		case r + ".in.Close()":
			ops = append(ops, "KCloseStream FR")
		case r + ".out.Close()":
			ops = append(ops, "KCloseStream FW")
		case "return nil":
		default:
			return nil, fmt.Errorf("fakeConn.Close: unknown statement %q", s)
		}
	}
	return ops, nil
}

// connFeeder.close
func (g *fsGen) feederClose(fd *ast.FuncDecl) ([]string, error) {
	r, err := recvName(fd)
	if err != nil {
		return nil, err
	}
	var ops []string
	for _, st := range fd.Body.List {
		s := g.src(st)
		switch s {
		case r + ".mu.Lock()":
			ops = append(ops, "FLock")
		case r + ".mu.Unlock()":
			ops = append(ops, "FUnlock")
		case "close(" + r + ".done)":
			ops = append(ops, "FCloseDone")
		case "if !" + r + ".closed { " + r + ".closed = true close(" + r + ".done) }":
			ops = append(ops, "FMarkCloseDone")
		default:
			if _, ok := st.(*ast.DeferStmt); ok {
				return nil, fmt.Errorf("connFeeder.close: defer statement %q", s)
			}
			return nil, fmt.Errorf("connFeeder.close: unknown statement %q", s)
		}
	}
	return ops, nil
}

func (g *fsGen) selectStmt(r string, sel *ast.SelectStmt, bufVar string) (string, error) {
	var cases []string
	for _, c := range sel.Body.List {
		cc := c.(*ast.CommClause)
		if cc.Comm == nil {
			return "", fmt.Errorf("select with a default case: %q", g.src(sel))
		}
		comm := g.src(cc.Comm)
		var body []string
		for _, b := range cc.Body {
			body = append(body, g.src(b))
		}
		bs := strings.Join(body, "; ")
		switch {
		case comm == r+".input <- "+bufVar && bs == "":
			cases = append(cases, "(CInput, ASendArg)")
		case comm == bufVar+" = <-"+r+".input" && bs == "":
			cases = append(cases, "(CInput, ARecvBuf)")
		case comm == "<-"+r+".done" && bs == "return 0, io.EOF":
			cases = append(cases, "(CDone, ARetEOF)")
		case comm == "<-"+r+".done" && bs == "return":
			cases = append(cases, "(CDone, ARet)")
		case comm == "r := <-"+r+".result" && bs == "return r.n, r.err":
			cases = append(cases, "(CResult, ARecvRet)")
		case comm == r+".result <- feedResult{n: n, err: err}" && bs == "":
			cases = append(cases, "(CResult, ASendResult)")
		default:
			return "", fmt.Errorf("unknown select case %q with body %q", comm, bs)
		}
	}
	return "SSelect " + coqList(cases, 0), nil
}

func (g *fsGen) stmts(r string, list []ast.Stmt, bufVar string) ([]string, error) {
	var out []string
	for _, st := range list {
		switch s := st.(type) {
		case *ast.SelectStmt:
			x, err := g.selectStmt(r, s, bufVar)
			if err != nil {
				return nil, err
			}
			out = append(out, x)
		case *ast.ForStmt:
			if s.Init != nil || s.Cond != nil || s.Post != nil {
				return nil, fmt.Errorf("for statement with a header: %q", g.src(s))
			}
			body, err := g.stmts(r, s.Body.List, bufVar)
			if err != nil {
				return nil, err
			}
			out = append(out, "SLoop "+coqList(body, 0))
		case *ast.DeclStmt:
			if g.src(s) != "var "+bufVar+" []byte" {
				return nil, fmt.Errorf("unknown declaration %q", g.src(s))
			}
		case *ast.AssignStmt:
			if g.src(s) != "n, err := "+r+".source("+bufVar+")" {
				return nil, fmt.Errorf("unknown assignment %q", g.src(s))
			}
			out = append(out, "SCallSource")
		default:
			return nil, fmt.Errorf("unknown statement %q", g.src(st))
		}
	}
	return out, nil
}

func genFeederSelects(e *Env) error {
	p, err := e.Load("x/fakenet", false)
	if err != nil {
		return err
	}
	g := &fsGen{p: p}
	need := func(name string) (*ast.FuncDecl, error) {
		fd := p.Func(name)
		if fd == nil || fd.Body == nil {
			return nil, fmt.Errorf("x/fakenet: %s not found", name)
		}
		return fd, nil
	}
	// Close / close
	fd, err := need("fakeConn.Close")
	if err != nil {
		return err
	}
	connClose, err := g.connClose(fd)
	if err != nil {
		return err
	}
	if fd, err = need("connFeeder.close"); err != nil {
		return err
	}
	feederClose, err := g.feederClose(fd)
	if err != nil {
		return err
	}
	// do
	if fd, err = need("connFeeder.do"); err != nil {
		return err
	}
	r, err := recvName(fd)
	if err != nil {
		return err
	}
	if len(fd.Type.Params.List) != 1 || len(fd.Type.Params.List[0].Names) != 1 {
		return fmt.Errorf("connFeeder.do: expected one parameter")
	}
	doStmts, err := g.stmts(r, fd.Body.List, fd.Type.Params.List[0].Names[0].Name)
	if err != nil {
		return fmt.Errorf("connFeeder.do: %v", err)
	}
	// run
	if fd, err = need("connFeeder.run"); err != nil {
		return err
	}
	if r, err = recvName(fd); err != nil {
		return err
	}
	runStmts, err := g.stmts(r, fd.Body.List, "b")
	if err != nil {
		return fmt.Errorf("connFeeder.run: %v", err)
	}
	// newFeeder: channel capacities
	if fd, err = need("newFeeder"); err != nil {
		return err
	}
	caps := map[string]string{}
	ast.Inspect(fd.Body, func(n ast.Node) bool {
		kv, ok := n.(*ast.KeyValueExpr)
		if !ok {
			return true
		}
		k, ok := kv.Key.(*ast.Ident)
		if !ok {
			return true
		}
		call, ok := kv.Value.(*ast.CallExpr)
		if !ok {
			return true
		}
		if id, ok := call.Fun.(*ast.Ident); !ok || id.Name != "make" {
			return true
		}
		switch len(call.Args) {
		case 1:
			caps[k.Name] = "0"
		case 2:
			if bl, ok := call.Args[1].(*ast.BasicLit); ok && bl.Kind == token.INT {
				caps[k.Name] = bl.Value
			} else {
				caps[k.Name] = "?"
			}
		}
		return true
	})
	var capItems []string
	for _, c := range []struct{ field, con string }{{"input", "CInput"}, {"result", "CResult"}, {"done", "CDone"}} {
		v, ok := caps[c.field]
		if !ok || v == "?" {
			return fmt.Errorf("newFeeder: channel %s is not created by make(chan ...) with a literal capacity", c.field)
		}
		capItems = append(capItems, fmt.Sprintf("(%s, %s%%N)", c.con, v))
	}
	// Read / Write
	feederOf := func(name string) (string, error) {
		fd, err := need("fakeConn." + name)
		if err != nil {
			return "", err
		}
		r, err := recvName(fd)
		if err != nil {
			return "", err
		}
		if len(fd.Body.List) != 1 || len(fd.Type.Params.List) != 1 || len(fd.Type.Params.List[0].Names) != 1 {
			return "", fmt.Errorf("fakeConn.%s: expected a single return statement", name)
		}
		b := fd.Type.Params.List[0].Names[0].Name
		switch g.src(fd.Body.List[0]) {
		case "return " + r + ".reader.do(" + b + ")":
			return "FR", nil
		case "return " + r + ".writer.do(" + b + ")":
			return "FW", nil
		}
		return "", fmt.Errorf("fakeConn.%s: unknown body %q", name, g.src(fd.Body.List[0]))
	}
	rf, err := feederOf("Read")
	if err != nil {
		return err
	}
	wf, err := feederOf("Write")
	if err != nil {
		return err
	}
	// NewConn
	if fd, err = need("NewConn"); err != nil {
		return err
	}
	nc := g.src(fd.Body)
	sourcesOK := strings.Contains(nc, "reader: newFeeder(in.Read)") && strings.Contains(nc, "writer: newFeeder(out.Write)") &&
		strings.Contains(nc, "in: in") && strings.Contains(nc, "out: out")
	workers := strings.Contains(nc, "go c.reader.run()") && strings.Contains(nc, "go c.writer.run()")

	var out strings.Builder
	out.WriteString("From Coq Require Import List NArith.\nImport ListNotations.\nFrom V Require Import Base.C41Ops.\n\n(* x/fakenet/conn.go *)\n")
	fmt.Fprintf(&out, "Definition gen_conn_close : list kop := %s.\n", coqList(connClose, 0))
	fmt.Fprintf(&out, "Definition gen_feeder_close : list fop := %s.\n", coqList(feederClose, 0))
	fmt.Fprintf(&out, "Definition gen_do : list sstmt := %s.\n", coqList(doStmts, 0))
	fmt.Fprintf(&out, "Definition gen_run : list sstmt := %s.\n", coqList(runStmts, 0))
	out.WriteString("(* make(chan ...) capacities in newFeeder: input, result, done *)\n")
	fmt.Fprintf(&out, "Definition gen_chan_caps : list (chn * N) := %s.\n", coqList(capItems, 0))
	out.WriteString("(* Read -> c.reader.do, Write -> c.writer.do; reader: newFeeder(in.Read), writer: newFeeder(out.Write); both run() started by NewConn *)\n")
	fmt.Fprintf(&out, "Definition gen_read_feeder : fid := %s.\n", rf)
	fmt.Fprintf(&out, "Definition gen_write_feeder : fid := %s.\n", wf)
	fmt.Fprintf(&out, "Definition gen_sources_ok : bool := %v.\n", sourcesOK)
	fmt.Fprintf(&out, "Definition gen_workers_started : bool := %v.\n", workers)
	if err := e.WriteJSON("feederselects", map[string]interface{}{
		"conn_close": connClose, "feeder_close": feederClose, "do": doStmts, "run": runStmts,
		"caps": caps, "read": rf, "write": wf, "sources_ok": sourcesOK, "workers_started": workers,
	}); err != nil {
		return err
	}
	return e.WriteV("FeederSelects", out.String())
}
