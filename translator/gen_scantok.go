package main

// GEN-SCANTOK (C15/C16/C32/C33): what the scanner model needs from the three token packages
// in addition to Gen/Tokens.v:
//   * every *key* of the `tokens` array literal with its value, whatever the constant's type
//     (tpl/token declares '+' … '$' as untyped rune constants, token.PYSTRING is an untyped
//     int): `Definition <pre>k_<NAME> : Z`, and the association list <pre>spell
//   * the keyword table built by init():  for i := keyword_beg + 1; i < keyword_end; i++ {
//     keywords[tokens[i]] = i }  as an association list spelling -> code, and the shape of
//     Lookup (map hit -> token, miss -> IDENT)
//   * String() reduced to its table part (hand-checked shape), used by C33.
// -> Gen/ScanTok.v + scantok.json

import (
	"fmt"
	"go/ast"
	"go/constant"
	"go/types"
	"path/filepath"
	"runtime"
	"sort"
	"strings"
)

func init() { register("scantok", genScanTok) }

type scanTokPkg struct {
	Prefix     string           `json:"prefix"`
	Keys       map[string]int64 `json:"keys"`
	Spell      map[int64]string `json:"spell"`
	ArrayLen   int64            `json:"array_len"`
	Keywords   map[string]int64 `json:"keywords"`
	KeywordSrc string           `json:"keyword_site"`
	Notes      []string         `json:"notes"`
}

func genScanTok(e *Env) error {
	var out strings.Builder
	out.WriteString("From Coq Require Import List NArith ZArith Bool.\nImport ListNotations.\nFrom V Require Import Base.Prelude.\nOpen Scope Z_scope.\n\n")
	all := map[string]*scanTokPkg{}
	specs := []struct {
		dir, prefix string
		keywords    bool
	}{
		{"token", "xgo", true},
		{"tpl/token", "tpl", false},
		{filepath.Join(runtime.GOROOT(), "src", "go", "token"), "go", true},
	}
	for _, sp := range specs {
		p, err := e.Load(sp.dir, true)
		if err != nil {
			return err
		}
		if p.Types == nil {
			return fmt.Errorf("%s: type check failed", sp.dir)
		}
		tp := &scanTokPkg{Prefix: sp.prefix, Keys: map[string]int64{}, Spell: map[int64]string{}, Keywords: map[string]int64{}}
		all[sp.prefix] = tp
		found := false
		var keyOrder []string
		var ferr error
		for _, f := range p.Files {
			ast.Inspect(f, func(n ast.Node) bool {
				vs, ok := n.(*ast.ValueSpec)
				if !ok || len(vs.Names) != 1 || vs.Names[0].Name != "tokens" || len(vs.Values) != 1 {
					return true
				}
				cl, ok := vs.Values[0].(*ast.CompositeLit)
				if !ok {
					return true
				}
				at, ok := p.Info.Types[cl].Type.Underlying().(*types.Array)
				if !ok {
					return true
				}
				tp.ArrayLen = at.Len()
				for _, el := range cl.Elts {
					kv, ok := el.(*ast.KeyValueExpr)
					if !ok {
						ferr = fmt.Errorf("%s: tokens array has an element without a key", sp.dir)
						return false
					}
					id, ok := kv.Key.(*ast.Ident)
					if !ok {
						ferr = fmt.Errorf("%s: tokens array key %s is not an identifier", sp.dir, p.Src(kv.Key))
						return false
					}
					kval := p.Info.Types[kv.Key].Value
					if kval == nil || kval.Kind() != constant.Int {
						ferr = fmt.Errorf("%s: tokens array key %s is not an integer constant", sp.dir, id.Name)
						return false
					}
					k, _ := constant.Int64Val(kval)
					tv := p.Info.Types[kv.Value]
					if tv.Value == nil || tv.Value.Kind() != constant.String {
						ferr = fmt.Errorf("%s: tokens[%s] is not a string constant", sp.dir, id.Name)
						return false
					}
					if _, dup := tp.Spell[k]; dup {
						ferr = fmt.Errorf("%s: tokens array has two entries for index %d", sp.dir, k)
						return false
					}
					tp.Keys[id.Name] = k
					tp.Spell[k] = constant.StringVal(tv.Value)
					keyOrder = append(keyOrder, id.Name)
				}
				found = true
				return false
			})
		}
		if ferr != nil {
			return ferr
		}
		if !found {
			return fmt.Errorf("%s: tokens array not found", sp.dir)
		}
		sort.SliceStable(keyOrder, func(i, j int) bool { return tp.Keys[keyOrder[i]] < tp.Keys[keyOrder[j]] })
		pre := sp.prefix
		fmt.Fprintf(&out, "(* ---- %s ---- *)\n", sp.dir)
		var sp2 []string
		for _, n := range keyOrder {
			fmt.Fprintf(&out, "Definition %sk_%s : Z := %s.\n", pre, n, coqZ(tp.Keys[n]))
			sp2 = append(sp2, fmt.Sprintf("(%s, %s)", coqZ(tp.Keys[n]), coqBytes(tp.Spell[tp.Keys[n]])))
		}
		fmt.Fprintf(&out, "Definition %s_spell : list (Z * str) :=\n  %s.\n", pre, coqList(sp2, 6))
		fmt.Fprintf(&out, "Definition %s_tokens_len : Z := %s.\n", pre, coqZ(tp.ArrayLen))
		// marker constants used by the range predicates / ForEach
		for _, m := range []string{"literal_beg", "literal_end", "operator_beg", "operator_end", "keyword_beg", "keyword_end"} {
			if c, ok := p.Types.Scope().Lookup(m).(*types.Const); ok && c.Val().Kind() == constant.Int {
				v, _ := constant.Int64Val(c.Val())
				fmt.Fprintf(&out, "Definition %sm_%s : Z := %s.\n", pre, m, coqZ(v))
			}
		}
		if sp.keywords {
			kb, ok1 := p.Types.Scope().Lookup("keyword_beg").(*types.Const)
			ke, ok2 := p.Types.Scope().Lookup("keyword_end").(*types.Const)
			if !ok1 || !ok2 {
				return fmt.Errorf("%s: keyword_beg/keyword_end not found", sp.dir)
			}
			b, _ := constant.Int64Val(kb.Val())
			en, _ := constant.Int64Val(ke.Val())
			// the site: init() must fill `keywords` from tokens[keyword_beg+1 .. keyword_end)
			site := ""
			okShape := false
			for _, f := range p.Files {
				for _, d := range f.Decls {
					fd, ok := d.(*ast.FuncDecl)
					if !ok || fd.Name.Name != "init" || fd.Recv != nil {
						continue
					}
					src := p.Src(fd.Body)
					if strings.Contains(src, "keywords[tokens[i]] = i") {
						site = src
						norm := strings.Join(strings.Fields(src), " ")
						if strings.Contains(norm, "for i := keyword_beg + 1; i < keyword_end; i++ { keywords[tokens[i]] = i }") {
							okShape = true
						}
					}
				}
			}
			tp.KeywordSrc = site
			// The keyword table is emitted from keyword_beg / keyword_end / tokens in any case; if the
			// site that builds the map (init) or reads it (Lookup) is no longer in the shape this
			// generator understands, that is recorded (static_gen: unparsed ...) and the table is tied
			// to the code by the dynamic comparison only (token.Lookup on every spelling, C33).
			if !okShape {
				tp.Notes = append(tp.Notes, fmt.Sprintf("static_gen: unparsed %s init(): expected `for i := keyword_beg + 1; i < keyword_end; i++ { keywords[tokens[i]] = i }`", sp.dir))
			}
			lk := p.Func("Lookup")
			if lk == nil {
				return fmt.Errorf("%s: func Lookup not found", sp.dir)
			}
			lsrc := strings.Join(strings.Fields(p.Src(lk.Body)), " ")
			if !(strings.Contains(lsrc, ":= keywords[ident]; is_keyword { return tok }") && strings.HasSuffix(lsrc, "return IDENT }")) {
				tp.Notes = append(tp.Notes, fmt.Sprintf("static_gen: unparsed %s Lookup: expected `if tok, is_keyword := keywords[ident]; is_keyword { return tok }; return IDENT`", sp.dir))
			}
			var kws []string
			for i := b + 1; i < en; i++ {
				s := tp.Spell[i]
				// a later duplicate spelling would overwrite the map entry: keep Go's semantics (last wins)
				tp.Keywords[s] = i
			}
			var ks []string
			for s := range tp.Keywords {
				ks = append(ks, s)
			}
			sort.Slice(ks, func(i, j int) bool { return tp.Keywords[ks[i]] < tp.Keywords[ks[j]] })
			for _, s := range ks {
				kws = append(kws, fmt.Sprintf("(%s, %s)", coqBytes(s), coqZ(tp.Keywords[s])))
			}
			fmt.Fprintf(&out, "Definition %s_keywords : list (str * Z) :=\n  %s.\n", pre, coqList(kws, 4))
		}
		out.WriteString("\n")
	}
	if err := e.WriteJSON("scantok", all); err != nil {
		return err
	}
	return e.WriteV("ScanTok", out.String())
}
