package main

// GEN-C12: the position each cl call site hands to gogen when it creates the object of a declared
// name, and whether it records a Def  ->  Gen/C12.v + c12.json
//
//	cl/compile.go  loadVars            varDefs.New(<pos>, typ, names...)
//	cl/compile.go  loadConsts          cdecl.New(fn, iotav, <pos>, typ, names...)
//	cl/stmt.go     compileAssignStmt   ctx.cb.DefineVarStart(<pos>, names...)
//	cl/stmt.go     compileRangeStmt    cb.ForRangeEx(names, v)            (no position argument)
//	cl/stmt.go     compileForPhraseStmt cb.ForRange(names...)             (no position argument)
//	cl/stmt.go     compileType         ctx.cb.NewType(name)               (no position, no rec.Def in the function)
//	cl/func_type_and_var.go toParam    pkg.NewParam(<pos>, name.Name, typ) + rec.Def(name, param)
//	cl/compile.go  loadFunc            pkg.NewFuncWith(<pos>, ...)        + rec.Def(d.Name, fn.Func)
//	cl/compile.go  loadImport          name, pos = specName.Name, <pos> / pkg.Types.Name(), <pos>
//	cl/compile.go  defNames            rec.Def(name, scope.Lookup(name.Name))
//	cl/recorder.go recordCompositeLit  rec.Type(v.Type, ...) guarded by v.Type != nil (or not)
//
// The position expression is classified:  own (name.Pos() of the very identifier), first
// (v.Names[0].Pos() / v.Pos() of a ValueSpec = its first name), stmt (expr.Pos() of the := statement
// = its first left-hand side), none.  A site that cannot be found or classified is emitted as RUnparsed (the
// obligation then relies on the dynamic comparison of the identifier map, which shows every one of these
// positions); only a package that cannot be loaded makes the generator fail.

import (
	"fmt"
	"go/ast"
	"strings"
)

func init() { register("c12", genC12) }

type c12Site struct {
	Site string `json:"site"`
	Arg  string `json:"arg"`
	Rule string `json:"rule"`
}

// findCall returns the first call inside fd whose function expression, printed, ends with suffix.
func findCall(p *Pkg, fd *ast.FuncDecl, suffix string) *ast.CallExpr {
	var found *ast.CallExpr
	ast.Inspect(fd.Body, func(n ast.Node) bool {
		if found != nil {
			return false
		}
		if ce, ok := n.(*ast.CallExpr); ok {
			if strings.HasSuffix(p.Src(ce.Fun), suffix) {
				// pkg.NewParam: the call that creates a NAMED parameter
				if suffix == "pkg.NewParam" && !(len(ce.Args) == 3 && p.Src(ce.Args[1]) == "name.Name") {
					return true
				}
				found = ce
				return false
			}
		}
		return true
	})
	return found
}

func genC12(e *Env) error {
	p, err := e.Load("cl", false)
	if err != nil {
		return err
	}
	var sites []c12Site
	classify := func(site, arg string) (string, error) {
		switch arg {
		case "v.Names[0].Pos()", "v.Pos()":
			return "RFirst", nil
		case "expr.Pos()":
			return "RStmt", nil
		case "name.Pos()", "d.Name.Pos()", "specName.Pos()":
			return "ROwn", nil
		case "spec.Path.Pos()":
			return "RPath", nil
		case "token.NoPos", "":
			return "RNone", nil
		}
		return "", fmt.Errorf("%s: cannot classify position expression %q", site, arg)
	}
	unparsed := func(site, why string) {
		sites = append(sites, c12Site{site, why, "RUnparsed"})
	}
	add := func(site, fn, callSuffix string, argIdx int) error {
		fd := p.Func(fn)
		if fd == nil {
			unparsed(site, "func "+fn+" not found")
			return nil
		}
		ce := findCall(p, fd, callSuffix)
		if ce == nil {
			unparsed(site, "call "+callSuffix+" not found in "+fn)
			return nil
		}
		arg := ""
		if argIdx >= 0 {
			if argIdx >= len(ce.Args) {
				unparsed(site, "call "+callSuffix+" has too few arguments")
				return nil
			}
			arg = p.Src(ce.Args[argIdx])
		}
		rule, err := classify(site, arg)
		if err != nil {
			unparsed(site, "unclassified position expression "+arg)
			return nil
		}
		sites = append(sites, c12Site{site, arg, rule})
		return nil
	}
	if err := add("var", "loadVars", "varDefs.New", 0); err != nil {
		return err
	}
	if err := add("const", "loadConsts", "cdecl.New", 2); err != nil {
		return err
	}
	if err := add("define", "compileAssignStmt", "DefineVarStart", 0); err != nil {
		return err
	}
	if err := add("range", "compileRangeStmt", "cb.ForRangeEx", -1); err != nil {
		return err
	}
	if err := add("forphrase", "compileForPhraseStmt", "cb.ForRange", -1); err != nil {
		return err
	}
	if err := add("localtype", "compileType", "cb.NewType", -1); err != nil {
		return err
	}
	if err := add("param", "toParam", "pkg.NewParam", 0); err != nil {
		return err
	}
	if err := add("func", "loadFunc", "pkg.NewFuncWith", 0); err != nil {
		return err
	}
	// ForRangeEx(names, v) / ForRange(names...) must not have grown a position argument
	for _, fnname := range []string{"compileRangeStmt", "compileForPhraseStmt"} {
		fd := p.Func(fnname)
		ok := false
		if fd != nil {
			ast.Inspect(fd.Body, func(n ast.Node) bool {
				if ce, ok2 := n.(*ast.CallExpr); ok2 {
					s := p.Src(ce)
					if s == "cb.ForRangeEx(names, v)" || s == "cb.ForRange(names...)" {
						ok = true
					}
				}
				return true
			})
		}
		if !ok {
			unparsed(fnname+"-form", "cb.ForRangeEx(names, v) / cb.ForRange(names...) not found in that form")
		} else {
			sites = append(sites, c12Site{fnname + "-form", "", "RNone"})
		}
	}
	// compileType records no Def
	if ct := p.Func("compileType"); ct == nil {
		unparsed("localtype-def", "func compileType not found")
	} else if strings.Contains(p.Src(ct.Body), ".Def(") {
		sites = append(sites, c12Site{"localtype-def", "rec.Def", "RRecorded"})
	} else {
		sites = append(sites, c12Site{"localtype-def", "", "RNotRecorded"})
	}
	// loadImport:  name, pos = specName.Name, specName.Pos()   /   name, pos = pkg.Types.Name(), spec.Path.Pos()
	li := p.Func("loadImport")
	var impSites []c12Site
	impOK := li != nil
	if li != nil {
		ast.Inspect(li.Body, func(n ast.Node) bool {
			as, ok := n.(*ast.AssignStmt)
			if !ok || len(as.Lhs) != 2 || len(as.Rhs) != 2 {
				return true
			}
			if l0, ok := as.Lhs[0].(*ast.Ident); !ok || l0.Name != "name" {
				return true
			}
			if l1, ok := as.Lhs[1].(*ast.Ident); !ok || l1.Name != "pos" {
				return true
			}
			arg := p.Src(as.Rhs[1])
			site := "import-unnamed"
			if strings.HasPrefix(p.Src(as.Rhs[0]), "specName") {
				site = "import-named"
			}
			rule, err := classify(site, arg)
			if err != nil {
				impOK = false
				return false
			}
			impSites = append(impSites, c12Site{site, arg, rule})
			return true
		})
	}
	if impOK && len(impSites) == 2 && impSites[0].Site == "import-named" && impSites[1].Site == "import-unnamed" {
		sites = append(sites, impSites...)
	} else {
		unparsed("import-named", "loadImport: the two `name, pos = ...` assignments not found")
		unparsed("import-unnamed", "loadImport: the two `name, pos = ...` assignments not found")
	}
	// defNames: Def(name, scope.Lookup(name.Name)) -- by name, in the one scope
	dn := p.Func("defNames")
	if dn == nil || !strings.Contains(p.Src(dn.Body), "scope.Lookup(name.Name)") || !strings.Contains(p.Src(dn.Body), "rec.Def(name, o)") {
		unparsed("defnames", "not of the form  if o := scope.Lookup(name.Name); o != nil { rec.Def(name, o) }")
	} else {
		sites = append(sites, c12Site{"defnames", "scope.Lookup(name.Name)", "RLookupByName"})
	}
	// compileAssignStmt: only names that are new in the current scope are recorded
	ca := p.Func("compileAssignStmt")
	if ca == nil || !strings.Contains(p.Src(ca.Body), "if scope.Lookup(v.Name) == nil {") || !strings.Contains(p.Src(ca.Body), "defer defNames(ctx, newNames, scope)") {
		unparsed("define-newnames", "the newNames computation is not of the expected form")
	} else {
		sites = append(sites, c12Site{"define-newnames", "scope.Lookup(v.Name) == nil", "ROnlyNew"})
	}
	// recordCompositeLit: rec.Type(v.Type, ...) unguarded
	rc := p.Func("goxRecorder.recordCompositeLit")
	if rc == nil || !strings.Contains(p.Src(rc.Body), "rec.Type(v.Type,") {
		unparsed("compositelit-type", "rec.Type(v.Type, ...) not found in recordCompositeLit")
	} else if strings.Contains(p.Src(rc.Body), "v.Type != nil") {
		sites = append(sites, c12Site{"compositelit-type", "guarded", "RGuarded"})
	} else {
		sites = append(sites, c12Site{"compositelit-type", "unguarded", "RUnguarded"})
	}

	var out strings.Builder
	out.WriteString("From Coq Require Import List String.\nImport ListNotations.\nOpen Scope string_scope.\n\n")
	out.WriteString("(* which position a cl call site gives to the object of a declared name / how it records it *)\n")
	out.WriteString("Inductive c12_rule := ROwn | RFirst | RStmt | RPath | RNone | RRecorded | RNotRecorded | RLookupByName | ROnlyNew | RGuarded | RUnguarded | RUnparsed.\n")
	var items []string
	for _, s := range sites {
		items = append(items, fmt.Sprintf("(%s, %s) (* %s *)", coqString(s.Site), s.Rule, s.Arg))
	}
	fmt.Fprintf(&out, "Definition c12_sites : list (string * c12_rule) :=\n  %s.\n", coqList(items, 1))
	if err := e.WriteJSON("c12", sites); err != nil {
		return err
	}
	return e.WriteV("C12", out.String())
}
