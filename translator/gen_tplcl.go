package main

// GEN-TPLCL: the identifier table of tpl/cl/compile.go (var idents) and the special rule
// names of compileExpr's `switch name` (RAWSTRING / QSTRING / SPACE)  ->  Gen/TplCl.v.

import (
	"fmt"
	"go/ast"
	"go/constant"
	"go/token"
	"sort"
	"strings"
)

func init() { register("tplcl", genTplCl) }

func genTplCl(e *Env) error {
	p, err := e.Load("tpl/cl", true)
	if err != nil {
		return err
	}
	if p.Types == nil {
		return fmt.Errorf("tpl/cl: type check failed")
	}
	idents := map[string]int64{}
	found := false
	for _, f := range p.Files {
		ast.Inspect(f, func(n ast.Node) bool {
			vs, ok := n.(*ast.ValueSpec)
			if !ok || len(vs.Names) != 1 || vs.Names[0].Name != "idents" || len(vs.Values) != 1 {
				return true
			}
			cl, ok := vs.Values[0].(*ast.CompositeLit)
			if !ok {
				return true
			}
			for _, el := range cl.Elts {
				kv, ok := el.(*ast.KeyValueExpr)
				if !ok {
					err = fmt.Errorf("idents: element is not key: value")
					return false
				}
				k, v := p.Info.Types[kv.Key], p.Info.Types[kv.Value]
				if k.Value == nil || k.Value.Kind() != constant.String || v.Value == nil || v.Value.Kind() != constant.Int {
					err = fmt.Errorf("idents: non-constant entry %s", p.Src(kv))
					return false
				}
				tv, _ := constant.Int64Val(v.Value)
				idents[constant.StringVal(k.Value)] = tv
			}
			found = true
			return false
		})
	}
	if err != nil {
		return err
	}
	if !found || len(idents) == 0 {
		return fmt.Errorf("tpl/cl: var idents (map literal) not found")
	}
	// the `switch name` of compileExpr
	fd := p.Func("compileExpr")
	if fd == nil {
		return fmt.Errorf("tpl/cl: func compileExpr not found")
	}
	strNames := map[string]int64{}
	space := ""
	nsw := 0
	ast.Inspect(fd, func(n ast.Node) bool {
		sw, ok := n.(*ast.SwitchStmt)
		if !ok {
			return true
		}
		if id, ok := sw.Tag.(*ast.Ident); !ok || id.Name != "name" {
			return true
		}
		nsw++
		for _, st := range sw.Body.List {
			cc := st.(*ast.CaseClause)
			if cc.List == nil {
				continue // default: undefined name
			}
			if len(cc.List) != 1 || len(cc.Body) != 1 {
				err = fmt.Errorf("compileExpr: unexpected case shape %s", p.Src(cc))
				return false
			}
			kv := p.Info.Types[cc.List[0]]
			if kv.Value == nil || kv.Value.Kind() != constant.String {
				err = fmt.Errorf("compileExpr: non-constant case %s", p.Src(cc))
				return false
			}
			key := constant.StringVal(kv.Value)
			switch b := cc.Body[0].(type) {
			case *ast.AssignStmt:
				if len(b.Lhs) == 1 && len(b.Rhs) == 1 && b.Tok == token.ASSIGN {
					if id, ok := b.Lhs[0].(*ast.Ident); ok && id.Name == "quoteCh" {
						if rv := p.Info.Types[b.Rhs[0]]; rv.Value != nil {
							v, _ := constant.Int64Val(constant.ToInt(rv.Value))
							strNames[key] = v
							continue
						}
					}
				}
				err = fmt.Errorf("compileExpr: unexpected assignment %s", p.Src(b))
				return false
			case *ast.ReturnStmt:
				if strings.Contains(p.Src(b), "matcher.WhiteSpace()") && space == "" {
					space = key
					continue
				}
				err = fmt.Errorf("compileExpr: unexpected return %s", p.Src(b))
				return false
			default:
				err = fmt.Errorf("compileExpr: unexpected case body %s", p.Src(cc))
				return false
			}
		}
		return false
	})
	if err != nil {
		return err
	}
	if nsw != 1 || space == "" || len(strNames) == 0 {
		return fmt.Errorf("compileExpr: `switch name` with quoteCh / WhiteSpace cases not found (switches=%d)", nsw)
	}
	var out strings.Builder
	out.WriteString("From Coq Require Import List NArith ZArith Bool.\nImport ListNotations.\nFrom V Require Import Base.Prelude.\nOpen Scope Z_scope.\n\n")
	emit := func(name string, m map[string]int64) {
		var keys []string
		for k := range m {
			keys = append(keys, k)
		}
		sort.Strings(keys)
		var items []string
		for _, k := range keys {
			items = append(items, fmt.Sprintf("(%s, %s) (* %s *)", coqBytes(k), coqZ(m[k]), k))
		}
		fmt.Fprintf(&out, "Definition %s : list (str * Z) :=\n  [%s].\n", name, strings.Join(items, ";\n   "))
	}
	out.WriteString("(* tpl/cl/compile.go: var idents *)\n")
	emit("tplcl_idents", idents)
	out.WriteString("(* compileExpr, switch name: case K: quoteCh = C *)\n")
	emit("tplcl_string_names", strNames)
	fmt.Fprintf(&out, "(* compileExpr, switch name: case K: return matcher.WhiteSpace(), true *)\nDefinition tplcl_space_name : str := %s. (* %s *)\n", coqBytes(space), space)
	if err := e.WriteJSON("tplcl", map[string]interface{}{"idents": idents, "string_names": strNames, "space": space}); err != nil {
		return err
	}
	return e.WriteV("TplCl", out.String())
}
