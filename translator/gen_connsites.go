package main

// GEN-CONNSITES (C39): x/jsonrpc2/conn.go  ->  Gen/ConnSites.v + connsites.json.
//
//   * every  c.updateInFlight(func(s *inFlightState) {...})  call site: enclosing function,
//     ordinal inside that function, hash of the normalised body of the func literal
//     (go/printer of the AST, debug-only statements removed) -- the audited critical sections;
//   * hash of the normalised body of every function of the modelled control flow;
//   * the field lists of inFlightState / Connection / AsyncCall / incomingRequest;
//   * which functions touch c.state / c.stateMu, call retire, close a channel;
//   * the two decision functions idle() and shuttingDown() TRANSLATED into Gallina over
//     Base/ConnView.ifs_view (so the model evaluates the regenerated definitions).
//
// A site the generator cannot read (updateInFlight called with something that is not a
// func literal, an expression outside the boolean fragment) is an error, never a guess.

import (
	"crypto/sha256"
	"encoding/hex"
	"fmt"
	"go/ast"
	"go/token"
	"sort"
	"strings"
)

func init() { register("connsites", genConnSites) }

type connSite struct {
	Func string `json:"func"`
	Ord  int    `json:"ord"`
	Hash string `json:"hash"`
	Src  string `json:"src"`
}

type connFunc struct {
	Func string `json:"func"`
	Hash string `json:"hash"`
	Src  string `json:"src"`
}

var connFlowFuncs = []string{
	"Connection.updateInFlight", "inFlightState.idle", "inFlightState.shuttingDown",
	"newConnection", "Connection.Notify", "Connection.Call", "AsyncCall.retire", "AsyncCall.Await",
	"Connection.Respond", "Connection.Cancel", "Connection.Wait", "Connection.Close",
	"Connection.readIncoming", "Connection.acceptRequest", "Connection.handleAsync",
	"Connection.processResult", "Connection.write",
}

func hash16(s string) string {
	h := sha256.Sum256([]byte(s))
	return hex.EncodeToString(h[:8])
}

func isDebugCond(e ast.Expr) bool {
	id, ok := e.(*ast.Ident)
	return ok && (id.Name == "Verbose" || id.Name == "debugCall")
}

func isLogCall(s ast.Stmt) bool {
	es, ok := s.(*ast.ExprStmt)
	if !ok {
		return false
	}
	c, ok := es.X.(*ast.CallExpr)
	if !ok {
		return false
	}
	sel, ok := c.Fun.(*ast.SelectorExpr)
	if !ok {
		return false
	}
	id, ok := sel.X.(*ast.Ident)
	return ok && id.Name == "log" && strings.HasPrefix(sel.Sel.Name, "Print")
}

// stripDebug removes, in place, `if Verbose {..}` / `if debugCall {..}` (no else) and log.Print* statements.
func stripDebug(n ast.Node) {
	ast.Inspect(n, func(x ast.Node) bool {
		var lp *[]ast.Stmt
		switch b := x.(type) {
		case *ast.BlockStmt:
			lp = &b.List
		case *ast.CaseClause:
			lp = &b.Body
		case *ast.CommClause:
			lp = &b.Body
		}
		if lp != nil {
			var out []ast.Stmt
			for _, s := range *lp {
				if is, ok := s.(*ast.IfStmt); ok && is.Init == nil && is.Else == nil && isDebugCond(is.Cond) {
					continue
				}
				if isLogCall(s) {
					continue
				}
				out = append(out, s)
			}
			*lp = out
		}
		return true
	})
}

func funcKey(fd *ast.FuncDecl) string {
	if fd.Recv != nil && len(fd.Recv.List) == 1 {
		t := fd.Recv.List[0].Type
		if s, ok := t.(*ast.StarExpr); ok {
			t = s.X
		}
		if id, ok := t.(*ast.Ident); ok {
			return id.Name + "." + fd.Name.Name
		}
	}
	return fd.Name.Name
}

// boolean fragment over the receiver s: translated for idle() / shuttingDown()
func connBool(e ast.Expr, recv string) (string, error) {
	field := func(x ast.Expr) (string, bool) {
		sel, ok := x.(*ast.SelectorExpr)
		if !ok {
			return "", false
		}
		id, ok := sel.X.(*ast.Ident)
		if !ok || id.Name != recv {
			return "", false
		}
		return "(v_" + sel.Sel.Name + " v)", true
	}
	lenOf := func(x ast.Expr) (string, bool) {
		c, ok := x.(*ast.CallExpr)
		if !ok || len(c.Args) != 1 {
			return "", false
		}
		id, ok := c.Fun.(*ast.Ident)
		if !ok || id.Name != "len" {
			return "", false
		}
		return field(c.Args[0])
	}
	switch x := e.(type) {
	case *ast.ParenExpr:
		return connBool(x.X, recv)
	case *ast.UnaryExpr:
		if x.Op == token.NOT {
			s, err := connBool(x.X, recv)
			if err != nil {
				return "", err
			}
			return "(negb " + s + ")", nil
		}
	case *ast.SelectorExpr:
		if f, ok := field(x); ok {
			return f, nil
		}
	case *ast.BinaryExpr:
		switch x.Op {
		case token.LAND, token.LOR:
			a, err := connBool(x.X, recv)
			if err != nil {
				return "", err
			}
			b, err := connBool(x.Y, recv)
			if err != nil {
				return "", err
			}
			op := "&&"
			if x.Op == token.LOR {
				op = "||"
			}
			return "(" + a + " " + op + " " + b + ")", nil
		case token.EQL, token.NEQ, token.GTR:
			var lhs string
			var ok bool
			if lhs, ok = lenOf(x.X); !ok {
				lhs, ok = field(x.X)
			}
			if !ok {
				break
			}
			if lit, isLit := x.Y.(*ast.BasicLit); isLit && lit.Kind == token.INT && lit.Value == "0" {
				switch x.Op {
				case token.EQL:
					return "(Nat.eqb " + lhs + " 0)", nil
				case token.NEQ, token.GTR:
					return "(negb (Nat.eqb " + lhs + " 0))", nil
				}
			}
			if id, isId := x.Y.(*ast.Ident); isId && id.Name == "nil" {
				// the view holds `field != nil` as a bool
				if x.Op == token.NEQ {
					return lhs, nil
				}
				if x.Op == token.EQL {
					return "(negb " + lhs + ")", nil
				}
			}
		}
	}
	return "", fmt.Errorf("expression outside the boolean fragment")
}

func genConnSites(e *Env) error {
	p, err := e.Load("x/jsonrpc2", false)
	if err != nil {
		return err
	}
	var sites []connSite
	var funcs []connFunc
	decls := map[string]*ast.FuncDecl{}
	var order []string
	inConn := map[string]bool{} // declared in conn.go
	for i, f := range p.Files {
		for _, d := range f.Decls {
			if fd, ok := d.(*ast.FuncDecl); ok && fd.Body != nil {
				stripDebug(fd.Body)
				k := funcKey(fd)
				decls[k] = fd
				order = append(order, k)
				inConn[k] = p.Names[i] == "conn.go"
			}
		}
	}
	var stateAccess, retireCallers, chanClosers []string
	var rerr error
	for _, k := range order {
		fd := decls[k]
		ord := 0
		usesState, callsRetire, closes := false, false, false
		ast.Inspect(fd.Body, func(n ast.Node) bool {
			switch x := n.(type) {
			case *ast.SelectorExpr:
				if x.Sel.Name == "state" || x.Sel.Name == "stateMu" {
					usesState = true
				}
			case *ast.CallExpr:
				if id, ok := x.Fun.(*ast.Ident); ok && id.Name == "close" {
					closes = true
				}
				sel, ok := x.Fun.(*ast.SelectorExpr)
				if !ok {
					return true
				}
				if sel.Sel.Name == "retire" {
					callsRetire = true
				}
				if sel.Sel.Name != "updateInFlight" {
					return true
				}
				if len(x.Args) != 1 {
					rerr = fmt.Errorf("%s: updateInFlight with %d arguments", k, len(x.Args))
					return false
				}
				fl, ok := x.Args[0].(*ast.FuncLit)
				if !ok {
					rerr = fmt.Errorf("%s: updateInFlight argument #%d is not a func literal (cannot audit the critical section)", k, ord)
					return false
				}
				src := p.Src(fl.Body)
				sites = append(sites, connSite{Func: k, Ord: ord, Hash: hash16(src), Src: src})
				ord++
			}
			return true
		})
		if rerr != nil {
			return rerr
		}
		if usesState {
			stateAccess = append(stateAccess, k)
		}
		if callsRetire {
			retireCallers = append(retireCallers, k)
		}
		if closes && inConn[k] {
			chanClosers = append(chanClosers, k)
		}
	}
	for _, k := range connFlowFuncs {
		fd := decls[k]
		if fd == nil {
			return fmt.Errorf("x/jsonrpc2: function %s not found", k)
		}
		src := p.Src(fd.Type) + " " + p.Src(fd.Body)
		funcs = append(funcs, connFunc{Func: k, Hash: hash16(src), Src: src})
	}
	// struct fields
	structs := map[string][]string{}
	for _, f := range p.Files {
		for _, d := range f.Decls {
			gd, ok := d.(*ast.GenDecl)
			if !ok || gd.Tok != token.TYPE {
				continue
			}
			for _, sp := range gd.Specs {
				ts := sp.(*ast.TypeSpec)
				st, ok := ts.Type.(*ast.StructType)
				if !ok {
					continue
				}
				var fs []string
				for _, fl := range st.Fields.List {
					ty := strings.Join(strings.Fields(p.Src(fl.Type)), " ")
					if len(fl.Names) == 0 {
						fs = append(fs, "_ "+ty)
					}
					for _, n := range fl.Names {
						fs = append(fs, n.Name+" "+ty)
					}
				}
				structs[ts.Name.Name] = fs
			}
		}
	}
	for _, n := range []string{"inFlightState", "Connection", "AsyncCall", "incomingRequest"} {
		if structs[n] == nil {
			return fmt.Errorf("x/jsonrpc2: struct %s not found", n)
		}
	}
	// decision functions
	idle := decls["inFlightState.idle"]
	sd := decls["inFlightState.shuttingDown"]
	recvName := func(fd *ast.FuncDecl) string { return fd.Recv.List[0].Names[0].Name }
	if len(idle.Body.List) != 1 {
		return fmt.Errorf("idle: body is not a single return")
	}
	rs, ok := idle.Body.List[0].(*ast.ReturnStmt)
	if !ok || len(rs.Results) != 1 {
		return fmt.Errorf("idle: body is not a single return")
	}
	idleC, err := connBool(rs.Results[0], recvName(idle))
	if err != nil {
		return fmt.Errorf("idle: %v", err)
	}
	// shuttingDown: if c {return <non-nil>} ... return nil   ->  bool "result != nil"
	isNil := func(e ast.Expr) bool { id, ok := e.(*ast.Ident); return ok && id.Name == "nil" }
	var sdC strings.Builder
	closeP := 0
	for i, st := range sd.Body.List {
		switch x := st.(type) {
		case *ast.IfStmt:
			if x.Init != nil || x.Else != nil || len(x.Body.List) != 1 {
				return fmt.Errorf("shuttingDown: statement %d outside the fragment", i)
			}
			r, ok := x.Body.List[0].(*ast.ReturnStmt)
			if !ok || len(r.Results) != 1 {
				return fmt.Errorf("shuttingDown: statement %d outside the fragment", i)
			}
			c, err := connBool(x.Cond, recvName(sd))
			if err != nil {
				return fmt.Errorf("shuttingDown: %v", err)
			}
			fmt.Fprintf(&sdC, "if %s then %v else (", c, !isNil(r.Results[0]))
			closeP++
		case *ast.ReturnStmt:
			if i != len(sd.Body.List)-1 || len(x.Results) != 1 {
				return fmt.Errorf("shuttingDown: return not in final position")
			}
			fmt.Fprintf(&sdC, "%v", !isNil(x.Results[0]))
		default:
			return fmt.Errorf("shuttingDown: statement %d outside the fragment", i)
		}
	}
	sdC.WriteString(strings.Repeat(")", closeP))

	var out strings.Builder
	out.WriteString("From Coq Require Import List String Bool Arith.\nImport ListNotations.\nFrom V Require Import Base.ConnView.\nOpen Scope string_scope.\n\n")
	var ss []string
	for _, s := range sites {
		ss = append(ss, fmt.Sprintf("(%s, %d, %s)", coqString(s.Func), s.Ord, coqString(s.Hash)))
	}
	fmt.Fprintf(&out, "(* every c.updateInFlight(func…) call site: (function, ordinal in it, hash of the normalised body) *)\nDefinition conn_sites : list (string * nat * string) :=\n  %s.\n\n", coqList(ss, 1))
	var fs []string
	for _, f := range funcs {
		fs = append(fs, fmt.Sprintf("(%s, %s)", coqString(f.Func), coqString(f.Hash)))
	}
	fmt.Fprintf(&out, "(* hash of the normalised signature+body of every function of the modelled control flow *)\nDefinition conn_funcs : list (string * string) :=\n  %s.\n\n", coqList(fs, 1))
	for _, n := range []string{"inFlightState", "Connection", "AsyncCall", "incomingRequest"} {
		var q []string
		for _, f := range structs[n] {
			q = append(q, coqString(f))
		}
		fmt.Fprintf(&out, "Definition fields_%s : list string :=\n  %s.\n", n, coqList(q, 1))
	}
	quote := func(l []string) string {
		sort.Strings(l)
		var q []string
		for _, s := range l {
			q = append(q, coqString(s))
		}
		return coqList(q, 0)
	}
	fmt.Fprintf(&out, "\n(* functions that mention .state / .stateMu, call retire, close a channel (the latter: conn.go only) *)\n")
	fmt.Fprintf(&out, "Definition state_access_funcs : list string := %s.\n", quote(stateAccess))
	fmt.Fprintf(&out, "Definition retire_callers : list string := %s.\n", quote(retireCallers))
	fmt.Fprintf(&out, "Definition chan_closers : list string := %s.\n\n", quote(chanClosers))
	fmt.Fprintf(&out, "(* inFlightState.idle, translated *)\nDefinition gen_idle (v : ifs_view) : bool :=\n  %s.\n\n", idleC)
	fmt.Fprintf(&out, "(* inFlightState.shuttingDown(errClosing) != nil, translated (errClosing is non-nil at every call site) *)\nDefinition gen_shutting_down (v : ifs_view) : bool :=\n  %s.\n", sdC.String())

	if err := e.WriteJSON("connsites", map[string]interface{}{
		"sites": sites, "funcs": funcs, "structs": structs,
		"state_access_funcs": stateAccess, "retire_callers": retireCallers, "chan_closers": chanClosers,
		"idle": idleC, "shutting_down": sdC.String(),
	}); err != nil {
		return err
	}
	return e.WriteV("ConnSites", out.String())
}
