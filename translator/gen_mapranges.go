package main

// GEN-MAPRANGES (C08): every `for ... range X` whose X has a map type (by go/types) in the
// compiler packages  ->  Gen/MapRanges.v + mapranges.json.
//
// Per site: package directory, enclosing top-level function (Recv.Name), the ranged
// expression, and a hash of the whole range statement after normalisation through
// go/printer (formatting and comments do not matter; any edit of the header or the body does).
// A range statement whose operand has no type information makes the generator fail (never
// guess).  Other sources of map order (reflect MapKeys/MapRange, maps.Keys/Values) are listed
// too, as pseudo-sites, so that introducing one is also a change of the generated table.

import (
	"crypto/sha256"
	"encoding/hex"
	"fmt"
	"go/ast"
	"go/importer"
	"go/types"
	"io"
	"os"
	"os/exec"
	"sort"
	"strings"
)

var g9Exports map[string]string // import path -> export data file (go list -export)

// g9LoadExport parses dir like Env.Load and type-checks it against the compiler's export data
// of its dependencies (`go list -export -deps`, served from the Go build cache: ~1 s instead of
// ~40 s for the "source" importer).  A type error in the package itself is an error here.
func g9LoadExport(e *Env, dir string) (*Pkg, error) {
	if g9Exports == nil {
		cmd := exec.Command("go", "list", "-export", "-deps", "-f", "{{.ImportPath}}\t{{.Export}}", "./cl", "./x/build")
		cmd.Dir = e.Repo
		cmd.Env = append(os.Environ(), "GOFLAGS=-mod=readonly")
		cmd.Stderr = os.Stderr
		out, err := cmd.Output()
		if err != nil {
			return nil, fmt.Errorf("go list -export: %v", err)
		}
		g9Exports = map[string]string{}
		for _, l := range strings.Split(string(out), "\n") {
			if f := strings.Split(l, "\t"); len(f) == 2 && f[1] != "" {
				g9Exports[f[0]] = f[1]
			}
		}
	}
	p, err := e.Load(dir, false)
	if err != nil {
		return nil, err
	}
	lookup := func(path string) (io.ReadCloser, error) {
		f, ok := g9Exports[path]
		if !ok {
			return nil, fmt.Errorf("no export data for %s", path)
		}
		return os.Open(f)
	}
	var terrs []string
	conf := types.Config{Importer: importer.ForCompiler(p.Fset, "gc", lookup), Error: func(err error) { terrs = append(terrs, err.Error()) }}
	p.Info = &types.Info{
		Types: map[ast.Expr]types.TypeAndValue{},
		Defs:  map[*ast.Ident]types.Object{},
		Uses:  map[*ast.Ident]types.Object{},
	}
	tp, _ := conf.Check(p.Files[0].Name.Name, p.Fset, p.Files, p.Info)
	if len(terrs) > 0 {
		return nil, fmt.Errorf("%s: type errors: %s", dir, strings.Join(terrs[:1], "; "))
	}
	p.Types = tp
	return p, nil
}

func init() { register("mapranges", genMapRanges) }

type mapRangeSite struct {
	Dir  string `json:"dir"`
	File string `json:"file"`
	Line int    `json:"line"`
	Func string `json:"func"`
	Expr string `json:"expr"`
	Hash string `json:"hash"`
	Src  string `json:"src"`
}

func g9FuncDeclName(fd *ast.FuncDecl) string {
	r := ""
	if fd.Recv != nil && len(fd.Recv.List) == 1 {
		t := fd.Recv.List[0].Type
		if s, ok := t.(*ast.StarExpr); ok {
			t = s.X
		}
		if ix, ok := t.(*ast.IndexExpr); ok {
			t = ix.X
		}
		if id, ok := t.(*ast.Ident); ok {
			r = id.Name + "."
		}
	}
	return r + fd.Name.Name
}

func g9AsciiString(s string) (string, error) {
	for i := 0; i < len(s); i++ {
		if s[i] < 32 || s[i] > 126 {
			return "", fmt.Errorf("non-printable byte in %q", s)
		}
	}
	return coqString(s), nil
}

func mapRangesOf(e *Env, dir string) ([]mapRangeSite, int, error) {
	p, err := g9LoadExport(e, dir)
	if err != nil {
		return nil, 0, err
	}
	var sites []mapRangeSite
	nRange := 0
	var ferr error
	for i, f := range p.Files {
		fname := p.Names[i]
		for _, d := range f.Decls {
			var fn string
			var body ast.Node
			switch d := d.(type) {
			case *ast.FuncDecl:
				if d.Body == nil {
					continue
				}
				fn, body = g9FuncDeclName(d), d.Body
			case *ast.GenDecl: // function literals in package-level initialisers
				fn, body = "<pkg-init>", d
			}
			ast.Inspect(body, func(n ast.Node) bool {
				switch x := n.(type) {
				case *ast.RangeStmt:
					nRange++
					tv, ok := p.Info.Types[x.X]
					if !ok || tv.Type == nil {
						ferr = fmt.Errorf("%s/%s: %s: range operand %s has no type information", dir, fname, fn, p.Src(x.X))
						return false
					}
					isMap := false
					switch u := tv.Type.Underlying().(type) {
					case *types.Map:
						isMap = true
					case *types.Pointer:
						_ = u
					case *types.Interface: // type parameter with a map core type
						if tp, ok := tv.Type.(*types.TypeParam); ok {
							_ = tp
							ferr = fmt.Errorf("%s/%s: %s: range over a type parameter (%s): outside the audit", dir, fname, fn, p.Src(x.X))
							return false
						}
					}
					if !isMap {
						return true
					}
					src := p.Src(x)
					h := sha256.Sum256([]byte(src))
					sites = append(sites, mapRangeSite{Dir: dir, File: fname, Line: p.Fset.Position(x.Pos()).Line,
						Func: fn, Expr: p.Src(x.X), Hash: hex.EncodeToString(h[:8]), Src: src})
				case *ast.CallExpr:
					// reflect.Value.MapKeys / MapRange, maps.Keys / maps.Values
					if sel, ok := x.Fun.(*ast.SelectorExpr); ok {
						switch sel.Sel.Name {
						case "MapKeys", "MapRange", "Keys", "Values":
							full := p.Src(x.Fun)
							isOrd := false
							if obj, ok := p.Info.Uses[sel.Sel]; ok && obj.Pkg() != nil {
								pp := obj.Pkg().Path()
								isOrd = pp == "reflect" || pp == "maps" || pp == "golang.org/x/exp/maps"
							}
							if isOrd {
								src := p.Src(x)
								h := sha256.Sum256([]byte(src))
								sites = append(sites, mapRangeSite{Dir: dir, File: fname, Line: p.Fset.Position(x.Pos()).Line,
									Func: fn, Expr: "call:" + full, Hash: hex.EncodeToString(h[:8]), Src: src})
							}
						}
					}
				}
				return true
			})
			if ferr != nil {
				return nil, 0, ferr
			}
		}
	}
	return sites, nRange, nil
}

func genMapRanges(e *Env) error {
	dirs := []string{"cl", "x/build"}
	var all []mapRangeSite
	total := 0
	for _, d := range dirs {
		s, n, err := mapRangesOf(e, d)
		if err != nil {
			return err
		}
		if n == 0 {
			return fmt.Errorf("%s: no range statement found at all (audit cannot be right)", d)
		}
		total += n
		all = append(all, s...)
	}
	sort.SliceStable(all, func(i, j int) bool {
		a, b := all[i], all[j]
		if a.Dir != b.Dir {
			return a.Dir < b.Dir
		}
		if a.Func != b.Func {
			return a.Func < b.Func
		}
		if a.Expr != b.Expr {
			return a.Expr < b.Expr
		}
		return a.Hash < b.Hash
	})
	var out strings.Builder
	out.WriteString("From Coq Require Import List String.\nImport ListNotations.\nOpen Scope string_scope.\n\n")
	out.WriteString("(* every `for ... range` over a map-typed operand in cl/*.go and x/build/*.go (non-test files):\n")
	out.WriteString("   (package dir, enclosing top-level function, ranged expression, hash of the normalised statement) *)\n")
	fmt.Fprintf(&out, "Definition range_stmts_seen : nat := %d.\n", total)
	var items []string
	for _, s := range all {
		d, err := g9AsciiString(s.Dir)
		if err != nil {
			return err
		}
		f, err := g9AsciiString(s.Func)
		if err != nil {
			return err
		}
		x, err := g9AsciiString(s.Expr)
		if err != nil {
			return err
		}
		items = append(items, fmt.Sprintf("(%s, %s, %s, \"%s\")", d, f, x, s.Hash))
	}
	fmt.Fprintf(&out, "Definition map_ranges : list (string * string * string * string) :=\n  %s.\n", coqList(items, 1))
	if err := e.WriteJSON("mapranges", all); err != nil {
		return err
	}
	return e.WriteV("MapRanges", out.String())
}
