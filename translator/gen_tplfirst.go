package main

// GEN-TPLFIRST: the mayEmpty / first-set combination rule of every Matcher.First method of
// tpl/matcher/match.go  ->  Gen/TplFirst.v.
//
// Each method body is normalised through go/printer (comments and layout dropped, whitespace
// collapsed) and classified by comparing it with the accepted forms of a rule code:
//   1 ANY     Choices:    firsts of all options accumulated, mayEmpty iff SOME option may be empty
//   2 PREFIX  gSequence:  items visited until the first one that may not be empty; mayEmpty = that of the last visited
//   3 TRUE    gRepeat0/01: first of the operand, mayEmpty = true
//   4 SAME    gRepeat1:   the operand's (first, mayEmpty)
//   5 AFALSE  gAdjoin:    first of the left operand, mayEmpty = false
//   6 EMPTY   gTrue/gWS:  (in, true)
//   7 TOKEN   gString/gToken/gLiteral: (append(in, tok), false)
//   8 VAR     Var:        Elem's First with Elem nil-ed meanwhile; panic(RecursiveError) when Elem is nil
// A body that matches no accepted form makes the generator fail (never guess).

import (
	"fmt"
	"sort"
	"strings"
)

func init() { register("tplfirst", genTplFirst) }

var tplFirstForms = map[string]map[int][]string{
	"Choices": {1: {
		"{ for _, g := range p.options { var me bool if in, me = g.First(in); me { mayEmpty = true } } first = in return }",
	}},
	"gSequence": {2: {
		"{ for _, g := range p.items { if in, mayEmpty = g.First(in); !mayEmpty { break } } first = in return }",
	}},
	"gRepeat0":  {3: {"{ first, _ = p.r.First(in) mayEmpty = true return }"}},
	"gRepeat01": {3: {"{ first, _ = p.r.First(in) mayEmpty = true return }"}},
	"gRepeat1":  {4: {"{ return p.r.First(in) }"}},
	"gAdjoin":   {5: {"{ first, _ = p.a.First(in) return }"}},
	"gTrue":     {6: {"{ return in, true }"}},
	"gWS":       {6: {"{ return in, true }"}},
	"gString":   {7: {"{ return append(in, token.STRING), false }"}},
	"gToken":    {7: {"{ return append(in, p.tok), false }"}},
	"gLiteral":  {7: {"{ return append(in, (*MatchToken)(p)), false }"}},
	"Var": {8: {
		"{ elem := p.Elem if elem != nil { p.Elem = nil first, mayEmpty = elem.First(in) p.Elem = elem } else { panic(RecursiveError{p}) } return }",
	}},
}

func genTplFirst(e *Env) error {
	p, err := e.Load("tpl/matcher", false)
	if err != nil {
		return err
	}
	var names []string
	for n := range tplFirstForms {
		names = append(names, n)
	}
	sort.Strings(names)
	codes := map[string]int{}
	bodies := map[string]string{}
	for _, recv := range names {
		fd := p.Func(recv + ".First")
		if fd == nil || fd.Body == nil {
			return fmt.Errorf("tpl/matcher: method %s.First not found", recv)
		}
		body := strings.Join(strings.Fields(p.Src(fd.Body)), " ")
		bodies[recv] = body
		found := 0
		for code, forms := range tplFirstForms[recv] {
			for _, f := range forms {
				if f == body {
					found = code
				}
			}
		}
		if found == 0 {
			return fmt.Errorf("tpl/matcher: %s.First has an unrecognised body (its first/mayEmpty rule can no longer be read): %s", recv, body)
		}
		codes[recv] = found
	}
	var out strings.Builder
	out.WriteString("From Coq Require Import List NArith ZArith Bool.\nImport ListNotations.\nFrom V Require Import Base.Prelude.\nOpen Scope Z_scope.\n\n")
	out.WriteString("(* tpl/matcher/match.go: rule code of every Matcher.First method\n   1 ANY  2 PREFIX  3 TRUE  4 SAME  5 AFALSE  6 EMPTY  7 TOKEN  8 VAR *)\n")
	var items []string
	for _, n := range names {
		items = append(items, fmt.Sprintf("(%s, %s) (* %s *)", coqBytes(n), coqZ(int64(codes[n])), n))
	}
	fmt.Fprintf(&out, "Definition tplfirst_rules : list (str * Z) :=\n  [%s].\n", strings.Join(items, ";\n   "))
	if err := e.WriteJSON("tplfirst", map[string]interface{}{"codes": codes, "bodies": bodies}); err != nil {
		return err
	}
	return e.WriteV("TplFirst", out.String())
}
