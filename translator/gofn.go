package main

// gofn: translation of loop-free Go decision functions into Gallina (DESIGN.md section 5,
// GEN-TOK).  Fragment: bodies made of if / if-else / switch / return / simple := over
// integer, boolean and string-constant expressions, array indexing and len.  Everything is
// translated monadically (type M of Base/Prelude.v) so that an out-of-range index is a
// visible Panic and && / || keep their short-circuit evaluation.  Anything outside the
// fragment is an error (never a guess).

import (
	"fmt"
	"go/ast"
	"go/constant"
	"go/token"
	"go/types"
	"strings"
)

type fnTr struct {
	pkg    *Pkg
	prefix string            // name prefix for package-level objects, e.g. "xgo_"
	arrays map[string]string // Go package-level array/slice name -> Coq name (list str / list Z)
	locals map[string]string // Go local name -> Coq name
	n      int
}

func (t *fnTr) fresh(base string) string {
	t.n++
	return fmt.Sprintf("%s%d", base, t.n)
}

// TranslateFunc returns "Definition <coqName> (params) : M T := body."
func TranslateFunc(p *Pkg, fd *ast.FuncDecl, coqName, prefix string, arrays map[string]string) (string, error) {
	t := &fnTr{pkg: p, prefix: prefix, arrays: arrays, locals: map[string]string{}}
	var params []string
	add := func(fl *ast.FieldList) {
		if fl == nil {
			return
		}
		for _, f := range fl.List {
			for _, n := range f.Names {
				t.locals[n.Name] = "p_" + n.Name
				params = append(params, fmt.Sprintf("(p_%s : %s)", n.Name, t.coqType(p.Info.TypeOf(f.Type))))
			}
		}
	}
	add(fd.Recv)
	add(fd.Type.Params)
	if fd.Type.Results == nil || len(fd.Type.Results.List) != 1 {
		return "", fmt.Errorf("%s: exactly one result expected", fd.Name.Name)
	}
	if len(fd.Type.Results.List[0].Names) != 0 {
		return "", fmt.Errorf("%s: named results are outside the fragment", fd.Name.Name)
	}
	rt := t.coqType(p.Info.TypeOf(fd.Type.Results.List[0].Type))
	body, err := t.stmts(fd.Body.List)
	if err != nil {
		return "", fmt.Errorf("%s: %v", fd.Name.Name, err)
	}
	return fmt.Sprintf("Definition %s %s : M %s :=\n%s.\n", coqName, strings.Join(params, " "), rt, body), nil
}

func (t *fnTr) coqType(ty types.Type) string {
	switch u := ty.Underlying().(type) {
	case *types.Basic:
		switch {
		case u.Info()&types.IsBoolean != 0:
			return "bool"
		case u.Info()&types.IsInteger != 0:
			return "Z"
		case u.Info()&types.IsString != 0:
			return "str"
		}
	}
	return "UNSUPPORTED_TYPE"
}

// stmts translates a statement list that must end by returning on every path that the
// Go code returns on; falling off the end is an error of the fragment.
func (t *fnTr) stmts(list []ast.Stmt) (string, error) {
	if len(list) == 0 {
		return "", fmt.Errorf("control reaches the end of the function (outside the fragment)")
	}
	s, rest := list[0], list[1:]
	switch s := s.(type) {
	case *ast.ReturnStmt:
		if len(s.Results) != 1 {
			return "", fmt.Errorf("return with %d results", len(s.Results))
		}
		return t.expr(s.Results[0])
	case *ast.IfStmt:
		if s.Init != nil {
			return "", fmt.Errorf("if with init statement")
		}
		c, err := t.expr(s.Cond)
		if err != nil {
			return "", err
		}
		var cont string
		if len(rest) > 0 {
			cont, err = t.stmts(rest)
			if err != nil {
				return "", err
			}
		}
		thenS, err := t.branch(s.Body.List, cont)
		if err != nil {
			return "", err
		}
		var elseS string
		switch e := s.Else.(type) {
		case nil:
			if cont == "" {
				return "", fmt.Errorf("if without else at the end of the function")
			}
			elseS = cont
		case *ast.BlockStmt:
			elseS, err = t.branch(e.List, cont)
		case *ast.IfStmt:
			elseS, err = t.stmts(append([]ast.Stmt{e}, rest...))
		}
		if err != nil {
			return "", err
		}
		b := t.fresh("c")
		return fmt.Sprintf("(%s <- %s ;;\n if %s then %s\n else %s)", b, c, b, thenS, elseS), nil
	case *ast.SwitchStmt:
		if s.Init != nil {
			return "", fmt.Errorf("switch with init")
		}
		var cont string
		var err error
		if len(rest) > 0 {
			cont, err = t.stmts(rest)
			if err != nil {
				return "", err
			}
		}
		return t.switchStmt(s, cont)
	case *ast.AssignStmt:
		if s.Tok != token.DEFINE || len(s.Lhs) != 1 || len(s.Rhs) != 1 {
			return "", fmt.Errorf("assignment outside the fragment")
		}
		id, ok := s.Lhs[0].(*ast.Ident)
		if !ok {
			return "", fmt.Errorf("assignment outside the fragment")
		}
		v, err := t.expr(s.Rhs[0])
		if err != nil {
			return "", err
		}
		name := t.fresh("v_" + id.Name)
		old, had := t.locals[id.Name]
		t.locals[id.Name] = name
		cont, err := t.stmts(rest)
		if had {
			t.locals[id.Name] = old
		} else {
			delete(t.locals, id.Name)
		}
		if err != nil {
			return "", err
		}
		return fmt.Sprintf("(%s <- %s ;;\n %s)", name, v, cont), nil
	}
	return "", fmt.Errorf("statement %T outside the fragment", s)
}

// branch: a block that either returns on all paths or falls through to cont.
func (t *fnTr) branch(list []ast.Stmt, cont string) (string, error) {
	if len(list) == 0 {
		if cont == "" {
			return "", fmt.Errorf("empty branch at the end of the function")
		}
		return cont, nil
	}
	if !terminates(list) {
		if cont == "" {
			return "", fmt.Errorf("branch falls off the end of the function")
		}
		return "", fmt.Errorf("branch that falls through to following statements is outside the fragment")
	}
	return t.stmts(list)
}

func terminates(list []ast.Stmt) bool {
	if len(list) == 0 {
		return false
	}
	switch s := list[len(list)-1].(type) {
	case *ast.ReturnStmt:
		return true
	case *ast.IfStmt:
		if s.Else == nil {
			return false
		}
		e := false
		switch x := s.Else.(type) {
		case *ast.BlockStmt:
			e = terminates(x.List)
		case *ast.IfStmt:
			e = terminates([]ast.Stmt{x})
		}
		return terminates(s.Body.List) && e
	}
	return false
}

func (t *fnTr) switchStmt(s *ast.SwitchStmt, cont string) (string, error) {
	var tag string
	var err error
	tagName := ""
	if s.Tag != nil {
		tag, err = t.expr(s.Tag)
		if err != nil {
			return "", err
		}
		tagName = t.fresh("tag")
	}
	// build nested ifs in case order; default last
	var defaultBody []ast.Stmt
	hasDefault := false
	type cs struct {
		conds []string
		body  []ast.Stmt
	}
	var cases []cs
	for _, c := range s.Body.List {
		cc := c.(*ast.CaseClause)
		for _, st := range cc.Body {
			if b, ok := st.(*ast.BranchStmt); ok && b.Tok == token.FALLTHROUGH {
				return "", fmt.Errorf("fallthrough outside the fragment")
			}
		}
		if cc.List == nil {
			hasDefault = true
			defaultBody = cc.Body
			continue
		}
		var conds []string
		for _, e := range cc.List {
			v, err := t.expr(e)
			if err != nil {
				return "", err
			}
			conds = append(conds, v)
		}
		cases = append(cases, cs{conds, cc.Body})
	}
	var tail string
	if hasDefault {
		tail, err = t.branch(defaultBody, cont)
		if err != nil {
			return "", err
		}
	} else {
		if cont == "" {
			return "", fmt.Errorf("switch without default at the end of the function")
		}
		tail = cont
	}
	out := tail
	for i := len(cases) - 1; i >= 0; i-- {
		body, err := t.branch(cases[i].body, cont)
		if err != nil {
			return "", err
		}
		// condition: any of conds equals tag (or is true when tagless)
		cond := "ret false"
		for j := len(cases[i].conds) - 1; j >= 0; j-- {
			c := cases[i].conds[j]
			var one string
			if tagName != "" {
				x := t.fresh("k")
				one = fmt.Sprintf("(%s <- %s ;; ret (Z.eqb %s %s))", x, c, tagName, x)
			} else {
				one = c
			}
			y := t.fresh("o")
			cond = fmt.Sprintf("(%s <- %s ;; if %s then ret true else %s)", y, one, y, cond)
		}
		b := t.fresh("m")
		out = fmt.Sprintf("(%s <- %s ;;\n if %s then %s\n else %s)", b, cond, b, body, out)
	}
	if tagName != "" {
		out = fmt.Sprintf("(%s <- %s ;;\n %s)", tagName, tag, out)
	}
	return out, nil
}

func (t *fnTr) constOf(e ast.Expr) (string, bool) {
	tv, ok := t.pkg.Info.Types[e]
	if !ok || tv.Value == nil {
		return "", false
	}
	switch tv.Value.Kind() {
	case constant.Int:
		v, exact := constant.Int64Val(tv.Value)
		if !exact {
			return "", false
		}
		return "ret " + coqZ(v), true
	case constant.Bool:
		if constant.BoolVal(tv.Value) {
			return "ret true", true
		}
		return "ret false", true
	case constant.String:
		return "ret " + coqBytes(constant.StringVal(tv.Value)), true
	}
	return "", false
}

// expr translates an expression to a Gallina term of type M T.
func (t *fnTr) expr(e ast.Expr) (string, error) {
	if c, ok := t.constOf(e); ok {
		return c, nil
	}
	switch e := e.(type) {
	case *ast.ParenExpr:
		return t.expr(e.X)
	case *ast.Ident:
		if n, ok := t.locals[e.Name]; ok {
			return "ret " + n, nil
		}
		return "", fmt.Errorf("identifier %s outside the fragment", e.Name)
	case *ast.CallExpr:
		// conversion T(x) between integer types, or len(x)
		if tv, ok := t.pkg.Info.Types[e.Fun]; ok && tv.IsType() && len(e.Args) == 1 {
			from := t.pkg.Info.TypeOf(e.Args[0])
			if isInt(tv.Type) && isInt(from) {
				// note: a conversion that could wrap (e.g. negative int -> uint) is outside the fragment;
				// only widening/identity conversions between non-negative table bounds occur here
				return t.expr(e.Args[0])
			}
			return "", fmt.Errorf("conversion %s outside the fragment", t.pkg.Src(e))
		}
		if id, ok := e.Fun.(*ast.Ident); ok && id.Name == "len" && len(e.Args) == 1 {
			if a, ok := e.Args[0].(*ast.Ident); ok {
				if cn, ok := t.arrays[a.Name]; ok {
					return fmt.Sprintf("ret (zlen %s)", cn), nil
				}
			}
			x, err := t.expr(e.Args[0])
			if err != nil {
				return "", err
			}
			v := t.fresh("l")
			return fmt.Sprintf("(%s <- %s ;; ret (zlen %s))", v, x, v), nil
		}
		return "", fmt.Errorf("call %s outside the fragment", t.pkg.Src(e))
	case *ast.IndexExpr:
		a, ok := e.X.(*ast.Ident)
		if !ok {
			return "", fmt.Errorf("index base %s outside the fragment", t.pkg.Src(e.X))
		}
		cn, ok := t.arrays[a.Name]
		if !ok {
			return "", fmt.Errorf("array %s unknown", a.Name)
		}
		i, err := t.expr(e.Index)
		if err != nil {
			return "", err
		}
		v := t.fresh("i")
		return fmt.Sprintf("(%s <- %s ;; idx %s %s)", v, i, cn, v), nil
	case *ast.UnaryExpr:
		x, err := t.expr(e.X)
		if err != nil {
			return "", err
		}
		v := t.fresh("u")
		switch e.Op {
		case token.NOT:
			return fmt.Sprintf("(%s <- %s ;; ret (negb %s))", v, x, v), nil
		case token.SUB:
			return fmt.Sprintf("(%s <- %s ;; ret (Z.opp %s))", v, x, v), nil
		}
	case *ast.BinaryExpr:
		x, err := t.expr(e.X)
		if err != nil {
			return "", err
		}
		y, err := t.expr(e.Y)
		if err != nil {
			return "", err
		}
		a, b := t.fresh("a"), t.fresh("b")
		switch e.Op {
		case token.LAND:
			return fmt.Sprintf("(%s <- %s ;; if %s then %s else ret false)", a, x, a, y), nil
		case token.LOR:
			return fmt.Sprintf("(%s <- %s ;; if %s then ret true else %s)", a, x, a, y), nil
		}
		isStr := t.coqType(t.pkg.Info.TypeOf(e.X)) == "str"
		ops := map[token.Token]string{token.LSS: "Z.ltb %s %s", token.LEQ: "Z.leb %s %s", token.GTR: "Z.ltb %[2]s %[1]s",
			token.GEQ: "Z.leb %[2]s %[1]s", token.EQL: "Z.eqb %s %s", token.NEQ: "negb (Z.eqb %s %s)",
			token.ADD: "Z.add %s %s", token.SUB: "Z.sub %s %s", token.MUL: "Z.mul %s %s"}
		if isStr {
			ops = map[token.Token]string{token.EQL: "str_eqb %s %s", token.NEQ: "negb (str_eqb %s %s)"}
		}
		if f, ok := ops[e.Op]; ok {
			return fmt.Sprintf("(%s <- %s ;; %s <- %s ;; ret (%s))", a, x, b, y, fmt.Sprintf(f, a, b)), nil
		}
	}
	return "", fmt.Errorf("expression %s outside the fragment", t.pkg.Src(e))
}

func isInt(ty types.Type) bool {
	b, ok := ty.Underlying().(*types.Basic)
	return ok && b.Info()&types.IsInteger != 0
}
