package main

// GEN-RANGELOOP (C04): the shape of the Go `for` statement the compiler emits for a range
// expression in a for-in / for-range statement, and the NewRange__0 call it emits in a
// comprehension  ->  Gen/RangeLoop.v + rangeloop.json.
//
// Two independent sources, compared with each other:
//   dynamic  <json>/rangeloop_dyn.json, written just before by `h_c04 gen -shape`: the real
//            compiler (x/build -> cl.NewPackage + gogen WriteTo) is run on template programs and
//            ForStmt.Init / Cond.Op / Post.Tok / the NewRange__0 arguments are read out of the
//            Go it emits.  This is what Gen/RangeLoop.v is written from.
//   static   cl/stmt.go:toForStmt (the &ast.ForStmt literal it returns, the literals it uses for
//            an omitted start / step) and cl/expr.go:compileRangeExpr (cb.Val(0)/cb.Val(1)).
// A disagreement between the two is an error.  A static site that can no longer be read is
// recorded ("static: unparsed ...") and does not fail the generator (DESIGN.md section 5).

import (
	"encoding/json"
	"fmt"
	"go/ast"
	"os"
	"path/filepath"
	"sort"
	"strings"
)

func init() { register("rangeloop", genRangeLoop) }

type rlLoop struct {
	Init [][2]string `json:"init"`
	Cond [3]string   `json:"cond"`
	Post [3]string   `json:"post"`
	Bind string      `json:"bind"`
}

type rlDyn struct {
	Loops  map[string]*rlLoop  `json:"loops"`
	Ranges map[string][]string `json:"ranges"`
	Iter   map[string]string   `json:"iter"`
}

type rlStatic struct {
	CondOp       string   `json:"cond_op"`       // token name in toForStmt's returned literal
	PostTok      string   `json:"post_tok"`      // token name
	DefaultFirst string   `json:"default_first"` // literal used when start is omitted (for statement)
	DefaultStep  string   `json:"default_step"`  // literal used when step is omitted (for statement)
	RangeFirst   string   `json:"range_first"`   // cb.Val(..) when start is omitted (range object)
	RangeStep    string   `json:"range_step"`    // cb.Val(..) when step is omitted (range object)
	Unparsed     []string `json:"unparsed"`
}

var rlCmp = map[string]string{"<": "CLt", "<=": "CLe", ">": "CGt", ">=": "CGe", "!=": "CNe", "==": "CEq"}
var rlCmpTok = map[string]string{"LSS": "<", "LEQ": "<=", "GTR": ">", "GEQ": ">=", "NEQ": "!=", "EQL": "=="}
var rlPost = map[string]string{"+=": "PAdd", "-=": "PSub"}
var rlPostTok = map[string]string{"ADD_ASSIGN": "+=", "SUB_ASSIGN": "-="}

func rlOpnd(r string) (string, error) {
	switch r {
	case "start":
		return "OStart", nil
	case "end":
		return "OEnd", nil
	case "step":
		return "OStep", nil
	case "var":
		return "(OSlot SVar)", nil
	case "tmpend":
		return "(OSlot STmpEnd)", nil
	case "tmpstep":
		return "(OSlot STmpStep)", nil
	}
	if strings.HasPrefix(r, "const:") {
		var v int64
		if _, err := fmt.Sscan(r[6:], &v); err == nil {
			if v < 0 {
				return fmt.Sprintf("(OConst (%d))", v), nil
			}
			return fmt.Sprintf("(OConst %d)", v), nil
		}
	}
	return "", fmt.Errorf("unknown operand role %q", r)
}

func rlSlot(r string) (string, error) {
	switch r {
	case "var":
		return "SVar", nil
	case "tmpend":
		return "STmpEnd", nil
	case "tmpstep":
		return "STmpStep", nil
	}
	return "", fmt.Errorf("%q is not a slot", r)
}

func rlShape(name string, l *rlLoop) (string, error) {
	iv, ie, is := "", "None", "None"
	seen := map[string]bool{}
	for _, p := range l.Init {
		if seen[p[0]] {
			return "", fmt.Errorf("%s: %s assigned twice in the init statement", name, p[0])
		}
		seen[p[0]] = true
		o, err := rlOpnd(p[1])
		if err != nil {
			return "", fmt.Errorf("%s: %v", name, err)
		}
		switch p[0] {
		case "var":
			iv = o
		case "tmpend":
			ie = "(Some " + o + ")"
		case "tmpstep":
			is = "(Some " + o + ")"
		default:
			return "", fmt.Errorf("%s: init assigns to %q", name, p[0])
		}
	}
	if iv == "" {
		return "", fmt.Errorf("%s: the init statement does not assign the loop variable", name)
	}
	if l.Bind != "" && l.Bind != "k=_gop_k" {
		return "", fmt.Errorf("%s: unexpected statement handing the value to the body: %s", name, l.Bind)
	}
	cl, err := rlOpnd(l.Cond[0])
	if err != nil {
		return "", fmt.Errorf("%s: %v", name, err)
	}
	cr, err := rlOpnd(l.Cond[2])
	if err != nil {
		return "", fmt.Errorf("%s: %v", name, err)
	}
	cop, ok := rlCmp[l.Cond[1]]
	if !ok {
		return "", fmt.Errorf("%s: loop condition operator %q is not a comparison", name, l.Cond[1])
	}
	pl, err := rlSlot(l.Post[0])
	if err != nil {
		return "", fmt.Errorf("%s: %v", name, err)
	}
	pop, ok := rlPost[l.Post[1]]
	if !ok {
		return "", fmt.Errorf("%s: post statement token %q is not += or -=", name, l.Post[1])
	}
	pr, err := rlOpnd(l.Post[2])
	if err != nil {
		return "", fmt.Errorf("%s: %v", name, err)
	}
	return fmt.Sprintf("{| ls_init_var := %s; ls_init_end := %s; ls_init_step := %s;\n     ls_cond_lhs := %s; ls_cond_op := %s; ls_cond_rhs := %s;\n     ls_post_lhs := %s; ls_post_op := %s; ls_post_rhs := %s |}",
		iv, ie, is, cl, cop, cr, pl, pop, pr), nil
}

// ---- static extraction ------------------------------------------------------

func selName(e ast.Expr) string { // token.LSS -> "LSS"
	if s, ok := e.(*ast.SelectorExpr); ok {
		return s.Sel.Name
	}
	return ""
}

func kvOf(cl *ast.CompositeLit, key string) ast.Expr {
	for _, el := range cl.Elts {
		if kv, ok := el.(*ast.KeyValueExpr); ok {
			if id, ok := kv.Key.(*ast.Ident); ok && id.Name == key {
				return kv.Value
			}
		}
	}
	return nil
}

func compLit(e ast.Expr) *ast.CompositeLit {
	if u, ok := e.(*ast.UnaryExpr); ok {
		e = u.X
	}
	cl, _ := e.(*ast.CompositeLit)
	return cl
}

func litValue(cl *ast.CompositeLit) string {
	if cl == nil {
		return ""
	}
	if v, ok := kvOf(cl, "Value").(*ast.BasicLit); ok {
		return strings.Trim(v.Value, "\"`")
	}
	return ""
}

func rlStaticExtract(e *Env) *rlStatic {
	st := &rlStatic{}
	miss := func(f string, a ...interface{}) { st.Unparsed = append(st.Unparsed, fmt.Sprintf(f, a...)) }
	p, err := e.Load("cl", false)
	if err != nil {
		miss("cl: %v", err)
		return st
	}
	if fd := p.Func("toForStmt"); fd == nil {
		miss("cl: func toForStmt not found")
	} else {
		ast.Inspect(fd, func(n ast.Node) bool {
			switch v := n.(type) {
			case *ast.ReturnStmt:
				if len(v.Results) != 1 {
					return true
				}
				fs := compLit(v.Results[0])
				if fs == nil {
					return true
				}
				if c := compLit(kvOf(fs, "Cond")); c != nil {
					st.CondOp = selName(kvOf(c, "Op"))
				}
				if c := compLit(kvOf(fs, "Post")); c != nil {
					st.PostTok = selName(kvOf(c, "Tok"))
				}
			case *ast.IfStmt:
				// if first == nil { first = &ast.BasicLit{... Value: "0"} } ; if re.Expr3 == nil { post = &ast.BasicLit{... Value: "1"} }
				cond := p.Src(v.Cond)
				for _, s := range v.Body.List {
					as, ok := s.(*ast.AssignStmt)
					if !ok || len(as.Lhs) != 1 || len(as.Rhs) != 1 {
						continue
					}
					val := litValue(compLit(as.Rhs[0]))
					if val == "" {
						continue
					}
					switch {
					case cond == "first == nil" && p.Src(as.Lhs[0]) == "first":
						st.DefaultFirst = val
					case cond == "re.Expr3 == nil" && p.Src(as.Lhs[0]) == "post":
						st.DefaultStep = val
					}
				}
			}
			return true
		})
		if st.CondOp == "" {
			miss("toForStmt: Cond.Op of the returned &ast.ForStmt literal")
		}
		if st.PostTok == "" {
			miss("toForStmt: Post.Tok of the returned &ast.ForStmt literal")
		}
		if st.DefaultFirst == "" {
			miss("toForStmt: literal for an omitted start")
		}
		if st.DefaultStep == "" {
			miss("toForStmt: literal for an omitted step")
		}
	}
	if fd := p.Func("compileRangeExpr"); fd == nil {
		miss("cl: func compileRangeExpr not found")
	} else {
		ast.Inspect(fd, func(n ast.Node) bool {
			v, ok := n.(*ast.IfStmt)
			if !ok {
				return true
			}
			cond := p.Src(v.Cond)
			ast.Inspect(v.Body, func(m ast.Node) bool {
				ce, ok := m.(*ast.CallExpr)
				if !ok || len(ce.Args) == 0 {
					return true
				}
				if s, ok := ce.Fun.(*ast.SelectorExpr); ok && s.Sel.Name == "Val" {
					if bl, ok := ce.Args[0].(*ast.BasicLit); ok {
						switch cond {
						case "v.First == nil":
							st.RangeFirst = bl.Value
						case "v.Expr3 == nil":
							st.RangeStep = bl.Value
						}
					}
				}
				return true
			})
			return true
		})
		if st.RangeFirst == "" {
			miss("compileRangeExpr: value for an omitted start")
		}
		if st.RangeStep == "" {
			miss("compileRangeExpr: value for an omitted step")
		}
	}
	return st
}

func genRangeLoop(e *Env) error {
	dynPath := filepath.Join(e.JSON, "rangeloop_dyn.json")
	raw, err := os.ReadFile(dynPath)
	if err != nil {
		if _, e2 := os.Stat(filepath.Join(e.Out, "RangeLoop.v")); e2 == nil {
			fmt.Printf("gen: RangeLoop.v kept (no dynamic shape at %s; it is written by `h_c04 gen -shape`, run by ./check C04)\n", dynPath)
			return nil
		}
		return fmt.Errorf("no dynamic loop shape: %v", err)
	}
	var dyn rlDyn
	if err := json.Unmarshal(raw, &dyn); err != nil {
		return fmt.Errorf("%s: %v", dynPath, err)
	}
	st := rlStaticExtract(e)

	// static vs dynamic
	var dis []string
	for name, l := range dyn.Loops {
		if st.CondOp != "" && rlCmpTok[st.CondOp] != l.Cond[1] {
			dis = append(dis, fmt.Sprintf("%s: emitted condition operator %s, toForStmt source says token.%s", name, l.Cond[1], st.CondOp))
		}
		if st.PostTok != "" && rlPostTok[st.PostTok] != l.Post[1] {
			dis = append(dis, fmt.Sprintf("%s: emitted post token %s, toForStmt source says token.%s", name, l.Post[1], st.PostTok))
		}
	}
	chk := func(tmpl string, got, want, what string) {
		if want != "" && got != "const:"+want {
			dis = append(dis, fmt.Sprintf("%s: emitted %s is %s, source says %s", tmpl, what, got, want))
		}
	}
	if l := dyn.Loops["forin_defaults"]; l != nil && len(l.Init) > 0 {
		chk("forin_defaults", l.Init[0][1], st.DefaultFirst, "start")
		chk("forin_defaults", l.Post[2], st.DefaultStep, "step")
	}
	if a := dyn.Ranges["compr_defaults"]; len(a) == 3 {
		chk("compr_defaults", a[0], st.RangeFirst, "start")
		chk("compr_defaults", a[2], st.RangeStep, "step")
	}
	sort.Strings(dis)
	if len(dis) > 0 {
		return fmt.Errorf("static and dynamic extraction disagree: %s", strings.Join(dis, "; "))
	}

	var out strings.Builder
	out.WriteString("(* dynamic: emitted Go of the template programs of harness/cmd/c04 (h_c04 gen -shape);\n   static cross-check: cl/stmt.go:toForStmt, cl/expr.go:compileRangeExpr")
	if len(st.Unparsed) > 0 {
		out.WriteString(";\n   static: unparsed " + strings.Join(st.Unparsed, ", "))
	}
	out.WriteString(" *)\nFrom Coq Require Import List ZArith.\nImport ListNotations.\nFrom V Require Import Base.RangeOps.\nOpen Scope Z_scope.\n\n")
	groups := []struct {
		list  string
		names []string
	}{
		{"shapes_full", []string{"forin_ident", "forrange_ident", "forrange_assign_ident", "forin_computed", "forrange_computed", "forrange_assign_computed", "forin_cond"}},
		{"shapes_defaults", []string{"forin_defaults", "forrange_defaults"}},
		{"shapes_nostep", []string{"forin_nostep"}},
	}
	for _, g := range groups {
		for _, n := range g.names {
			l := dyn.Loops[n]
			if l == nil {
				return fmt.Errorf("template %s missing from %s", n, dynPath)
			}
			s, err := rlShape(n, l)
			if err != nil {
				return err
			}
			fmt.Fprintf(&out, "Definition shape_%s : loop_shape :=\n  %s.\n", n, s)
		}
		var items []string
		for _, n := range g.names {
			items = append(items, "shape_"+n)
		}
		fmt.Fprintf(&out, "Definition %s : list loop_shape := %s.\n\n", g.list, coqList(items, 4))
	}
	rgroups := []struct {
		list  string
		names []string
	}{
		{"ranges_full", []string{"compr_ident", "compr_computed"}},
		{"ranges_defaults", []string{"compr_defaults"}},
		{"ranges_nostep", []string{"compr_nostep"}},
	}
	for _, g := range rgroups {
		var items []string
		for _, n := range g.names {
			a := dyn.Ranges[n]
			if a == nil {
				return fmt.Errorf("template %s missing from %s", n, dynPath)
			}
			if it := dyn.Iter[n]; it != "Gop_Enum;NewRange__0;Next;" {
				return fmt.Errorf("%s: the comprehension no longer enumerates NewRange__0(...).Gop_Enum() with Next(): %q", n, it)
			}
			var os_ []string
			for _, r := range a {
				o, err := rlOpnd(r)
				if err != nil {
					return fmt.Errorf("%s: %v", n, err)
				}
				os_ = append(os_, o)
			}
			fmt.Fprintf(&out, "Definition range_%s : list opnd := %s.\n", n, coqList(os_, 0))
			items = append(items, "range_"+n)
		}
		fmt.Fprintf(&out, "Definition %s : list (list opnd) := %s.\n\n", g.list, coqList(items, 4))
	}
	if err := e.WriteV("RangeLoop", out.String()); err != nil {
		return err
	}
	return e.WriteJSON("rangeloop", map[string]interface{}{"dynamic": dyn, "static": st})
}
