package main

// GEN-AST (a): every node struct of /repo/ast (and the records reachable from them) with its
// fields in declaration order and a field class  ->  Gen/AstStructs.v + aststructs.json.
//
// Field classes are decided with go/types (so aliases such as Comment = go/ast.Comment are
// followed).  "opt" (the field may be nil) is read from the field's own comment: the Go
// source documents optional children as "...; or nil", "may be nil", "can be nil", "nil means".

import (
	"fmt"
	"go/ast"
	"go/types"
	"path/filepath"
	"regexp"
	"runtime"
	"sort"
	"strings"
)

func init() { register("aststructs", genAstStructs) }

type astField struct {
	Name    string   `json:"name"`
	Class   string   `json:"class"` // Pos Tok Int Str Bool Node List ListList Map Rec Parts Other
	Opt     bool     `json:"opt"`
	Kinds   []string `json:"kinds,omitempty"` // Rec: record kinds the field may hold
	GoType  string   `json:"gotype"`
	Comment string   `json:"comment,omitempty"`
}

type astStructs struct {
	Nodes     map[string][]astField `json:"nodes"`
	Recs      map[string][]astField `json:"recs"`
	NodeOrder []string              `json:"node_order"`
	RecOrder  []string              `json:"rec_order"`
}

var reNil = regexp.MustCompile(`(?i)\bnil\b|\boptional\b`)
var reNonNil = regexp.MustCompile(`(?i)\bnon-nil\b`)

// astInfo is shared by the other GEN-AST generators.
type astInfo struct {
	pkg      *Pkg
	nodeT    map[*types.TypeName]bool // struct types of package ast (incl. aliases) whose pointer is a Node
	structOf map[string]*types.Struct
	declOf   map[string]*ast.StructType // syntax, when declared in /repo/ast
	names    []string                   // all struct type names in scope order
	nodeIfc  *types.Interface
	S        *astStructs
}

func loadAstInfo(e *Env) (*astInfo, error) { return loadAstInfoDir(e, "ast") }

// loadAstInfoDir: the same for another package directory with the go/ast shape (GOROOT/src/go/ast).
func loadAstInfoDir(e *Env, dir string) (*astInfo, error) {
	p, err := e.Load(dir, true)
	if err != nil {
		return nil, err
	}
	if p.Types == nil {
		return nil, fmt.Errorf("%s: type check failed", dir)
	}
	ai := &astInfo{pkg: p, nodeT: map[*types.TypeName]bool{}, structOf: map[string]*types.Struct{}, declOf: map[string]*ast.StructType{}}
	nobj := p.Types.Scope().Lookup("Node")
	if nobj == nil {
		return nil, fmt.Errorf("ast.Node not found")
	}
	ifc, ok := types.Unalias(nobj.Type()).Underlying().(*types.Interface)
	if !ok {
		return nil, fmt.Errorf("ast.Node is not an interface")
	}
	ai.nodeIfc = ifc
	for _, f := range p.Files {
		for _, d := range f.Decls {
			gd, ok := d.(*ast.GenDecl)
			if !ok {
				continue
			}
			for _, s := range gd.Specs {
				if ts, ok := s.(*ast.TypeSpec); ok {
					if st, ok := ts.Type.(*ast.StructType); ok {
						ai.declOf[ts.Name.Name] = st
					}
				}
			}
		}
	}
	// aliases of go/ast structs: take the syntax from GOROOT for the comments
	gp, err := e.Load(filepath.Join(runtime.GOROOT(), "src", "go", "ast"), false)
	if err != nil {
		return nil, err
	}
	goDecl := map[string]*ast.StructType{}
	for _, f := range gp.Files {
		for _, d := range f.Decls {
			if gd, ok := d.(*ast.GenDecl); ok {
				for _, s := range gd.Specs {
					if ts, ok := s.(*ast.TypeSpec); ok {
						if st, ok := ts.Type.(*ast.StructType); ok {
							goDecl[ts.Name.Name] = st
						}
					}
				}
			}
		}
	}
	for _, name := range p.Types.Scope().Names() {
		tn, ok := p.Types.Scope().Lookup(name).(*types.TypeName)
		if !ok {
			continue
		}
		t := types.Unalias(tn.Type())
		st, ok := t.Underlying().(*types.Struct)
		if !ok {
			continue
		}
		ai.structOf[name] = st
		ai.names = append(ai.names, name)
		if tn.IsAlias() {
			if named, ok := t.(*types.Named); ok {
				if d, ok := goDecl[named.Obj().Name()]; ok {
					ai.declOf[name] = d
				}
			}
		}
		if types.Implements(types.NewPointer(t), ifc) {
			ai.nodeT[tn] = true
		}
	}
	sort.Strings(ai.names)
	return ai, nil
}

// kindOfNamed: name in package ast's scope of a struct type (following aliases), or "".
func (ai *astInfo) kindName(t types.Type) string {
	t = types.Unalias(t)
	for _, name := range ai.names {
		tn := ai.pkg.Types.Scope().Lookup(name).(*types.TypeName)
		if types.Identical(types.Unalias(tn.Type()), t) {
			return name
		}
	}
	return ""
}

func (ai *astInfo) isNodeStructPtr(t types.Type) bool {
	pt, ok := types.Unalias(t).(*types.Pointer)
	if !ok {
		return false
	}
	k := ai.kindName(pt.Elem())
	if k == "" {
		return false
	}
	return ai.nodeT[ai.pkg.Types.Scope().Lookup(k).(*types.TypeName)]
}

// a node interface: an interface with Pos and End whose dynamic values are nodes of this package
func (ai *astInfo) isNodeIface(t types.Type) bool {
	it, ok := types.Unalias(t).Underlying().(*types.Interface)
	if !ok || it.NumMethods() == 0 {
		return false
	}
	return types.Implements(t, ai.nodeIfc) || types.Identical(it, ai.nodeIfc)
}

func (ai *astInfo) isNodeish(t types.Type) bool { return ai.isNodeStructPtr(t) || ai.isNodeIface(t) }

func isEmptyIface(t types.Type) bool {
	it, ok := types.Unalias(t).Underlying().(*types.Interface)
	return ok && it.NumMethods() == 0 && it.NumEmbeddeds() == 0
}

func (ai *astInfo) typeName(t types.Type) string {
	return types.TypeString(t, func(p *types.Package) string { return p.Name() })
}

// classify gives the class of a field type; inNode: the field belongs to a node struct.
func (ai *astInfo) classify(t types.Type, inNode bool, recs []string) (class string, kinds []string) {
	u := types.Unalias(t)
	if n, ok := u.(*types.Named); ok && n.Obj().Pkg() != nil {
		switch n.Obj().Pkg().Path() + "." + n.Obj().Name() {
		case "go/token.Pos":
			return "Pos", nil
		case "go/token.Token", "github.com/goplus/xgo/token.Token":
			return "Tok", nil
		}
	}
	if ai.isNodeish(u) {
		return "Node", nil
	}
	switch b := u.Underlying().(type) {
	case *types.Basic:
		switch {
		case b.Info()&types.IsBoolean != 0:
			return "Bool", nil
		case b.Info()&types.IsInteger != 0:
			return "Int", nil
		case b.Info()&types.IsString != 0:
			return "Str", nil
		}
	case *types.Slice:
		el := b.Elem()
		if ai.isNodeish(el) {
			return "List", nil
		}
		if s2, ok := types.Unalias(el).Underlying().(*types.Slice); ok && ai.isNodeish(s2.Elem()) {
			return "ListList", nil
		}
		if isEmptyIface(el) {
			return "Parts", nil
		}
	case *types.Map:
		if ai.isNodeish(b.Elem()) {
			return "Map", nil
		}
	case *types.Pointer:
		k := ai.kindName(b.Elem())
		for _, r := range recs {
			if r == k {
				return "Rec", []string{k}
			}
		}
	case *types.Interface:
		if inNode && isEmptyIface(u) {
			return "Rec", append([]string{}, recs...)
		}
	}
	return "Other", nil
}

// optional fields of a declaration group, from its comment
func optionalNames(names []string, comment string) map[string]bool {
	out := map[string]bool{}
	c := reNonNil.ReplaceAllString(comment, "")
	if !reNil.MatchString(c) {
		return out
	}
	// "Key may be nil" in a group "Key, Value": only the names mentioned before the word nil
	idx := reNil.FindStringIndex(c)[0]
	head := c[:idx]
	var mentioned []string
	for _, n := range names {
		if regexp.MustCompile(`\b` + regexp.QuoteMeta(n) + `\b`).MatchString(head) {
			mentioned = append(mentioned, n)
		}
	}
	if len(names) > 1 && len(mentioned) > 0 {
		for _, n := range mentioned {
			out[n] = true
		}
		return out
	}
	for _, n := range names {
		out[n] = true
	}
	return out
}

func (ai *astInfo) fieldsOf(name string, inNode bool, recs []string) ([]astField, error) {
	st := ai.structOf[name]
	decl := ai.declOf[name]
	comments := map[string]string{}
	opt := map[string]bool{}
	if decl != nil {
		for _, f := range decl.Fields.List {
			var names []string
			for _, n := range f.Names {
				names = append(names, n.Name)
			}
			if len(names) == 0 { // embedded
				t := f.Type
				if s, ok := t.(*ast.StarExpr); ok {
					t = s.X
				}
				switch x := t.(type) {
				case *ast.Ident:
					names = []string{x.Name}
				case *ast.SelectorExpr:
					names = []string{x.Sel.Name}
				}
			}
			c := ""
			if f.Comment != nil {
				c = strings.TrimSpace(f.Comment.Text())
			}
			for k, v := range optionalNames(names, c) {
				opt[k] = v
			}
			for _, n := range names {
				comments[n] = c
			}
		}
	}
	var out []astField
	for i := 0; i < st.NumFields(); i++ {
		f := st.Field(i)
		if decl != nil {
			if _, ok := comments[f.Name()]; !ok {
				return nil, fmt.Errorf("struct %s: field %s not found in the syntax", name, f.Name())
			}
		}
		cl, kinds := ai.classify(f.Type(), inNode, recs)
		af := astField{Name: f.Name(), Class: cl, Kinds: kinds, GoType: ai.typeName(f.Type()), Comment: comments[f.Name()]}
		if cl == "Node" || cl == "Rec" {
			af.Opt = opt[f.Name()]
			if cl == "Rec" && len(kinds) > 1 {
				af.Opt = true // an `any`
			}
		}
		out = append(out, af)
	}
	return out, nil
}

func (ai *astInfo) structs() (*astStructs, error) {
	if ai.S != nil {
		return ai.S, nil
	}
	S := &astStructs{Nodes: map[string][]astField{}, Recs: map[string][]astField{}}
	// records: non-node structs of the package with a node-bearing field
	var recs []string
	for _, name := range ai.names {
		tn := ai.pkg.Types.Scope().Lookup(name).(*types.TypeName)
		if ai.nodeT[tn] || !tn.Exported() {
			continue
		}
		fs, err := ai.fieldsOf(name, false, nil)
		if err != nil {
			return nil, err
		}
		bearing := false
		for _, f := range fs {
			switch f.Class {
			case "Node", "List", "ListList", "Parts", "Map":
				bearing = true
			}
		}
		if bearing {
			recs = append(recs, name)
			S.Recs[name] = fs
		}
	}
	S.RecOrder = recs
	for _, name := range ai.names {
		tn := ai.pkg.Types.Scope().Lookup(name).(*types.TypeName)
		if !ai.nodeT[tn] {
			continue
		}
		fs, err := ai.fieldsOf(name, true, recs)
		if err != nil {
			return nil, err
		}
		S.Nodes[name] = fs
		S.NodeOrder = append(S.NodeOrder, name)
	}
	if len(S.NodeOrder) < 50 {
		return nil, fmt.Errorf("only %d node structs found", len(S.NodeOrder))
	}
	ai.S = S
	return S, nil
}

func coqFClass(f astField) string {
	b := func(x bool) string {
		if x {
			return "true"
		}
		return "false"
	}
	switch f.Class {
	case "Node":
		return "FNode " + b(f.Opt)
	case "Rec":
		var ks []string
		for _, k := range f.Kinds {
			ks = append(ks, coqString(k))
		}
		return "FRec " + b(f.Opt) + " " + coqList(ks, 0)
	}
	return "F" + f.Class
}

func coqStructTable(name string, order []string, m map[string][]astField) string {
	var rows []string
	for _, k := range order {
		var fs []string
		for _, f := range m[k] {
			fs = append(fs, fmt.Sprintf("(%s, %s)", coqString(f.Name), coqFClass(f)))
		}
		rows = append(rows, fmt.Sprintf("(%s, %s)", coqString(k), coqList(fs, 0)))
	}
	return fmt.Sprintf("Definition %s : list (string * list (string * fclass)) :=\n  %s.\n", name, coqList(rows, 1))
}

const astGenHeader = "From Coq Require Import List String ZArith Bool.\nImport ListNotations.\nFrom V Require Import Base.AstTree.\nOpen Scope string_scope.\n\n"

func genAstStructs(e *Env) error {
	ai, err := loadAstInfo(e)
	if err != nil {
		return err
	}
	S, err := ai.structs()
	if err != nil {
		return err
	}
	var out strings.Builder
	out.WriteString(astGenHeader)
	out.WriteString("(* node structs of /repo/ast (fields in declaration order) *)\n")
	out.WriteString(coqStructTable("node_structs", S.NodeOrder, S.Nodes))
	out.WriteString("\n(* records: structs that are not nodes but hold nodes *)\n")
	out.WriteString(coqStructTable("rec_structs", S.RecOrder, S.Recs))
	if err := e.WriteJSON("aststructs", S); err != nil {
		return err
	}
	return e.WriteV("AstStructs", out.String())
}
