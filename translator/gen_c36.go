package main

// gen_c36: the literals of tool/imp.go that Model/C36.v relies on  ->  Gen/C36.v
//   * canCl:   the case labels of `switch path.Ext(fname)` (the always-compilable extensions)
//   * dirHash: the format strings of its fmt.Fprintf calls, in order, with the source text of their
//              arguments; the prefixes tested with strings.HasPrefix; whether directories are skipped

import (
	"fmt"
	"go/ast"
	"strings"
)

func init() { register("c36", genC36) }

func genC36(e *Env) error {
	var out strings.Builder
	out.WriteString(g4bHeader)
	p, fd, err := g4bFunc(e, "tool", "canCl")
	if err != nil {
		return err
	}
	sws, err := g4bSwitches(p, fd, "")
	if err != nil {
		return err
	}
	if len(sws) != 1 || !sws[0].HasDefault {
		return fmt.Errorf("canCl: expected one switch over string literals with a default clause, found %d", len(sws))
	}
	fmt.Fprintf(&out, "(* canCl: switch path.Ext(fname) *)\nDefinition cancl_case_labels : list (list str) := %s.\n\n", g4bStrListList(sws[0].Labels))

	p, fd, err = g4bFunc(e, "tool", "dirHash")
	if err != nil {
		return err
	}
	var fmts []string
	var args [][]string
	for _, a := range g4bCallArgs(fd.Body, "fmt", "Fprintf") {
		if len(a) < 2 {
			return fmt.Errorf("dirHash: fmt.Fprintf with %d arguments", len(a))
		}
		f, ok := g4bStrLit(a[1])
		if !ok {
			return fmt.Errorf("dirHash: format %s is not a string literal", p.Src(a[1]))
		}
		fmts = append(fmts, f)
		var as []string
		for _, x := range a[2:] {
			as = append(as, g4bShape(p, x))
		}
		args = append(args, as)
	}
	var prefixes []string
	for _, a := range g4bCallArgs(fd.Body, "strings", "HasPrefix") {
		v, ok := g4bStrLit(a[len(a)-1])
		if !ok {
			return fmt.Errorf("dirHash: strings.HasPrefix prefix is not a string literal")
		}
		prefixes = append(prefixes, v)
	}
	// `if fi.IsDir() { continue }`
	skipsDirs := false
	ast.Inspect(fd.Body, func(n ast.Node) bool {
		ifs, ok := n.(*ast.IfStmt)
		if !ok {
			return true
		}
		if strings.HasSuffix(p.Src(ifs.Cond), ".IsDir()") && len(ifs.Body.List) == 1 && p.Src(ifs.Body.List[0]) == "continue" {
			skipsDirs = true
		}
		return true
	})
	fmt.Fprintf(&out, "(* dirHash *)\nDefinition dirhash_formats : list str := %s.\n", g4bStrList(fmts))
	fmt.Fprintf(&out, "Definition dirhash_format_args : list (list str) := %s.\n", g4bStrListList(args))
	fmt.Fprintf(&out, "Definition dirhash_prefix_literals : list str := %s.\n", g4bStrList(prefixes))
	fmt.Fprintf(&out, "Definition dirhash_skips_dirs : bool := %v.\n", skipsDirs)
	if err := e.WriteJSON("c36", map[string]interface{}{"cancl": sws[0].Labels, "formats": fmts, "args": args, "prefixes": prefixes, "skips_dirs": skipsDirs}); err != nil {
		return err
	}
	return e.WriteV("C36", out.String())
}
