package main

// GEN-AST (d): the conversion functions of ast/fromgo/gopast.go and ast/togo/goast.go
//   ->  Gen/AstConv.v (from_table, to_table : ctable) + astconv.json
// and the go/ast struct table (GOROOT)  ->  Gen/GoAstStructs.v + goaststructs.json.
//
// Every function must have one of the shapes of Base/AstConv.v; anything else is an error.

import (
	"fmt"
	"go/ast"
	"go/constant"
	"go/token"
	"go/types"
	"path/filepath"
	"runtime"
	"sort"
	"strings"
)

func init() {
	register("astconv", genAstConv)
	register("goaststructs", genGoAstStructs)
}

type convField struct {
	Dst   string     `json:"dst"`
	Op    string     `json:"op"` // copy cast call map specs empty opaque
	Fn    string     `json:"fn,omitempty"`
	Src   string     `json:"src,omitempty"`
	Kind  string     `json:"kind,omitempty"`
	TokF  string     `json:"tokf,omitempty"`
	Cases []specCase `json:"cases,omitempty"`
}

type specCase struct {
	Toks []int64 `json:"toks"`
	Fn   string  `json:"fn"`
	Kind string  `json:"kind"`
}

type convBuild struct {
	Kind string      `json:"kind"`
	Sets []convField `json:"sets"`
}

type convCase struct {
	Kind  string     `json:"kind"`
	Build *convBuild `json:"build,omitempty"`
	Call  string     `json:"call,omitempty"`
}

type convFunc struct {
	Name       string     `json:"name"`
	Shape      string     `json:"shape"` // switch build alias maplist
	NilCheck   bool       `json:"nilcheck"`
	Cases      []convCase `json:"cases,omitempty"`
	Build      *convBuild `json:"build,omitempty"`
	Fn         string     `json:"fn,omitempty"`
	ArgKind    string     `json:"argkind,omitempty"` // build: the parameter has static type *ArgKind
	NilIfEmpty bool       `json:"nil_if_empty,omitempty"`
	Prelude    []string   `json:"prelude,omitempty"` // skipped guard statements (mode checks), normalised source
}

type convGen struct {
	p       *Pkg
	funcs   map[string]*ast.FuncDecl
	helpers map[string]string // "typeparams.ForFuncType" -> field
}

func (g *convGen) src(n ast.Node) string { return strings.Join(strings.Fields(g.p.Src(n)), " ") }

// typeKind: "K" for  *pkg.K / *K  type expressions
func typeKind(e ast.Expr) (string, bool) {
	st, ok := e.(*ast.StarExpr)
	if !ok {
		return "", false
	}
	switch x := st.X.(type) {
	case *ast.SelectorExpr:
		return x.Sel.Name, true
	case *ast.Ident:
		return x.Name, true
	}
	return "", false
}

func isNilIdent(e ast.Expr) bool {
	id, ok := e.(*ast.Ident)
	return ok && id.Name == "nil"
}

// nilReturn matches  if <v> == nil { return nil }
func nilReturn(s ast.Stmt, v string) bool {
	is, ok := s.(*ast.IfStmt)
	if !ok || is.Init != nil || is.Else != nil || len(is.Body.List) != 1 {
		return false
	}
	b, ok := is.Cond.(*ast.BinaryExpr)
	if !ok || b.Op != token.EQL || !isNilIdent(b.Y) {
		return false
	}
	if id, ok := b.X.(*ast.Ident); !ok || id.Name != v {
		return false
	}
	r, ok := is.Body.List[0].(*ast.ReturnStmt)
	return ok && len(r.Results) == 1 && isNilIdent(r.Results[0])
}

func isPanicln(s ast.Stmt) bool {
	es, ok := s.(*ast.ExprStmt)
	if !ok {
		return false
	}
	c, ok := es.X.(*ast.CallExpr)
	if !ok {
		return false
	}
	se, ok := c.Fun.(*ast.SelectorExpr)
	if !ok {
		return false
	}
	id, ok := se.X.(*ast.Ident)
	return ok && id.Name == "log" && strings.HasPrefix(se.Sel.Name, "Panic")
}

// field expression of a composite literal
func (g *convGen) fieldExpr(dst string, e ast.Expr, v string, locals map[string]convField) (convField, error) {
	bad := func() (convField, error) {
		return convField{}, fmt.Errorf("field %s: expression outside the fragment: %s", dst, g.src(e))
	}
	selOfV := func(x ast.Expr) (string, bool) { return sel(x, v) }
	switch x := e.(type) {
	case *ast.SelectorExpr:
		if f, ok := selOfV(x); ok {
			return convField{Dst: dst, Op: "copy", Src: f}, nil
		}
	case *ast.Ident:
		if l, ok := locals[x.Name]; ok {
			l.Dst = dst
			return l, nil
		}
	case *ast.UnaryExpr:
		if x.Op == token.AND {
			if cl, ok := x.X.(*ast.CompositeLit); ok {
				k := ""
				switch t := cl.Type.(type) {
				case *ast.SelectorExpr:
					k = t.Sel.Name
				case *ast.Ident:
					k = t.Name
				}
				if k != "" && len(cl.Elts) == 0 {
					return convField{Dst: dst, Op: "empty", Kind: k}, nil
				}
				if k == "Object" {
					return convField{Dst: dst, Op: "opaque"}, nil
				}
			}
		}
	case *ast.CallExpr:
		if len(x.Args) != 1 {
			return bad()
		}
		// conversion T(v.F)
		if tv, ok := g.p.Info.Types[x.Fun]; ok && tv.IsType() {
			if f, ok := selOfV(x.Args[0]); ok && isInt(tv.Type) {
				return convField{Dst: dst, Op: "cast", Src: f}, nil
			}
			return bad()
		}
		fn, ok := x.Fun.(*ast.Ident)
		if !ok || g.funcs[fn.Name] == nil {
			return bad()
		}
		if f, ok := selOfV(x.Args[0]); ok {
			return convField{Dst: dst, Op: "call", Fn: fn.Name, Src: f}, nil
		}
		// fn(helper(v))
		if hc, ok := x.Args[0].(*ast.CallExpr); ok && len(hc.Args) == 1 {
			if id, ok := hc.Args[0].(*ast.Ident); ok && id.Name == v {
				if f, ok := g.helpers[g.src(hc.Fun)]; ok {
					return convField{Dst: dst, Op: "call", Fn: fn.Name, Src: f}, nil
				}
			}
		}
	}
	return bad()
}

func (g *convGen) build(e ast.Expr, v string, locals map[string]convField) (*convBuild, error) {
	u, ok := e.(*ast.UnaryExpr)
	if !ok || u.Op != token.AND {
		return nil, fmt.Errorf("not a &K{...}: %s", g.src(e))
	}
	cl, ok := u.X.(*ast.CompositeLit)
	if !ok {
		return nil, fmt.Errorf("not a &K{...}: %s", g.src(e))
	}
	k := ""
	switch t := cl.Type.(type) {
	case *ast.SelectorExpr:
		k = t.Sel.Name
	case *ast.Ident:
		k = t.Name
	}
	if k == "" {
		return nil, fmt.Errorf("composite literal type: %s", g.src(cl.Type))
	}
	b := &convBuild{Kind: k}
	seen := map[string]bool{}
	for _, el := range cl.Elts {
		kv, ok := el.(*ast.KeyValueExpr)
		if !ok {
			return nil, fmt.Errorf("%s: positional composite literal", k)
		}
		key, ok := kv.Key.(*ast.Ident)
		if !ok || seen[key.Name] {
			return nil, fmt.Errorf("%s: bad key %s", k, g.src(kv.Key))
		}
		seen[key.Name] = true
		cf, err := g.fieldExpr(key.Name, kv.Value, v, locals)
		if err != nil {
			return nil, fmt.Errorf("%s: %v", k, err)
		}
		b.Sets = append(b.Sets, cf)
	}
	return b, nil
}

// local slice definitions before the return:  l := make([]T, len(v.F)); for i, x := range v.F { l[i] = fn(x) }
// and the specs loop of GenDecl
func (g *convGen) localLoop(mk, loop ast.Stmt, v string) (string, convField, error) {
	var none convField
	as, ok := mk.(*ast.AssignStmt)
	if !ok || as.Tok != token.DEFINE || len(as.Lhs) != 1 || len(as.Rhs) != 1 {
		return "", none, fmt.Errorf("statement outside the fragment: %s", g.src(mk))
	}
	lv, ok := as.Lhs[0].(*ast.Ident)
	if !ok {
		return "", none, fmt.Errorf("statement outside the fragment: %s", g.src(mk))
	}
	mc, ok := as.Rhs[0].(*ast.CallExpr)
	if !ok || len(mc.Args) != 2 || g.src(mc.Fun) != "make" {
		return "", none, fmt.Errorf("statement outside the fragment: %s", g.src(mk))
	}
	lc, ok := mc.Args[1].(*ast.CallExpr)
	if !ok || g.src(lc.Fun) != "len" || len(lc.Args) != 1 {
		return "", none, fmt.Errorf("statement outside the fragment: %s", g.src(mk))
	}
	srcF, ok := sel(lc.Args[0], v)
	if !ok {
		return "", none, fmt.Errorf("statement outside the fragment: %s", g.src(mk))
	}
	rs, ok := loop.(*ast.RangeStmt)
	if !ok || rs.Tok != token.DEFINE || rs.Key == nil || rs.Value == nil || len(rs.Body.List) != 1 {
		return "", none, fmt.Errorf("statement outside the fragment: %s", g.src(loop))
	}
	if f2, ok := sel(rs.X, v); !ok || f2 != srcF {
		return "", none, fmt.Errorf("loop ranges over another field: %s", g.src(loop))
	}
	iv := rs.Key.(*ast.Ident).Name
	xv := rs.Value.(*ast.Ident).Name
	// l[i] = fn(x)
	assignTo := func(s ast.Stmt) (ast.Expr, bool) {
		a, ok := s.(*ast.AssignStmt)
		if !ok || a.Tok != token.ASSIGN || len(a.Lhs) != 1 || len(a.Rhs) != 1 {
			return nil, false
		}
		ix, ok := a.Lhs[0].(*ast.IndexExpr)
		if !ok || g.src(ix.X) != lv.Name || g.src(ix.Index) != iv {
			return nil, false
		}
		return a.Rhs[0], true
	}
	if rhs, ok := assignTo(rs.Body.List[0]); ok {
		c, ok := rhs.(*ast.CallExpr)
		if ok && len(c.Args) == 1 && g.src(c.Args[0]) == xv {
			if fn, ok := c.Fun.(*ast.Ident); ok && g.funcs[fn.Name] != nil {
				return lv.Name, convField{Op: "map", Fn: fn.Name, Src: srcF}, nil
			}
		}
		return "", none, fmt.Errorf("loop body outside the fragment: %s", g.src(loop))
	}
	sw, ok := rs.Body.List[0].(*ast.SwitchStmt)
	if !ok || sw.Init != nil || sw.Tag == nil {
		return "", none, fmt.Errorf("loop body outside the fragment: %s", g.src(loop))
	}
	tokF, ok := sel(sw.Tag, v)
	if !ok {
		return "", none, fmt.Errorf("switch tag outside the fragment: %s", g.src(sw.Tag))
	}
	cf := convField{Op: "specs", Src: srcF, TokF: tokF}
	hasDefault := false
	for _, cc := range sw.Body.List {
		cl := cc.(*ast.CaseClause)
		if cl.List == nil {
			if len(cl.Body) == 1 && isPanicln(cl.Body[0]) {
				hasDefault = true
				continue
			}
			return "", none, fmt.Errorf("default case is not a panic: %s", g.src(cl))
		}
		var toks []int64
		for _, te := range cl.List {
			tv := g.p.Info.Types[te]
			if tv.Value == nil || tv.Value.Kind() != constant.Int {
				return "", none, fmt.Errorf("case %s is not a constant", g.src(te))
			}
			n, _ := constant.Int64Val(tv.Value)
			toks = append(toks, n)
		}
		if len(cl.Body) != 1 {
			return "", none, fmt.Errorf("case body outside the fragment: %s", g.src(cl))
		}
		rhs, ok := assignTo(cl.Body[0])
		if !ok {
			return "", none, fmt.Errorf("case body outside the fragment: %s", g.src(cl))
		}
		c, ok := rhs.(*ast.CallExpr)
		if !ok || len(c.Args) != 1 {
			return "", none, fmt.Errorf("case body outside the fragment: %s", g.src(cl))
		}
		fn, ok := c.Fun.(*ast.Ident)
		if !ok || g.funcs[fn.Name] == nil {
			return "", none, fmt.Errorf("case body outside the fragment: %s", g.src(cl))
		}
		ta, ok := c.Args[0].(*ast.TypeAssertExpr)
		if !ok || g.src(ta.X) != xv {
			return "", none, fmt.Errorf("case body outside the fragment: %s", g.src(cl))
		}
		k, ok := typeKind(ta.Type)
		if !ok {
			return "", none, fmt.Errorf("case body outside the fragment: %s", g.src(cl))
		}
		cf.Cases = append(cf.Cases, specCase{Toks: toks, Fn: fn.Name, Kind: k})
	}
	if !hasDefault {
		return "", none, fmt.Errorf("specs switch without panicking default")
	}
	return lv.Name, cf, nil
}

func (g *convGen) function(fd *ast.FuncDecl) (*convFunc, error) {
	cf := &convFunc{Name: fd.Name.Name}
	if fd.Recv != nil || fd.Type.Params == nil || len(fd.Type.Params.List) == 0 || len(fd.Type.Params.List[0].Names) != 1 {
		return nil, fmt.Errorf("%s: unexpected signature", fd.Name.Name)
	}
	v := fd.Type.Params.List[0].Names[0].Name
	body := fd.Body.List
	// prelude of mode guards:  if (mode & X) != 0 { log.Panicln(...) }
	for len(body) > 0 {
		is, ok := body[0].(*ast.IfStmt)
		if !ok || is.Init != nil || is.Else != nil || len(is.Body.List) != 1 || !isPanicln(is.Body.List[0]) || !strings.Contains(g.src(is.Cond), "mode") {
			break
		}
		cf.Prelude = append(cf.Prelude, g.src(is.Cond))
		body = body[1:]
	}
	if len(body) > 0 && nilReturn(body[0], v) {
		cf.NilCheck = true
		body = body[1:]
	}
	if len(body) == 0 {
		return nil, fmt.Errorf("%s: empty body", cf.Name)
	}
	// alias:  return fn(v)
	if r, ok := body[0].(*ast.ReturnStmt); ok && len(body) == 1 && len(r.Results) == 1 {
		if c, ok := r.Results[0].(*ast.CallExpr); ok && len(c.Args) == 1 && g.src(c.Args[0]) == v {
			if fn, ok := c.Fun.(*ast.Ident); ok && g.funcs[fn.Name] != nil && !cf.NilCheck {
				cf.Shape, cf.Fn = "alias", fn.Name
				return cf, nil
			}
		}
	}
	// type switch
	if ts, ok := body[0].(*ast.TypeSwitchStmt); ok {
		if len(body) != 3 || !isPanicln(body[1]) {
			return nil, fmt.Errorf("%s: type switch not followed by log.Panicln; return nil", cf.Name)
		}
		if r, ok := body[2].(*ast.ReturnStmt); !ok || len(r.Results) != 1 || !isNilIdent(r.Results[0]) {
			return nil, fmt.Errorf("%s: type switch not followed by log.Panicln; return nil", cf.Name)
		}
		as, ok := ts.Assign.(*ast.AssignStmt)
		if !ok || ts.Init != nil || len(as.Lhs) != 1 {
			return nil, fmt.Errorf("%s: type switch without binding", cf.Name)
		}
		if ta, ok := as.Rhs[0].(*ast.TypeAssertExpr); !ok || ta.Type != nil || g.src(ta.X) != v {
			return nil, fmt.Errorf("%s: type switch is not on the parameter", cf.Name)
		}
		sv := as.Lhs[0].(*ast.Ident).Name
		cf.Shape = "switch"
		for _, cc := range ts.Body.List {
			cl := cc.(*ast.CaseClause)
			if cl.List == nil || len(cl.List) != 1 || len(cl.Body) != 1 {
				return nil, fmt.Errorf("%s: case outside the fragment: %s", cf.Name, g.src(cl))
			}
			k, ok := typeKind(cl.List[0])
			if !ok {
				return nil, fmt.Errorf("%s: case type %s", cf.Name, g.src(cl.List[0]))
			}
			r, ok := cl.Body[0].(*ast.ReturnStmt)
			if !ok || len(r.Results) != 1 {
				return nil, fmt.Errorf("%s: case %s does not return", cf.Name, k)
			}
			if c, ok := r.Results[0].(*ast.CallExpr); ok {
				if fn, ok := c.Fun.(*ast.Ident); ok && g.funcs[fn.Name] != nil && len(c.Args) == 1 && g.src(c.Args[0]) == sv {
					cf.Cases = append(cf.Cases, convCase{Kind: k, Call: fn.Name})
					continue
				}
				return nil, fmt.Errorf("%s: case %s: %s", cf.Name, k, g.src(r.Results[0]))
			}
			b, err := g.build(r.Results[0], sv, nil)
			if err != nil {
				return nil, fmt.Errorf("%s: case %s: %v", cf.Name, k, err)
			}
			cf.Cases = append(cf.Cases, convCase{Kind: k, Build: b})
		}
		return cf, nil
	}
	// map over a list:  [n := len(vs); if n == 0 { return nil }]  ret := make([]T, n|len(vs)); for i, x := range vs { ret[i] = fn(x) }; return ret
	if !cf.NilCheck {
		b2 := body
		nilIfEmpty := false
		if len(b2) == 5 {
			if g.src(b2[0]) == "n := len("+v+")" && g.src(b2[1]) == "if n == 0 { return nil }" {
				nilIfEmpty = true
				b2 = b2[2:]
			}
		}
		if len(b2) == 3 {
			as, ok1 := b2[0].(*ast.AssignStmt)
			rs, ok2 := b2[1].(*ast.RangeStmt)
			rt, ok3 := b2[2].(*ast.ReturnStmt)
			if ok1 && ok2 && ok3 && len(as.Lhs) == 1 && len(rt.Results) == 1 && g.src(rt.Results[0]) == g.src(as.Lhs[0]) && g.src(rs.X) == v && len(rs.Body.List) == 1 {
				ret := g.src(as.Lhs[0])
				mk := g.src(as.Rhs[0])
				if strings.HasPrefix(mk, "make(") && (strings.HasSuffix(mk, ", n)") && nilIfEmpty || strings.HasSuffix(mk, ", len("+v+"))")) {
					if a, ok := rs.Body.List[0].(*ast.AssignStmt); ok && len(a.Rhs) == 1 && g.src(a.Lhs[0]) == ret+"["+g.src(rs.Key)+"]" {
						if c, ok := a.Rhs[0].(*ast.CallExpr); ok && len(c.Args) == 1 && g.src(c.Args[0]) == g.src(rs.Value) {
							if fn, ok := c.Fun.(*ast.Ident); ok && g.funcs[fn.Name] != nil {
								cf.Shape, cf.Fn, cf.NilIfEmpty = "maplist", fn.Name, nilIfEmpty
								return cf, nil
							}
						}
					}
				}
			}
		}
	}
	// builder with optional local loops
	locals := map[string]convField{}
	for len(body) >= 3 {
		name, lf, err := g.localLoop(body[0], body[1], v)
		if err != nil {
			return nil, fmt.Errorf("%s: %v", cf.Name, err)
		}
		locals[name] = lf
		body = body[2:]
	}
	if len(body) != 1 {
		return nil, fmt.Errorf("%s: body outside the fragment", cf.Name)
	}
	r, ok := body[0].(*ast.ReturnStmt)
	if !ok || len(r.Results) != 1 {
		return nil, fmt.Errorf("%s: body outside the fragment: %s", cf.Name, g.src(body[0]))
	}
	b, err := g.build(r.Results[0], v, locals)
	if err != nil {
		return nil, fmt.Errorf("%s: %v", cf.Name, err)
	}
	ak, ok := typeKind(fd.Type.Params.List[0].Type)
	if !ok {
		return nil, fmt.Errorf("%s: parameter type %s is not a pointer to a struct", cf.Name, g.src(fd.Type.Params.List[0].Type))
	}
	cf.Shape, cf.Build, cf.ArgKind = "build", b, ak
	return cf, nil
}

func (g *convGen) helpersOf(e *Env, dir, prefix string) error {
	p, err := e.Load(dir, false)
	if err != nil {
		return err
	}
	for _, f := range p.Files {
		for _, d := range f.Decls {
			fd, ok := d.(*ast.FuncDecl)
			if !ok || fd.Recv != nil || fd.Body == nil || len(fd.Type.Params.List) != 1 || len(fd.Type.Params.List[0].Names) != 1 {
				continue
			}
			v := fd.Type.Params.List[0].Names[0].Name
			b := fd.Body.List
			// if n == nil { return nil }; return n.F
			if len(b) == 2 && nilReturn(b[0], v) {
				if r, ok := b[1].(*ast.ReturnStmt); ok && len(r.Results) == 1 {
					if fld, ok := sel(r.Results[0], v); ok {
						g.helpers[prefix+"."+fd.Name.Name] = fld
					}
				}
			}
		}
	}
	return nil
}

func convPackage(e *Env, dir string, helperDirs map[string]string) ([]*convFunc, error) {
	p, err := e.Load(dir, true)
	if err != nil {
		return nil, err
	}
	g := &convGen{p: p, funcs: map[string]*ast.FuncDecl{}, helpers: map[string]string{}}
	for prefix, hd := range helperDirs {
		if err := g.helpersOf(e, hd, prefix); err != nil {
			return nil, err
		}
	}
	var names []string
	for _, f := range p.Files {
		for _, d := range f.Decls {
			if fd, ok := d.(*ast.FuncDecl); ok && fd.Recv == nil && fd.Body != nil {
				// conversion functions: one result, first parameter a go/ast or xgo/ast value
				if fd.Type.Results == nil || len(fd.Type.Results.List) != 1 {
					continue
				}
				g.funcs[fd.Name.Name] = fd
				names = append(names, fd.Name.Name)
			}
		}
	}
	var out []*convFunc
	for _, n := range names {
		if n == "CheckIdent" { // an accessor, not a conversion (two results) — filtered above; kept for clarity
			continue
		}
		cf, err := g.function(g.funcs[n])
		if err != nil {
			return nil, fmt.Errorf("%s: %v", dir, err)
		}
		out = append(out, cf)
	}
	return out, nil
}

func coqConvField(f convField) string {
	switch f.Op {
	case "copy":
		return "CCopy " + coqString(f.Src)
	case "cast":
		return "CCast " + coqString(f.Src)
	case "call":
		return fmt.Sprintf("CCall %s %s", coqString(f.Fn), coqString(f.Src))
	case "map":
		return fmt.Sprintf("CMap %s %s", coqString(f.Fn), coqString(f.Src))
	case "empty":
		return "CEmpty " + coqString(f.Kind)
	case "opaque":
		return "COpaque"
	case "specs":
		var cs []string
		for _, c := range f.Cases {
			var ts []string
			for _, t := range c.Toks {
				ts = append(ts, coqZ(t))
			}
			cs = append(cs, fmt.Sprintf("(%s, %s, %s)", coqList(ts, 0), coqString(c.Fn), coqString(c.Kind)))
		}
		return fmt.Sprintf("CSpecs %s %s %s", coqString(f.Src), coqString(f.TokF), coqList(cs, 0))
	}
	return "COpaque"
}

func coqBuild(b *convBuild) string {
	var fs []string
	for _, f := range b.Sets {
		fs = append(fs, fmt.Sprintf("(%s, %s)", coqString(f.Dst), coqConvField(f)))
	}
	return fmt.Sprintf("(Build %s %s)", coqString(b.Kind), coqList(fs, 0))
}

func coqConvTable(name string, fns []*convFunc) string {
	var rows []string
	for _, f := range fns {
		var body string
		switch f.Shape {
		case "alias":
			body = "FAlias " + coqString(f.Fn)
		case "maplist":
			body = fmt.Sprintf("FMapList %s %s", coqString(f.Fn), coqBool(f.NilIfEmpty))
		case "build":
			body = fmt.Sprintf("FBuild %s %s %s", coqString(f.ArgKind), coqBool(f.NilCheck), coqBuild(f.Build))
		case "switch":
			var cs []string
			for _, c := range f.Cases {
				if c.Build != nil {
					cs = append(cs, fmt.Sprintf("(%s, BBuild %s)", coqString(c.Kind), coqBuild(c.Build)))
				} else {
					cs = append(cs, fmt.Sprintf("(%s, BCall %s)", coqString(c.Kind), coqString(c.Call)))
				}
			}
			body = fmt.Sprintf("FSwitch %s\n      %s", coqBool(f.NilCheck), coqList(cs, 1))
		}
		rows = append(rows, fmt.Sprintf("(%s, %s)", coqString(f.Name), body))
	}
	return fmt.Sprintf("Definition %s : ctable :=\n  %s.\n", name, coqList(rows, 1))
}

func genAstConv(e *Env) error {
	helpers := map[string]string{"typeparams": "ast/fromgo/typeparams"}
	from, err := convPackage(e, "ast/fromgo", helpers)
	if err != nil {
		return err
	}
	to, err := convPackage(e, "ast/togo", nil)
	if err != nil {
		return err
	}
	var out strings.Builder
	out.WriteString("From Coq Require Import List String ZArith Bool.\nImport ListNotations.\nFrom V Require Import Base.AstConv.\nOpen Scope string_scope.\n\n")
	out.WriteString("(* ast/fromgo/gopast.go: Go tree -> XGo tree *)\n")
	out.WriteString(coqConvTable("from_table", from))
	out.WriteString("\n(* ast/togo/goast.go: XGo tree -> Go tree *)\n")
	out.WriteString(coqConvTable("to_table", to))
	if err := e.WriteJSON("astconv", map[string]interface{}{"from": from, "to": to}); err != nil {
		return err
	}
	return e.WriteV("AstConv", out.String())
}

// ---- go/ast struct table (same classification as GEN-AST (a), package = GOROOT/src/go/ast) ----

func genGoAstStructs(e *Env) error {
	ai, err := loadAstInfoDir(e, filepath.Join(runtime.GOROOT(), "src", "go", "ast"))
	if err != nil {
		return err
	}
	S, err := ai.structs()
	if err != nil {
		return err
	}
	sort.Strings(S.NodeOrder)
	var out strings.Builder
	out.WriteString(astGenHeader)
	out.WriteString("(* node structs of the toolchain's go/ast (fields in declaration order) *)\n")
	out.WriteString(coqStructTable("go_node_structs", S.NodeOrder, S.Nodes))
	if err := e.WriteJSON("goaststructs", S); err != nil {
		return err
	}
	return e.WriteV("GoAstStructs", out.String())
}

var _ = types.Typ
