package main

// GEN printermerge: the comment-merge discipline of printer/printer.go  ->  Gen/PrinterMerge.v
//
//   - pm_infinity              the constant `infinity`
//   - pm_commentBefore         the body of (*printer).commentBefore, translated
//   - an audit of the statements the model Model/C21.v relies on (the loops of intersperseComments and
//     nextComment, flush, the flush before every item in print, the final flush of Config.fprint): each
//     audited statement is compared, after normalisation through go/printer, with the reviewed text below.
//     A site that no longer matches is reported (JSON "unmatched", pm_unmatched_sites); it is never guessed.  The check
//     passes such a run only if the dynamic merge correspondence and all obligations still hold (DESIGN.md section 5,
//     "static and dynamic regeneration").  Only commentBefore / infinity are needed to build the model: if they cannot be
//     translated the generator fails.

import (
	"fmt"
	"go/ast"
	"go/constant"
	"go/token"
	"go/types"
	"strings"
)

func init() { register("printermerge", genPrinterMerge) }

func genPrinterMerge(e *Env) error {
	p, err := e.Load("printer", true)
	if err != nil {
		return err
	}
	if p.Types == nil {
		return fmt.Errorf("printer: type check failed")
	}
	var out strings.Builder
	out.WriteString("From Coq Require Import List ZArith Bool.\nImport ListNotations.\nOpen Scope Z_scope.\n\n")

	// infinity
	c, ok := p.Types.Scope().Lookup("infinity").(*types.Const)
	if !ok {
		return fmt.Errorf("printer: constant infinity not found")
	}
	inf, exact := constant.Int64Val(c.Val())
	if !exact {
		return fmt.Errorf("printer: infinity is not an int64 constant")
	}
	fmt.Fprintf(&out, "Definition pm_infinity : Z := %s.\n\n", coqZ(inf))

	// commentBefore
	fd := p.Func("printer.commentBefore")
	if fd == nil || len(fd.Body.List) != 1 {
		return fmt.Errorf("printer.commentBefore: a single return statement expected")
	}
	ret, ok := fd.Body.List[0].(*ast.ReturnStmt)
	if !ok || len(ret.Results) != 1 {
		return fmt.Errorf("printer.commentBefore: a single return statement expected")
	}
	if len(fd.Type.Params.List) != 1 || len(fd.Type.Params.List[0].Names) != 1 || fd.Type.Params.List[0].Names[0].Name != "next" {
		return fmt.Errorf("printer.commentBefore: parameter (next token.Position) expected")
	}
	body, err := pmExpr(ret.Results[0])
	if err != nil {
		return fmt.Errorf("printer.commentBefore: %v", err)
	}
	fmt.Fprintf(&out, "(* %s *)\n", strings.ReplaceAll(p.Src(ret), "*)", "* )"))
	fmt.Fprintf(&out, "Definition pm_commentBefore (commentOffset nextOffset : Z) (impliedSemi commentNewline : bool) : bool :=\n  %s.\n\n", body)

	// audit
	type site struct {
		fn   string
		want []string // normalised statement texts that must occur in this order among the statements of fn (any depth)
	}
	sites := []site{
		{"printer.intersperseComments", []string{
			"for p.commentBefore(next) {\n for _, c := range p.comment.List {\n  p.writeCommentPrefix(p.posFor(c.Pos()), next, last, tok)\n  p.writeComment(c)\n  last = c\n }\n p.nextComment()\n}",
		}},
		{"printer.nextComment", []string{
			"for p.cindex < len(p.comments) {\n c := p.comments[p.cindex]\n p.cindex++\n if list := c.List; len(list) > 0 {\n  p.comment = c\n  p.commentOffset = p.posFor(list[0].Pos()).Offset\n  p.commentNewline = p.commentsHaveNewline(list)\n  return\n }\n}",
			"p.commentOffset = infinity",
		}},
		{"printer.flush", []string{
			"if p.commentBefore(next) {\n wroteNewline, droppedFF = p.intersperseComments(next, tok)\n} else {\n p.writeWhitespace(len(p.wsbuf))\n}",
		}},
		{"printer.print", []string{
			"if x == newline || x == formfeed {\n p.impliedSemi = false\n}",
			"next := p.pos",
			"wroteNewline, droppedFF := p.flush(next, p.lastTok)",
			"p.writeString(next, data, isLit)",
			"p.impliedSemi = impliedSemi",
		}},
		{"Config.fprint", []string{
			"if err = p.printNode(node); err != nil {\n return\n}",
			"p.impliedSemi = false",
			"p.flush(token.Position{Offset: infinity, Line: infinity}, token.EOF)",
		}},
		{"printer.writeComment", nil},
	}
	var audited, unmatched []string
	for _, s := range sites {
		fd := p.Func(s.fn)
		if fd == nil {
			return fmt.Errorf("%s: function not found", s.fn)
		}
		var stmts []string
		ast.Inspect(fd.Body, func(n ast.Node) bool {
			if st, ok := n.(ast.Stmt); ok {
				if _, isBlock := st.(*ast.BlockStmt); !isBlock {
					stmts = append(stmts, normSrc(p.Src(st)))
				}
			}
			return true
		})
		i := 0
		for _, w := range s.want {
			w = normSrc(w)
			found := false
			for i < len(stmts) {
				if stmts[i] == w {
					found = true
					i++
					break
				}
				i++
			}
			if !found {
				// not fatal: the dynamic correspondence (checks/c21.py, merge K-diff) decides; the site is reported
				unmatched = append(unmatched, s.fn+": "+strings.ReplaceAll(w, "\n", " / "))
				i = 0
				continue
			}
			audited = append(audited, s.fn+": "+strings.ReplaceAll(w, "\n", " / "))
		}
	}
	// the only writers of comment text: writeComment is called from intersperseComments only
	callers := map[string]bool{}
	for _, f := range p.Files {
		for _, d := range f.Decls {
			fd, ok := d.(*ast.FuncDecl)
			if !ok || fd.Body == nil {
				continue
			}
			ast.Inspect(fd.Body, func(n ast.Node) bool {
				if ce, ok := n.(*ast.CallExpr); ok {
					if se, ok := ce.Fun.(*ast.SelectorExpr); ok && se.Sel.Name == "writeComment" {
						callers[fd.Name.Name] = true
					}
				}
				return true
			})
		}
	}
	if len(callers) != 1 || !callers["intersperseComments"] {
		unmatched = append(unmatched, fmt.Sprintf("writeComment is called from %v (reviewed: intersperseComments only)", callers))
	}
	out.WriteString("(* audited statements (normalised through go/printer), all found in order:\n")
	for _, a := range audited {
		out.WriteString("   " + strings.ReplaceAll(a, "*)", "* )") + "\n")
	}
	out.WriteString("   *)\n")
	fmt.Fprintf(&out, "Definition pm_audited_sites : Z := %s.\nDefinition pm_unmatched_sites : Z := %s.\n", coqZ(int64(len(audited))), coqZ(int64(len(unmatched))))
	if err := e.WriteV("PrinterMerge", out.String()); err != nil {
		return err
	}
	return e.WriteJSON("printermerge", map[string]interface{}{"infinity": inf, "commentBefore": p.Src(ret), "audited": audited, "unmatched": unmatched})
}

func normSrc(s string) string {
	var lines []string
	for _, l := range strings.Split(s, "\n") {
		l = strings.TrimSpace(l)
		if l != "" {
			lines = append(lines, strings.Join(strings.Fields(l), " "))
		}
	}
	return strings.Join(lines, "\n")
}

// pmExpr translates the boolean expression of commentBefore: p.commentOffset, next.Offset, p.impliedSemi,
// p.commentNewline, <, &&, ||, !, parentheses.
func pmExpr(x ast.Expr) (string, error) {
	switch v := x.(type) {
	case *ast.ParenExpr:
		s, err := pmExpr(v.X)
		return "(" + s + ")", err
	case *ast.SelectorExpr:
		id, ok := v.X.(*ast.Ident)
		if !ok {
			break
		}
		switch id.Name + "." + v.Sel.Name {
		case "p.commentOffset":
			return "commentOffset", nil
		case "next.Offset":
			return "nextOffset", nil
		case "p.impliedSemi":
			return "impliedSemi", nil
		case "p.commentNewline":
			return "commentNewline", nil
		}
	case *ast.UnaryExpr:
		if v.Op == token.NOT {
			s, err := pmExpr(v.X)
			return "(negb " + s + ")", err
		}
	case *ast.BinaryExpr:
		a, err := pmExpr(v.X)
		if err != nil {
			return "", err
		}
		b, err := pmExpr(v.Y)
		if err != nil {
			return "", err
		}
		switch v.Op {
		case token.LAND:
			return "(" + a + " && " + b + ")", nil
		case token.LOR:
			return "(" + a + " || " + b + ")", nil
		case token.LSS:
			return "(" + a + " <? " + b + ")", nil
		case token.LEQ:
			return "(" + a + " <=? " + b + ")", nil
		case token.GTR:
			return "(" + b + " <? " + a + ")", nil
		case token.GEQ:
			return "(" + b + " <=? " + a + ")", nil
		}
	}
	return "", fmt.Errorf("expression outside the fragment")
}
