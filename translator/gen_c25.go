package main

// GEN-C25: the tables the Go->XGo style conversion depends on  ->  Gen/C25.v + c25.json
//
//   x/format/format.go   printFuncs                      (fmt function, builtin spelling) pairs
//                        fmtToBuiltin                    the package path it applies to, the `println -> echo` renaming,
//                                                        and that it matches fns[0] OR fns[1]
//                        startWithLowerCase (gopstyle.go) the letter range it lower-cases
//   cl/builtin.go        initBuiltin / initBuiltinFns    the XGo builtin functions and the package function each denotes
//
// Every site is read structurally; a site that does not have the expected structure makes the
// generator fail (never a guess).

import (
	"fmt"
	"go/ast"
	"go/token"
	"sort"
	"strconv"
	"strings"
)

func init() { register("c25", genC25) }

type c25Tables struct {
	PrintFuncs [][2]string       `json:"print_funcs"`
	FmtPath    string            `json:"fmt_path"`
	Renames    [][2]string       `json:"renames"`
	MatchBoth  bool              `json:"match_both"`
	Builtins   [][3]string       `json:"builtins"` // builtin, package ref variable, function
	PkgOfRef   map[string]string `json:"pkg_of_ref"`
	LowerRange [2]string         `json:"lower_range"`
}

func strLit(e ast.Expr) (string, bool) {
	bl, ok := e.(*ast.BasicLit)
	if !ok || bl.Kind != token.STRING {
		return "", false
	}
	s, err := strconv.Unquote(bl.Value)
	return s, err == nil
}

func charLit(e ast.Expr) (string, bool) {
	bl, ok := e.(*ast.BasicLit)
	if !ok || bl.Kind != token.CHAR {
		return "", false
	}
	s, err := strconv.Unquote(bl.Value)
	return s, err == nil
}

func genC25(e *Env) error {
	var t c25Tables
	t.PkgOfRef = map[string]string{}
	fp, err := e.Load("x/format", false)
	if err != nil {
		return err
	}
	// ---- printFuncs
	found := false
	for _, f := range fp.Files {
		for _, d := range f.Decls {
			gd, ok := d.(*ast.GenDecl)
			if !ok || gd.Tok != token.VAR {
				continue
			}
			for _, sp := range gd.Specs {
				vs := sp.(*ast.ValueSpec)
				if len(vs.Names) != 1 || vs.Names[0].Name != "printFuncs" || len(vs.Values) != 1 {
					continue
				}
				cl, ok := vs.Values[0].(*ast.CompositeLit)
				if !ok {
					return fmt.Errorf("printFuncs: not a composite literal")
				}
				for _, el := range cl.Elts {
					pair, ok := el.(*ast.CompositeLit)
					if !ok || len(pair.Elts) != 2 {
						return fmt.Errorf("printFuncs: element is not a pair")
					}
					a, ok1 := strLit(pair.Elts[0])
					b, ok2 := strLit(pair.Elts[1])
					if !ok1 || !ok2 {
						return fmt.Errorf("printFuncs: pair of non-literals")
					}
					t.PrintFuncs = append(t.PrintFuncs, [2]string{a, b})
				}
				found = true
			}
		}
	}
	if !found || len(t.PrintFuncs) == 0 {
		return fmt.Errorf("x/format: printFuncs not found")
	}
	// ---- fmtToBuiltin
	fd := fp.Func("fmtToBuiltin")
	if fd == nil {
		return fmt.Errorf("x/format: fmtToBuiltin not found")
	}
	nReturnsTrue := 0
	ast.Inspect(fd.Body, func(n ast.Node) bool {
		switch v := n.(type) {
		case *ast.IfStmt:
			be, ok := v.Cond.(*ast.BinaryExpr)
			if !ok {
				return true
			}
			if be.Op == token.EQL {
				if sel, ok := be.X.(*ast.SelectorExpr); ok && sel.Sel.Name == "pkgPath" {
					if s, ok := strLit(be.Y); ok {
						t.FmtPath = s
					}
				}
				if id, ok := be.X.(*ast.Ident); ok && id.Name == "name" {
					if from, ok := strLit(be.Y); ok && len(v.Body.List) == 1 {
						if as, ok := v.Body.List[0].(*ast.AssignStmt); ok && len(as.Lhs) == 1 && len(as.Rhs) == 1 {
							if l, ok := as.Lhs[0].(*ast.Ident); ok && l.Name == "name" {
								if to, ok := strLit(as.Rhs[0]); ok {
									t.Renames = append(t.Renames, [2]string{from, to})
								}
							}
						}
					}
				}
			}
			if be.Op == token.LOR {
				// fns[0] == sel.Name || fns[1] == sel.Name
				src := fp.Src(be)
				if strings.Contains(src, "fns[0] == sel.Name") && strings.Contains(src, "fns[1] == sel.Name") {
					t.MatchBoth = true
				}
			}
		case *ast.ReturnStmt:
			if len(v.Results) == 1 {
				if id, ok := v.Results[0].(*ast.Ident); ok && id.Name == "true" {
					nReturnsTrue++
				}
			}
		}
		return true
	})
	if t.FmtPath == "" {
		return fmt.Errorf("fmtToBuiltin: package path comparison not found")
	}
	if nReturnsTrue != 1 {
		return fmt.Errorf("fmtToBuiltin: expected exactly one `return true`, found %d", nReturnsTrue)
	}
	if !t.MatchBoth {
		// only the capitalised spelling is matched
		src := fp.Src(fd.Body)
		if !strings.Contains(src, "fns[0] == sel.Name") {
			return fmt.Errorf("fmtToBuiltin: cannot read the match condition")
		}
	}
	// the assigned name must be fns[1]
	if !strings.Contains(fp.Src(fd.Body), "name := fns[1]") {
		return fmt.Errorf("fmtToBuiltin: `name := fns[1]` not found")
	}
	// ---- startWithLowerCase
	sl := fp.Func("startWithLowerCase")
	if sl == nil {
		return fmt.Errorf("x/format: startWithLowerCase not found")
	}
	okRange := false
	ast.Inspect(sl.Body, func(n ast.Node) bool {
		if be, ok := n.(*ast.BinaryExpr); ok && be.Op == token.LAND {
			l, ok1 := be.X.(*ast.BinaryExpr)
			r, ok2 := be.Y.(*ast.BinaryExpr)
			if ok1 && ok2 && (l.Op == token.GEQ || l.Op == token.GTR) && (r.Op == token.LEQ || r.Op == token.LSS) {
				a, oka := charLit(l.Y)
				b, okb := charLit(r.Y)
				if oka && okb && len(a) == 1 && len(b) == 1 {
					lo, hi := a[0], b[0]
					if l.Op == token.GTR {
						lo++ // c > 'A'  ==  c >= 'B'
					}
					if r.Op == token.LSS {
						hi-- // c < 'Z'  ==  c <= 'Y'
					}
					t.LowerRange = [2]string{string(lo), string(hi)}
					okRange = true
				}
			}
		}
		return true
	})
	if !okRange || !strings.Contains(fp.Src(sl.Body), "string(c+('a'-'A')) + v.Name[1:]") {
		return fmt.Errorf("startWithLowerCase: cannot read the letter range / the replacement")
	}
	// ---- XGo builtins (cl/builtin.go)
	cp, err := e.Load("cl", false)
	if err != nil {
		return err
	}
	ib := cp.Func("initBuiltin")
	ibf := cp.Func("initBuiltinFns")
	nbd := cp.Func("pkgCtx.newBuiltinDefault")
	if ib == nil || ibf == nil || nbd == nil {
		return fmt.Errorf("cl: initBuiltin / initBuiltinFns / newBuiltinDefault not found")
	}
	if !strings.Contains(cp.Src(ibf.Body), "fnTitle := string(fn[0]-'a'+'A') + fn[1:]") ||
		!strings.Contains(cp.Src(ibf.Body), "gogen.NewOverloadFunc(token.NoPos, builtin, fn, pkg.Ref(fnTitle))") {
		return fmt.Errorf("cl.initBuiltinFns: cannot read the capitalisation rule")
	}
	title := func(s string) string { return string(s[0]-'a'+'A') + s[1:] }
	ast.Inspect(ib.Body, func(n ast.Node) bool {
		ce, ok := n.(*ast.CallExpr)
		if !ok {
			return true
		}
		// initBuiltinFns(builtin, scope, <ref>, []string{...})
		if id, ok := ce.Fun.(*ast.Ident); ok && id.Name == "initBuiltinFns" && len(ce.Args) == 4 {
			ref, ok1 := ce.Args[2].(*ast.Ident)
			lit, ok2 := ce.Args[3].(*ast.CompositeLit)
			if ok1 && ok2 {
				for _, el := range lit.Elts {
					if s, ok := strLit(el); ok && s != "" {
						t.Builtins = append(t.Builtins, [3]string{s, ref.Name, title(s)})
					}
				}
			}
			return true
		}
		// gogen.NewOverloadFunc(token.NoPos, builtin, "echo", fmt.Ref("Println"))
		if sel, ok := ce.Fun.(*ast.SelectorExpr); ok && sel.Sel.Name == "NewOverloadFunc" && len(ce.Args) == 4 {
			name, ok1 := strLit(ce.Args[2])
			rc, ok2 := ce.Args[3].(*ast.CallExpr)
			if ok1 && ok2 {
				if rs, ok := rc.Fun.(*ast.SelectorExpr); ok && rs.Sel.Name == "Ref" && len(rc.Args) == 1 {
					if rx, ok := rs.X.(*ast.Ident); ok {
						if fn, ok := strLit(rc.Args[0]); ok {
							t.Builtins = append(t.Builtins, [3]string{name, rx.Name, fn})
						}
					}
				}
			}
		}
		return true
	})
	if len(t.Builtins) == 0 {
		return fmt.Errorf("cl.initBuiltin: no builtin function found")
	}
	// which package each reference variable denotes: newBuiltinDefault  x := pkg.Import("p") / pkg.TryImport("p" | const)
	consts := map[string]string{}
	for _, f := range cp.Files {
		for _, d := range f.Decls {
			if gd, ok := d.(*ast.GenDecl); ok && gd.Tok == token.CONST {
				for _, sp := range gd.Specs {
					vs := sp.(*ast.ValueSpec)
					if len(vs.Names) == 1 && len(vs.Values) == 1 {
						if s, ok := strLit(vs.Values[0]); ok {
							consts[vs.Names[0].Name] = s
						}
					}
				}
			}
		}
	}
	localToPath := map[string]string{}
	ast.Inspect(nbd.Body, func(n ast.Node) bool {
		as, ok := n.(*ast.AssignStmt)
		if !ok || as.Tok != token.DEFINE || len(as.Lhs) != 1 || len(as.Rhs) != 1 {
			return true
		}
		l, ok1 := as.Lhs[0].(*ast.Ident)
		ce, ok2 := as.Rhs[0].(*ast.CallExpr)
		if !ok1 || !ok2 || len(ce.Args) != 1 {
			return true
		}
		if sel, ok := ce.Fun.(*ast.SelectorExpr); ok && (sel.Sel.Name == "Import" || sel.Sel.Name == "TryImport") {
			if s, ok := strLit(ce.Args[0]); ok {
				localToPath[l.Name] = s
			} else if id, ok := ce.Args[0].(*ast.Ident); ok {
				if s, ok := consts[id.Name]; ok {
					localToPath[l.Name] = s
				}
			}
		}
		return true
	})
	// the call  initBuiltin(pkg, builtin, os, fmt, ng, osx, buil, reflect)  binds locals to the parameters by position
	var callArgs []string
	ast.Inspect(nbd.Body, func(n ast.Node) bool {
		if ce, ok := n.(*ast.CallExpr); ok {
			if id, ok := ce.Fun.(*ast.Ident); ok && id.Name == "initBuiltin" {
				for _, a := range ce.Args {
					if ai, ok := a.(*ast.Ident); ok {
						callArgs = append(callArgs, ai.Name)
					} else {
						callArgs = append(callArgs, "?")
					}
				}
			}
		}
		return true
	})
	var params []string
	for _, f := range ib.Type.Params.List {
		for _, n := range f.Names {
			params = append(params, n.Name)
		}
	}
	if len(callArgs) != len(params) || len(params) == 0 {
		return fmt.Errorf("cl: cannot match the call of initBuiltin with its parameters")
	}
	for i, pn := range params {
		if p, ok := localToPath[callArgs[i]]; ok {
			t.PkgOfRef[pn] = p
		}
	}
	for _, b := range t.Builtins {
		if _, ok := t.PkgOfRef[b[1]]; !ok {
			return fmt.Errorf("cl.initBuiltin: package of reference %q unknown", b[1])
		}
	}
	sort.SliceStable(t.Builtins, func(i, j int) bool { return t.Builtins[i][0] < t.Builtins[j][0] })

	// ---- emit
	var out strings.Builder
	out.WriteString("From Coq Require Import List NArith ZArith Bool.\nImport ListNotations.\nFrom V Require Import Base.Prelude.\n\n")
	out.WriteString("(* x/format/format.go printFuncs: (fmt function, XGo builtin spelling) *)\n")
	var pf []string
	for _, p := range t.PrintFuncs {
		pf = append(pf, fmt.Sprintf("(%s, %s) (* %s %s *)", coqBytes(p[0]), coqBytes(p[1]), p[0], p[1]))
	}
	fmt.Fprintf(&out, "Definition c25_print_funcs : list (str * str) :=\n  %s.\n", coqList(pf, 1))
	fmt.Fprintf(&out, "(* fmtToBuiltin: ctx.pkgPath == %q *)\nDefinition c25_fmt_path : str := %s.\n", t.FmtPath, coqBytes(t.FmtPath))
	var rn []string
	for _, r := range t.Renames {
		rn = append(rn, fmt.Sprintf("(%s, %s) (* %s -> %s *)", coqBytes(r[0]), coqBytes(r[1]), r[0], r[1]))
	}
	fmt.Fprintf(&out, "(* fmtToBuiltin: if name == a { name = b } *)\nDefinition c25_renames : list (str * str) :=\n  %s.\n", coqList(rn, 1))
	fmt.Fprintf(&out, "(* fmtToBuiltin matches the lower-case spelling fns[1] as well as fns[0] *)\nDefinition c25_match_both : bool := %v.\n", t.MatchBoth)
	fmt.Fprintf(&out, "(* startWithLowerCase: c >= %q && c <= %q  ->  c + ('a'-'A') *)\nDefinition c25_lower_lo : N := %d%%N.\nDefinition c25_lower_hi : N := %d%%N.\n",
		t.LowerRange[0], t.LowerRange[1], t.LowerRange[0][0], t.LowerRange[1][0])
	var bs []string
	for _, b := range t.Builtins {
		bs = append(bs, fmt.Sprintf("(%s, (%s, %s)) (* %s = %s.%s *)", coqBytes(b[0]), coqBytes(t.PkgOfRef[b[1]]), coqBytes(b[2]), b[0], t.PkgOfRef[b[1]], b[2]))
	}
	fmt.Fprintf(&out, "(* cl/builtin.go initBuiltin: XGo builtin function -> (package path, function) *)\nDefinition c25_xgo_builtins : list (str * (str * str)) :=\n  %s.\n", coqList(bs, 1))
	if err := e.WriteJSON("c25", t); err != nil {
		return err
	}
	return e.WriteV("C25", out.String())
}
