package main

// GEN-C10: the overload naming code of cl/compile.go  ->  Gen/C10.v + c10.json
//
//   const indexTable, var binaryGopNames / unaryGopNames (map literals),
//   func overloadFuncName(name string, idx int) string          -> gen_overloadFuncName : str -> Z -> M str
//   func overloadName(recv *ast.Ident, name string, isOp bool) (string, error)
//                                                                -> gen_overloadName : identp -> str -> bool -> M res2
// and, from the gogen version /repo's go.mod requires (module cache), the constants the decoding side uses:
// indexTable and gopoPrefix of import.go.
//
// The two functions are translated by a small syntactic translator (no type checking of package cl is needed:
// their parameter types are read from the signatures and must be string / int / bool / *ast.Ident).  Fragment:
// x := e, x = e, if [x, ok := M[k];] cond {..} [else {..}], return e [, nil | , <non-nil>]; expressions: string / char /
// int literals, locals, +, &&, ||, !, == / != nil, s[lo:hi] on a package-level string constant, recv.Name,
// strings.ContainsRune.  Everything is monadic (M): s[lo:hi] out of range and recv.Name on nil are Panic.
// Anything else is an error (never a guess).

import (
	"fmt"
	"go/ast"
	"go/parser"
	"go/token"
	"os"
	"os/exec"
	"path/filepath"
	"regexp"
	"sort"
	"strconv"
	"strings"
)

func init() { register("c10", genC10) }

type c10Tr struct {
	env     map[string]string // local -> type: str | Z | bool | identp
	consts  map[string]bool   // package-level string constants available as gen_<name>
	maps    map[string]bool   // package-level map[string]string literals available as gen_<name>
	n       int
	results int
	depth   int
}

func (t *c10Tr) fresh(b string) string { t.n++; return fmt.Sprintf("%s%d", b, t.n) }

func c10TypeOf(e ast.Expr) (string, error) {
	switch v := e.(type) {
	case *ast.Ident:
		switch v.Name {
		case "string":
			return "str", nil
		case "int":
			return "Z", nil
		case "bool":
			return "bool", nil
		case "error":
			return "error", nil
		}
	case *ast.StarExpr:
		if s, ok := v.X.(*ast.SelectorExpr); ok && s.Sel.Name == "Ident" {
			return "identp", nil
		}
	}
	return "", fmt.Errorf("parameter/result type outside the fragment")
}

func (t *c10Tr) typeOf(e ast.Expr) (string, error) {
	switch v := e.(type) {
	case *ast.ParenExpr:
		return t.typeOf(v.X)
	case *ast.BasicLit:
		switch v.Kind {
		case token.STRING:
			return "str", nil
		case token.INT:
			return "Z", nil
		case token.CHAR:
			return "rune", nil
		}
	case *ast.Ident:
		if ty, ok := t.env[v.Name]; ok {
			return ty, nil
		}
		if t.consts[v.Name] {
			return "str", nil
		}
		if v.Name == "nil" {
			return "nil", nil
		}
		if v.Name == "true" || v.Name == "false" {
			return "bool", nil
		}
	case *ast.BinaryExpr:
		switch v.Op {
		case token.LAND, token.LOR, token.EQL, token.NEQ, token.LSS, token.LEQ, token.GTR, token.GEQ:
			return "bool", nil
		case token.ADD:
			return t.typeOf(v.X)
		}
	case *ast.UnaryExpr:
		if v.Op == token.NOT {
			return "bool", nil
		}
	case *ast.SliceExpr:
		return "str", nil
	case *ast.SelectorExpr:
		if id, ok := v.X.(*ast.Ident); ok && t.env[id.Name] == "identp" && v.Sel.Name == "Name" {
			return "str", nil
		}
	case *ast.CallExpr:
		if s, ok := v.Fun.(*ast.SelectorExpr); ok {
			if id, ok := s.X.(*ast.Ident); ok && id.Name == "strings" && s.Sel.Name == "ContainsRune" {
				return "bool", nil
			}
		}
	}
	return "", fmt.Errorf("expression outside the fragment")
}

func c10Src(n ast.Node) string { return (&Pkg{}).Src(n) }

// expr: Gallina term of type M <type>
func (t *c10Tr) expr(e ast.Expr) (string, error) {
	switch v := e.(type) {
	case *ast.ParenExpr:
		return t.expr(v.X)
	case *ast.BasicLit:
		switch v.Kind {
		case token.STRING:
			s, err := strconv.Unquote(v.Value)
			if err != nil {
				return "", err
			}
			return "ret (" + coqBytes(s) + " : str)", nil
		case token.INT:
			n, err := strconv.ParseInt(v.Value, 0, 64)
			if err != nil {
				return "", err
			}
			return "ret " + coqZ(n), nil
		}
	case *ast.Ident:
		if _, ok := t.env[v.Name]; ok {
			return "ret v_" + v.Name, nil
		}
		if t.consts[v.Name] {
			return "ret gen_" + v.Name, nil
		}
		if v.Name == "true" || v.Name == "false" {
			return "ret " + v.Name, nil
		}
	case *ast.UnaryExpr:
		if v.Op == token.NOT {
			x, err := t.expr(v.X)
			if err != nil {
				return "", err
			}
			a := t.fresh("u")
			return fmt.Sprintf("(%s <- %s ;; ret (negb %s))", a, x, a), nil
		}
	case *ast.BinaryExpr:
		tx, err := t.typeOf(v.X)
		if err != nil {
			return "", fmt.Errorf("%s: %v", c10Src(v.X), err)
		}
		ty, err := t.typeOf(v.Y)
		if err != nil {
			return "", fmt.Errorf("%s: %v", c10Src(v.Y), err)
		}
		// comparison of a *ast.Ident with nil
		if (v.Op == token.NEQ || v.Op == token.EQL) && (tx == "identp" && ty == "nil") {
			id := v.X.(*ast.Ident)
			if v.Op == token.NEQ {
				return "ret (not_nil v_" + id.Name + ")", nil
			}
			return "ret (negb (not_nil v_" + id.Name + "))", nil
		}
		x, err := t.expr(v.X)
		if err != nil {
			return "", err
		}
		y, err := t.expr(v.Y)
		if err != nil {
			return "", err
		}
		a, b := t.fresh("a"), t.fresh("b")
		switch {
		case v.Op == token.LAND && tx == "bool" && ty == "bool":
			return fmt.Sprintf("(%s <- %s ;; if %s then %s else ret false)", a, x, a, y), nil
		case v.Op == token.LOR && tx == "bool" && ty == "bool":
			return fmt.Sprintf("(%s <- %s ;; if %s then ret true else %s)", a, x, a, y), nil
		case v.Op == token.ADD && tx == "str" && ty == "str":
			return fmt.Sprintf("(%s <- %s ;; %s <- %s ;; ret (%s ++ %s))", a, x, b, y, a, b), nil
		case v.Op == token.ADD && tx == "Z" && ty == "Z":
			return fmt.Sprintf("(%s <- %s ;; %s <- %s ;; ret (Z.add %s %s))", a, x, b, y, a, b), nil
		}
	case *ast.SliceExpr:
		id, ok := v.X.(*ast.Ident)
		if !ok || v.Slice3 || v.Low == nil || v.High == nil {
			break
		}
		var base string
		if t.consts[id.Name] {
			base = "gen_" + id.Name
		} else if t.env[id.Name] == "str" {
			base = "v_" + id.Name
		} else {
			break
		}
		lo, err := t.expr(v.Low)
		if err != nil {
			return "", err
		}
		hi, err := t.expr(v.High)
		if err != nil {
			return "", err
		}
		a, b := t.fresh("lo"), t.fresh("hi")
		return fmt.Sprintf("(%s <- %s ;; %s <- %s ;; slice_str %s %s %s)", a, lo, b, hi, base, a, b), nil
	case *ast.SelectorExpr:
		if id, ok := v.X.(*ast.Ident); ok && t.env[id.Name] == "identp" && v.Sel.Name == "Name" {
			return "name_of v_" + id.Name, nil
		}
	case *ast.CallExpr:
		if s, ok := v.Fun.(*ast.SelectorExpr); ok && len(v.Args) == 2 {
			if id, ok := s.X.(*ast.Ident); ok && id.Name == "strings" && s.Sel.Name == "ContainsRune" {
				lit, ok := v.Args[1].(*ast.BasicLit)
				if !ok || lit.Kind != token.CHAR {
					break
				}
				r, _, _, err := strconv.UnquoteChar(lit.Value[1:len(lit.Value)-1], '\'')
				if err != nil || r >= 128 {
					break
				}
				x, err := t.expr(v.Args[0])
				if err != nil {
					return "", err
				}
				a := t.fresh("s")
				return fmt.Sprintf("(%s <- %s ;; ret (contains_rune %s %d%%N))", a, x, a, r), nil
			}
		}
	}
	return "", fmt.Errorf("expression %s outside the fragment", c10Src(e))
}

// stmts: Gallina term of type M <result>; control never falls off the end
func (t *c10Tr) stmts(list []ast.Stmt) (string, error) {
	if len(list) == 0 {
		return "", fmt.Errorf("control reaches the end of the function")
	}
	s, rest := list[0], list[1:]
	switch v := s.(type) {
	case *ast.ReturnStmt:
		if len(v.Results) != t.results {
			return "", fmt.Errorf("return with %d results", len(v.Results))
		}
		if t.results == 1 {
			return t.expr(v.Results[0])
		}
		// (value, error)
		if id, ok := v.Results[1].(*ast.Ident); ok && id.Name == "nil" {
			x, err := t.expr(v.Results[0])
			if err != nil {
				return "", err
			}
			a := t.fresh("r")
			return fmt.Sprintf("(%s <- %s ;; ret (RVal %s))", a, x, a), nil
		}
		if c, ok := v.Results[1].(*ast.CallExpr); ok {
			if se, ok := c.Fun.(*ast.SelectorExpr); ok {
				if id, ok := se.X.(*ast.Ident); ok && (id.Name == "fmt" && se.Sel.Name == "Errorf" || id.Name == "errors" && se.Sel.Name == "New") {
					return "ret RErr", nil
				}
			}
		}
		return "", fmt.Errorf("return %s outside the fragment", c10Src(v))
	case *ast.AssignStmt:
		if len(v.Lhs) != 1 || len(v.Rhs) != 1 || (v.Tok != token.DEFINE && v.Tok != token.ASSIGN) {
			return "", fmt.Errorf("assignment %s outside the fragment", c10Src(v))
		}
		id, ok := v.Lhs[0].(*ast.Ident)
		if !ok {
			return "", fmt.Errorf("assignment %s outside the fragment", c10Src(v))
		}
		ty, err := t.typeOf(v.Rhs[0])
		if err != nil {
			return "", fmt.Errorf("%s: %v", c10Src(v), err)
		}
		old, had := t.env[id.Name]
		if v.Tok == token.DEFINE && had && t.depth > 0 {
			return "", fmt.Errorf("%s shadows a local inside a branch (outside the fragment)", c10Src(v))
		}
		if v.Tok == token.ASSIGN && (!had || old != ty) {
			return "", fmt.Errorf("assignment %s to an unknown or differently typed local", c10Src(v))
		}
		x, err := t.expr(v.Rhs[0])
		if err != nil {
			return "", err
		}
		t.env[id.Name] = ty
		k, err := t.stmts(rest)
		if err != nil {
			return "", err
		}
		return fmt.Sprintf("(v_%s <- %s ;;\n %s)", id.Name, x, k), nil
	case *ast.IfStmt:
		var elseList []ast.Stmt
		switch e := v.Else.(type) {
		case nil:
		case *ast.BlockStmt:
			elseList = e.List
		default:
			return "", fmt.Errorf("else-if outside the fragment")
		}
		// a := inside a branch binds a name that Go code after the if cannot see; in this translation the
		// continuation is placed inside the branch, so such a name must not shadow anything (checked at the :=)
		t.depth++
		defer func() { t.depth-- }()
		saved := map[string]string{}
		for k, x := range t.env {
			saved[k] = x
		}
		restore := func() {
			t.env = map[string]string{}
			for k, x := range saved {
				t.env[k] = x
			}
		}
		if v.Init != nil {
			// x, ok := M[k]; ok
			a, ok := v.Init.(*ast.AssignStmt)
			if !ok || a.Tok != token.DEFINE || len(a.Lhs) != 2 || len(a.Rhs) != 1 {
				return "", fmt.Errorf("if-init %s outside the fragment", c10Src(v.Init))
			}
			ix, ok := a.Rhs[0].(*ast.IndexExpr)
			if !ok {
				return "", fmt.Errorf("if-init %s outside the fragment", c10Src(v.Init))
			}
			m, ok := ix.X.(*ast.Ident)
			val, ok2 := a.Lhs[0].(*ast.Ident)
			okv, ok3 := a.Lhs[1].(*ast.Ident)
			cond, ok4 := v.Cond.(*ast.Ident)
			if _, shadow := t.env[val.Name]; shadow {
				return "", fmt.Errorf("if-init %s shadows a local", c10Src(v.Init))
			}
			if !ok || !ok2 || !ok3 || !ok4 || !t.maps[m.Name] || cond.Name != okv.Name {
				return "", fmt.Errorf("if-init %s outside the fragment", c10Src(v.Init))
			}
			key, err := t.expr(ix.Index)
			if err != nil {
				return "", err
			}
			t.env[val.Name] = "str"
			thenS, err := t.stmts(append(append([]ast.Stmt{}, v.Body.List...), rest...))
			if err != nil {
				return "", err
			}
			restore()
			elseS, err := t.stmts(append(append([]ast.Stmt{}, elseList...), rest...))
			if err != nil {
				return "", err
			}
			restore()
			k := t.fresh("k")
			return fmt.Sprintf("(%s <- %s ;;\n match map_lookup gen_%s %s with\n | Some v_%s => %s\n | None => %s\n end)", k, key, m.Name, k, val.Name, thenS, elseS), nil
		}
		c, err := t.expr(v.Cond)
		if err != nil {
			return "", err
		}
		thenS, err := t.stmts(append(append([]ast.Stmt{}, v.Body.List...), rest...))
		if err != nil {
			return "", err
		}
		restore()
		elseS, err := t.stmts(append(append([]ast.Stmt{}, elseList...), rest...))
		if err != nil {
			return "", err
		}
		restore()
		b := t.fresh("c")
		return fmt.Sprintf("(%s <- %s ;;\n if %s then %s\n else %s)", b, c, b, thenS, elseS), nil
	}
	return "", fmt.Errorf("statement %s outside the fragment", c10Src(s))
}

func c10Translate(fd *ast.FuncDecl, coqName string, consts, maps map[string]bool) (string, error) {
	t := &c10Tr{env: map[string]string{}, consts: consts, maps: maps}
	var params []string
	for _, f := range fd.Type.Params.List {
		ty, err := c10TypeOf(f.Type)
		if err != nil || ty == "error" {
			return "", fmt.Errorf("%s: parameter type %s outside the fragment", fd.Name.Name, c10Src(f.Type))
		}
		for _, n := range f.Names {
			t.env[n.Name] = ty
			params = append(params, fmt.Sprintf("(v_%s : %s)", n.Name, ty))
		}
	}
	res := fd.Type.Results
	if res == nil {
		return "", fmt.Errorf("%s: no result", fd.Name.Name)
	}
	var rtypes []string
	for _, f := range res.List {
		if len(f.Names) != 0 {
			return "", fmt.Errorf("%s: named results", fd.Name.Name)
		}
		ty, err := c10TypeOf(f.Type)
		if err != nil {
			return "", fmt.Errorf("%s: %v", fd.Name.Name, err)
		}
		rtypes = append(rtypes, ty)
	}
	rt := ""
	switch strings.Join(rtypes, ",") {
	case "str":
		rt, t.results = "str", 1
	case "str,error":
		rt, t.results = "res2", 2
	default:
		return "", fmt.Errorf("%s: result types %v outside the fragment", fd.Name.Name, rtypes)
	}
	body, err := t.stmts(fd.Body.List)
	if err != nil {
		return "", fmt.Errorf("%s: %v", fd.Name.Name, err)
	}
	return fmt.Sprintf("Definition %s %s : M %s :=\n%s.\n", coqName, strings.Join(params, " "), rt, body), nil
}

// package-level string constant / map[string]string literal, read syntactically
func c10FindConst(p *Pkg, name string) (string, bool) {
	for _, f := range p.Files {
		for _, d := range f.Decls {
			gd, ok := d.(*ast.GenDecl)
			if !ok || gd.Tok != token.CONST {
				continue
			}
			for _, sp := range gd.Specs {
				vs := sp.(*ast.ValueSpec)
				for i, n := range vs.Names {
					if n.Name == name && i < len(vs.Values) {
						if lit, ok := vs.Values[i].(*ast.BasicLit); ok && lit.Kind == token.STRING {
							s, err := strconv.Unquote(lit.Value)
							return s, err == nil
						}
					}
				}
			}
		}
	}
	return "", false
}

func c10FindMap(p *Pkg, name string) ([][2]string, bool) {
	for _, f := range p.Files {
		for _, d := range f.Decls {
			gd, ok := d.(*ast.GenDecl)
			if !ok || gd.Tok != token.VAR {
				continue
			}
			for _, sp := range gd.Specs {
				vs := sp.(*ast.ValueSpec)
				for i, n := range vs.Names {
					if n.Name != name || i >= len(vs.Values) {
						continue
					}
					cl, ok := vs.Values[i].(*ast.CompositeLit)
					if !ok {
						return nil, false
					}
					mt, ok := cl.Type.(*ast.MapType)
					if !ok || c10Src(mt.Key) != "string" || c10Src(mt.Value) != "string" {
						return nil, false
					}
					var out [][2]string
					for _, el := range cl.Elts {
						kv, ok := el.(*ast.KeyValueExpr)
						if !ok {
							return nil, false
						}
						k, ok1 := kv.Key.(*ast.BasicLit)
						v, ok2 := kv.Value.(*ast.BasicLit)
						if !ok1 || !ok2 || k.Kind != token.STRING || v.Kind != token.STRING {
							return nil, false
						}
						ks, e1 := strconv.Unquote(k.Value)
						vs2, e2 := strconv.Unquote(v.Value)
						if e1 != nil || e2 != nil {
							return nil, false
						}
						out = append(out, [2]string{ks, vs2})
					}
					return out, true
				}
			}
		}
	}
	return nil, false
}

func c10GogenDir(repo string) (string, error) {
	gm, err := os.ReadFile(filepath.Join(repo, "go.mod"))
	if err != nil {
		return "", err
	}
	m := regexp.MustCompile(`(?m)^\s*github\.com/goplus/gogen\s+(v\S+)`).FindSubmatch(gm)
	if m == nil {
		return "", fmt.Errorf("go.mod does not require github.com/goplus/gogen")
	}
	out, err := exec.Command("go", "env", "GOMODCACHE").Output()
	if err != nil {
		return "", err
	}
	dir := filepath.Join(strings.TrimSpace(string(out)), "github.com", "goplus", "gogen@"+string(m[1]))
	if _, err := os.Stat(dir); err != nil {
		return "", err
	}
	return dir, nil
}

func genC10(e *Env) error {
	// only cl/compile.go is needed (syntactically)
	fset := token.NewFileSet()
	f, err := parser.ParseFile(fset, filepath.Join(e.Repo, "cl", "compile.go"), nil, 0)
	if err != nil {
		return err
	}
	p := &Pkg{Fset: fset, Files: []*ast.File{f}, Names: []string{"compile.go"}}
	var out strings.Builder
	out.WriteString("From Coq Require Import List NArith ZArith Bool.\nImport ListNotations.\nFrom V Require Import Base.Prelude Base.C10Prelude.\nOpen Scope Z_scope.\n\n")
	js := map[string]interface{}{}

	it, ok := c10FindConst(p, "indexTable")
	if !ok {
		return fmt.Errorf("cl/compile.go: string constant indexTable not found")
	}
	fmt.Fprintf(&out, "(* cl/compile.go *)\nDefinition gen_indexTable : str := %s.\n", coqBytes(it))
	js["indexTable"] = it
	consts := map[string]bool{"indexTable": true}
	maps := map[string]bool{}
	for _, mn := range []string{"binaryGopNames", "unaryGopNames"} {
		kv, ok := c10FindMap(p, mn)
		if !ok {
			return fmt.Errorf("cl/compile.go: map[string]string literal %s not found", mn)
		}
		var items []string
		for _, x := range kv {
			items = append(items, fmt.Sprintf("(%s, %s)", coqBytes(x[0]), coqBytes(x[1])))
		}
		fmt.Fprintf(&out, "Definition gen_%s : list (str * str) :=\n  %s.\n", mn, coqList(items, 3))
		maps[mn] = true
		js[mn] = kv
	}
	for _, fn := range []string{"overloadFuncName", "overloadName"} {
		fd := p.Func(fn)
		if fd == nil || fd.Body == nil {
			return fmt.Errorf("cl/compile.go: func %s not found", fn)
		}
		def, err := c10Translate(fd, "gen_"+fn, consts, maps)
		if err != nil {
			return err
		}
		fmt.Fprintf(&out, "\n(* %s *)\n%s", strings.ReplaceAll(c10Src(fd.Type), "\n", " "), def)
		js[fn] = c10Src(fd)
	}

	// the decoding side: gogen's own copies
	gdir, err := c10GogenDir(e.Repo)
	if err != nil {
		return fmt.Errorf("gogen source: %v", err)
	}
	gf, err := parser.ParseFile(token.NewFileSet(), filepath.Join(gdir, "import.go"), nil, 0)
	if err != nil {
		return err
	}
	gp := &Pkg{Files: []*ast.File{gf}}
	var names []string
	for _, cn := range []string{"indexTable", "gopoPrefix"} {
		v, ok := c10FindConst(gp, cn)
		if !ok {
			return fmt.Errorf("gogen import.go: string constant %s not found", cn)
		}
		names = append(names, cn)
		fmt.Fprintf(&out, "\n(* %s import.go *)\nDefinition gogen_%s : str := %s.\n", filepath.Base(gdir), cn, coqBytes(v))
		js["gogen_"+cn] = v
	}
	sort.Strings(names)
	if err := e.WriteJSON("c10", js); err != nil {
		return err
	}
	return e.WriteV("C10", out.String())
}
