package main

// GEN-SCANCONST (C15/C16/C32): the numeric comparisons of the three scanner sources, translated
// to pure Gallina so that the constants and comparison operators of the *source* are proof
// obligations against the constants of the hand-written model (Proofs/ScanConst.v):
//   lower, isDecimal, isHex, isLetter, isDigit, digitVal          (whole bodies)
//   scanEscape: the final  `if x > max || ... surrogate test ...`  condition,
//               the `switch s.ch` table (simple escapes; numeric escapes with n, base, max
//               and whether the case consumes the letter)
//   skipWhitespace: the loop condition
//   bom, and go/scanner's maxLineCol
// Sources: scanner/scanner.go (xgo), tpl/scanner/scanner.go (tpl), $GOROOT/src/go/scanner (go).
// Constants are evaluated by go/types, so naming a constant or rewriting 0xE000 as 0xDFFF+1
// changes nothing; changing a bound or an operator changes the generated term.
// A site that cannot be read is an error (never a guess).  -> Gen/ScanConst.v

import (
	"fmt"
	"go/ast"
	"go/constant"
	"go/token"
	"go/types"
	"path/filepath"
	"runtime"
	"strings"
)

func init() { register("scanconst", genScanConst) }

type pureTr struct {
	p    *Pkg
	pre  string            // xgo_sc_ ...
	vars map[string]string // Go identifier / selector ("s.ch") -> Coq variable
}

func (t *pureTr) isBool(e ast.Expr) bool {
	b, ok := t.p.Info.TypeOf(e).Underlying().(*types.Basic)
	return ok && b.Info()&types.IsBoolean != 0
}

func (t *pureTr) expr(e ast.Expr) (string, error) {
	if tv, ok := t.p.Info.Types[e]; ok && tv.Value != nil {
		switch tv.Value.Kind() {
		case constant.Int:
			v, exact := constant.Int64Val(tv.Value)
			if !exact {
				return "", fmt.Errorf("constant %s does not fit int64", t.p.Src(e))
			}
			return coqZ(v), nil
		case constant.Bool:
			if constant.BoolVal(tv.Value) {
				return "true", nil
			}
			return "false", nil
		}
	}
	switch e := e.(type) {
	case *ast.ParenExpr:
		return t.expr(e.X)
	case *ast.Ident:
		if v, ok := t.vars[e.Name]; ok {
			return v, nil
		}
	case *ast.SelectorExpr:
		if v, ok := t.vars[t.p.Src(e)]; ok {
			return v, nil
		}
	case *ast.UnaryExpr:
		if e.Op == token.NOT {
			x, err := t.expr(e.X)
			if err != nil {
				return "", err
			}
			return "(negb " + x + ")", nil
		}
	case *ast.CallExpr:
		if len(e.Args) == 1 {
			if tv, ok := t.p.Info.Types[e.Fun]; ok && tv.IsType() && isInt(tv.Type) && isInt(t.p.Info.TypeOf(e.Args[0])) {
				return t.expr(e.Args[0]) // integer conversion of a value in range
			}
			a, err := t.expr(e.Args[0])
			if err != nil {
				return "", err
			}
			switch t.p.Src(e.Fun) {
			case "lower", "isDecimal", "isHex", "digitVal":
				return fmt.Sprintf("(%s%s %s)", t.pre, t.p.Src(e.Fun), a), nil
			case "unicode.IsLetter":
				return "(ul " + a + ")", nil
			case "unicode.IsDigit":
				return "(ud " + a + ")", nil
			}
		}
	case *ast.BinaryExpr:
		x, err := t.expr(e.X)
		if err != nil {
			return "", err
		}
		y, err := t.expr(e.Y)
		if err != nil {
			return "", err
		}
		f := map[token.Token]string{token.LAND: "(andb %s %s)", token.LOR: "(orb %s %s)", token.LSS: "(Z.ltb %s %s)", token.LEQ: "(Z.leb %s %s)",
			token.GTR: "(Z.ltb %[2]s %[1]s)", token.GEQ: "(Z.leb %[2]s %[1]s)", token.EQL: "(Z.eqb %s %s)", token.NEQ: "(negb (Z.eqb %s %s))",
			token.ADD: "(Z.add %s %s)", token.SUB: "(Z.sub %s %s)", token.OR: "(Z.lor %s %s)"}[e.Op]
		if f != "" && !(e.Op == token.OR && t.isBool(e.X)) && !((e.Op == token.EQL || e.Op == token.NEQ) && t.isBool(e.X)) {
			return fmt.Sprintf(f, x, y), nil
		}
	}
	return "", fmt.Errorf("expression %s outside the fragment", t.p.Src(e))
}

// body of a one-parameter pure function:  [switch { case c: return e ... }] return e
func (t *pureTr) body(list []ast.Stmt) (string, error) {
	if len(list) == 0 {
		return "", fmt.Errorf("control reaches the end of the function")
	}
	switch s := list[0].(type) {
	case *ast.ReturnStmt:
		if len(s.Results) != 1 {
			return "", fmt.Errorf("return with %d results", len(s.Results))
		}
		return t.expr(s.Results[0])
	case *ast.SwitchStmt:
		if s.Tag != nil || s.Init != nil {
			return "", fmt.Errorf("switch with tag/init outside the fragment")
		}
		rest, err := t.body(list[1:])
		if err != nil {
			return "", err
		}
		out := rest
		for i := len(s.Body.List) - 1; i >= 0; i-- {
			cc := s.Body.List[i].(*ast.CaseClause)
			if len(cc.List) != 1 {
				return "", fmt.Errorf("case with %d expressions outside the fragment", len(cc.List))
			}
			c, err := t.expr(cc.List[0])
			if err != nil {
				return "", err
			}
			b, err := t.body(cc.Body)
			if err != nil {
				return "", err
			}
			out = fmt.Sprintf("(if %s then %s else %s)", c, b, out)
		}
		return out, nil
	}
	return "", fmt.Errorf("statement %s outside the fragment", t.p.Src(list[0]))
}

func genScanConst(e *Env) error {
	var out strings.Builder
	out.WriteString("From Coq Require Import List ZArith Bool.\nImport ListNotations.\nOpen Scope Z_scope.\n\n")
	specs := []struct{ dir, pre string }{
		{"scanner", "xgo_sc_"},
		{"tpl/scanner", "tpl_sc_"},
		{filepath.Join(runtime.GOROOT(), "src", "go", "scanner"), "go_sc_"},
	}
	for _, sp := range specs {
		p, err := e.Load(sp.dir, true)
		if err != nil {
			return err
		}
		if p.Types == nil {
			return fmt.Errorf("%s: type check failed", sp.dir)
		}
		fmt.Fprintf(&out, "(* ---- %s ---- *)\n", sp.dir)
		fail := func(f string, err error) error { return fmt.Errorf("%s: %s: %v", sp.dir, f, err) }
		// pure helper functions, in dependency order
		for _, fn := range []struct {
			name, ret string
			uni       bool
		}{{"lower", "Z", false}, {"isDecimal", "bool", false}, {"isHex", "bool", false}, {"digitVal", "Z", false}, {"isLetter", "bool", true}, {"isDigit", "bool", true}} {
			fd := p.Func(fn.name)
			if fd == nil || fd.Type.Params == nil || len(fd.Type.Params.List) != 1 || len(fd.Type.Params.List[0].Names) != 1 {
				return fail(fn.name, fmt.Errorf("not found / not a one-parameter function"))
			}
			t := &pureTr{p: p, pre: sp.pre, vars: map[string]string{fd.Type.Params.List[0].Names[0].Name: "c"}}
			b, err := t.body(fd.Body.List)
			if err != nil {
				return fail(fn.name, err)
			}
			params := "(c : Z)"
			if fn.uni {
				params = "(ul ud : Z -> bool) (c : Z)"
			}
			fmt.Fprintf(&out, "Definition %s%s %s : %s :=\n  %s.\n", sp.pre, fn.name, params, fn.ret, b)
		}
		// skipWhitespace: the loop condition
		fd := p.Func("Scanner.skipWhitespace")
		if fd == nil || len(fd.Body.List) != 1 {
			return fail("skipWhitespace", fmt.Errorf("not a single loop"))
		}
		fs, ok := fd.Body.List[0].(*ast.ForStmt)
		if !ok || fs.Init != nil || fs.Post != nil || fs.Cond == nil {
			return fail("skipWhitespace", fmt.Errorf("not `for cond { ... }`"))
		}
		t := &pureTr{p: p, pre: sp.pre, vars: map[string]string{"s.ch": "c", "s.insertSemi": "semi"}}
		c, err := t.expr(fs.Cond)
		if err != nil {
			return fail("skipWhitespace", err)
		}
		fmt.Fprintf(&out, "Definition %sskipCond (semi : bool) (c : Z) : bool :=\n  %s.\n", sp.pre, c)
		// scanEscape
		fd = p.Func("Scanner.scanEscape")
		if fd == nil {
			return fail("scanEscape", fmt.Errorf("not found"))
		}
		var lastIf *ast.IfStmt
		var sw *ast.SwitchStmt
		for _, st := range fd.Body.List {
			switch st := st.(type) {
			case *ast.IfStmt:
				if strings.Contains(p.Src(st.Cond), "max") {
					lastIf = st
				}
			case *ast.SwitchStmt:
				if st.Tag != nil && p.Src(st.Tag) == "s.ch" && sw == nil {
					sw = st
				}
			}
		}
		if lastIf == nil || sw == nil {
			return fail("scanEscape", fmt.Errorf("`switch s.ch` or the final `if x > max ...` not found"))
		}
		t = &pureTr{p: p, pre: sp.pre, vars: map[string]string{"x": "x", "max": "mx"}}
		c, err = t.expr(lastIf.Cond)
		if err != nil {
			return fail("scanEscape condition", err)
		}
		fmt.Fprintf(&out, "Definition %sescInvalid (mx x : Z) : bool :=\n  %s.\n", sp.pre, c)
		var simple, numeric []string
		quoteSeen := false
		for _, cl := range sw.Body.List {
			cc := cl.(*ast.CaseClause)
			if cc.List == nil {
				continue // default: the error case
			}
			var chars []int64
			for _, x := range cc.List {
				if id, ok := x.(*ast.Ident); ok && id.Name == "quote" {
					quoteSeen = true
					continue
				}
				tv := p.Info.Types[x]
				if tv.Value == nil || tv.Value.Kind() != constant.Int {
					return fail("scanEscape", fmt.Errorf("case %s is not a constant", p.Src(x)))
				}
				v, _ := constant.Int64Val(tv.Value)
				chars = append(chars, v)
			}
			// body: either  s.next(); return true   or   [s.next();] n, base, max = c1, c2, c3
			consume, ret := false, false
			var nbm []int64
			for _, st := range cc.Body {
				switch st := st.(type) {
				case *ast.ExprStmt:
					if p.Src(st.X) == "s.next()" {
						consume = true
					} else {
						return fail("scanEscape", fmt.Errorf("statement %s in a case", p.Src(st)))
					}
				case *ast.ReturnStmt:
					if len(st.Results) == 1 && p.Src(st.Results[0]) == "true" {
						ret = true
					} else {
						return fail("scanEscape", fmt.Errorf("return %s in a case", p.Src(st)))
					}
				case *ast.AssignStmt:
					if len(st.Lhs) != 3 || p.Src(st.Lhs[0]) != "n" || p.Src(st.Lhs[1]) != "base" || p.Src(st.Lhs[2]) != "max" || len(st.Rhs) != 3 {
						return fail("scanEscape", fmt.Errorf("assignment %s in a case", p.Src(st)))
					}
					for _, r := range st.Rhs {
						tv := p.Info.Types[r]
						if tv.Value == nil || tv.Value.Kind() != constant.Int {
							return fail("scanEscape", fmt.Errorf("%s is not a constant", p.Src(r)))
						}
						v, _ := constant.Int64Val(tv.Value)
						nbm = append(nbm, v)
					}
				default:
					return fail("scanEscape", fmt.Errorf("statement %s in a case", p.Src(st)))
				}
			}
			switch {
			case ret && consume && nbm == nil:
				for _, ch := range chars {
					simple = append(simple, coqZ(ch))
				}
			case !ret && len(nbm) == 3:
				for _, ch := range chars {
					numeric = append(numeric, fmt.Sprintf("(%s, (%s, %s, %s, %v))", coqZ(ch), coqZ(nbm[0]), coqZ(nbm[1]), coqZ(nbm[2]), consume))
				}
			default:
				return fail("scanEscape", fmt.Errorf("case %v has an unexpected body", chars))
			}
		}
		if !quoteSeen {
			return fail("scanEscape", fmt.Errorf("no `quote` case"))
		}
		fmt.Fprintf(&out, "Definition %sescSimple : list Z := %s.\n", sp.pre, coqList(simple, 0))
		fmt.Fprintf(&out, "Definition %sescNumeric : list (Z * (Z * Z * Z * bool)) :=\n  %s.\n", sp.pre, coqList(numeric, 4))
		// constants
		if c, ok := p.Types.Scope().Lookup("bom").(*types.Const); ok {
			v, _ := constant.Int64Val(c.Val())
			fmt.Fprintf(&out, "Definition %sbom : Z := %s.\n", sp.pre, coqZ(v))
		} else {
			return fail("bom", fmt.Errorf("constant not found"))
		}
		for id, obj := range p.Info.Defs {
			if id.Name == "maxLineCol" {
				if c, ok := obj.(*types.Const); ok {
					v, _ := constant.Int64Val(c.Val())
					fmt.Fprintf(&out, "Definition %smaxLineCol : Z := %s.\n", sp.pre, coqZ(v))
				}
			}
		}
		out.WriteString("\n")
	}
	return e.WriteV("ScanConst", out.String())
}
