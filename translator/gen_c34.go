package main

// gen_c34: the decision tables of parser/parser_gop.go that Model/C34.v relies on  ->  Gen/C34.v
//   * ParseFSDir:   the case labels of `switch ext`, which clause ends in fallthrough, whether the default
//                   clause can `continue`, the literal prefixes tested with strings.HasPrefix
//   * ParseFSEntry: the case labels of its `switch ext` and the fallthrough flags
//   * defaultClassKind: case labels and the string literals compared with ==
// Read from the untyped AST: a label or prefix that is not a string literal makes the generator fail
// (never guess).  Helpers shared with gen_c36.go / gen_c38.go carry the prefix g4b.

import (
	"fmt"
	"go/ast"
	"go/token"
	"strconv"
	"strings"
)

func init() { register("c34", genC34) }

// g4bFunc finds a function (or method "Recv.Name") in a package loaded without type checking.
func g4bFunc(e *Env, dir, name string) (*Pkg, *ast.FuncDecl, error) {
	p, err := e.Load(dir, false)
	if err != nil {
		return nil, nil, err
	}
	fd := p.Func(name)
	if fd == nil || fd.Body == nil {
		return nil, nil, fmt.Errorf("%s: func %s not found", dir, name)
	}
	return p, fd, nil
}

func g4bStrLit(x ast.Expr) (string, bool) {
	bl, ok := x.(*ast.BasicLit)
	if !ok || bl.Kind != token.STRING {
		return "", false
	}
	s, err := strconv.Unquote(bl.Value)
	return s, err == nil
}

type g4bSwitch struct {
	Labels      [][]string // per non-default clause, in source order
	Fallthrough []bool     // per non-default clause: body ends with fallthrough
	HasDefault  bool
	DefaultPos  int  // index of the default clause among all clauses (-1 if none)
	DefContinue bool // a `continue` or `return` occurs inside the default clause
	Stmt        *ast.SwitchStmt
}

// g4bShape renders an expression with every variable name replaced by "_" (names of called
// functions, methods and fields are kept), so that renaming a local does not change the table:
// v.ModTime().UnixNano() -> _.ModTime().UnixNano(),  len(data) -> len(_),  fname -> _
func g4bShape(p *Pkg, x ast.Expr) string {
	switch v := x.(type) {
	case *ast.Ident:
		return "_"
	case *ast.BasicLit:
		return v.Value
	case *ast.ParenExpr:
		return "(" + g4bShape(p, v.X) + ")"
	case *ast.SelectorExpr:
		return g4bShape(p, v.X) + "." + v.Sel.Name
	case *ast.BinaryExpr:
		return g4bShape(p, v.X) + " " + v.Op.String() + " " + g4bShape(p, v.Y)
	case *ast.UnaryExpr:
		return v.Op.String() + g4bShape(p, v.X)
	case *ast.CallExpr:
		fn := ""
		if id, ok := v.Fun.(*ast.Ident); ok {
			fn = id.Name
		} else {
			fn = g4bShape(p, v.Fun)
		}
		var as []string
		for _, a := range v.Args {
			as = append(as, g4bShape(p, a))
		}
		return fn + "(" + strings.Join(as, ", ") + ")"
	}
	return p.Src(x)
}

// g4bSwitches returns the switch statements of fd that have a tag and whose case labels are all
// string literals (the extension / header-name switches); found by content, not by variable name.
func g4bSwitches(p *Pkg, fd *ast.FuncDecl, tag string) ([]*g4bSwitch, error) {
	var out []*g4bSwitch
	var err error
	ast.Inspect(fd.Body, func(n ast.Node) bool {
		sw, ok := n.(*ast.SwitchStmt)
		if !ok || sw.Tag == nil || (tag != "" && p.Src(sw.Tag) != tag) {
			return true
		}
		if tag == "" { // any switch over string literals
			strs := false
			for _, st := range sw.Body.List {
				for _, x := range st.(*ast.CaseClause).List {
					if _, ok := g4bStrLit(x); ok {
						strs = true
					}
				}
			}
			if !strs {
				return true
			}
		}
		s := &g4bSwitch{DefaultPos: -1, Stmt: sw}
		for i, st := range sw.Body.List {
			cc := st.(*ast.CaseClause)
			if cc.List == nil {
				s.HasDefault, s.DefaultPos = true, i
				ast.Inspect(cc, func(m ast.Node) bool {
					switch b := m.(type) {
					case *ast.BranchStmt:
						if b.Tok == token.CONTINUE {
							s.DefContinue = true
						}
					case *ast.ReturnStmt:
						s.DefContinue = true
					}
					return true
				})
				continue
			}
			var labs []string
			for _, x := range cc.List {
				v, ok := g4bStrLit(x)
				if !ok {
					err = fmt.Errorf("%s: case label %s is not a string literal", fd.Name.Name, p.Src(x))
					return false
				}
				labs = append(labs, v)
			}
			ft := false
			if n := len(cc.Body); n > 0 {
				if b, ok := cc.Body[n-1].(*ast.BranchStmt); ok && b.Tok == token.FALLTHROUGH {
					ft = true
				}
			}
			s.Labels = append(s.Labels, labs)
			s.Fallthrough = append(s.Fallthrough, ft)
		}
		out = append(out, s)
		return true
	})
	return out, err
}

// g4bCallArgs collects, for every call of pkg.fn inside node, its arguments.
func g4bCallArgs(node ast.Node, pkg, fn string) [][]ast.Expr {
	var out [][]ast.Expr
	ast.Inspect(node, func(n ast.Node) bool {
		c, ok := n.(*ast.CallExpr)
		if !ok {
			return true
		}
		if sel, ok := c.Fun.(*ast.SelectorExpr); ok && sel.Sel.Name == fn {
			if id, ok := sel.X.(*ast.Ident); ok && id.Name == pkg {
				out = append(out, c.Args)
			}
		}
		return true
	})
	return out
}

// g4bEqLits: string literals compared with == / != against anything, in source order.
func g4bEqLits(node ast.Node) []string {
	var out []string
	ast.Inspect(node, func(n ast.Node) bool {
		b, ok := n.(*ast.BinaryExpr)
		if !ok || (b.Op != token.EQL && b.Op != token.NEQ) {
			return true
		}
		if s, ok := g4bStrLit(b.Y); ok {
			out = append(out, s)
		} else if s, ok := g4bStrLit(b.X); ok {
			out = append(out, s)
		}
		return true
	})
	return out
}

func g4bStrList(ss []string) string {
	var it []string
	for _, s := range ss {
		it = append(it, coqBytes(s))
	}
	return coqList(it, 0)
}
func g4bStrListList(sss [][]string) string {
	var it []string
	for _, ss := range sss {
		it = append(it, g4bStrList(ss))
	}
	return coqList(it, 0)
}
func g4bBools(bs []bool) string {
	var it []string
	for _, b := range bs {
		it = append(it, fmt.Sprint(b))
	}
	return coqList(it, 0)
}

const g4bHeader = "From Coq Require Import List NArith ZArith Bool.\nImport ListNotations.\nFrom V Require Import Base.Prelude.\n\n"

func genC34(e *Env) error {
	var out strings.Builder
	out.WriteString(g4bHeader)
	js := map[string]interface{}{}
	for _, site := range []struct{ fn, pre string }{{"ParseFSDir", "dir"}, {"ParseFSEntry", "entry"}} {
		p, fd, err := g4bFunc(e, "parser", site.fn)
		if err != nil {
			return err
		}
		sws, err := g4bSwitches(p, fd, "")
		if err != nil {
			return err
		}
		if len(sws) != 1 {
			return fmt.Errorf("%s: expected exactly one switch over string literals, found %d", site.fn, len(sws))
		}
		s := sws[0]
		if !s.HasDefault || s.DefaultPos != len(s.Labels) {
			return fmt.Errorf("%s: `switch ext` must end with its default clause", site.fn)
		}
		fmt.Fprintf(&out, "(* %s: switch ext *)\n", site.fn)
		fmt.Fprintf(&out, "Definition %s_case_labels : list (list str) := %s.\n", site.pre, g4bStrListList(s.Labels))
		fmt.Fprintf(&out, "Definition %s_case_fallthrough : list bool := %s.\n", site.pre, g4bBools(s.Fallthrough))
		fmt.Fprintf(&out, "Definition %s_default_can_skip : bool := %v.\n", site.pre, s.DefContinue)
		var prefixes []string
		for _, args := range g4bCallArgs(fd.Body, "strings", "HasPrefix") {
			if len(args) != 2 {
				return fmt.Errorf("%s: strings.HasPrefix with %d arguments", site.fn, len(args))
			}
			v, ok := g4bStrLit(args[1])
			if !ok {
				return fmt.Errorf("%s: strings.HasPrefix prefix %s is not a string literal", site.fn, p.Src(args[1]))
			}
			prefixes = append(prefixes, v)
		}
		fmt.Fprintf(&out, "Definition %s_prefix_literals : list str := %s.\n\n", site.pre, g4bStrList(prefixes))
		js[site.pre] = map[string]interface{}{"labels": s.Labels, "fallthrough": s.Fallthrough, "prefixes": prefixes, "src": p.Src(s.Stmt)}
	}
	p, fd, err := g4bFunc(e, "parser", "defaultClassKind")
	if err != nil {
		return err
	}
	sws, err := g4bSwitches(p, fd, "")
	if err != nil {
		return err
	}
	if len(sws) != 1 {
		return fmt.Errorf("defaultClassKind: expected exactly one switch over string literals, found %d", len(sws))
	}
	fmt.Fprintf(&out, "(* defaultClassKind: switch ext *)\n")
	fmt.Fprintf(&out, "Definition dck_case_labels : list (list str) := %s.\n", g4bStrListList(sws[0].Labels))
	fmt.Fprintf(&out, "Definition dck_has_default : bool := %v.\n", sws[0].HasDefault)
	fmt.Fprintf(&out, "Definition dck_eq_literals : list str := %s.\n", g4bStrList(g4bEqLits(fd.Body)))
	js["dck"] = map[string]interface{}{"labels": sws[0].Labels, "eq": g4bEqLits(fd.Body), "src": p.Src(fd)}
	if err := e.WriteJSON("c34", js); err != nil {
		return err
	}
	return e.WriteV("C34", out.String())
}
