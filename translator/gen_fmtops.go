package main

// C26 K-gen: cmd/internal/gopfmt/fmt.go writeFileWithBackup -> Gen/FmtOps.v
//
// Every statement of the body must have one of the shapes below (compared on the go/printer-normalised
// text, so formatting and comments do not matter); it is emitted as a constructor of Base/C26Ops.fstmt.
// A statement with another shape is an error (never guessed).  Also checked: the signature, and that
// gopfmt hands (path, target) to writeFileWithBackup.

import (
	"fmt"
	"go/ast"
	"strings"
)

func init() { register("fmtops", genFmtOps) }

type fmtGen struct{ p *Pkg }

func (g *fmtGen) src(n ast.Node) string { return strings.Join(strings.Fields(g.p.Src(n)), " ") }

func (g *fmtGen) block(list []ast.Stmt) ([]string, error) {
	var out []string
	for _, st := range list {
		s := g.src(st)
		switch s {
		case "dir, file := filepath.Split(path)":
			out = append(out, "SSplitPath")
			continue
		case "if dir == \"\" { dir = \".\" }":
			out = append(out, "SDirDot")
			continue
		case "f, err := os.CreateTemp(dir, file)":
			out = append(out, "SCreateTemp")
			continue
		case "if err != nil { return }":
			out = append(out, "SRetIfErr")
			continue
		case "tmpfile := f.Name()":
			out = append(out, "STmpName")
			continue
		case "_, err = f.Write(target)":
			out = append(out, "SWrite")
			continue
		case "err = f.Chmod(fi.Mode().Perm())":
			out = append(out, "SChmodStat")
			continue
		case "if e := f.Close(); err == nil { err = e }":
			out = append(out, "SCloseKeepErr")
			continue
		case "os.Remove(tmpfile)":
			out = append(out, "SRemoveTmp")
			continue
		case "os.Remove(path)":
			out = append(out, "SRemovePath")
			continue
		case "return":
			out = append(out, "SReturn")
			continue
		case "return os.Rename(tmpfile, path)":
			out = append(out, "SReturnRename")
			continue
		}
		ifs, ok := st.(*ast.IfStmt)
		if !ok || ifs.Else != nil {
			return nil, fmt.Errorf("unknown statement %q", s)
		}
		body, err := g.block(ifs.Body.List)
		if err != nil {
			return nil, err
		}
		cond := g.src(ifs.Cond)
		switch {
		case ifs.Init == nil && cond == "err == nil":
			out = append(out, "SIfNoErr "+coqList(body, 0))
		case ifs.Init == nil && cond == "err != nil":
			out = append(out, "SIfErr "+coqList(body, 0))
		case ifs.Init != nil && cond == "err != nil" && g.src(ifs.Init) == "err = os.Rename(tmpfile, path)":
			out = append(out, "SRenameElse "+coqList(body, 0))
		case ifs.Init != nil && cond == "e == nil" && g.src(ifs.Init) == "fi, e := os.Stat(path)":
			out = append(out, "SIfStat true "+coqList(body, 0))
		case ifs.Init != nil && cond == "e == nil" && g.src(ifs.Init) == "fi, e := os.Lstat(path)":
			out = append(out, "SIfStat false "+coqList(body, 0))
		default:
			return nil, fmt.Errorf("unknown if statement %q", s)
		}
	}
	return out, nil
}

func genFmtOps(e *Env) error {
	p, err := e.Load("cmd/internal/gopfmt", false)
	if err != nil {
		return err
	}
	g := &fmtGen{p: p}
	fd := p.Func("writeFileWithBackup")
	if fd == nil || fd.Body == nil {
		return fmt.Errorf("cmd/internal/gopfmt: writeFileWithBackup not found")
	}
	if sig := g.src(fd.Type); sig != "func(path string, target []byte) (err error)" {
		return fmt.Errorf("writeFileWithBackup: unexpected signature %q", sig)
	}
	ops, err := g.block(fd.Body.List)
	if err != nil {
		return fmt.Errorf("writeFileWithBackup: %v", err)
	}
	// the caller
	caller := p.Func("gopfmt")
	if caller == nil || !strings.Contains(g.src(caller.Body), "return writeFileWithBackup(path, target)") {
		return fmt.Errorf("gopfmt does not end with `return writeFileWithBackup(path, target)`")
	}
	var out strings.Builder
	out.WriteString("From Coq Require Import List.\nImport ListNotations.\nFrom V Require Import Base.C26Ops.\n\n")
	out.WriteString("(* cmd/internal/gopfmt/fmt.go: writeFileWithBackup *)\n")
	fmt.Fprintf(&out, "Definition gen_wfb : list fstmt := %s.\n", coqList(ops, 0))
	if err := e.WriteJSON("fmtops", map[string]interface{}{"ops": ops, "src": p.Src(fd)}); err != nil {
		return err
	}
	return e.WriteV("FmtOps", out.String())
}
