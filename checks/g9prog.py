"""Typed generator of deterministic programs in the Go subset XGo claims to accept (C01), and of
XGo programs with sugar (C06, C07).  Every program type-checks by construction: expressions are
generated for a requested type from the variables in scope; every local variable is used (it is
printed at the end of its block); loops are counted with constant bounds and their counters are
not assignable; functions only call lower-numbered functions (no recursion); integer literals are
small; division/modulo only by non-zero constants (except in the dedicated run-time-panic
statement); slices are indexed through helper functions or may panic at run time, which is
deterministic and part of the compared behaviour.

Not generated (stated in the evidence): generics, goroutines/channels/select, println/print
builtins (stdout in XGo, stderr in Go), `$` in string literals, unsafe/cgo, labels on blocks,
goto, struct embedding/interfaces with embedding, non-gofmt spacing (command-call rule), shadowed
package names, integer constants >= 2^31, floats (formatting is fine but constant folding to
untyped big rationals differs by design in XGo).
"""

INT, STR, BOOL, INTS, STRS, MAP, FN = "int", "string", "bool", "[]int", "[]string", "map[string]int", "func(int) int"
SCALARS = [INT, STR, BOOL]
WORDS = ["a", "bb", "xyz", "go", "", "hello", "Q", "x y", "é", "tab\\t", "q\\\"q", "0"]


class Scope:
    def __init__(self, parent=None):
        self.parent = parent
        self.vars = []          # (name, type, assignable)
        self.own = []

    def add(self, name, typ, assignable=True):
        self.vars.append((name, typ, assignable))
        self.own.append((name, typ))

    def all(self):
        s, out = self, []
        while s:
            out = s.vars + out
            s = s.parent
        return out

    def of(self, typ, assignable=False):
        return [n for (n, t, a) in self.all() if t == typ and (a or not assignable)]


class Gen:
    def __init__(self, rng, xgo=False):
        self.r = rng
        self.xgo = xgo              # emit XGo sugar
        self.n = 0
        self.funcs = []             # (name, [param types], ret type)
        self.structs = []           # (name, [(field, type)], [(method, ptr?, [params], ret)])
        self.imports = set(["fmt"])
        self.feat = {}
        self.loop_depth = 0
        self.labels = []
        self.in_func_ret = None
        self.errfuncs = []          # XGo: funcs returning (int, error)
        self.root = Scope()         # package-level variables (declared before every function)

    # ------------------------------------------------------------ utilities
    def f(self, k):
        self.feat[k] = self.feat.get(k, 0) + 1

    def fresh(self, p="v"):
        self.n += 1
        return "%s%d" % (p, self.n)

    def pick(self, xs):
        return xs[self.r.below(len(xs))]

    def chance(self, num, den):
        return self.r.below(den) < num

    def lit_int(self):
        return str(self.pick([0, 1, 2, 3, 5, 7, 10, 13, 42, 100, 255, 999]))

    def lit_str(self):
        return '"%s"' % self.pick(WORDS)

    # ------------------------------------------------------------ expressions
    def expr(self, typ, sc, d=0):
        r = self.r
        leaf = d >= 3 or r.below(4) == 0
        vs = sc.of(typ)
        if leaf and vs and r.below(3):
            return self.pick(vs)
        if typ == INT:
            if leaf:
                return self.pick(vs) if vs and r.below(2) else self.lit_int()
            k = r.below(14)
            if k < 2:
                op = self.pick(["+", "-"])
                return "(%s %s %s)" % (self.expr(INT, sc, d + 1), op, self.expr(INT, sc, d + 1))
            if k == 2:      # the right operand is a variable or a small literal: constant subtrees stay small
                rhs = self.pick(vs) if vs and r.below(2) else self.pick(["2", "3", "-1"])
                return "(%s * %s)" % (self.expr(INT, sc, d + 1), rhs)
            if k == 3:
                return "(%s %s %s)" % (self.expr(INT, sc, d + 1), self.pick(["/", "%"]), self.pick(["2", "3", "7", "10"]))
            if k == 4:
                t = self.pick([STR, INTS, STRS, MAP])
                return "len(%s)" % self.expr(t, sc, d + 1)
            if k == 5 and self.funcs:
                fs = [f for f in self.funcs if f[2] == INT]
                if fs:
                    return self.call(self.pick(fs), sc, d)
            if k == 6:
                self.f("index-helper")
                return "at(%s, %s)" % (self.expr(INTS, sc, d + 1), self.expr(INT, sc, d + 1))
            if k == 7:
                m = sc.of(MAP)
                if m:
                    self.f("map-index")
                    return "%s[%s]" % (self.pick(m), self.expr(STR, sc, d + 1))
            if k == 8:
                sv = self.struct_vars(sc)
                if sv:
                    return self.field_or_method(self.pick(sv), INT, sc, d)
            if k == 9:
                fv = sc.of(FN)
                if fv:
                    self.f("closure-call")
                    return "%s(%s)" % (self.pick(fv), self.expr(INT, sc, d + 1))
            if k == 10:
                return "(%s %s %s)" % (self.expr(INT, sc, d + 1), self.pick(["&", "|", "^", "<<", ">>"]), self.pick(["1", "2", "3"]))
            if k == 11:
                return "-(%s)" % self.expr(INT, sc, d + 1)
            return self.pick(vs) if vs else self.lit_int()
        if typ == BOOL:
            if leaf:
                return self.pick(vs) if vs and r.below(2) else self.pick(["true", "false"])
            k = r.below(7)
            if k < 2:
                return "(%s %s %s)" % (self.expr(INT, sc, d + 1), self.pick(["<", "<=", "==", "!=", ">", ">="]), self.expr(INT, sc, d + 1))
            if k == 2:
                return "(%s %s %s)" % (self.expr(STR, sc, d + 1), self.pick(["==", "!=", "<"]), self.expr(STR, sc, d + 1))
            if k == 3:
                return "!%s" % self.expr(BOOL, sc, d + 1)
            if k == 4:
                return "(%s %s %s)" % (self.expr(BOOL, sc, d + 1), self.pick(["&&", "||"]), self.expr(BOOL, sc, d + 1))
            if k == 5:
                self.imports.add("strings")
                return "strings.Contains(%s, %s)" % (self.expr(STR, sc, d + 1), self.expr(STR, sc, d + 1))
            return self.pick(vs) if vs else "true"
        if typ == STR:
            if leaf:
                return self.pick(vs) if vs and r.below(2) else self.lit_str()
            k = r.below(8)
            if k < 2:
                return "(%s + %s)" % (self.expr(STR, sc, d + 1), self.expr(STR, sc, d + 1))
            if k == 2:
                return "fmt.Sprint(%s)" % self.expr(self.pick([INT, BOOL, INTS]), sc, d + 1)
            if k == 3:
                self.imports.add("strings")
                return "strings.%s(%s)" % (self.pick(["ToUpper", "ToLower", "TrimSpace"]), self.expr(STR, sc, d + 1))
            if k == 4:
                self.imports.add("strings")
                return "strings.Repeat(%s, %s)" % (self.expr(STR, sc, d + 1), self.pick(["0", "1", "2", "3"]))
            if k == 5:
                fs = [f for f in self.funcs if f[2] == STR]
                if fs:
                    return self.call(self.pick(fs), sc, d)
            if k == 6:
                sv = self.struct_vars(sc)
                if sv:
                    return self.field_or_method(self.pick(sv), STR, sc, d)
            if k == 7 and self.xgo:
                iv = sc.of(INT) + sc.of(STR)
                if iv:
                    self.f("xgo-interp")
                    return '"<${%s}>"' % self.pick(iv)
            return self.pick(vs) if vs else self.lit_str()
        if typ == INTS:
            k = r.below(7)
            if leaf or k == 0:
                if vs and r.below(2):
                    return self.pick(vs)
                els = ", ".join(self.expr(INT, sc, 3) for _ in range(r.below(5)))
                if self.xgo and els:
                    self.f("xgo-slicelit")
                    return "[%s]" % els
                return "[]int{%s}" % els
            if k == 1:
                return "append(%s, %s)" % (self.expr(INTS, sc, d + 1), self.expr(INT, sc, d + 1))
            if k == 2:
                self.f("slice-helper")
                return "cut(%s, %s, %s)" % (self.expr(INTS, sc, d + 1), self.expr(INT, sc, d + 1), self.expr(INT, sc, d + 1))
            if k == 3:
                fs = [f for f in self.funcs if f[2] == INTS]
                if fs:
                    return self.call(self.pick(fs), sc, d)
            if k == 4 and self.xgo:
                src = self.expr(INTS, sc, d + 1)
                x = self.fresh("x")
                sub = Scope(sc)
                sub.add(x, INT, False)
                self.f("xgo-listcomp")
                cond = ""
                if r.below(2):
                    cond = ", %s" % self.expr(BOOL, sub, d + 2)
                # the element expression uses the variable: an unused comprehension variable is rejected by
                # Go ("declared and not used", known C06 finding)
                return "[(%s + %s) for %s <- %s%s]" % (x, self.expr(INT, sub, d + 2), x, src, cond)
            return self.pick(vs) if vs else "[]int{1, 2, 3}"
        if typ == STRS:
            if vs and r.below(2):
                return self.pick(vs)
            if not leaf and r.below(3) == 0:
                self.imports.add("strings")
                return "strings.Fields(%s)" % self.expr(STR, sc, d + 1)
            els = ", ".join(self.expr(STR, sc, 3) for _ in range(r.below(4)))
            if self.xgo and els:
                return "[%s]" % els
            return "[]string{%s}" % els
        if typ == MAP:
            if vs and r.below(3):
                return self.pick(vs)
            keys = []
            for _ in range(r.below(4)):
                k = self.pick(["a", "b", "c", "dd", "e"])
                if k not in keys:
                    keys.append(k)
            els = ", ".join('"%s": %s' % (k, self.expr(INT, sc, 3)) for k in keys)
            if self.xgo and els:
                self.f("xgo-maplit")
                return "{%s}" % els
            return "map[string]int{%s}" % els
        if typ == FN:
            if vs and r.below(2):
                return self.pick(vs)
            x = self.fresh("p")
            sub = Scope(sc)
            sub.add(x, INT, False)
            self.f("closure")
            return "func(%s int) int { return %s }" % (x, self.expr(INT, sub, d + 2))
        for (sn, fields, _) in self.structs:
            if typ == sn:
                if vs and r.below(2):
                    return self.pick(vs)
                return "%s{%s}" % (sn, ", ".join("%s: %s" % (fn, self.expr(ft, sc, d + 2)) for fn, ft in fields))
        raise ValueError(typ)

    def struct_vars(self, sc):
        names = [s[0] for s in self.structs]
        return [(n, t.lstrip("*")) for (n, t, a) in sc.all() if t.lstrip("*") in names]

    def field_or_method(self, sv, want, sc, d):
        n, t = sv
        st = [s for s in self.structs if s[0] == t][0]
        fl = [fn for fn, ft in st[1] if ft == want]
        ms = [m for m in st[2] if m[3] == want]
        if ms and (not fl or self.r.below(2)):
            m = self.pick(ms)
            self.f("method-call")
            return "%s.%s(%s)" % (n, m[0], ", ".join(self.expr(p, sc, d + 2) for p in m[2]))
        if fl:
            return "%s.%s" % (n, self.pick(fl))
        return self.lit_int() if want == INT else self.lit_str()

    def call(self, f, sc, d):
        if self.loop_depth > 0 and self.r.below(3):
            # calls inside loops multiply along the call chain fn3 -> fn2 -> ...: keep most of them out of loops
            return {INT: self.lit_int(), STR: self.lit_str(), INTS: "[]int{4, 5}"}[f[2]]
        self.f("call")
        return "%s(%s)" % (f[0], ", ".join(self.expr(p, sc, d + 2) for p in f[1]))

    # ------------------------------------------------------------ statements
    def println(self, args):
        if self.xgo and self.chance(2, 3):
            if (args[0][0].isalnum() or args[0][0] == '"') and self.chance(1, 2):
                self.f("xgo-println-cmd")
                return "%s %s" % (self.pick(["println", "echo"]), ", ".join(args))
            self.f("xgo-println")
            return "println(%s)" % ", ".join(args)
        return "fmt.Println(%s)" % ", ".join(args)

    def block(self, sc, depth, n, ind):
        """-> list of lines; declares variables in a fresh scope and prints them at the end"""
        sub = Scope(sc)
        out = []
        for _ in range(n):
            out += self.stmt(sub, depth, ind)
        for (name, typ) in sub.own:
            if typ == FN:
                out.append(ind + self.println(["%s(3)" % name]))
            else:
                out.append(ind + self.println([name]))
        return out

    def all_types(self):
        return [INT, INT, STR, BOOL, INTS, STRS, MAP, FN] + [s[0] for s in self.structs]

    def stmt(self, sc, depth, ind):
        r = self.r
        k = r.below(20 if depth < 3 else 8)
        i2 = ind + "\t"
        if k < 4:                                           # declaration
            t = self.pick(self.all_types())
            v = self.fresh()
            e = self.expr(t, sc)
            if r.below(4) == 0 and t in (INT, STR, BOOL, INTS, MAP):
                line = "var %s %s = %s" % (v, t, e)
            else:
                if e in ("true", "false") or t != INT or not e.lstrip("-").isdigit():
                    pass
                line = "%s := %s" % (v, e)
                if t == INTS and e == "[]int{}" or t == STRS and e == "[]string{}":
                    pass
            # an untyped constant initialiser would make v an int anyway; typed literals keep their type
            sc.add(v, t)
            self.f("decl")
            return [ind + line]
        if k < 7:                                           # assignment
            cands = [(n, t) for (n, t, a) in sc.all() if a]
            if cands:
                n, t = self.pick(cands)
                if t == INT and r.below(3) == 0:
                    self.f("op-assign")
                    return [ind + "%s %s= %s" % (n, self.pick(["+", "-", "*"]), self.expr(INT, sc, 1))]
                if t == INT and r.below(4) == 0:
                    self.f("incdec")
                    return [ind + n + self.pick(["++", "--"])]
                if t == STR:
                    # clip keeps strings short: repeated self-concatenation in nested loops grows exponentially
                    return [ind + "%s = clip(%s + %s)" % (n, n, self.expr(STR, sc, 1))]
                if t == MAP and r.below(2):
                    self.f("map-store")
                    return [ind + "%s[%s] = %s" % (n, self.expr(STR, sc, 2), self.expr(INT, sc, 1))]
                if t in [s[0] for s in self.structs] and r.below(2):
                    st = [s for s in self.structs if s[0] == t][0]
                    fn, ft = self.pick(st[1])
                    self.f("field-store")
                    e = self.expr(ft, sc, 1)
                    if ft == STR:
                        e = "clip(%s)" % e
                    return [ind + "%s.%s = %s" % (n, fn, e)]
                self.f("assign")
                return [ind + "%s = %s" % (n, self.expr(t, sc, 1))]
            return [ind + self.println([self.expr(INT, sc)])]
        if k < 9:                                           # print
            t = self.pick([INT, STR, BOOL, INTS, STRS])
            return [ind + self.println([self.expr(t, sc) for _ in range(1 + r.below(2))])]
        if k == 9:                                          # sorted map print
            m = sc.of(MAP)
            if m:
                self.imports.add("sort")
                self.f("sorted-map")
                return [ind + "fmt.Println(keys(%s))" % self.pick(m)]
            return [ind + self.println([self.expr(STR, sc)])]
        if k == 10 or k == 11:                              # if
            self.f("if")
            out = [ind + "if %s {" % self.expr(BOOL, sc)]
            out += self.block(sc, depth + 1, 1 + r.below(2), i2)
            if r.below(2):
                if r.below(3) == 0:
                    out.append(ind + "} else if %s {" % self.expr(BOOL, sc))
                    out += self.block(sc, depth + 1, 1, i2)
                out.append(ind + "} else {")
                out += self.block(sc, depth + 1, 1 + r.below(2), i2)
            out.append(ind + "}")
            return out
        if k == 12 or k == 13:                              # counted loop, maybe labelled
            i = self.fresh("i")
            sub = Scope(sc)
            sub.add(i, INT, False)
            label = ""
            if r.below(3) == 0:
                label = self.fresh("L")
                self.f("label")
            self.f("for")
            out = []
            rangeexpr = False
            if label:
                out.append(ind + label + ":")
            if self.xgo and r.below(3) == 0 and not label:
                self.f("xgo-rangeexpr")
                rangeexpr = True
                out.append(ind + "for %s <- %s:%s {" % (i, self.pick(["0", "1"]), self.pick(["2", "3", "4"])))
            else:
                out.append(ind + "for %s := 0; %s < %s; %s++ {" % (i, i, self.pick(["2", "3", "4"]), i))
            self.labels.append(label)
            self.loop_depth += 1
            body = self.block(sub, depth + 1, 1 + r.below(3), i2)
            if label or r.below(2):
                # `continue` inside `for i <- a:b` is rejected by the compiler ("please use Post() in for
                # statement"): not generated
                kw = "break" if rangeexpr else self.pick(["break", "continue"])
                tgt = ""
                ls = [l for l in self.labels if l]
                if label:
                    tgt = " " + label
                    self.f("labelled-" + kw)
                elif ls and r.below(2):
                    tgt = " " + self.pick(ls)
                    self.f("labelled-" + kw)
                body.insert(0, i2 + "if %s {\n%s\t%s%s\n%s}" % (self.expr(BOOL, sub), i2, kw, tgt, i2))
            out += body
            self.loop_depth -= 1
            self.labels.pop()
            out.append(ind + "}")
            return out
        if k == 14:                                         # range over slice
            xs = self.expr(INTS, sc, 1)
            iv, vv = self.fresh("i"), self.fresh("e")
            sub = Scope(sc)
            self.f("range")
            self.labels.append("")
            if self.xgo and r.below(2):
                sub.add(vv, INT, False)
                self.f("xgo-forin")
                out = [ind + "for %s <- %s {" % (vv, xs)]
                out += self.block(sub, depth + 1, 1 + r.below(2), i2)
                out.append(i2 + "_ = %s" % vv)
            else:
                sub.add(iv, INT, False)
                sub.add(vv, INT, False)
                out = [ind + "for %s, %s := range %s {" % (iv, vv, xs)]
                out += self.block(sub, depth + 1, 1 + r.below(2), i2)
                out.append(i2 + "_, _ = %s, %s" % (iv, vv))
            self.labels.pop()
            out.append(ind + "}")
            return out
        if k == 15:                                         # switch
            self.f("switch")
            tag = self.expr(INT, sc, 1)
            out = [ind + "switch %s %% 4 {" % tag]
            for c in (["0", "1, 2"] if r.below(2) else ["1", "2", "3"]):
                out.append(ind + "case %s:" % c)
                out += self.block(sc, depth + 1, 1, i2)
                if r.below(5) == 0:
                    out.append(i2 + "fallthrough")
                    self.f("fallthrough")
            out.append(ind + "default:")
            out += self.block(sc, depth + 1, 1, i2)
            out.append(ind + "}")
            return out
        if k == 16:                                         # defer / recover in a closure
            self.f("defer-recover")
            v = self.fresh()
            saved, self.labels = self.labels, []
            out = [ind + "%sf := func() (res string) {" % v]
            out += [i2 + "defer func() {", i2 + "\tif e := recover(); e != nil {", i2 + "\t\tres = fmt.Sprint(\"recovered: \", e)", i2 + "\t}", i2 + "}()"]
            sub = Scope(sc)
            out += self.block(sub, depth + 2, 1, i2)
            if r.below(2):
                out.append(i2 + "panic(%s)" % self.expr(self.pick([STR, INT]), sc, 2))
            else:
                ix = self.fresh("ix")
                out.append(i2 + "%s := %s" % (ix, self.expr(INT, sc, 2)))
                out.append(i2 + "_ = []int{1}[%s]" % ix)
            out.append(i2 + "return \"done\"")
            out.append(ind + "}")
            out.append(ind + "%s := %sf()" % (v, v))
            self.labels = saved
            sc.add(v, STR)
            return out
        if k == 17:                                         # struct var + method call statement
            if self.structs:
                s = self.pick(self.structs)
                v = self.fresh()
                e = self.expr(s[0], sc, 1)
                sc.add(v, s[0])
                self.f("struct")
                return [ind + "%s := %s" % (v, e)]
            return [ind + self.println([self.expr(BOOL, sc)])]
        if k == 18:                                         # switch on string / no tag
            self.f("switch-notag")
            out = [ind + "switch {"]
            out.append(ind + "case %s:" % self.expr(BOOL, sc, 1))
            out += self.block(sc, depth + 1, 1, i2)
            out.append(ind + "case %s:" % self.expr(BOOL, sc, 1))
            out += self.block(sc, depth + 1, 1, i2)
            out.append(ind + "}")
            return out
        if k == 19 and self.xgo and self.errfuncs:          # error wrapping
            f = self.pick(self.errfuncs)
            v = self.fresh()
            e = self.expr(INT, sc, 2)
            sc.add(v, INT)
            self.f("xgo-errwrap")
            return [ind + "%s := %s(%s)?:%s" % (v, f, e, self.lit_int())]
        return [ind + self.println([self.expr(self.pick(SCALARS), sc)])]

    # ------------------------------------------------------------ declarations
    def gen_struct(self):
        name = "T%d" % len(self.structs)
        fields = []
        for i in range(1 + self.r.below(3)):
            fields.append(("f%d" % i, self.pick([INT, STR, BOOL, INTS])))
        self.structs.append((name, fields, []))
        return name

    def gen_method(self, st):
        name, fields, methods = st
        mname = "m%d" % len(methods)
        ptr = self.r.below(2) == 0
        ret = self.pick([INT, STR])
        params = [INT] if self.r.below(2) else []
        sc = Scope(self.root)
        sc.vars.append(("s", ("*" if ptr else "") + name, False))
        pn = []
        for i, p in enumerate(params):
            sc.add("a%d" % i, p)
            pn.append("a%d %s" % (i, p))
        lines = ["func (s %s%s) %s(%s) %s {" % ("*" if ptr else "", name, mname, ", ".join(pn), ret)]
        if ptr and self.r.below(2):
            ints = [fn for fn, ft in fields if ft == INT]
            if ints:
                lines.append("\ts.%s += 1" % self.pick(ints))
        lines += self.block(sc, 2, self.r.below(2), "\t")
        lines.append("\treturn %s" % self.expr(ret, sc, 1))
        lines.append("}")
        methods.append((mname, ptr, params, ret))
        self.f("method")
        return lines

    def gen_func(self):
        name = "fn%d" % len(self.funcs)
        ret = self.pick([INT, INT, STR, INTS])
        params = [self.pick([INT, STR, INTS, BOOL]) for _ in range(self.r.below(3))]
        sc = Scope(self.root)
        pn = []
        for i, p in enumerate(params):
            sc.add("a%d" % i, p)
            pn.append("a%d %s" % (i, p))
        lines = ["func %s(%s) %s {" % (name, ", ".join(pn), ret)]
        lines += self.block(sc, 1, 1 + self.r.below(3), "\t")
        lines.append("\treturn %s" % self.expr(ret, sc, 1))
        lines.append("}")
        self.funcs.append((name, params, ret))
        self.f("func")
        return lines

    HELPERS = '''func at(xs []int, i int) int {
	if len(xs) == 0 {
		return -1
	}
	return xs[((i%len(xs))+len(xs))%len(xs)]
}

func cut(xs []int, lo, hi int) []int {
	n := len(xs)
	if lo < 0 {
		lo = 0
	}
	if hi > n {
		hi = n
	}
	if lo > hi {
		return nil
	}
	return xs[lo:hi]
}

func clip(s string) string {
	if len(s) > 40 {
		return s[:40]
	}
	return s
}

func tr(name string, v int) int {
	fmt.Println("init", name, v)
	return v
}

func keys(m map[string]int) []string {
	var ks []string
	for k := range m {
		ks = append(ks, k)
	}
	sort.Strings(ks)
	for i, k := range ks {
		ks[i] = k + "=" + fmt.Sprint(m[k])
	}
	return ks
}
'''

    def program(self):
        """-> source text of a complete main package"""
        decls = []
        for _ in range(self.r.below(3)):
            self.gen_struct()
        for st in self.structs:
            decls.append(["type %s struct {" % st[0]] + ["\t%s %s" % f for f in st[1]] + ["}"])
        # package-level variables with effectful initialisers, declared BEFORE every function that can
        # refer to them (a function referring to a later variable changes the initialisation order
        # when compiled by XGo: known finding var-init-order)
        gl = []
        for i in range(self.r.below(4)):
            g = "g%d" % i
            t = self.pick([INT, INT, STR])
            if t == INT:
                gl.append("var %s = tr(\"%s\", %s)" % (g, g, self.expr(INT, self.root, 2)))
            else:
                gl.append("var %s = fmt.Sprint(tr(\"%s\", %s), %s)" % (g, g, self.lit_int(), self.expr(STR, self.root, 2)))
            self.root.add(g, t, t == INT)      # string globals are read-only after their initialisation
            self.f("package-var")
        if gl:
            decls.append(gl)
        if self.xgo and self.r.below(2):
            self.imports.add("errors")
            decls.append(["func ef0(x int) (int, error) {", "\tif x%2 == 0 {", "\t\treturn x + 1, nil", "\t}",
                          "\treturn 0, errors.New(\"odd\")", "}"])
            self.errfuncs.append("ef0")
        for st in self.structs:
            for _ in range(self.r.below(3)):
                decls.append(self.gen_method(st))
        for _ in range(1 + self.r.below(4)):
            decls.append(self.gen_func())
        sc = Scope(self.root)
        main = ["func main() {"]
        main += self.block(sc, 0, 4 + self.r.below(6), "\t")
        ending = self.r.below(12)
        if ending == 0:
            self.f("exit-code")
            self.imports.add("os")
            main.append("\tos.Exit(%s)" % self.pick(["0", "1", "3", "7"]))
        elif ending == 1:
            self.f("uncaught-panic")
            main.append("\tpanic(%s)" % self.pick(['"boom"', "42", 'fmt.Sprint("p", 1)', 'fmt.Errorf("e%d", 5)']))
        elif ending == 2:
            self.f("runtime-panic")
            main.append("\tvar zero int")
            main.append("\tfmt.Println(10 / zero)")
        main.append("}")
        self.imports.add("sort")
        imps = "import (\n" + "".join('\t"%s"\n' % i for i in sorted(self.imports)) + ")\n"
        body = "\n\n".join("\n".join(d) for d in decls + [main])
        return "package main\n\n" + imps + "\n" + self.HELPERS + "\n" + body + "\n"


def go_program(rng):
    g = Gen(rng, xgo=False)
    src = g.program()
    return src, g.feat


def xgo_program(rng):
    g = Gen(rng, xgo=True)
    src = g.program()
    return src, g.feat
