"""Typed generator of deterministic programs in the Go subset XGo claims to accept (C01), and of
XGo programs with sugar (C06, C07).  Every program type-checks by construction: expressions are
generated for a requested type from the variables in scope; every local variable is used (it is
printed at the end of its block); loops are counted with constant bounds and their counters are
not assignable; functions only call lower-numbered functions (no recursion); integer literals are
small; division/modulo only by non-zero constants (except in the dedicated run-time-panic
statement); slices are indexed through helper functions or may panic at run time, which is
deterministic and part of the compared behaviour.

Not generated (stated in the evidence): generics, goroutines/channels/select, println/print
builtins (stdout in XGo, stderr in Go), `$` in string literals, unsafe/cgo, labels on blocks,
goto, struct embedding/interfaces with embedding, non-gofmt spacing (command-call rule), shadowed
package names, integer constants >= 2^31, floats (formatting is fine but constant folding to
untyped big rationals differs by design in XGo).
"""

INT, STR, BOOL, INTS, STRS, MAP, FN = "int", "string", "bool", "[]int", "[]string", "map[string]int", "func(int) int"
SCALARS = [INT, STR, BOOL]
WORDS = ["a", "bb", "xyz", "go", "", "hello", "Q", "x y", "é", "tab\\t", "q\\\"q", "0"]


class Scope:
    def __init__(self, parent=None):
        self.parent = parent
        self.vars = []          # (name, type, assignable)
        self.own = []

    def add(self, name, typ, assignable=True):
        self.vars.append((name, typ, assignable))
        self.own.append((name, typ))

    def all(self):
        s, out = self, []
        while s:
            out = s.vars + out
            s = s.parent
        return out

    def of(self, typ, assignable=False):
        return [n for (n, t, a) in self.all() if t == typ and (a or not assignable)]


class Gen:
    def __init__(self, rng, xgo=False):
        self.r = rng
        self.xgo = xgo              # emit XGo sugar
        self.n = 0
        self.funcs = []             # (name, [param types], ret type)
        self.structs = []           # (name, [(field, type)], [(method, ptr?, [params], ret)])
        self.imports = set(["fmt"])
        self.feat = {}
        self.loop_depth = 0
        self.labels = []
        self.in_func_ret = None
        self.errfuncs = []          # XGo: funcs returning (int, error)
        self.root = Scope()         # package-level variables (declared before every function)

    # ------------------------------------------------------------ utilities
    def f(self, k):
        self.feat[k] = self.feat.get(k, 0) + 1

    def fresh(self, p="v"):
        self.n += 1
        return "%s%d" % (p, self.n)

    def pick(self, xs):
        return xs[self.r.below(len(xs))]

    def chance(self, num, den):
        return self.r.below(den) < num

    def lit_int(self):
        return str(self.pick([0, 1, 2, 3, 5, 7, 10, 13, 42, 100, 255, 999]))

    def lit_str(self):
        return '"%s"' % self.pick(WORDS)

    # ------------------------------------------------------------ expressions
    def expr(self, typ, sc, d=0):
        r = self.r
        leaf = d >= 3 or r.below(4) == 0
        vs = sc.of(typ)
        if leaf and vs and r.below(3):
            return self.pick(vs)
        if typ == INT:
            if leaf:
                return self.pick(vs) if vs and r.below(2) else self.lit_int()
            k = r.below(14)
            if k < 2:
                op = self.pick(["+", "-"])
                return "(%s %s %s)" % (self.expr(INT, sc, d + 1), op, self.expr(INT, sc, d + 1))
            if k == 2:      # the right operand is a variable or a small literal: constant subtrees stay small
                rhs = self.pick(vs) if vs and r.below(2) else self.pick(["2", "3", "-1"])
                return "(%s * %s)" % (self.expr(INT, sc, d + 1), rhs)
            if k == 3:
                return "(%s %s %s)" % (self.expr(INT, sc, d + 1), self.pick(["/", "%"]), self.pick(["2", "3", "7", "10"]))
            if k == 4:
                t = self.pick([STR, INTS, STRS, MAP])
                return "len(%s)" % self.expr(t, sc, d + 1)
            if k == 5 and self.funcs:
                fs = [f for f in self.funcs if f[2] == INT]
                if fs:
                    return self.call(self.pick(fs), sc, d)
            if k == 6:
                self.f("index-helper")
                return "at(%s, %s)" % (self.expr(INTS, sc, d + 1), self.expr(INT, sc, d + 1))
            if k == 7:
                m = sc.of(MAP)
                if m:
                    self.f("map-index")
                    return "%s[%s]" % (self.pick(m), self.expr(STR, sc, d + 1))
            if k == 8:
                sv = self.struct_vars(sc)
                if sv:
                    return self.field_or_method(self.pick(sv), INT, sc, d)
            if k == 9:
                fv = sc.of(FN)
                if fv:
                    self.f("closure-call")
                    return "%s(%s)" % (self.pick(fv), self.expr(INT, sc, d + 1))
            if k == 10:
                return "(%s %s %s)" % (self.expr(INT, sc, d + 1), self.pick(["&", "|", "^", "<<", ">>"]), self.pick(["1", "2", "3"]))
            if k == 11:
                return "-(%s)" % self.expr(INT, sc, d + 1)
            return self.pick(vs) if vs else self.lit_int()
        if typ == BOOL:
            if leaf:
                return self.pick(vs) if vs and r.below(2) else self.pick(["true", "false"])
            k = r.below(7)
            if k < 2:
                return "(%s %s %s)" % (self.expr(INT, sc, d + 1), self.pick(["<", "<=", "==", "!=", ">", ">="]), self.expr(INT, sc, d + 1))
            if k == 2:
                return "(%s %s %s)" % (self.expr(STR, sc, d + 1), self.pick(["==", "!=", "<"]), self.expr(STR, sc, d + 1))
            if k == 3:
                return "!%s" % self.expr(BOOL, sc, d + 1)
            if k == 4:
                return "(%s %s %s)" % (self.expr(BOOL, sc, d + 1), self.pick(["&&", "||"]), self.expr(BOOL, sc, d + 1))
            if k == 5:
                self.imports.add("strings")
                return "strings.Contains(%s, %s)" % (self.expr(STR, sc, d + 1), self.expr(STR, sc, d + 1))
            return self.pick(vs) if vs else "true"
        if typ == STR:
            if leaf:
                return self.pick(vs) if vs and r.below(2) else self.lit_str()
            k = r.below(8)
            if k < 2:
                return "(%s + %s)" % (self.expr(STR, sc, d + 1), self.expr(STR, sc, d + 1))
            if k == 2:
                return "fmt.Sprint(%s)" % self.expr(self.pick([INT, BOOL, INTS]), sc, d + 1)
            if k == 3:
                self.imports.add("strings")
                return "strings.%s(%s)" % (self.pick(["ToUpper", "ToLower", "TrimSpace"]), self.expr(STR, sc, d + 1))
            if k == 4:
                self.imports.add("strings")
                return "strings.Repeat(%s, %s)" % (self.expr(STR, sc, d + 1), self.pick(["0", "1", "2", "3"]))
            if k == 5:
                fs = [f for f in self.funcs if f[2] == STR]
                if fs:
                    return self.call(self.pick(fs), sc, d)
            if k == 6:
                sv = self.struct_vars(sc)
                if sv:
                    return self.field_or_method(self.pick(sv), STR, sc, d)
            if k == 7 and self.xgo:
                iv = sc.of(INT) + sc.of(STR)
                if iv:
                    self.f("xgo-interp")
                    return '"<${%s}>"' % self.pick(iv)
            return self.pick(vs) if vs else self.lit_str()
        if typ == INTS:
            k = r.below(7)
            if leaf or k == 0:
                if vs and r.below(2):
                    return self.pick(vs)
                els = ", ".join(self.expr(INT, sc, 3) for _ in range(r.below(5)))
                if self.xgo and els:
                    self.f("xgo-slicelit")
                    return "[%s]" % els
                return "[]int{%s}" % els
            if k == 1:
                return "append(%s, %s)" % (self.expr(INTS, sc, d + 1), self.expr(INT, sc, d + 1))
            if k == 2:
                self.f("slice-helper")
                return "cut(%s, %s, %s)" % (self.expr(INTS, sc, d + 1), self.expr(INT, sc, d + 1), self.expr(INT, sc, d + 1))
            if k == 3:
                fs = [f for f in self.funcs if f[2] == INTS]
                if fs:
                    return self.call(self.pick(fs), sc, d)
            if k == 4 and self.xgo:
                src = self.expr(INTS, sc, d + 1)
                x = self.fresh("x")
                sub = Scope(sc)
                sub.add(x, INT, False)
                self.f("xgo-listcomp")
                cond = ""
                if r.below(2):
                    cond = ", %s" % self.expr(BOOL, sub, d + 2)
                # the element expression uses the variable: an unused comprehension variable is rejected by
                # Go ("declared and not used", known C06 finding)
                return "[(%s + %s) for %s <- %s%s]" % (x, self.expr(INT, sub, d + 2), x, src, cond)
            return self.pick(vs) if vs else "[]int{1, 2, 3}"
        if typ == STRS:
            if vs and r.below(2):
                return self.pick(vs)
            if not leaf and r.below(3) == 0:
                self.imports.add("strings")
                return "strings.Fields(%s)" % self.expr(STR, sc, d + 1)
            els = ", ".join(self.expr(STR, sc, 3) for _ in range(r.below(4)))
            if self.xgo and els:
                return "[%s]" % els
            return "[]string{%s}" % els
        if typ == MAP:
            if vs and r.below(3):
                return self.pick(vs)
            keys = []
            for _ in range(r.below(4)):
                k = self.pick(["a", "b", "c", "dd", "e"])
                if k not in keys:
                    keys.append(k)
            els = ", ".join('"%s": %s' % (k, self.expr(INT, sc, 3)) for k in keys)
            if self.xgo and els:
                self.f("xgo-maplit")
                return "{%s}" % els
            return "map[string]int{%s}" % els
        if typ == FN:
            if vs and r.below(2):
                return self.pick(vs)
            x = self.fresh("p")
            sub = Scope(sc)
            sub.add(x, INT, False)
            self.f("closure")
            return "func(%s int) int { return %s }" % (x, self.expr(INT, sub, d + 2))
        for (sn, fields, _) in self.structs:
            if typ == sn:
                if vs and r.below(2):
                    return self.pick(vs)
                return "%s{%s}" % (sn, ", ".join("%s: %s" % (fn, self.expr(ft, sc, d + 2)) for fn, ft in fields))
        raise ValueError(typ)

    def struct_vars(self, sc):
        names = [s[0] for s in self.structs]
        return [(n, t.lstrip("*")) for (n, t, a) in sc.all() if t.lstrip("*") in names]

    def field_or_method(self, sv, want, sc, d):
        n, t = sv
        st = [s for s in self.structs if s[0] == t][0]
        fl = [fn for fn, ft in st[1] if ft == want]
        ms = [m for m in st[2] if m[3] == want]
        if ms and (not fl or self.r.below(2)):
            m = self.pick(ms)
            self.f("method-call")
            return "%s.%s(%s)" % (n, m[0], ", ".join(self.expr(p, sc, d + 2) for p in m[2]))
        if fl:
            return "%s.%s" % (n, self.pick(fl))
        return self.lit_int() if want == INT else self.lit_str()

    def call(self, f, sc, d):
        if self.loop_depth > 0 and self.r.below(3):
            # calls inside loops multiply along the call chain fn3 -> fn2 -> ...: keep most of them out of loops
            return {INT: self.lit_int(), STR: self.lit_str(), INTS: "[]int{4, 5}"}[f[2]]
        self.f("call")
        return "%s(%s)" % (f[0], ", ".join(self.expr(p, sc, d + 2) for p in f[1]))

    # ------------------------------------------------------------ statements
    def println(self, args):
        if self.xgo and self.chance(2, 3):
            if (args[0][0].isalnum() or args[0][0] == '"') and self.chance(1, 2):
                self.f("xgo-println-cmd")
                return "%s %s" % (self.pick(["println", "echo"]), ", ".join(args))
            self.f("xgo-println")
            return "println(%s)" % ", ".join(args)
        return "fmt.Println(%s)" % ", ".join(args)

    def block(self, sc, depth, n, ind):
        """-> list of lines; declares variables in a fresh scope and prints them at the end"""
        sub = Scope(sc)
        out = []
        for _ in range(n):
            out += self.stmt(sub, depth, ind)
        for (name, typ) in sub.own:
            if typ == FN:
                out.append(ind + self.println(["%s(3)" % name]))
            else:
                out.append(ind + self.println([name]))
        return out

    def stmt_decl(self, sc, ind, t):
        v = self.fresh()
        e = self.expr(t, sc, 1)
        sc.add(v, t)
        return [ind + "%s := %s" % (v, e)]

    def all_types(self):
        return [INT, INT, STR, BOOL, INTS, STRS, MAP, FN] + [s[0] for s in self.structs]

    def stmt(self, sc, depth, ind):
        r = self.r
        k = r.below(28 if depth < 3 else 8)
        i2 = ind + "\t"
        if k >= 20:
            return getattr(self, "t_" + self.pick(self.TEMPLATES))(sc, depth, ind)
        if k < 4:                                           # declaration
            t = self.pick(self.all_types())
            v = self.fresh()
            e = self.expr(t, sc)
            if r.below(4) == 0 and t in (INT, STR, BOOL, INTS, MAP):
                line = "var %s %s = %s" % (v, t, e)
            else:
                if e in ("true", "false") or t != INT or not e.lstrip("-").isdigit():
                    pass
                line = "%s := %s" % (v, e)
                if t == INTS and e == "[]int{}" or t == STRS and e == "[]string{}":
                    pass
            # an untyped constant initialiser would make v an int anyway; typed literals keep their type
            sc.add(v, t)
            self.f("decl")
            return [ind + line]
        if k < 7:                                           # assignment
            cands = [(n, t) for (n, t, a) in sc.all() if a]
            if cands:
                n, t = self.pick(cands)
                if t == INT and r.below(3) == 0:
                    self.f("op-assign")
                    return [ind + "%s %s= %s" % (n, self.pick(["+", "-", "*"]), self.expr(INT, sc, 1))]
                if t == INT and r.below(4) == 0:
                    self.f("incdec")
                    return [ind + n + self.pick(["++", "--"])]
                if t == STR:
                    # clip keeps strings short: repeated self-concatenation in nested loops grows exponentially
                    return [ind + "%s = clip(%s + %s)" % (n, n, self.expr(STR, sc, 1))]
                if t == MAP and r.below(2):
                    self.f("map-store")
                    return [ind + "%s[%s] = %s" % (n, self.expr(STR, sc, 2), self.expr(INT, sc, 1))]
                if t in [s[0] for s in self.structs] and r.below(2):
                    st = [s for s in self.structs if s[0] == t][0]
                    fn, ft = self.pick(st[1])
                    self.f("field-store")
                    e = self.expr(ft, sc, 1)
                    if ft == STR:
                        e = "clip(%s)" % e
                    return [ind + "%s.%s = %s" % (n, fn, e)]
                self.f("assign")
                return [ind + "%s = %s" % (n, self.expr(t, sc, 1))]
            return [ind + self.println([self.expr(INT, sc)])]
        if k < 9:                                           # print
            t = self.pick([INT, STR, BOOL, INTS, STRS])
            return [ind + self.println([self.expr(t, sc) for _ in range(1 + r.below(2))])]
        if k == 9:                                          # sorted map print
            m = sc.of(MAP)
            if m:
                self.imports.add("sort")
                self.f("sorted-map")
                return [ind + "fmt.Println(keys(%s))" % self.pick(m)]
            return [ind + self.println([self.expr(STR, sc)])]
        if k == 10 or k == 11:                              # if
            self.f("if")
            out = [ind + "if %s {" % self.expr(BOOL, sc)]
            out += self.block(sc, depth + 1, 1 + r.below(2), i2)
            if r.below(2):
                if r.below(3) == 0:
                    out.append(ind + "} else if %s {" % self.expr(BOOL, sc))
                    out += self.block(sc, depth + 1, 1, i2)
                out.append(ind + "} else {")
                out += self.block(sc, depth + 1, 1 + r.below(2), i2)
            out.append(ind + "}")
            return out
        if k == 12 or k == 13:                              # counted loop, maybe labelled
            i = self.fresh("i")
            sub = Scope(sc)
            sub.add(i, INT, False)
            label = ""
            if r.below(3) == 0:
                label = self.fresh("L")
                self.f("label")
            self.f("for")
            out = []
            rangeexpr = False
            if label:
                out.append(ind + label + ":")
            if self.xgo and r.below(3) == 0 and not label:
                self.f("xgo-rangeexpr")
                rangeexpr = True
                out.append(ind + "for %s <- %s:%s {" % (i, self.pick(["0", "1"]), self.pick(["2", "3", "4"])))
            else:
                out.append(ind + "for %s := 0; %s < %s; %s++ {" % (i, i, self.pick(["2", "3", "4"]), i))
            self.labels.append(label)
            self.loop_depth += 1
            body = self.block(sub, depth + 1, 1 + r.below(3), i2)
            if label or r.below(2):
                # `continue` inside `for i <- a:b` is rejected by the compiler ("please use Post() in for
                # statement"): not generated
                kw = "break" if rangeexpr else self.pick(["break", "continue"])
                tgt = ""
                ls = [l for l in self.labels if l]
                if label:
                    tgt = " " + label
                    self.f("labelled-" + kw)
                elif ls and r.below(2):
                    tgt = " " + self.pick(ls)
                    self.f("labelled-" + kw)
                body.insert(0, i2 + "if %s {\n%s\t%s%s\n%s}" % (self.expr(BOOL, sub), i2, kw, tgt, i2))
            out += body
            self.loop_depth -= 1
            self.labels.pop()
            out.append(ind + "}")
            return out
        if k == 14:                                         # range over slice
            xs = self.expr(INTS, sc, 1)
            iv, vv = self.fresh("i"), self.fresh("e")
            sub = Scope(sc)
            self.f("range")
            self.labels.append("")
            if self.xgo and r.below(2):
                sub.add(vv, INT, False)
                self.f("xgo-forin")
                out = [ind + "for %s <- %s {" % (vv, xs)]
                out += self.block(sub, depth + 1, 1 + r.below(2), i2)
                out.append(i2 + "_ = %s" % vv)
            else:
                sub.add(iv, INT, False)
                sub.add(vv, INT, False)
                out = [ind + "for %s, %s := range %s {" % (iv, vv, xs)]
                out += self.block(sub, depth + 1, 1 + r.below(2), i2)
                out.append(i2 + "_, _ = %s, %s" % (iv, vv))
            self.labels.pop()
            out.append(ind + "}")
            return out
        if k == 15:                                         # switch (tagged)
            return self.gen_switch(sc, depth, ind, tagged=True)
        if k == 16:                                         # defer / recover in a closure
            self.f("defer-recover")
            v = self.fresh()
            saved, self.labels = self.labels, []
            out = [ind + "%sf := func() (res string) {" % v]
            out += [i2 + "defer func() {", i2 + "\tif e := recover(); e != nil {", i2 + "\t\tres = fmt.Sprint(\"recovered: \", e)", i2 + "\t}", i2 + "}()"]
            sub = Scope(sc)
            out += self.block(sub, depth + 2, 1, i2)
            if r.below(2):
                out.append(i2 + "panic(%s)" % self.expr(self.pick([STR, INT]), sc, 2))
            else:
                ix = self.fresh("ix")
                out.append(i2 + "%s := %s" % (ix, self.expr(INT, sc, 2)))
                out.append(i2 + "_ = []int{1}[%s]" % ix)
            out.append(i2 + "return \"done\"")
            out.append(ind + "}")
            out.append(ind + "%s := %sf()" % (v, v))
            self.labels = saved
            sc.add(v, STR)
            return out
        if k == 17:                                         # struct var + method call statement
            if self.structs:
                s = self.pick(self.structs)
                v = self.fresh()
                e = self.expr(s[0], sc, 1)
                sc.add(v, s[0])
                self.f("struct")
                return [ind + "%s := %s" % (v, e)]
            return [ind + self.println([self.expr(BOOL, sc)])]
        if k == 18:                                         # switch (tagless)
            return self.gen_switch(sc, depth, ind, tagged=False)
        if k == 19 and self.xgo and self.errfuncs:          # error wrapping
            f = self.pick(self.errfuncs)
            v = self.fresh()
            e = self.expr(INT, sc, 2)
            sc.add(v, INT)
            self.f("xgo-errwrap")
            return [ind + "%s := %s(%s)?:%s" % (v, f, e, self.lit_int())]
        return [ind + self.println([self.expr(self.pick(SCALARS), sc)])]

    # ------------------------------------------------------------ switch statements
    def gen_switch(self, sc, depth, ind, tagged, ncase=None, dpos="rand", ft=None, init=None):
        """expression switch with 1-4 case clauses over the values 0..3 of `x % 4`, a default clause at
        any position (or none), fallthrough at the end of any clause but the last (case AND default)"""
        r = self.r
        i2 = ind + "\t"
        ncase = ncase or 1 + r.below(3)
        vals = [0, 1, 2, 3]
        groups = []
        for c in range(ncase):
            g = [vals.pop(r.below(len(vals)))]
            if vals and len(vals) > ncase - c - 1 and r.below(4) == 0:
                g.append(vals.pop(r.below(len(vals))))
            groups.append(g)
        clauses = [("case", g) for g in groups]
        if dpos == "rand":
            dpos = r.below(ncase + 2) - 1          # -1 = no default
        if dpos >= 0:
            clauses.insert(min(dpos, len(clauses)), ("default", None))
            self.f("switch-default-%s" % ("first" if dpos == 0 else "last" if dpos >= ncase else "middle"))
        else:
            self.f("switch-no-default")
        tag = self.expr(INT, sc, 1)
        sv = self.fresh("sw")
        use_init = r.below(3) == 0 if init is None else init
        self.f("switch-tagged" if tagged else "switch-tagless")
        if use_init:
            self.f("switch-init")
            sel = "((%s %% 4) + 4) %% 4" % sv
            head = "switch %s := %s; %s {" % (sv, tag, sel) if tagged else "switch %s := %s; {" % (sv, tag)
        else:
            sel = "((%s %% 4) + 4) %% 4" % tag
            head = "switch %s {" % sel if tagged else "switch {"
        out = [ind + head]
        for n, (kind, g) in enumerate(clauses):
            if kind == "default":
                out.append(ind + "default:")
            elif tagged:
                out.append(ind + "case %s:" % ", ".join(str(v) for v in g))
            else:
                out.append(ind + "case %s:" % " || ".join("%s == %d" % (sel, v) for v in g))
            out += self.block(sc, depth + 1, 1, i2)
            last = n == len(clauses) - 1
            fall = (ft[n] if ft is not None else r.below(4) == 0) and not last
            if fall:
                out.append(i2 + "fallthrough")
                self.f("fallthrough-from-" + kind)
        out.append(ind + "}")
        return out

    # ------------------------------------------------------------ one template per remaining statement kind
    TEMPLATES = ["goto", "typeswitch", "select", "defer_order", "closure_capture", "method_value", "multi_assign",
                 "shadow", "loop_switch_labels", "while_loops", "const_iota", "range_forms", "array_value", "if_init", "variadic",
                 "struct_literals"]

    def t_goto(self, sc, depth, ind):
        self.f("stmt:goto")
        g, l = self.fresh("gt"), self.fresh("Lg")
        return [ind + "%s := 0" % g, ind[:-1] + l + ":", ind + "%s++" % g, ind + "if %s < %s {" % (g, self.pick(["2", "3", "4"])),
                ind + "\tgoto %s" % l, ind + "}", ind + "fmt.Println(\"goto\", %s)" % g]

    def t_typeswitch(self, sc, depth, ind):
        self.f("stmt:typeswitch")
        i2 = ind + "\t"
        iv, tv = self.fresh("iv"), self.fresh("tv")
        t = self.pick([INT, STR, BOOL, INTS, MAP])
        out = [ind + "var %s interface{} = %s" % (iv, self.expr(t, sc, 1))]
        bind = self.r.below(3) > 0
        out.append(ind + ("switch %s := %s.(type) {" % (tv, iv) if bind else "switch %s.(type) {" % iv))
        clauses = [("case int:", "fmt.Println(\"int\", %s+1)" % tv if bind else "fmt.Println(\"int\")"),
                   ("case string, bool:", "fmt.Println(\"string-or-bool\", %s)" % tv if bind else "fmt.Println(\"string-or-bool\")"),
                   ("case []int:", "fmt.Println(\"ints\", len(%s))" % tv if bind else "fmt.Println(\"ints\")"),
                   ("case nil:", "fmt.Println(\"nil\")")]
        keep = [c for c in clauses if self.r.below(4) > 0]
        d = ("default:", "fmt.Println(\"other\", %s)" % tv if bind else "fmt.Println(\"other\")")
        keep.insert(self.r.below(len(keep) + 1), d)
        for h, b in keep:
            out += [ind + h, i2 + b]
        out.append(ind + "}")
        return out

    def t_select(self, sc, depth, ind):
        self.f("stmt:select")
        i2 = ind + "\t"
        c, v = self.fresh("ch"), self.fresh("rv")
        out = [ind + "%s := make(chan int, 1)" % c]
        if self.r.below(2):
            out.append(ind + "%s <- %s" % (c, self.expr(INT, sc, 2)))
        out += [ind + "select {", ind + "case %s := <-%s:" % (v, c), i2 + "fmt.Println(\"received\", %s)" % v,
                ind + "default:", i2 + "fmt.Println(\"empty\", len(%s), cap(%s))" % (c, c), ind + "}"]
        if self.r.below(2):
            out += [ind + "select {", ind + "case %s <- %s:" % (c, self.expr(INT, sc, 2)), i2 + "fmt.Println(\"sent\", len(%s))" % c,
                    ind + "default:", i2 + "fmt.Println(\"full\")", ind + "}"]
        return out

    def t_defer_order(self, sc, depth, ind):
        self.f("stmt:defer-order")
        i2 = ind + "\t"
        d = self.fresh("d")
        return [ind + "func() {", i2 + "for %s := 0; %s < 3; %s++ {" % (d, d, d),
                i2 + "\tdefer fmt.Println(\"deferred\", %s, %s)" % (d, self.expr(INT, sc, 2)), i2 + "}",
                i2 + "defer func() {", i2 + "\tfmt.Println(\"deferred closure\")", i2 + "}()",
                i2 + "fmt.Println(\"body done\")", ind + "}()"]

    def t_closure_capture(self, sc, depth, ind):
        self.f("stmt:closure-capture")
        i2 = ind + "\t"
        fs, i, f, acc = self.fresh("fs"), self.fresh("i"), self.fresh("f"), self.fresh("acc")
        return [ind + "var %s []func() int" % fs, ind + "%s := 0" % acc, ind + "for %s := 0; %s < 3; %s++ {" % (i, i, i),
                i2 + "%s = append(%s, func() int {" % (fs, fs), i2 + "\t%s += %s" % (acc, i),
                i2 + "\treturn %s*10 + %s" % (i, acc), i2 + "})", ind + "}",
                ind + "for _, %s := range %s {" % (f, fs), i2 + "fmt.Println(%s())" % f, ind + "}", ind + "fmt.Println(%s)" % acc]

    def t_method_value(self, sc, depth, ind):
        sv = [(n, t) for (n, t) in self.struct_vars(sc) if not any(a[0] == n and a[1].startswith("*") for a in sc.all())]
        cands = []
        for n, t in sv:
            st = [x for x in self.structs if x[0] == t][0]
            for m in st[2]:
                cands.append((n, t, m))
        if not cands:
            return self.t_multi_assign(sc, depth, ind)
        self.f("stmt:method-value")
        n, t, (mname, ptr, params, ret) = self.pick(cands)
        mv, me = self.fresh("mv"), self.fresh("me")
        args = ", ".join(self.expr(p, sc, 2) for p in params)
        out = [ind + "%s := %s.%s" % (mv, n, mname), ind + "fmt.Println(%s(%s))" % (mv, args)]
        recv = "(*%s)" % t if ptr else t
        out += [ind + "%s := %s.%s" % (me, recv, mname),
                ind + "fmt.Println(%s(%s%s))" % (me, ("&" + n) if ptr else n, (", " + args) if args else "")]
        return out

    def t_multi_assign(self, sc, depth, ind):
        self.f("stmt:multi-assign")
        a, b, xs = self.fresh("ma"), self.fresh("mb"), self.fresh("ms")
        return [ind + "%s, %s := %s, %s" % (a, b, self.expr(INT, sc, 2), self.expr(INT, sc, 2)),
                ind + "%s, %s = %s, %s+%s" % (a, b, b, a, b),
                ind + "%s := append([]int{7, 8}, %s)" % (xs, a),
                ind + "%s[0], %s[1], %s[2] = %s[2], %s[0], %s[1]" % (xs, xs, xs, xs, xs, xs),
                ind + "fmt.Println(%s, %s, %s)" % (a, b, xs)]

    def t_shadow(self, sc, depth, ind):
        ints = sc.of(INT)
        if not ints:
            return self.t_multi_assign(sc, depth, ind)
        self.f("stmt:shadow")
        n = self.pick(ints)
        i2 = ind + "\t"
        return [ind + "{", i2 + "%s := %s*2 + 1" % (n, n), i2 + "if %s := %s + 1; %s > 0 {" % (n, n, n),
                i2 + "\tfmt.Println(\"inner-most\", %s)" % n, i2 + "}", i2 + "fmt.Println(\"shadow\", %s)" % n, ind + "}",
                ind + "fmt.Println(\"outer\", %s)" % n]

    def t_loop_switch_labels(self, sc, depth, ind):
        self.f("stmt:loop-switch-labels")
        i2 = ind + "\t"
        l, i, j = self.fresh("Lb"), self.fresh("i"), self.fresh("j")
        a, b = self.pick(["0", "1", "2"]), self.pick(["2", "3"])
        return [ind[:-1] + l + ":", ind + "for %s := 0; %s < 4; %s++ {" % (i, i, i),
                i2 + "for %s := 0; %s < 3; %s++ {" % (j, j, j),
                i2 + "\tswitch {", i2 + "\tcase %s == %s:" % (j, a), i2 + "\t\tcontinue %s" % l,
                i2 + "\tcase %s == %s && %s == 1:" % (i, b, j), i2 + "\t\tbreak %s" % l,
                i2 + "\tcase %s == 2:" % j, i2 + "\t\tbreak", i2 + "\t}",
                i2 + "\tfmt.Println(\"at\", %s, %s)" % (i, j), i2 + "}", ind + "}"]

    def t_while_loops(self, sc, depth, ind):
        self.f("stmt:while-and-forever")
        i2 = ind + "\t"
        w = self.fresh("w")
        return [ind + "%s := 0" % w, ind + "for %s < 3 {" % w, i2 + "%s++" % w, ind + "}",
                ind + "for {", i2 + "%s += 2" % w, i2 + "if %s > %s {" % (w, self.pick(["5", "8"])), i2 + "\tbreak", i2 + "}",
                i2 + "if %s%%2 == 0 {" % w, i2 + "\tcontinue", i2 + "}", i2 + "fmt.Println(\"odd\", %s)" % w, ind + "}",
                ind + "fmt.Println(%s)" % w]

    def t_const_iota(self, sc, depth, ind):
        self.f("stmt:const-iota")
        i2 = ind + "\t"
        a, b, c = self.fresh("cA"), self.fresh("cB"), self.fresh("cC")
        blanks = ["_"] * self.r.below(3)
        typed = self.pick(["", " int", " uint8"])
        arr = self.fresh("ca")
        return ([ind + "const (", i2 + "%s%s = iota*2 + 1" % (a, typed)] + [i2 + x for x in blanks] + [i2 + b] +
                [i2 + x for x in ["_"] * self.r.below(2)] + [i2 + c, ind + ")",
                ind + "var (", i2 + "%sv, %sw int = int(%s), int(%s)" % (a, a, b, c), i2 + "%ss = \"s\"" % a, ind + ")",
                ind + "var %s [%s]int" % (arr, c), ind + "%s[%s-1] = int(%s) << %s" % (arr, c, b, self.pick(["1", "2"])),
                ind + "fmt.Println(%s, %s, %s, %sv+%sw, %ss, len(%s), %s[len(%s)-1], [...]int{%s: 1})" % (a, b, c, a, a, a, arr, arr, arr, b)])

    def t_range_forms(self, sc, depth, ind):
        self.f("stmt:range-forms")
        i2 = ind + "\t"
        i, r_, k = self.fresh("i"), self.fresh("r"), self.fresh("k")
        s = self.expr(STR, sc, 2)
        xs = self.expr(INTS, sc, 2)
        return [ind + "for %s, %s := range %s {" % (i, r_, s), i2 + "fmt.Println(%s, %s, string(%s))" % (i, r_, r_), ind + "}",
                ind + "for %s := range %s {" % (k, xs), i2 + "fmt.Println(\"index\", %s)" % k, ind + "}",
                ind + "for range []int{1, 2} {", i2 + "fmt.Println(\"tick\")", ind + "}"]

    def t_array_value(self, sc, depth, ind):
        self.f("stmt:array-and-pointer")
        a, b, p = self.fresh("arr"), self.fresh("cp"), self.fresh("ptr")
        return [ind + "%s := [3]int{1, 2, %s}" % (a, self.expr(INT, sc, 2)), ind + "%s := %s" % (b, a), ind + "%s := &%s" % (p, a),
                ind + "%s[0] = 9" % b, ind + "%s[1] = 7" % p, ind + "(*%s)[2]++" % p,
                ind + "fmt.Println(%s, %s, *%s, len(%s), %s == %s)" % (a, b, p, p, a, b)]

    def t_if_init(self, sc, depth, ind):
        self.f("stmt:if-init-else-chain")
        i2 = ind + "\t"
        v = self.fresh("iv")
        return [ind + "if %s := %s; %s > 10 {" % (v, self.expr(INT, sc, 1), v), i2 + "fmt.Println(\"big\", %s)" % v,
                ind + "} else if %s < 0 {" % v, i2 + "fmt.Println(\"negative\", %s)" % v,
                ind + "} else if %s := %s * 2; %s == 0 {" % (v, v, v), i2 + "fmt.Println(\"zero\", %s)" % v,
                ind + "} else {", i2 + "fmt.Println(\"small\", %s)" % v, ind + "}"]

    def t_struct_literals(self, sc, depth, ind):
        """composite literals of the struct types whose field names differ only in the case of the first letter
        (CPa: exported first, CPb: unexported first, CPw embeds both): keyed, unkeyed, elided, pointer, map"""
        self.f("stmt:struct-literals")
        r = self.r
        t = self.pick(["CPa", "CPb"])
        e = lambda: self.expr(INT, sc, 2)
        keyed = [["value: %s" % e()], ["Value: %s" % e()], ["value: %s" % e(), "Value: %s" % e()], ["Value: %s" % e(), "value: %s" % e()], []]
        lit = lambda: "{%s}" % ", ".join(self.pick(keyed))
        v = self.fresh("sl")
        forms = [
            "%s := %s%s" % (v, t, lit()),
            "%s := %s{%s, %s}" % (v, t, e(), e()),
            "%s := &%s%s" % (v, t, lit()),
            "%s := []%s{%s, %s, {%s, %s}}" % (v, t, lit(), lit(), e(), e()),
            "%s := map[string]%s{\"k\": %s, \"j\": %s}" % (v, t, lit(), lit()),
            "%s := [2]%s{%s}" % (v, t, lit()),
            "%s := map[%s]int{%s: %s}" % (v, t, lit(), e()),
            "%s := CPw{%s: CPa%s, %s: CPb%s, tag: %s}" % (v, "CPa", lit(), "CPb", lit(), self.expr(STR, sc, 2)),
            "%s := CPw{CPa%s, CPb%s, %s, %s}" % (v, lit(), lit(), self.expr(STR, sc, 2), self.expr(STR, sc, 2)),
            "%s := struct{ Key, key int }%s" % (v, self.pick(["{key: %s}" % e(), "{Key: %s}" % e(), "{key: %s, Key: %s}" % (e(), e())])),
            "%s := []struct{ key, Key string }{{key: \"a\"}, {Key: \"b\"}, {\"c\", \"d\"}}" % v,
        ]
        out = []
        for fm in ([self.pick(forms)] if r.below(2) else [self.pick(forms), self.pick(forms).replace(v + " :=", v + "b :=")]):
            name = fm.split(" :=")[0]
            out += [ind + fm, ind + "fmt.Printf(\"%%+v\\n\", %s)" % name]
        return out

    def t_variadic(self, sc, depth, ind):
        self.f("stmt:variadic-and-multi-return")
        xs = self.expr(INTS, sc, 2)
        q, rr = self.fresh("q"), self.fresh("r")
        return [ind + "fmt.Println(sum(), sum(1), sum(1, 2, %s), sum(%s...))" % (self.expr(INT, sc, 2), xs),
                ind + "%s, %s := divmod(%s, %s)" % (q, rr, self.expr(INT, sc, 2), self.pick(["3", "7"])),
                ind + "fmt.Println(%s, %s)" % (q, rr), ind + "_, %s = divmod(%s, 2)" % (rr, q), ind + "fmt.Println(%s)" % rr]

    # ------------------------------------------------------------ declarations
    def gen_struct(self):
        name = "T%d" % len(self.structs)
        fields = []
        for i in range(1 + self.r.below(3)):
            fields.append(("f%d" % i, self.pick([INT, STR, BOOL, INTS])))
        self.structs.append((name, fields, []))
        return name

    def gen_method(self, st):
        name, fields, methods = st
        mname = "m%d" % len(methods)
        ptr = self.r.below(2) == 0
        ret = self.pick([INT, STR])
        params = [INT] if self.r.below(2) else []
        sc = Scope(self.root)
        sc.vars.append(("s", ("*" if ptr else "") + name, False))
        pn = []
        for i, p in enumerate(params):
            sc.add("a%d" % i, p)
            pn.append("a%d %s" % (i, p))
        lines = ["func (s %s%s) %s(%s) %s {" % ("*" if ptr else "", name, mname, ", ".join(pn), ret)]
        if ptr and self.r.below(2):
            ints = [fn for fn, ft in fields if ft == INT]
            if ints:
                lines.append("\ts.%s += 1" % self.pick(ints))
        lines += self.block(sc, 2, self.r.below(2), "\t")
        lines.append("\treturn %s" % self.expr(ret, sc, 1))
        lines.append("}")
        methods.append((mname, ptr, params, ret))
        self.f("method")
        return lines

    def gen_func(self):
        name = "fn%d" % len(self.funcs)
        ret = self.pick([INT, INT, STR, INTS])
        params = [self.pick([INT, STR, INTS, BOOL]) for _ in range(self.r.below(3))]
        sc = Scope(self.root)
        pn = []
        for i, p in enumerate(params):
            sc.add("a%d" % i, p)
            pn.append("a%d %s" % (i, p))
        lines = ["func %s(%s) %s {" % (name, ", ".join(pn), ret)]
        lines += self.block(sc, 1, 1 + self.r.below(3), "\t")
        lines.append("\treturn %s" % self.expr(ret, sc, 1))
        lines.append("}")
        self.funcs.append((name, params, ret))
        self.f("func")
        return lines

    HELPERS = '''func at(xs []int, i int) int {
	if len(xs) == 0 {
		return -1
	}
	return xs[((i%len(xs))+len(xs))%len(xs)]
}

func cut(xs []int, lo, hi int) []int {
	n := len(xs)
	if lo < 0 {
		lo = 0
	}
	if hi > n {
		hi = n
	}
	if lo > hi {
		return nil
	}
	return xs[lo:hi]
}

func clip(s string) string {
	if len(s) > 40 {
		return s[:40]
	}
	return s
}

type CPa struct {
	Value int
	value int
}

type CPb struct {
	value int
	Value int
}

type CPw struct {
	CPa
	CPb
	tag string
	Tag string
}

func sum(xs ...int) (t int) {
	for _, x := range xs {
		t += x
	}
	return
}

func divmod(a, b int) (int, int) {
	return a / b, a % b
}

func tr(name string, v int) int {
	fmt.Println("init", name, v)
	return v
}

func keys(m map[string]int) []string {
	var ks []string
	for k := range m {
		ks = append(ks, k)
	}
	sort.Strings(ks)
	for i, k := range ks {
		ks[i] = k + "=" + fmt.Sprint(m[k])
	}
	return ks
}
'''

    def program(self):
        """-> source text of a complete main package"""
        decls = []
        for _ in range(self.r.below(3)):
            self.gen_struct()
        for st in self.structs:
            decls.append(["type %s struct {" % st[0]] + ["\t%s %s" % f for f in st[1]] + ["}"])
        # package-level variables with effectful initialisers, declared BEFORE every function that can
        # refer to them (a function referring to a later variable changes the initialisation order
        # when compiled by XGo: known finding var-init-order)
        gl = []
        for i in range(self.r.below(4)):
            g = "g%d" % i
            t = self.pick([INT, INT, STR])
            if t == INT:
                gl.append("var %s = tr(\"%s\", %s)" % (g, g, self.expr(INT, self.root, 2)))
            else:
                gl.append("var %s = fmt.Sprint(tr(\"%s\", %s), %s)" % (g, g, self.lit_int(), self.expr(STR, self.root, 2)))
            self.root.add(g, t, t == INT)      # string globals are read-only after their initialisation
            self.f("package-var")
        if gl:
            decls.append(gl)
        if self.xgo and self.r.below(2):
            self.imports.add("errors")
            decls.append(["func ef0(x int) (int, error) {", "\tif x%2 == 0 {", "\t\treturn x + 1, nil", "\t}",
                          "\treturn 0, errors.New(\"odd\")", "}"])
            self.errfuncs.append("ef0")
        for st in self.structs:
            for _ in range(self.r.below(3)):
                decls.append(self.gen_method(st))
        for _ in range(1 + self.r.below(4)):
            decls.append(self.gen_func())
        sc = Scope(self.root)
        main = ["func main() {"]
        main += self.block(sc, 0, 4 + self.r.below(6), "\t")
        ending = self.r.below(12)
        if ending == 0:
            self.f("exit-code")
            self.imports.add("os")
            main.append("\tos.Exit(%s)" % self.pick(["0", "1", "3", "7"]))
        elif ending == 1:
            self.f("uncaught-panic")
            main.append("\tpanic(%s)" % self.pick(['"boom"', "42", 'fmt.Sprint("p", 1)', 'fmt.Errorf("e%d", 5)']))
        elif ending == 2:
            self.f("runtime-panic")
            main.append("\tvar zero int")
            main.append("\tfmt.Println(10 / zero)")
        main.append("}")
        body = "\n\n".join("\n".join(d) for d in decls + [main])
        # imports = what the final text uses (an expression may have been generated and then not used)
        used = ["fmt", "sort"] + [m for m in ("errors", "os", "strings") if (m + ".") in body]
        imps = "import (\n" + "".join('\t"%s"\n' % i for i in sorted(used)) + ")\n"
        return "package main\n\n" + imps + "\n" + self.HELPERS + "\n" + body + "\n"


def switch_matrix_program():
    """every expression switch with 1-3 case clauses, a default clause at every position or none, every
    subset of clauses (but the last) ending in fallthrough, tagged and tagless, run on every selecting value"""
    funcs, calls, specs = [], [], []
    n = 0
    for tagged in (True, False):
        for ncase in (1, 2, 3):
            for dpos in [-1] + list(range(ncase + 1)):
                clauses = [("case", v) for v in range(ncase)]
                if dpos >= 0:
                    clauses.insert(dpos, ("default", None))
                k = len(clauses) - 1
                for mask in range(1 << k):
                    n += 1
                    body = ["func sw%d(x int) string {" % n, "\ts := \"\"", "\tswitch x {" if tagged else "\tswitch {"]
                    for ci, (kind, v) in enumerate(clauses):
                        if kind == "default":
                            body.append("\tdefault:")
                            body.append("\t\ts += \"d \"")
                        else:
                            body.append("\tcase %s:" % (str(v) if tagged else "x == %d" % v))
                            body.append("\t\ts += \"c%d \"" % v)
                        if ci < k and mask >> ci & 1:
                            body.append("\t\tfallthrough")
                    body += ["\t}", "\treturn s", "}"]
                    funcs.append("\n".join(body))
                    specs.append((n, ncase, [(kind, v, bool(ci < k and mask >> ci & 1)) for ci, (kind, v) in enumerate(clauses)]))
                    calls.append("\tfor x := 0; x <= %d; x++ {\n\t\tfmt.Println(%d, x, sw%d(x))\n\t}" % (ncase, n, n))
    return "package main\n\nimport \"fmt\"\n\n" + "\n\n".join(funcs) + "\n\nfunc main() {\n" + "\n".join(calls) + "\n}\n", specs


def const_iota_program():
    """const groups with iota: bare `_` lines, skipped lines, explicit restarts, typed and untyped, several names
    per line, expressions of iota; the constants are used where a compiler folds them: array lengths, shifts,
    case labels, composite-literal indices, conversions; len() and the values are printed"""
    return '''package main

import "fmt"

type Perm uint8

type Level int

const (
	Read Perm = 1 << iota
	Write
	_
	Exec
	_
	_
	Admin
	numPerm = iota
)

const (
	A0 = iota
	_
	A2
	_
	_
	A5
	A6 = iota * 10
	A7
)

const (
	_ = iota
	KB = 1 << (10 * iota)
	MB
	_
	TB
)

const (
	Low Level = iota + 1
	_
	High
	_
	Top
	last = iota
)

const (
	x0, y0 = iota, iota * 2
	_, _
	x2, y2
	_, y3
	x4, _
)

const (
	s0 = "s"
	_
	s2
	i3 = iota
)

const single = iota

func name(p Perm) string {
	switch p {
	case Read:
		return "read"
	case Write:
		return "write"
	case Exec:
		return "exec"
	case Admin:
		return "admin"
	}
	return "?"
}

func main() {
	var perms [numPerm]bool
	var buf [Admin]byte
	var lv [Top]string
	var grid [A2][A5]int
	var big [TB >> 38]int
	var t5 [last]int
	fmt.Println(len(perms), len(buf), len(lv), len(grid), len(grid[0]), len(big), len(t5))
	fmt.Println(Read, Write, Exec, Admin, numPerm, A0, A2, A5, A6, A7, KB, MB, TB>>30, Low, High, Top, last)
	fmt.Println(x0, y0, x2, y2, y3, x4, s0, s2, i3, single)
	names := [...]string{A0: "zero", A2: "two", A5: "five"}
	idx := []int{A5: 1, A2: 2}
	m := map[Perm]string{Read: "r", Exec: "x", Admin: "a"}
	fmt.Println(len(names), names, len(idx), idx, len(m), m[Exec])
	for p := Read; p <= Admin; p <<= 1 {
		fmt.Println(p, name(p), 1<<A2, A5<<1, uint8(Admin)>>A2)
	}
	perms[numPerm-1] = true
	buf[Admin-1] = 7
	lv[Top-1] = "top"
	fmt.Println(perms, buf[Admin-1], lv)
	type local int
	const (
		l0 local = iota * iota
		_
		l2
		_
		l4
	)
	var la [l4]int
	fmt.Println(l0, l2, l4, len(la))
}
'''


def struct_literal_program():
    """every composite-literal form over struct types whose field names differ only in the case of the first
    letter, in both declaration orders, with embedded structs and promoted fields; every field is printed"""
    types = {
        "A": "Value int\n\tvalue int", "B": "value int\n\tValue int",
        "C": "X, x string\n\tY int\n\ty bool", "D": "name string\n\tName string\n\tNAME string",
        "E": "Id int\n\tid int", "F": "id, Id, iD int",
    }
    src = ["package main\n\nimport \"fmt\"\n"]
    for n, f in types.items():
        src.append("type %s struct {\n\t%s\n}\n" % (n, f))
    src.append("type W struct {\n\tE\n\tA\n\ttag string\n\tTag string\n}\n")
    src.append("type V struct {\n\tB\n\tF\n\tItems []A\n\titems []B\n\tByKey map[string]E\n}\n")
    src.append("var pkgA = A{value: 7}\n\nvar pkgBs = []B{{value: 1}, {Value: 2}}\n")
    src.append("func mk(v int) A {\n\treturn A{value: v}\n}\n\nfunc mkp(v int) *B {\n\treturn &B{value: v, Value: -v}\n}\n")
    src.append("func show(xs ...interface{}) {\n\tfor _, x := range xs {\n\t\tfmt.Printf(\"%+v\\n\", x)\n\t}\n}\n")
    body = []
    for t, lo, hi in (("A", "value", "Value"), ("B", "value", "Value"), ("E", "id", "Id")):
        body.append("show(%s{%s: 1}, %s{%s: 2}, %s{%s: 1, %s: 2}, %s{%s: 2, %s: 1}, %s{3, 4}, %s{})" % (t, lo, t, hi, t, lo, hi, t, hi, lo, t, t))
        body.append("show(&%s{%s: 5}, &%s{%s: 6}, []%s{{%s: 1}, {%s: 2}, {1, 2}, {}}, [2]%s{{%s: 1}}, [...]%s{1: {%s: 9}})" % (t, lo, t, hi, t, lo, hi, t, lo, t, hi))
        body.append("show(map[string]%s{\"k\": {%s: 1}, \"j\": {%s: 2}}, map[%s]int{{%s: 1}: 7, {%s: 1}: 8})" % (t, lo, hi, t, lo, hi))
        body.append("ps%s := []*%s{{%s: 1}, {%s: 2}}\n\tshow(*ps%s[0], *ps%s[1], len(ps%s))" % (t, t, lo, hi, t, t, t))
        body.append("mp%s := map[string]*%s{\"p\": {%s: 3}}\n\tshow(*mp%s[\"p\"])" % (t, t, lo, t))
    body.append("show(C{x: \"lo\"}, C{X: \"hi\"}, C{x: \"lo\", X: \"hi\", y: true, Y: 3}, C{\"a\", \"b\", 1, true})")
    body.append("show(D{name: \"a\"}, D{Name: \"b\"}, D{NAME: \"c\"}, D{name: \"a\", Name: \"b\", NAME: \"c\"}, D{NAME: \"c\", name: \"a\"})")
    body.append("show(F{id: 1}, F{Id: 2}, F{iD: 3}, F{iD: 3, Id: 2, id: 1})")
    body.append("show(W{E: E{id: 1}, A: A{value: 2}, tag: \"t\"}, W{E: E{Id: 1, id: 2}, Tag: \"T\"}, W{E{1, 2}, A{3, 4}, \"t\", \"T\"})")
    body.append("w := W{E: E{Id: 1, id: 2}, A: A{Value: 3, value: 4}, tag: \"t\", Tag: \"T\"}\n\tshow(w, w.Id, w.Value, w.E.Id, w.A.Value, w.Tag)")
    body.append("show(V{B: B{value: 1}, F: F{iD: 2}, Items: []A{{value: 3}, {Value: 4}}, items: []B{{value: 5}}, ByKey: map[string]E{\"e\": {id: 6}}})")
    body.append("show(struct{ V, v int }{v: 1}, struct{ v, V int }{v: 1}, []struct{ Key, key string }{{key: \"a\"}, {Key: \"b\"}})")
    body.append("show(pkgA, pkgBs, mk(8), *mkp(9))")
    body.append("a := A{}\n\ta = A{value: 11}\n\tb := &B{}\n\t*b = B{value: 12}\n\tshow(a, *b)")
    body.append("var arr [2]A\n\tarr[1] = A{value: 13}\n\tm := map[string][]A{\"x\": {{value: 14}, {Value: 15}}}\n\tshow(arr, m)")
    body.append("func(p A, q *B) {\n\t\tshow(p, *q)\n\t}(A{value: 16}, &B{value: 17})")
    src.append("func main() {\n\t" + "\n\t".join(body) + "\n}\n")
    return "\n".join(src)


def statement_kinds_program(rng):
    """one program that contains every statement-kind template once (plus both switch kinds with default first,
    in the middle and last): the statement kinds are covered on every run whatever the seed"""
    g = Gen(rng, xgo=False)
    g.gen_struct()
    g.gen_struct()
    decls = [["type %s struct {" % st[0]] + ["\t%s %s" % f for f in st[1]] + ["}"] for st in g.structs]
    for st in g.structs:
        decls.append(g.gen_method(st))
        decls.append(g.gen_method(st))
    decls.append(g.gen_func())
    sc = Scope(g.root)
    main = ["func main() {"]
    main += g.stmt_decl(sc, "\t", INT) + g.stmt_decl(sc, "\t", STR) + g.stmt_decl(sc, "\t", INTS)
    for st in g.structs:
        v = g.fresh()
        main.append("\t%s := %s" % (v, g.expr(st[0], sc, 1)))
        sc.add(v, st[0])
    for name in g.TEMPLATES:
        main += getattr(g, "t_" + name)(sc, 0, "\t")
    for tagged in (True, False):
        for dpos in (0, 1, 3):
            main += g.gen_switch(sc, 0, "\t", tagged, ncase=3, dpos=dpos, ft=[True, False, True, False], init=(dpos == 1))
    for (name, typ) in sc.own:
        main.append("\tfmt.Println(%s)" % name)
    main.append("}")
    body = "\n\n".join("\n".join(d) for d in decls + [main])
    used = ["fmt", "sort"] + [m for m in ("errors", "os", "strings") if (m + ".") in body]
    imps = "import (\n" + "".join('\t"%s"\n' % i for i in sorted(used)) + ")\n"
    return "package main\n\n" + imps + "\n" + g.HELPERS + "\n" + body + "\n", g.feat


def go_program(rng):
    g = Gen(rng, xgo=False)
    src = g.program()
    return src, g.feat


def xgo_program(rng):
    g = Gen(rng, xgo=True)
    src = g.program()
    return src, g.feat
