"""MiniScope programs for C12: generation, rendering to Go/XGo text, serialisation for the model.

A program is a tree of small Python lists (tagged like the constructors of coq/Model/C12.v).
Rendering assigns every identifier occurrence and every positioned node its position
(= byte offset in the rendered text + 1), so the model speaks about the same positions as the
implementation (token.Pos - file base + 1).
"""

UNIVERSE = {"int": 1, "string": 2, "bool": 3, "error": 4, "true": 5, "false": 6, "nil": 7, "len": 8,
            "iota": 10}


class Names:
    def __init__(self):
        self.code = dict(UNIVERSE)
        self.code["_"] = 0
        self.next = 100

    def get(self, s):
        if s not in self.code:
            self.code[s] = self.next
            self.next += 1
        return self.code[s]


class Id:
    __slots__ = ("s", "p")

    def __init__(self, s):
        self.s, self.p = s, None


class Pos:
    __slots__ = ("p",)

    def __init__(self):
        self.p = None


def I(s):
    return Id(s)


# ------------------------------------------------------------------ rendering

class Render:
    def __init__(self, xgo=False):
        self.out = []
        self.n = 0
        self.ind = 0
        self.xgo = xgo

    def w(self, s):
        self.out.append(s)
        self.n += len(s.encode())

    def nl(self):
        self.w("\n" + "\t" * self.ind)

    def id(self, i):
        i.p = self.n + 1
        self.w(i.s)

    def mark(self, p):
        p.p = self.n + 1

    def ids(self, l, sep=", "):
        for k, i in enumerate(l):
            if k:
                self.w(sep)
            self.id(i)

    def exprs(self, l, sep=", "):
        for k, e in enumerate(l):
            if k:
                self.w(sep)
            self.expr(e)

    def expr(self, e):
        t = e[0]
        if t == "L":
            self.mark(e[1])
            self.w(str(e[2]))
        elif t == "U":
            self.id(e[1])
        elif t == "B":
            self.mark(e[1])
            self.w("(")
            self.expr(e[2])
            self.w(" + ")
            self.expr(e[3])
            self.w(")")
        elif t == "C":
            self.mark(e[1])
            self.expr(e[2])
            self.w("(")
            self.exprs(e[3])
            self.w(")")
        elif t == "Q":
            self.mark(e[1])
            self.id(e[2])
            self.w(".")
            self.id(e[3])
        elif t == "F":
            _, p, params, ptyp, rtyp, bp, body = e
            self.mark(p)
            self.w("func(")
            self.ids(params)
            if ptyp:
                self.w(" ")
                self.ids(ptyp)
            self.w(")")
            if rtyp:
                self.w(" ")
                self.ids(rtyp)
            self.w(" ")
            self.block(bp, body)
        elif t == "K":
            self.mark(e[1])
            self.w("[]")
            self.ids(e[2])
            self.w("{")
            self.exprs(e[3])
            self.w("}")
        elif t == "X":
            self.mark(e[1])
            self.w("[")
            self.exprs(e[2])
            self.w("]")
        elif t == "M":
            self.mark(e[1])
            self.w("{")
            for k, x in enumerate(e[2]):
                if k:
                    self.w(", ")
                self.w('"k%d": ' % k)
                self.expr(x)
            self.w("}")
        else:
            raise ValueError(t)

    def block(self, bp, body):
        self.mark(bp)
        self.w("{")
        self.ind += 1
        for s in body:
            self.nl()
            self.stmt(s)
        self.ind -= 1
        self.nl()
        self.w("}")

    def simple(self, l):
        if l:
            self.stmt(l[0])

    def stmt(self, s):
        t = s[0]
        if t == "V":
            self.w("var ")
            self.ids(s[1])
            if s[2]:
                self.w(" ")
                self.ids(s[2])
            if s[3]:
                self.w(" = ")
                self.exprs(s[3])
        elif t == "N":
            self.w("const ")
            self.ids(s[1])
            self.w(" = ")
            self.exprs(s[2])
        elif t == "T":
            self.w("type ")
            self.id(s[1])
            self.w(" ")
            self.id(s[2])
        elif t == "D":
            self.ids(s[1])
            self.w(" := ")
            self.exprs(s[2])
        elif t == "A":
            self.exprs(s[1])
            self.w(" = ")
            self.exprs(s[2])
        elif t == "E":
            self.expr(s[1])
        elif t == "R":
            self.w("return")
            if s[1]:
                self.w(" ")
                self.exprs(s[1])
        elif t == "Bk":
            self.block(s[1], s[2])
        elif t == "I":
            _, p, init, cond, bp, thn, els = s[:7]
            self.mark(p)
            self.w("if ")
            if init:
                self.simple(init)
                self.w("; ")
            self.expr(cond)
            self.w(" > 0 ")
            self.block(bp, thn)
            if len(s) > 7 and s[7]:
                self.w(" else ")
                self.block(Pos(), els)
        elif t == "Fo":
            _, p, init, cond, post, bp, body = s
            self.mark(p)
            self.w("for ")
            self.simple(init)
            self.w("; ")
            if cond:
                self.expr(cond[0])
                self.w(" < 2")
            self.w("; ")
            self.simple(post)
            self.w(" ")
            self.block(bp, body)
        elif t == "Rg":
            _, p, names, x, bp, body = s[:6]
            forin = len(s) > 6 and s[6]
            self.mark(p)
            self.w("for ")
            self.ids(names)
            self.w(" <- " if forin else " := range ")
            self.expr(x)
            self.w(" ")
            self.block(bp, body)
        else:
            raise ValueError(t)

    def decl(self, d):
        t = d[0]
        if t == "im":
            self.w("import ")
            if d[1]:
                self.ids(d[1])
                self.w(" ")
            self.mark(d[2])
            self.w('"%s"' % d[3])
        elif t == "va":
            self.stmt(["V", d[1], d[2], d[3]])
        elif t == "co":
            self.stmt(["N", d[1], d[2]])
        elif t == "ty":
            self.stmt(["T", d[1], d[2]])
        elif t == "st":
            _, n, embeds, fields, ftyp = d
            self.w("type ")
            self.id(n)
            self.w(" struct {")
            for star, q, ty in embeds:
                self.w("\n\t" + ("*" if star else ""))
                if q is not None:
                    self.id(q)
                    self.w(".")
                self.id(ty)
            if fields:
                self.w("\n\t")
                self.ids(fields)
                self.w(" ")
                self.ids(ftyp)
            self.w("\n}")
        elif t == "fn":
            _, fp, n, params, ptyp, results, rtyp, bp, body = d[:9]
            variadic = len(d) > 9 and d[9]
            self.w("func ")
            self.id(n)
            self.mark(fp)   # the FuncType node starts at the parameter list when there is no `func` keyword of its own
            self.w("(")
            self.ids(params)
            if ptyp:
                self.w(" ..." if variadic else " ")
                self.ids(ptyp)
            self.w(")")
            if results:
                self.w(" (")
                self.ids(results)
                self.w(" ")
                self.ids(rtyp)
                self.w(")")
            elif rtyp:
                self.w(" ")
                self.ids(rtyp)
            self.w(" ")
            self.block(bp, body)
        else:
            raise ValueError(t)

    def prog(self, decls):
        self.w("package main\n")
        for d in decls:
            self.w("\n")
            self.decl(d)
            self.w("\n")
        return "".join(self.out)


# ------------------------------------------------------------------ serialisation (after rendering)

class Ser:
    def __init__(self, names):
        self.names = names
        self.t = []

    def a(self, *xs):
        for x in xs:
            self.t.append(str(x))

    def id(self, i):
        self.a(self.names.get(i.s), i.p)

    def ids(self, l):
        self.a(len(l))
        for i in l:
            self.id(i)

    def exprs(self, l):
        self.a(len(l))
        for e in l:
            self.expr(e)

    def stmts(self, l):
        self.a(len(l))
        for s in l:
            self.stmt(s)

    def expr(self, e):
        t = e[0]
        if t == "L":
            self.a("L", e[1].p)
        elif t == "U":
            self.a("U")
            self.id(e[1])
        elif t == "B":
            self.a("B", e[1].p)
            self.expr(e[2])
            self.expr(e[3])
        elif t == "C":
            self.a("C", e[1].p)
            self.expr(e[2])
            self.exprs(e[3])
        elif t == "Q":
            self.a("Q", e[1].p)
            self.id(e[2])
            self.id(e[3])
        elif t == "F":
            _, p, params, ptyp, rtyp, bp, body = e
            self.a("F", p.p)
            self.ids(params)
            self.ids(ptyp)
            self.ids(rtyp)
            self.a(bp.p)
            self.stmts(body)
        elif t == "K":
            self.a("K", e[1].p)
            self.ids(e[2])
            self.exprs(e[3])
        elif t in ("X", "M"):
            self.a(t, e[1].p)
            self.exprs(e[2])

    def stmt(self, s):
        t = s[0]
        if t == "V":
            self.a("V")
            self.ids(s[1])
            self.ids(s[2])
            self.exprs(s[3])
        elif t == "N":
            self.a("N")
            self.ids(s[1])
            self.exprs(s[2])
        elif t == "T":
            self.a("T")
            self.id(s[1])
            self.id(s[2])
        elif t == "D":
            self.a("D")
            self.ids(s[1])
            self.exprs(s[2])
        elif t == "A":
            self.a("A")
            self.exprs(s[1])
            self.exprs(s[2])
        elif t == "E":
            self.a("E")
            self.expr(s[1])
        elif t == "R":
            self.a("R")
            self.exprs(s[1])
        elif t == "Bk":
            self.a("Bk", s[1].p)
            self.stmts(s[2])
        elif t == "I":
            _, p, init, cond, bp, thn, els = s[:7]
            self.a("I", p.p)
            self.stmts(init)
            self.expr(cond)
            self.a(bp.p)
            self.stmts(thn)
            self.stmts(els if (len(s) > 7 and s[7]) else [])
        elif t == "Fo":
            _, p, init, cond, post, bp, body = s
            self.a("Fo", p.p)
            self.stmts(init)
            self.exprs(cond)
            self.stmts(post)
            self.a(bp.p)
            self.stmts(body)
        elif t == "Rg":
            _, p, names, x, bp, body = s[:6]
            self.a("Rg", p.p)
            self.ids(names)
            self.expr(x)
            self.a(bp.p)
            self.stmts(body)

    def decl(self, d):
        t = d[0]
        if t == "im":
            self.a("im")
            self.ids(d[1])
            self.a(d[2].p, self.names.get(d[3].split("/")[-1]))
        elif t == "va":
            self.a("va")
            self.ids(d[1])
            self.ids(d[2])
            self.exprs(d[3])
        elif t == "co":
            self.a("co")
            self.ids(d[1])
            self.exprs(d[2])
        elif t == "ty":
            self.a("ty")
            self.id(d[1])
            self.id(d[2])
        elif t == "st":
            _, n, embeds, fields, ftyp = d
            self.a("st")
            self.id(n)
            self.a(len(embeds))
            for star, q, ty in embeds:
                self.ids([q] if q is not None else [])
                self.id(ty)
            self.ids(fields)
            self.ids(ftyp)
        elif t == "fn":
            _, fp, n, params, ptyp, results, rtyp, bp, body = d[:9]
            self.a("fn", fp.p)
            self.id(n)
            self.ids(params)
            self.ids(ptyp)
            self.ids(results)
            self.ids(rtyp)
            self.a(bp.p)
            self.stmts(body)

    def prog(self, decls):
        self.a(len(decls))
        for d in decls:
            self.decl(d)
        return " ".join(self.t)


def render(decls, xgo=False):
    """-> (source text, model line)"""
    r = Render(xgo)
    src = r.prog(decls)
    return src, Ser(Names()).prog(decls)


# ------------------------------------------------------------------ small constructors

def lit(v=1):
    return ["L", Pos(), v]


def use(s):
    return ["U", I(s)]


def add(a, b):
    return ["B", Pos(), a, b]


def call(f, args):
    return ["C", Pos(), f, args]


def sel(pkg, name):
    return ["Q", Pos(), I(pkg), I(name)]


def funclit(params, body, ret=True):
    return ["F", Pos(), [I(p) for p in params], [I("int")] if params else [], [I("int")] if ret else [], Pos(), body]


def slice_(elts):
    return ["K", Pos(), [I("int")], elts]


def var(names, vals, typ=None):
    return ["V", [I(n) for n in names], [I(typ)] if typ else [], vals]


def const(names, vals):
    return ["N", [I(n) for n in names], vals]


def typ(n, under="int"):
    return ["T", I(n), I(under)]


def define(names, vals):
    return ["D", [I(n) for n in names], vals]


def assign(lhs, rhs):
    return ["A", lhs, rhs]


def est(e):
    return ["E", e]


def ret(vals):
    return ["R", vals]


def block(body):
    return ["Bk", Pos(), body]


def if_(init, cond, thn, els=None):
    return ["I", Pos(), init, cond, Pos(), thn, els or [], els is not None]


def for_(init, cond, post, body):
    return ["Fo", Pos(), init, cond, post, Pos(), body]


def range_(names, x, body, forin=False):
    return ["Rg", Pos(), [I(n) for n in names], x, Pos(), body, forin]


def imp(path, name=None):
    return ["im", [I(name)] if name else [], Pos(), path]


def gvar(names, vals, typ=None):
    return ["va", [I(n) for n in names], [I(typ)] if typ else [], vals]


def gconst(names, vals):
    return ["co", [I(n) for n in names], vals]


def gtype(n, under="int"):
    return ["ty", I(n), I(under)]


def gstruct(n, embeds, fields=()):
    """embeds: [(star, qualifier or None, type name)]; fields: names of one grouped int field declaration"""
    return ["st", I(n), [(st, I(q) if q else None, I(t)) for st, q, t in embeds], [I(f) for f in fields], [I("int")] if fields else []]


def func(n, params, body, results=None, ret=True, variadic=False):
    return ["fn", Pos(), I(n), [I(p) for p in params], [I("int")] if params else [],
            [I(r) for r in (results or [])], [I("int")] if (ret or results) else [], Pos(), body, variadic]


def use_fn():
    """func use(args ...int) int { return len(args) }"""
    return func("use", ["args"], [ret([call(use("len"), [use("args")])])], variadic=True)


def usecall(names):
    return est(call(use("use"), [use(n) for n in names]))


# ------------------------------------------------------------------ deterministic programs (the known-finding dimensions)

def deterministic():
    """[(name, kind, decls)]: one small program per declaration form whose recorded position is
    wrong on the unchanged tree, plus controls.  kind: ms (Go-compatible) / msx (XGo only)."""
    P = []
    P.append(("det-control", "ms", [use_fn(), gvar(["g"], [lit(1)]), func("main", [], [
        define(["x"], [use("g")]), block([define(["x"], [add(use("x"), lit(1))]), usecall(["x"])]), usecall(["x"])], ret=False)]))
    P.append(("det-multivar-global", "ms", [use_fn(), gvar(["g", "h"], [lit(1), lit(2)]),
                                            func("main", [], [usecall(["g", "h"])], ret=False)]))
    P.append(("det-multivar-local", "ms", [use_fn(), func("main", [], [
        var(["a", "b", "c"], [lit(1), lit(2), lit(3)]), usecall(["a", "b", "c"])], ret=False)]))
    P.append(("det-multivar-typed", "ms", [use_fn(), func("main", [], [
        var(["a", "b"], [], typ="int"), usecall(["a", "b"])], ret=False)]))
    P.append(("det-multiconst", "ms", [use_fn(), gconst(["c1", "c2"], [lit(1), lit(2)]), func("main", [], [
        const(["m", "n"], [lit(5), lit(6)]), usecall(["c1", "c2", "m", "n"])], ret=False)]))
    P.append(("det-multidefine", "ms", [use_fn(), func("main", [], [
        define(["z", "w"], [lit(3), lit(4)]), usecall(["z", "w"])], ret=False)]))
    P.append(("det-define-in-if-init", "ms", [use_fn(), func("two", [], [ret([lit(1), lit(2)])], results=None, ret=True),
                                              ]))
    P.pop()  # (two results need a tuple type; covered by the handwritten Go text below)
    P.append(("det-redefine", "ms", [use_fn(), func("main", [], [
        define(["a"], [lit(1)]), define(["a", "d"], [lit(3), lit(4)]), usecall(["a", "d"])], ret=False)]))
    P.append(("det-blank-define", "ms", [use_fn(), func("main", [], [
        define(["_", "e"], [lit(1), lit(2)]), usecall(["e"])], ret=False)]))
    P.append(("det-range-kv", "ms", [use_fn(), func("main", [], [
        range_(["i", "v"], slice_([lit(1), lit(2)]), [usecall(["i", "v"])])], ret=False)]))
    P.append(("det-range-k", "ms", [use_fn(), func("main", [], [
        range_(["k"], slice_([lit(1)]), [usecall(["k"])])], ret=False)]))
    P.append(("det-range-shadow", "ms", [use_fn(), func("main", [], [
        define(["x"], [slice_([lit(1)])]), range_(["x"], use("x"), [usecall(["x"])])], ret=False)]))
    P.append(("det-forin", "msx", [use_fn(), func("main", [], [
        range_(["v"], ["X", Pos(), [lit(1), lit(2)]], [usecall(["v"])], forin=True)], ret=False)]))
    P.append(("det-forin-kv", "msx", [use_fn(), func("main", [], [
        range_(["i", "v"], ["X", Pos(), [lit(1), lit(2)]], [usecall(["i", "v"])], forin=True)], ret=False)]))
    P.append(("det-untyped-maplit", "msx", [use_fn(), func("main", [], [
        var(["m"], [["M", Pos(), [lit(1), lit(7)]]]), est(call(use("use"), [call(use("len"), [use("m")])]))], ret=False)]))
    P.append(("det-xslice", "msx", [use_fn(), func("main", [], [
        define(["s"], [["X", Pos(), [lit(1), lit(2)]]]), est(call(use("use"), [call(use("len"), [use("s")])]))], ret=False)]))
    P.append(("det-local-type", "ms", [use_fn(), func("main", [], [
        typ("T"), var(["t"], [call(use("T"), [lit(1)])], typ="T"), est(call(use("use"), [call(use("int"), [use("t")])]))], ret=False)]))
    P.append(("det-var-selfref", "ms", [use_fn(), func("main", [], [
        define(["x"], [lit(1)]), block([var(["x"], [add(use("x"), lit(1))]), usecall(["x"])]), usecall(["x"])], ret=False)]))
    P.append(("det-var-selfref-typed", "ms", [use_fn(), func("main", [], [
        define(["x"], [lit(1)]), block([var(["x"], [add(use("x"), lit(1))], typ="int"), usecall(["x"])]), usecall(["x"])], ret=False)]))
    P.append(("det-local-const", "ms", [use_fn(), func("main", [], [
        const(["k"], [lit(1)]), const(["unused"], [lit(2)]), usecall(["k"])], ret=False)]))
    P.append(("det-shadow-universe", "ms", [use_fn(), func("main", [], [
        define(["nil"], [lit(1)]), define(["string"], [add(use("nil"), lit(1))]), usecall(["nil", "string"])], ret=False)]))
    P.append(("det-import-named", "ms", [imp("strconv", "sc"), use_fn(), func("main", [], [
        est(call(use("use"), [call(use("len"), [call(sel("sc", "Itoa"), [lit(1)])])]))], ret=False)]))
    P.append(("det-import-shadowed", "ms", [imp("strconv"), use_fn(), func("f", [], [ret([call(use("len"), [call(sel("strconv", "Itoa"), [lit(1)])])])]),
                                            func("main", [], [define(["strconv"], [call(use("f"), [])]), usecall(["strconv"])], ret=False)]))
    P.append(("det-funclit", "ms", [use_fn(), gvar(["a"], [lit(1)]), func("main", [], [
        define(["g"], [call(funclit(["a"], [ret([add(use("a"), lit(1))])]), [use("a")])]), usecall(["g"])], ret=False)]))
    P.append(("det-named-result", "ms", [use_fn(), func("f", ["a", "b"], [assign([use("r")], [add(use("a"), use("b"))]), ret([])], results=["r"]),
                                         func("main", [], [est(call(use("use"), [call(use("f"), [lit(1), lit(2)])]))], ret=False)]))
    P.append(("det-forward-globals", "ms", [use_fn(), gvar(["a"], [use("b")]), gconst(["b"], [lit(1)]), gtype("T"),
                                            gvar(["t"], [call(use("T"), [use("b")])], typ="T"),
                                            func("main", [], [est(call(use("use"), [use("a"), call(use("int"), [use("t")])]))], ret=False)]))
    P.append(("det-struct-embedded", "ms", [imp("bytes"), imp("strings", "str"), use_fn(), gtype("Base"),
                                            gstruct("A", [(False, None, "Base")], ["n"]),
                                            gstruct("B", [(True, None, "Base"), (False, "bytes", "Buffer"), (True, "str", "Builder"),
                                                          (False, None, "A")], ["x", "y"]),
                                            gstruct("C", [(True, None, "B")]),
                                            func("main", [], [est(call(use("use"), [lit(1)]))], ret=False)]))
    P.append(("det-if-for", "ms", [use_fn(), func("main", [], [
        define(["x"], [lit(1)]),
        if_([define(["x"], [add(use("x"), lit(1))])], use("x"), [define(["x"], [add(use("x"), lit(2))]), usecall(["x"])], [usecall(["x"])]),
        for_([define(["x"], [use("x")])], [use("x")], [assign([use("x")], [add(use("x"), lit(1))])], [define(["x"], [add(use("x"), lit(3))]), usecall(["x"])]),
        usecall(["x"])], ret=False)]))
    return P


# handwritten Go-compatible texts outside MiniScope (direct oracle + go/types comparison only)
GO_TEXTS = [
    ("go-err-in-if-init", """package main

func two() (int, error) { return 1, nil }

func main() {
	if q, err := two(); err == nil {
		use(q)
	}
	q, err := two()
	use(q, err)
}

func use(args ...interface{}) {}
"""),
    ("go-labels", """package main

func main() {
lbl:
	for {
		break lbl
	}
}

func use(args ...interface{}) {}
"""),
    ("go-struct-method", """package main

type P struct {
	X, Y int
}

func (p P) Sum() int { return p.X + p.Y }

func (p *P) Set(v int) { p.X = v }

type I interface{ Sum() int }

func main() {
	p := P{X: 1, Y: 2}
	p.Set(3)
	var i I = p
	use(i.Sum(), p.Y)
}

func use(args ...interface{}) {}
"""),
    ("go-switch-closure", """package main

import "strconv"

const (
	k0 = iota
	k1
)

func apply(f func(int) int, v int) int { return f(v) }

func main() {
	n := apply(func(u int) int { return u + k1 }, k0)
	switch s := n; s {
	case 1:
		use(strconv.Itoa(s))
	default:
		use(s)
	}
	var a [3]int
	for i := 0; i < len(a); i++ {
		a[i] = i
	}
	m := map[string]int{"a": 1}
	if v, ok := m["a"]; ok {
		use(v)
	}
}

func use(args ...interface{}) {}
"""),
    ("go-typeswitch-generic-free", """package main

type T int

func (t T) String() string { return "T" }

func show(v interface{}) string {
	switch x := v.(type) {
	case T:
		return x.String()
	case string:
		return x
	}
	return ""
}

func main() {
	var t T = 3
	use(show(t), show("s"))
	defer func() {
		recover()
	}()
	ch := make(chan int, 1)
	ch <- int(t)
	go func(c chan int) { <-c }(ch)
}

func use(args ...interface{}) {}
"""),
    ("go-lazy-func-scope-leak", """package main

var g = 10

func main() {
	g := 20
	use(g, c())
}

func c() int {
	return g + 1
}

func use(args ...interface{}) {}
"""),
    ("go-lazy-var-scope-leak", """package main

func use(args ...interface{}) {}

func main() {
	k := 5
	use(k, x)
}

var x = k + 1

const k = 1
"""),
    ("go-embedded-all-shapes", """package main

import (
	"bytes"
	"strings"
)

type Base struct{ id int }

type Mid struct {
	Base
	m int
}

type Top struct {
	*Base
	Mid
	bytes.Buffer
	*strings.Builder
	x, y int
}

type Named interface{ Name() string }

type Both interface {
	Named
	Id() int
}

func (t *Top) Id() int { return t.Base.id + t.Mid.Base.id + t.x + t.y }

func take(s struct {
	*Mid
	bytes.Buffer
	k int
}) int {
	return s.k + s.Mid.m + s.Buffer.Len()
}

func main() {
	t := &Top{Base: &Base{1}, Mid: Mid{Base{2}, 3}, Builder: &strings.Builder{}, x: 4}
	lit := struct {
		Base
		*strings.Builder
	}{Base{5}, nil}
	use(t.Id(), t.Buffer.Len(), t.Builder.Len(), lit.Base.id, lit.Builder == nil, take(struct {
		*Mid
		bytes.Buffer
		k int
	}{Mid: &t.Mid, k: 6}))
}

func use(args ...interface{}) {}
"""),
    ("go-embedded-local-type", """package main

type Base struct{ id int }

func main() {
	type Loc struct {
		*Base
		n int
	}
	v := Loc{&Base{1}, 2}
	use(v.Base.id, v.n)
}

func use(args ...interface{}) {}
"""),
    ("go-receivers-params-results", """package main

type T struct{ n int }

func (t T) Get() int { return t.n }

func (t *T) Set(v int) { t.n = v }

func (T) Static() int { return 1 }

func (_ *T) Blank() int { return 2 }

func f(a int, b, c string, _ int, rest ...int) (n int, s string, _ error) {
	n = a + len(rest)
	s = b + c
	return
}

func g(int, string) (int, error) { return 0, nil }

const (
	A = iota
	B
	C
)

func kind(v interface{}) int {
	switch x := v.(type) {
	case int:
		return x
	case string:
		return len(x)
	default:
		use(x)
	}
	return -1
}

func main() {
	t := &T{1}
	t.Set(2)
	use(t.Get(), t.Static(), t.Blank(), A, B, C, kind(1))
	use(f(1, "a", "b", 2, 3, 4))
	use(g(1, "x"))
}

func use(args ...interface{}) {}
"""),
    ("go-import-forms", """package main

import "fmt"

import rand "math/rand"

import (
	str "strings"
	strings2 "strings"
	bytes "bytes"
	. "strconv"
	_ "os"
	"sort"
	path "path/filepath"
)

func main() {
	xs := []int{2, 1}
	sort.Ints(xs)
	var b bytes.Buffer
	b.WriteString(str.ToUpper("a") + strings2.ToLower("B") + Itoa(rand.Intn(1)))
	fmt.Println(b.String(), xs, path.Base("x/y"))
}
"""),
]


# ------------------------------------------------------------------ seeded random programs (dimensions on which the invariants hold)

class Gen:
    """Random Go-compatible MiniScope programs: single-name declarations of every kind, nested
    blocks, if/for with init, function literals, imports, heavy shadowing, package-level forward
    references.  NOT generated here (explored by deterministic()): multi-name var/const/:=, range
    and for-in variables, blank identifiers, local type declarations, labels, XGo literals (deterministic controls),
    forward references to functions from function bodies."""

    POOL = ["a", "b", "c", "x", "y", "f", "g", "T", "strconv", "sc", "nil", "string", "iota"]

    def __init__(self, rng):
        self.rng = rng
        self.shape = {}

    def note(self, k):
        self.shape[k] = self.shape.get(k, 0) + 1

    def pick(self, xs):
        return xs[self.rng.below(len(xs))]

    # scopes: list of dict name -> [kind, used, arity]   kind: var|const|type|func|pkg|tvar(var of named type)
    def lookup(self, name):
        for sc in reversed(self.scopes):
            if name in sc:
                return sc[name]
        return None

    def visible(self, kinds):
        seen, out = set(), []
        for sc in reversed(self.scopes):
            for n, v in sc.items():
                if n in seen:
                    continue
                seen.add(n)
                if v[0] in kinds:
                    out.append(n)
        return sorted(out)

    def ok_universe(self, n):
        return self.lookup(n) is None

    def expr(self, depth=0):
        r = self.rng.below(10)
        if depth > 2 or r < 2:
            return lit(self.rng.below(9))
        if r < 6:
            vs = self.visible(("var", "const", "tvar"))
            if vs:
                n = self.pick(vs)
                ent = self.lookup(n)
                ent[1] = True
                if ent[0] == "tvar":
                    if not self.ok_universe("int"):
                        return lit(1)
                    self.note("expr:conv")
                    return call(use("int"), [use(n)])
                self.note("expr:use")
                return use(n)
            return lit(2)
        if r == 6:
            fs = self.visible(("func",))
            if fs:
                n = self.pick(fs)
                ent = self.lookup(n)
                ent[1] = True
                self.note("expr:call")
                return call(use(n), [self.expr(depth + 1) for _ in range(ent[2])])
            return lit(3)
        if r == 7:
            ps = self.visible(("pkg",))
            if ps and self.ok_universe("len"):
                n = self.pick(ps)
                ent = self.lookup(n)
                ent[1] = True
                self.note("expr:qualified")
                return call(use("len"), [call(sel(n, "Itoa"), [self.expr(depth + 1)])])
            return lit(4)
        if r == 8 and depth < 2:
            self.note("expr:funclit")
            p = self.pick(self.POOL)
            self.scopes.append({p: ["var", True, 0]})
            body = self.stmts(depth + 2, 1) + [ret([add(use(p), self.expr(depth + 1))])]
            self.close_scope(body, before_last=True)
            return call(funclit([p], body), [self.expr(depth + 1)])
        return add(self.expr(depth + 1), self.expr(depth + 1))

    def fresh(self):
        cur = self.scopes[-1]
        cand = [n for n in self.POOL if n not in cur]
        return self.pick(cand) if cand else None

    def close_scope(self, body, before_last=False):
        sc = self.scopes.pop()
        unused = sorted(n for n, v in sc.items() if v[0] in ("var", "tvar") and not v[1])
        if unused:
            u = self.lookup("use")
            stmt = None
            # `use` is never shadowed (not in POOL); named-type vars need a conversion
            args = []
            for n in unused:
                if sc[n][0] == "tvar":
                    args.append(call(use("int"), [use(n)]))
                else:
                    args.append(use(n))
            stmt = est(call(use("use"), args))
            if before_last:
                body.insert(len(body) - 1, stmt)
            else:
                body.append(stmt)

    def stmts(self, depth, n):
        out = []
        for _ in range(n):
            s = self.stmt(depth)
            if s is not None:
                out.append(s)
        return out

    def stmt(self, depth):
        r = self.rng.below(12)
        cur = self.scopes[-1]
        if r < 3:
            n = self.fresh()
            if n is None:
                return None
            e = self.expr()
            cur[n] = ["var", False, 0]
            self.note("stmt:define")
            return define([n], [e])
        if r == 3:
            n = self.fresh()
            if n is None:
                return None
            # `var n = e`: cl declares n before compiling e (det-var-selfref), so e must not mention an outer n
            cur[n] = ["hidden", True, 0]
            e = self.expr()
            ts = self.visible(("type",))
            del cur[n]
            if ts and self.rng.below(2) == 0:
                t = self.pick(ts)
                self.lookup(t)[1] = True
                cur[n] = ["tvar", False, 0]
                self.note("stmt:var-named-type")
                return var([n], [call(use(t), [e])], typ=t)
            cur[n] = ["var", False, 0]
            self.note("stmt:var")
            if self.ok_universe("int") and self.rng.below(2) == 0:
                return var([n], [e], typ="int")
            return var([n], [e])
        if r == 4:
            n = self.fresh()
            if n is None:
                return None
            cur[n] = ["const", True, 0]
            self.note("stmt:const")
            return const([n], [lit(self.rng.below(9))])
        if r == 6:
            vs = [n for n in self.visible(("var",))]
            if not vs:
                return None
            n = self.pick(vs)
            self.note("stmt:assign")
            return assign([use(n)], [self.expr()])
        if r == 7 and depth < 3:
            self.note("stmt:block")
            self.scopes.append({})
            body = self.stmts(depth + 1, 1 + self.rng.below(3))
            self.close_scope(body)
            return block(body)
        if r == 8 and depth < 3:
            self.note("stmt:if")
            self.scopes.append({})
            init = []
            if self.rng.below(2) == 0:
                n = self.pick(self.POOL)
                init = [define([n], [self.expr()])]
                self.scopes[-1][n] = ["var", False, 0]
            cond = self.expr()
            if init:
                cond = add(use(init[0][1][0].s), cond)   # the init variable is used by the condition
                self.scopes[-1][init[0][1][0].s][1] = True
            self.scopes.append({})
            thn = self.stmts(depth + 1, 1 + self.rng.below(2))
            self.close_scope(thn)
            els = None
            if self.rng.below(2) == 0:
                self.scopes.append({})
                els = self.stmts(depth + 1, 1)
                self.close_scope(els)
            self.scopes.pop()
            return if_(init, cond, thn, els)
        if r == 9 and depth < 3:
            self.note("stmt:for")
            self.scopes.append({})
            n = self.pick(self.POOL)
            init = [define([n], [self.expr()])]
            self.scopes[-1][n] = ["var", True, 0]
            cond = [use(n)]
            post = [assign([use(n)], [add(use(n), lit(1))])]
            self.scopes.append({})
            body = self.stmts(depth + 1, 1 + self.rng.below(2))
            self.close_scope(body)
            self.scopes.pop()
            return for_(init, cond, post, body)
        if r == 10:
            self.note("stmt:expr")
            return est(call(use("use"), [self.expr()]))
        return None

    def program(self):
        """imports; use; package-level var/const/type in random order (forward references among
        them); functions, each calling only functions declared before it; main last.
        (A function or variable that is first referenced from inside a function body declared
        BEFORE it is compiled lazily by cl in the scope of the referring body -- see the
        deterministic programs det-lazy-*; that dimension is not generated here.)"""
        self.scopes = [{"use": ["func", True, 1]}]
        pk = self.scopes[0]
        head = [use_fn()]
        imps = []
        r = self.rng.below(3)
        if r == 1:
            imps.append(imp("strconv"))
            pk["strconv"] = ["pkg", False, 0]
        elif r == 2:
            imps.append(imp("strconv", "sc"))
            pk["sc"] = ["pkg", False, 0]
        for n, v in list(pk.items()):
            if v[0] == "pkg":
                # the import is used at package level (cannot be shadowed there)
                head.append(func("useimp", [], [ret([call(use("len"), [call(sel(n, "Itoa"), [lit(1)])])])]))
                v[1] = True
        plan = []
        for _ in range(1 + self.rng.below(4)):
            cand = [n for n in self.POOL if n not in pk and n not in ("nil", "println", "string", "iota")]
            if not cand:
                break
            n = self.pick(cand)
            k = self.pick(["var", "var", "const", "type"])
            pk[n] = [k, True, 0]
            plan.append((n, k))
        globs = []
        for n, k in plan:
            if k == "var":
                cs = [c for c, kk in plan if kk == "const"]
                e = use(self.pick(cs)) if cs and self.rng.below(2) == 0 else lit(self.rng.below(9))
                globs.append(gvar([n], [e]))
                self.note("decl:var")
            elif k == "const":
                globs.append(gconst([n], [lit(self.rng.below(9))]))
                self.note("decl:const")
            else:
                globs.append(gtype(n))
                self.note("decl:type")
        # struct types with embedded fields of every shape: T, *T, pkg.T, *pkg.T (declared after the types they embed)
        structs = []
        for _ in range(self.rng.below(3)):
            cand = [n for n in self.POOL if n not in pk and n not in ("nil", "println", "string", "iota")]
            if not cand:
                break
            sn = self.pick(cand)
            tys = [n for n, v in pk.items() if v[0] in ("type", "stype")]
            pkgs = [n for n, v in pk.items() if v[0] == "pkg"]
            embeds, seen = [], set()
            for _ in range(1 + self.rng.below(3)):
                if pkgs and self.rng.below(3) == 0:
                    q, t = self.pick(pkgs), "NumError"
                    pk[q][1] = True
                else:
                    if not tys:
                        continue
                    q, t = None, self.pick(tys)
                if t in seen:
                    continue
                seen.add(t)
                star = self.rng.below(2) == 0
                embeds.append((star, q, t))
                self.note("decl:embedded:%s%s" % ("*" if star else "", "pkg.T" if q else "T"))
            if not embeds:
                continue
            fields = [f for f in ("fa", "fb")[: self.rng.below(3)] if f not in seen]
            pk[sn] = ["stype", True, 0]
            structs.append(gstruct(sn, embeds, fields))
            self.note("decl:struct")
        for i in range(len(globs) - 1, 0, -1):
            j = self.rng.below(i + 1)
            globs[i], globs[j] = globs[j], globs[i]
        globs += structs
        funcs = []
        for _ in range(self.rng.below(4)):
            cand = [n for n in self.POOL if n not in pk and n not in ("nil", "println", "string", "iota")]
            if not cand:
                break
            n = self.pick(cand)
            ar = self.rng.below(3)
            params = []
            sc = {}
            for _ in range(ar):
                p = self.pick([q for q in self.POOL if q not in sc])
                sc[p] = ["var", True, 0]
                params.append(p)
            results = None
            if self.rng.below(3) == 0:
                rn = self.pick([q for q in self.POOL if q not in sc])
                sc[rn] = ["var", True, 0]
                results = [rn]
            self.scopes.append(sc)
            body = self.stmts(1, 1 + self.rng.below(3))
            body.append(ret([self.expr()]))
            self.close_scope(body, before_last=True)
            funcs.append(func(n, params, body, results=results))
            pk[n] = ["func", True, ar]      # visible to the functions after it only
            self.note("decl:func")
        self.scopes.append({})
        body = self.stmts(1, 2 + self.rng.below(4))
        self.close_scope(body)
        main = func("main", [], body, ret=False)
        return imps + head + globs + funcs + [main]


# ------------------------------------------------------------------ Go-compatible programs over EVERY declaring construct (direct oracle only)

class GoRich:
    """Seeded random Go-compatible programs (text level, outside MiniScope) whose identifiers cover the declaring
    constructs of go/types' Defs map: struct fields (single and grouped), embedded fields of the shapes T, *T, pkg.T,
    *pkg.T (in type declarations, struct literals types, function parameter types), methods with value / pointer /
    unnamed / blank receivers, parameters and results (named, grouped, blank, unnamed, variadic), interface methods and
    embedded interfaces, const iota groups, type switch symbolic variables, imports (plain, named, blank, dot).
    NOT generated (they fail on the unchanged tree or do not parse as XGo; see deterministic sets): generic types and
    functions (type parameters), labels, local type declarations, multi-name var/const/:=, range variables."""

    def __init__(self, rng):
        self.rng = rng
        self.hist = {}

    def note(self, k, n=1):
        self.hist[k] = self.hist.get(k, 0) + n

    def pick(self, xs):
        return xs[self.rng.below(len(xs))]

    def chance(self, n):
        return self.rng.below(n) == 0

    def params(self):
        """-> (text, [arg texts for a call])"""
        r = self.rng.below(6)
        if r == 0:
            return "", []
        if r == 1:
            self.note("param:unnamed", 2)
            return "int, string", ["1", '"s"']
        parts, args = [], []
        k = 0
        for _ in range(1 + self.rng.below(3)):
            q = self.rng.below(4)
            if q == 0:
                parts.append("p%d int" % k)
                args.append(str(k))
                k += 1
                self.note("param:named")
            elif q == 1:
                parts.append("p%d, p%d string" % (k, k + 1))
                args += ['"a"', '"b"']
                k += 2
                self.note("param:grouped", 2)
            elif q == 2:
                parts.append("_ int")
                args.append("0")
                self.note("param:blank")
            else:
                parts.append("p%d bool" % k)
                args.append("true")
                k += 1
                self.note("param:named")
        if self.chance(3):
            parts.append("rest ...int")
            if self.chance(2):
                args += ["7", "8"]
            self.note("param:variadic")
        return ", ".join(parts), args

    def results(self):
        """-> (text, return statement)"""
        r = self.rng.below(6)
        if r == 0:
            return "", "return"
        if r == 1:
            self.note("result:unnamed")
            return " int", "return 0"
        if r == 2:
            self.note("result:unnamed", 2)
            return " (int, error)", "return 0, nil"
        if r == 3:
            self.note("result:named")
            return " (n int)", "n = 1\n\treturn"
        if r == 4:
            self.note("result:named", 2)
            return " (n int, err error)", "return"
        self.note("result:named")
        self.note("result:blank")
        return " (n int, _ error)", "return"

    def program(self):
        out = ["package main", ""]
        strings_name = self.pick(["strings", "str", "strings "])   # plain / renamed / REDUNDANT alias (name == package name)
        strings_redundant = strings_name.endswith(" ")
        strings_name = strings_name.strip()
        bytes_redundant = self.chance(3)
        used_imports = set()
        types = []       # (name, [embedded field names with their access path head], fields)
        body = []
        decls = []
        # base struct types
        nbase = 1 + self.rng.below(2)
        for i in range(nbase):
            name = "S%d" % i
            fl = ["\tf%d int" % i]
            self.note("field")
            if self.chance(2):
                fl.append("\tg%d, h%d string" % (i, i))
                self.note("field:grouped", 2)
            decls.append("type %s struct {\n%s\n}" % (name, "\n".join(fl)))
            self.note("type")
            types.append({"name": name, "embeds": [], "fld": "f%d" % i})
        # struct types with embedded fields
        for i in range(nbase, nbase + 1 + self.rng.below(3)):
            name = "S%d" % i
            emb, lines = [], []
            cands = [("own", t["name"]) for t in types] + [("pkg", "bytes.Buffer"), ("pkg", strings_name + ".Builder")]
            seen = set()
            for _ in range(1 + self.rng.below(3)):
                kind, tn = self.pick(cands)
                short = tn.split(".")[-1]
                if short in seen:
                    continue
                seen.add(short)
                ptr = self.chance(2)
                lines.append("\t%s%s" % ("*" if ptr else "", tn))
                if kind == "pkg":
                    used_imports.add(tn.split(".")[0])
                self.note("embedded:%s%s" % ("*" if ptr else "", "pkg.T" if kind == "pkg" else "T"))
                emb.append((short, tn, ptr, kind))
            lines.append("\tk%d int" % i)
            self.note("field")
            decls.append("type %s struct {\n%s\n}" % (name, "\n".join(lines)))
            self.note("type")
            types.append({"name": name, "embeds": emb, "fld": "k%d" % i})
        # methods
        methods = []
        mk = 0
        for t in types:
            for _ in range(self.rng.below(3)):
                rf = self.rng.below(4)
                recv = ["(r %s)", "(r *%s)", "(%s)", "(_ *%s)"][rf] % t["name"]
                self.note("recv:" + ["value", "pointer", "unnamed", "blank"][rf])
                ps, args = self.params()
                rs, ret = self.results()
                mname = "M%d" % mk
                mk += 1
                decls.append("func %s %s(%s)%s {\n\t%s\n}" % (recv, mname, ps, rs, ret))
                self.note("method")
                methods.append((t["name"], mname, args, rs, ps))
        # an interface with a method of some type, and an interface embedding it
        if methods:
            tn, mname, args, rs, ps = self.pick(methods)
            decls.append("type I0 interface {\n\t%s(%s)%s\n}" % (mname, ps, rs))
            decls.append("type I1 interface {\n\tI0\n\tExtra(x int) string\n}")
            self.note("interface-method", 2)
            self.note("embedded-interface")
            self.note("param:named")
            self.note("result:unnamed")
        # const iota group
        if self.chance(2):
            decls.append("const (\n\tC0 = iota\n\tC1\n\tC2\n)")
            self.note("const:iota", 3)
            body.append("use(C0, C1, C2)")
        # a function whose parameter type is a struct literal type with embedded fields
        base = types[0]
        ptr = self.chance(2)
        decls.append("func fp(s struct {\n\t%s%s\n\tq int\n}, _ string) (res int) {\n\tres = s.q + s.%s.%s\n\treturn\n}"
                     % ("*" if ptr else "", base["name"], base["name"], base["fld"]))
        self.note("embedded:%sT(param-type)" % ("*" if ptr else ""))
        self.note("field")
        self.note("param:named")
        self.note("param:blank")
        self.note("result:named")
        self.note("func")
        body.append("use(fp(struct {\n\t\t%s%s\n\t\tq int\n\t}{%s%s{}, 1}, \"x\"))" % ("*" if ptr else "", base["name"], "&" if ptr else "", base["name"]))
        self.note("embedded:%sT(literal-type)" % ("*" if ptr else ""))
        self.note("field")
        # values, selectors, method calls
        for i, t in enumerate(types):
            v = "v%d" % i
            body.append("%s := &%s{}" % (v, t["name"]))
            self.note("var:define")
            body.append("use(%s.%s)" % (v, t["fld"]))
            for short, tn, p, kind in t["embeds"]:
                if kind == "own":
                    if p:
                        body.append("%s.%s = &%s{}" % (v, short, tn))
                    inner = [x for x in types if x["name"] == tn][0]
                    body.append("use(%s.%s.%s)" % (v, short, inner["fld"]))
                else:
                    if p:
                        body.append("%s.%s = &%s{}" % (v, short, tn))
                    body.append("use(%s.%s.Len())" % (v, short))
            for tn, mname, args, rs, ps in methods:
                if tn == t["name"]:
                    if rs:
                        body.append("use(%s.%s(%s))" % (v, mname, ", ".join(args)))
                    else:
                        body.append("%s.%s(%s)" % (v, mname, ", ".join(args)))
        # type switch with a symbolic variable
        if self.chance(2):
            body.append("switch x := interface{}(v0).(type) {\n\tcase *S0:\n\t\tuse(x.f0)\n\tcase int:\n\t\tuse(x)\n\tdefault:\n\t\tuse(x)\n\t}")
            self.note("typeswitch-var")
        # imports
        imps = []
        if "bytes" in used_imports:
            if bytes_redundant:
                imps.append('\tbytes "bytes"')
                self.note("import:redundant-alias")
            else:
                imps.append('\t"bytes"')
                self.note("import:plain")
            if self.chance(3):
                # the same package a second time under another name
                imps.append('\tb2 "bytes"')
                body.append("use(b2.MinRead)")
                self.note("import:same-package-twice")
        if strings_name in used_imports:
            if strings_name == "str":
                imps.append('\tstr "strings"')
                self.note("import:named")
            elif strings_redundant:
                imps.append('\tstrings "strings"')
                self.note("import:redundant-alias")
            else:
                imps.append('\t"strings"')
                self.note("import:plain")
        if self.chance(3):
            imps.append('\t_ "os"')
            self.note("import:blank")
        if self.chance(3):
            imps.append('\t. "strconv"')
            body.append("use(Itoa(1))")
            self.note("import:dot")
        if imps:
            out += ["import (", "\n".join(imps), ")", ""]
        out.append("\n\n".join(decls))
        out.append("")
        out.append("func use(args ...interface{}) {}")
        self.note("func")
        self.note("param:variadic")
        out.append("")
        out.append("func main() {\n\t" + "\n\t".join(body) + "\n}")
        self.note("func")
        return "\n".join(out) + "\n"


# ------------------------------------------------------------------ XGo overload declarations (deterministic enumeration, direct oracle only)

def overload_family():
    """[(name, xgo source)]: overload declarations of every style -- function overloads with named / literal /
    mixed candidates (2 and 3 of them), method overloads on pointer and value receivers, a function and a method
    overload of the same name in both orders, method overloads of the same name on two types, operator overloads --
    each with calls through the overload identifier.  The enumeration is fixed (not seeded): every overload with a
    NAMED candidate records a synthesised *ast.BasicLit without position in Info.Types on the unchanged tree
    (finding R7), so this dimension cannot be generated at random.  Class-file overloads are not covered (they
    need a registered class-file project)."""
    TY = [("int", "1", "2"), ("string", '"a"', '"b"'), ("float64", "1.5", "2.5")]
    out = []

    def named_func(nm, i):
        t = TY[i][0]
        return "func %s(a, b %s) %s {\n\treturn a\n}\n" % (nm, t, t)

    def lit_func(i):
        t = TY[i][0]
        return "\tfunc(a, b %s) %s {\n\t\treturn b\n\t}" % (t, t)

    for pat in ("NN", "NNN", "LL", "LLL", "NL", "LN", "NLN", "LNL"):
        decls, cands, calls = [], [], []
        for i, k in enumerate(pat):
            if k == "N":
                decls.append(named_func("cand%d" % i, i))
                cands.append("\tcand%d" % i)
            else:
                cands.append(lit_func(i))
            calls.append("over(%s, %s)" % (TY[i][1], TY[i][2]))
        src = "\n".join(decls) + "\nfunc over = (\n" + "\n".join(cands) + "\n)\n\necho " + ", ".join(calls) + "\n"
        out.append(("ov-func-" + pat, src))

    def method_family(tname, star, n, oname="op", prefix="m"):
        r = "*" + tname if star else tname
        ds = []
        for i in range(n):
            t = TY[i][0]
            ds.append("func (x %s) %s%s%d(v %s) int {\n\treturn x.n\n}\n" % (r, prefix, tname, i, t))
        cands = "\n".join("\t(%s).%s%s%d" % (tname, prefix, tname, i) for i in range(n))
        ds.append("func (%s).%s = (\n%s\n)\n" % (tname, oname, cands))
        return "\n".join(ds)

    for star in (True, False):
        for n in (2, 3):
            src = "type foo struct {\n\tn int\n}\n\n" + method_family("foo", star, n)
            src += "\nvar a = %sfoo{2}\necho %s\n" % ("&" if star else "", ", ".join("a.op(%s)" % TY[i][1] for i in range(n)))
            out.append(("ov-method-%s-%d" % ("ptr" if star else "val", n), src))
    # the same overload name on two types
    src = "type foo struct {\n\tn int\n}\n\ntype bar struct {\n\tn int\n}\n\n" + method_family("foo", True, 2) + "\n" + method_family("bar", False, 2)
    src += "\nvar a = &foo{1}\nvar b = bar{2}\necho a.op(1), a.op(\"s\"), b.op(2), b.op(\"t\")\n"
    out.append(("ov-method-two-types", src))
    # a function overload and a method overload of the same name, in both orders
    fpart = named_func("cand0", 0) + "\n" + named_func("cand1", 1) + "\nfunc op = (\n\tcand0\n\tcand1\n)\n"
    mpart = method_family("foo", True, 2)
    for order in ("func-first", "method-first"):
        body = (fpart + "\n" + mpart) if order == "func-first" else (mpart + "\n" + fpart)
        src = "type foo struct {\n\tn int\n}\n\n" + body + "\nvar a = &foo{3}\necho a.op(1), a.op(\"s\"), op(1, 2), op(\"a\", \"b\")\n"
        out.append(("ov-same-name-" + order, src))
    # operators
    out.append(("ov-operators", """type V struct {
	x int
}

func (a V) + (b V) V {
	return V{a.x + b.x}
}

func (a V) - (b V) (r V) {
	r = V{a.x - b.x}
	return
}

func (a V) * (k int) V {
	return V{a.x * k}
}

func -(a V) V {
	return V{-a.x}
}

var p = V{1}
var q = V{2}
echo (p + q).x, (p - q).x, (p * 3).x, (-p).x
"""))
    return out
