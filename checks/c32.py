"""C32 - the TPL scanner tokenises like the XGo scanner (tpl/scanner/scanner.go vs scanner/scanner.go).

A  Props/C32.v over Model/Scan.v, dialects Tpl and XGo
B  the Tpl dialect against the real tpl/scanner and the XGo dialect against the real scanner:
   every string of <= 3 symbols over a 39-symbol (quick) / 53-symbol (thorough) alphabet, both comment modes, seeded
   shared-lexeme sequences, a malformed stream
C  the property itself: the real tpl/scanner against the real XGo scanner (token kind mapped by
   spelling, offset, literal, inserted semicolons) wherever both produce only shared token kinds,
   plus the deterministic set of known divergences
"""
from checks import scan_common as sc

CLAIM = {
    "level": "proof",
    "text": "Coq theorems over one model text with a dialect switch (tpl/scanner / XGo scanner): the agreement theorem on inputs where "
            "neither dialect takes a branch the other lacks, and the divergence witnesses (UNIT offset after blanks, '#' comments with "
            "\\r or '#*', stripCR inside block comments); both dialects are tied to their real scanners by an exhaustive short-string and "
            "seeded differential run, and the two real scanners are compared directly.",
    "note": "Trusted: Coq kernel, extraction, harness. 'Shared' is decided from the two real outputs: no XGo keyword / CSTRING / PYSTRING "
            "token, no TPL '~' '@' '**' token. Errors are not part of the property (token boundaries, literals, inserted semicolons).",
}

XGO_KEYWORDS = [b"break", b"case", b"chan", b"const", b"continue", b"default", b"defer", b"else", b"fallthrough", b"for", b"func", b"go",
                b"goto", b"if", b"import", b"interface", b"map", b"package", b"range", b"return", b"select", b"struct", b"switch",
                b"type", b"var"]
SH_IDENTS = [i for i in sc.IDENTS if i not in XGO_KEYWORDS]
UNIT_NUMS = [b"1m", b"2.3s", b"3ms", b"10y", b"9w", b"0x1h", b"1e3s", b"7_0px"]
SH_NUMBERS = [n for n in sc.NUMBERS if n not in UNIT_NUMS] + UNIT_NUMS
SH_STRINGS = [s for s in sc.STRINGS if not (s[:1] in b"cCp")]
SH_OPS = [o for o in sc.OPERATORS if o not in (b"~", b"@", b"**")]
SH_COMMENTS = [c for c in sc.COMMENTS if not (c.startswith(b"#") and (b"\r" in c or c.startswith(b"#*"))) and b"*\r/" not in c]

FINDING_SET = [
    b"1m x", b"1m \n", b"2.5s\t+1", b"3ms\r\n", b"1m", b"1m\n", b"1m+2s", b"f(1m ,2)",
    b"#a\r\n", b"#\r", b"# c\r\nx", b"#\r\n", b"#*\n*/", b"#*x", b"#*x*/ y", b"#/x\r\n",
    b"/*x*\r/*/", b"/* *\r/ */", b"/*\r*/",
]


def shared_sequence(rng):
    n = 1 + rng.below(8)
    out = bytearray()
    shape = []
    prev_cls, prev, last_sep = None, b"", b"\n"
    unit_pending = False
    for i in range(n):
        cl = rng.choice(["ident", "number", "string", "operator", "comment", "odd"])
        if cl == "ident":
            lx = rng.choice(SH_IDENTS)
        elif cl == "number":
            lx = rng.choice(SH_NUMBERS)
        elif cl == "string":
            lx = rng.choice(SH_STRINGS)
        elif cl == "operator":
            lx = rng.choice(SH_OPS)
        elif cl == "comment":
            lx = rng.choice(SH_COMMENTS)
        else:
            lx = rng.choice(sc.ODD)
        if last_sep == b"" and out:
            glue = None
            wordlike = lx[:1].isalnum() or lx[:1] in (b"_", b".") or lx[0] >= 0x80
            if prev_cls == "number" and wordlike:
                glue = b"\n" if unit_pending else b" "      # would grow the number / its unit
            if prev_cls == "ident" and wordlike:
                glue = b" "                                  # would merge into another identifier (maybe a keyword)
            if prev_cls in ("ident", "number", "odd") and lx[:1] == b'"':
                glue = b" "                                  # c"..." / py"..."
            if prev[-1:] == b"*" and lx[:1] == b"*":
                glue = b" "                                  # ** is a TPL-only token
            if prev[-1:] == b"/" and lx[:1] in (b"/", b"*"):
                glue = b" "
            if prev[-1:] == b"." and lx[:1].isdigit():
                glue = b" "                                  # ".0b2" is the number .0 with the unit b2
            if prev_cls == "number" and prev[-1:] in b"eEpP" and lx[:1] in (b"+", b"-"):
                glue = b" "
            if glue and not (unit_pending and glue == b" "):
                out += glue
            elif glue:
                out += b"\n"
        out += lx
        shape.append(cl[0])
        unit_pending = cl == "number" and lx in UNIT_NUMS
        sep = rng.choice(sc.SEPARATORS)
        if unit_pending:
            sep = rng.choice([b"", b"\n", b"\n\n"])          # blanks after a unit: finding-set dimension
        if cl == "comment" and lx.startswith(b"#"):
            sep = b"\n"                                      # anything up to the line end (e.g. a \r) joins the '#' comment
        if cl == "comment" and lx.startswith(b"//") and b"\n" not in sep:
            sep = b"\n"
        out += sep
        prev_cls, prev, last_sep = cl, lx, sep
    return bytes(out), "".join(shape)


def run(ctx):
    ctx.regen(["scantok"])
    sc.gen_notes(ctx)
    ctx.prove("C32")
    R = sc.Runner(ctx)
    # token kind mapping XGo -> TPL through String() of the running packages
    rc, dump = ctx.run([R.impl, "tokens"])
    if rc != 0:
        ctx.broken("harness(tokens)", dump[-300:])
        return
    xs, ts = {}, {}
    for l in dump.split("\n"):
        f = l.split()
        if len(f) > 2 and f[0] in ("xgo", "tpl"):
            d = dict(x.split("=", 1) for x in f[2:])
            s = "" if d["String"] == "-" else bytes.fromhex(d["String"]).decode("latin1")
            if s and not s.startswith("token("):
                (xs if f[0] == "xgo" else ts)[int(f[1])] = s
    t_by_name = {}
    for c, s in ts.items():
        t_by_name.setdefault(s, c)
    x2t = {c: t_by_name.get(s) for c, s in xs.items()}
    xgo_only = {c for c in xs if 61 <= c <= 85} | {3, 96}       # keywords, CSTRING, PYSTRING
    tpl_only = {c for c, s in ts.items() if s in ("~", "@", "**")}

    groups = []
    alpha = sc.ALPHA_MED if ctx.quick else sc.ALPHA
    ex = sc.exhaustive(alpha, 3)
    groups.append(("exhaustive", ex, True))
    seqs, shapes = [], {}
    for _ in range(ctx.n(5000, 200000)):
        s, sh = shared_sequence(ctx.rng)
        while b"*\r" in s:          # could form '*\r/' inside an unterminated block comment: finding-set dimension
            s, sh = shared_sequence(ctx.rng)
        seqs.append(s)
        k = "lexemes=%d" % len(sh)
        shapes[k] = shapes.get(k, 0) + 1
    groups.append(("shared-lexeme-sequence", seqs, True))
    mal = [sc.random_sequence(ctx.rng, malformed=60)[0] for _ in range(ctx.n(3000, 100000))]
    groups.append(("malformed-or-unshared", mal, False))
    groups.append(("finding-set", list(FINDING_SET), True))
    cases, meta = [], []
    for name, srcs, cmp_ in groups:
        for s in srcs:
            for m in (True, False):
                for d in ("t", "x"):
                    cases.append(sc.case(d, m, s))
                    meta.append((name, cmp_))
    impl, model = R.correspond("scan(Tpl)~tpl/scanner.Scan & scan(XGo)~scanner.Scan", cases)
    stats = {"compared": 0, "skipped_not_shared": 0, "skipped_unit_blank_dimension": 0, "skipped_sharp_dimension": 0,
             "skipped_block_cr_dimension": 0, "not_compared_group": 0}
    per_group = {}
    for i in range(0, len(cases), 2):              # (t, x) pairs
        name, cmp_ = meta[i]
        if not cmp_:
            stats["not_compared_group"] += 1
            continue
        src = sc.src_of(cases[i])
        st, tt, _ = sc.parse_result(impl[i][0])
        sx, tx, _ = sc.parse_result(impl[i + 1][0])
        if not st and not sx and (any(t in tpl_only for t, _, _ in tt) or any(t in xgo_only for t, _, _ in tx)):
            stats["skipped_not_shared"] += 1
            continue
        if name == "exhaustive":
            # dimensions explored by the finding set only (every input of them fails the same way)
            if any(t == 91 and p + len(l) < len(src) and src[p + len(l)] in b" \t\r" for t, p, l in tx):
                stats["skipped_unit_blank_dimension"] += 1
                continue
            if b"#" in src and (b"\r" in src or b"#*" in src):
                stats["skipped_sharp_dimension"] += 1
                continue
            if b"*\r" in src:
                stats["skipped_block_cr_dimension"] += 1
                continue
        stats["compared"] += 1
        per_group[name] = per_group.get(name, 0) + 1
        mapped = [(x2t.get(t, -1), p, l) for t, p, l in tx]
        if st or sx or mapped != tt:
            mode = cases[i][1]
            ctx.fail(sc.key_of("src", mode.encode() + src),
                     "tpl/scanner and XGo scanner differ on %r (mode %s)" % (src, mode),
                     {"src_repr": repr(src), "src_hex": src.hex(), "mode": mode, "group": name, "tpl": impl[i][0][:400], "xgo": impl[i + 1][0][:400]})
    # the hypothesis of C32_tpl_eq_xgo_on_shared, evaluated by the extracted model: wherever it holds
    # the two real scanners must return the same tokens (kind by spelling, offset, literal) and errors
    xcases = [cases[i + 1] for i in range(0, len(cases), 2)]
    pred = R.run_pred(xcases)
    sh = {"shared": 0, "shared_in_sequences": 0, "sequences": 0}
    for k, (_, g) in enumerate(pred):
        i = 2 * k
        name = meta[i][0]
        if name == "shared-lexeme-sequence":
            sh["sequences"] += 1
            sh["shared_in_sequences"] += int(g)
        if not g:
            continue
        sh["shared"] += 1
        st, tt, et = sc.parse_result(impl[i][0])
        sx, tx, exx = sc.parse_result(impl[i + 1][0])
        if st or sx or [(x2t.get(t, -1), p, l) for t, p, l in tx] != tt or et != exx:
            src, mode = sc.src_of(cases[i]), cases[i][1]
            ctx.fail(sc.key_of("src", mode.encode() + src),
                     "shared holds in the model but the real scanners differ on %r (mode %s)" % (src, mode),
                     {"src_repr": repr(src), "src_hex": src.hex(), "mode": mode, "group": name, "tpl": impl[i][0][:400], "xgo": impl[i + 1][0][:400]})
    ctx.cover(evaluations=len(cases), distinct_nontrivial=len(set(c[3:] for c in cases)),
              samples=[{"case": cases[k], "impl": impl[k][0][:160]} for k in (4 * len(ex) - 4, 4 * len(ex) + 40, len(cases) - 4 * len(FINDING_SET) - 3, len(cases) - 2)],
              rule="exhaustive: all %d strings of <=3 symbols over a %d-symbol alphabet; %d seeded shared-lexeme sequences (safe generator: "
                   "non-keyword identifiers, Go literals, unit/rat/imag suffixes, shared operators, // /* */ and # comments, odd bytes; "
                   "nothing of the finding-set dimensions: blanks after a unit, \\r or '#*' in a # comment, '*\\r/' in a block comment); %d "
                   "mutated/unshared sequences (model~impl only); the fixed finding set (%d inputs). Every source x {comments on, off} x "
                   "{tpl, XGo}. The real scanners are compared where both outputs contain only shared token kinds; in the exhaustive set "
                   "the three finding-set dimensions are skipped (counted in compare_stats). distinct = distinct source"
                   % (len(ex), len(alpha), len(seqs), len(mal), len(FINDING_SET)),
              exhaustive=True, exhaustive_part=4 * len(ex), compare_stats=stats, theorem_hypothesis_stats=sh, compared_per_group=per_group,
              sequence_shape_histogram=dict(sorted(shapes.items())))
    ctx.trust("modelled, not verified: tpl/scanner/scanner.go and scanner/scanner.go (one Gallina text with a dialect switch), each tied "
              "to its implementation by the differential run")
