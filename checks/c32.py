"""C32 - the TPL scanner tokenises like the XGo scanner (tpl/scanner/scanner.go vs scanner/scanner.go).

A  Props/C32.v over Model/Scan.v, dialects Tpl and XGo
B  the Tpl dialect against the real tpl/scanner and the XGo dialect against the real scanner:
   every string of <= 3 symbols over a 39-symbol (quick) / 53-symbol (thorough) alphabet, both comment modes, seeded
   shared-lexeme sequences, a malformed stream
C  the property itself: the real tpl/scanner against the real XGo scanner (token kind mapped by
   spelling, offset, literal, inserted semicolons) wherever both produce only shared token kinds,
   plus the deterministic set of known divergences
"""
from checks import scan_common as sc

CLAIM = {
    "level": "proof",
    "text": "Coq theorems over one model text with a dialect switch (tpl/scanner / XGo scanner): if the XGo run takes no branch tpl/scanner "
            "lacks or does differently (decidable predicate shared, evaluated by the model: no keyword, c\"/py\" string, '~' '@' '**', "
            "comment sub-scanners agreeing) both dialects return identical tokens and errors (C32_tpl_eq_xgo_on_shared); the "
            "divergence witnesses ('#' comments with \\r or '#*', stripCR inside block comments). The Tpl dialect "
            "is tied to tpl/scanner on every run (exhaustive byte strings, token-level sequences reaching nParen/insertSemi/unit state, "
            "seeded sequences), the real scanners are compared directly, and wherever shared holds they must be identical.",
    "note": "Trusted: Coq kernel, extraction, harness. In the direct comparison 'shared' is decided from the two real outputs (no XGo keyword / "
            "CSTRING / PYSTRING token, no TPL '~' '@' '**' token) and token kinds are mapped by Token.String(). Errors are not part of the "
            "property except under the theorem's hypothesis. The XGo dialect is tied to scanner.Scan by C15.",
}

XGO_KEYWORDS = [b"break", b"case", b"chan", b"const", b"continue", b"default", b"defer", b"else", b"fallthrough", b"for", b"func", b"go",
                b"goto", b"if", b"import", b"interface", b"map", b"package", b"range", b"return", b"select", b"struct", b"switch",
                b"type", b"var"]
SH_IDENTS = [i for i in sc.IDENTS if i not in XGO_KEYWORDS]
UNIT_NUMS = [b"1m", b"2.3s", b"3ms", b"10y", b"9w", b"0x1h", b"1e3s", b"7_0px"]
SH_NUMBERS = [n for n in sc.NUMBERS if n not in UNIT_NUMS] + UNIT_NUMS
SH_STRINGS = [s for s in sc.STRINGS if not (s[:1] in b"cCp")]
SH_OPS = [o for o in sc.OPERATORS if o not in (b"~", b"@", b"**")]
SH_COMMENTS = [c for c in sc.COMMENTS if not (c.startswith(b"#") and (b"\r" in c or c.startswith(b"#*"))) and b"*\r/" not in c]

# the first eight are regression cases of the repaired UNIT offset (tpl/scanner skipped blanks while a unit was pending)
FINDING_SET = [
    b"1m x", b"1m \n", b"2.5s\t+1", b"3ms\r\n", b"1m", b"1m\n", b"1m+2s", b"f(1m ,2)",
    b"#a\r\n", b"#\r", b"# c\r\nx", b"#\r\n", b"#*\n*/", b"#*x", b"#*x*/ y", b"#/x\r\n",
    b"/*x*\r/*/", b"/* *\r/ */", b"/*\r*/",
]


def shared_sequence(rng):
    n = 1 + rng.below(8)
    out = bytearray()
    shape = []
    prev_cls, prev, last_sep = None, b"", b"\n"
    unit_pending = False
    for i in range(n):
        cl = rng.choice(["ident", "number", "string", "operator", "comment", "odd"])
        if cl == "ident":
            lx = rng.choice(SH_IDENTS)
        elif cl == "number":
            lx = rng.choice(SH_NUMBERS)
        elif cl == "string":
            lx = rng.choice(SH_STRINGS)
        elif cl == "operator":
            lx = rng.choice(SH_OPS)
        elif cl == "comment":
            lx = rng.choice(SH_COMMENTS)
        else:
            lx = rng.choice(sc.ODD)
        if last_sep == b"" and out:
            glue = None
            wordlike = lx[:1].isalnum() or lx[:1] in (b"_", b".") or lx[0] >= 0x80
            if prev_cls == "number" and wordlike:
                glue = b" "                                  # would grow the number / its unit
            if prev_cls == "ident" and wordlike:
                glue = b" "                                  # would merge into another identifier (maybe a keyword)
            if prev_cls in ("ident", "number", "odd") and lx[:1] == b'"':
                glue = b" "                                  # c"..." / py"..."
            if prev[-1:] == b"*" and lx[:1] == b"*":
                glue = b" "                                  # ** is a TPL-only token
            if prev[-1:] == b"/" and lx[:1] in (b"/", b"*"):
                glue = b" "
            if prev[-1:] == b"." and lx[:1].isdigit():
                glue = b" "                                  # ".0b2" is the number .0 with the unit b2
            if prev_cls == "number" and prev[-1:] in b"eEpP" and lx[:1] in (b"+", b"-"):
                glue = b" "
            if glue:
                out += glue
        out += lx
        shape.append(cl[0])
        unit_pending = cl == "number" and lx in UNIT_NUMS
        sep = rng.choice(sc.SEPARATORS)
        if cl == "comment" and lx.startswith(b"#"):
            sep = b"\n"                                      # anything up to the line end (e.g. a \r) joins the '#' comment
        if cl == "comment" and lx.startswith(b"//") and b"\n" not in sep:
            sep = b"\n"
        out += sep
        prev_cls, prev, last_sep = cl, lx, sep
    return bytes(out), "".join(shape)


def run(ctx):
    ctx.regen(["scantok", "scanconst"])
    sc.gen_notes(ctx)
    ctx.prove("C32")
    R = sc.Runner(ctx)
    # every case is a tpl/scanner line: K-diff of the Tpl dialect against tpl/scanner, and the harness
    # compares the real tpl/scanner with the real XGo scanner on the same input (verdict field);
    # the XGo dialect itself is tied to scanner.Scan by C15 on the same kinds of input sets.
    #   "always": the real scanners must agree unless an unshared token kind occurs (finding-set dimensions skipped in
    #             the exhaustive sets)        "shared": they must agree wherever the model's `shared` holds
    groups = []
    alpha = sc.ALPHA_MED if ctx.quick else sc.ALPHA
    ex = sc.exhaustive(alpha, 3)
    groups.append(("exhaustive-bytes", ex, (True, False), "always"))
    core = sc.tok_exhaustive(sc.TOK_CORE, ctx.n(5, 6))
    groups.append(("exhaustive-tokens-core", core, (True,), "always"))
    wide = sc.tok_exhaustive(sc.TOK_WIDE, 3)
    groups.append(("exhaustive-tokens-wide", wide, (True, False), "always"))
    for k, v in sc.boundary_family().items():
        groups.append(("boundary-" + k, v, (True, False), "shared"))
    seqs, shapes = [], {}
    for _ in range(ctx.n(5000, 200000)):
        s, sh = shared_sequence(ctx.rng)
        while b"*\r" in s:          # could form '*\r/' inside an unterminated block comment: finding-set dimension
            s, sh = shared_sequence(ctx.rng)
        seqs.append(s)
        k = "lexemes=%d" % len(sh)
        shapes[k] = shapes.get(k, 0) + 1
    groups.append(("shared-lexeme-sequence", seqs, (True, False), "always"))
    st = [sc.stateful_sequence(ctx.rng, extra=(b"1m", b"2.5s", b"3r", b"//c\n", b"/*c*/", b"#c\n", b"?", b"=>", b"$"))[0]
          for _ in range(ctx.n(5000, 100000))]
    groups.append(("stateful-sequences", st, (True, False), "shared"))
    mal = [sc.random_sequence(ctx.rng, malformed=60)[0] for _ in range(ctx.n(3000, 100000))]
    groups.append(("malformed-or-unshared", mal, (True, False), "shared"))
    groups.append(("finding-set", list(FINDING_SET), (True, False), "always"))
    cases, meta = [], []
    for name, srcs, modes, how in groups:
        for s in srcs:
            for m in modes:
                cases.append(sc.case("t", m, s))
                meta.append((name, how))
    impl, model = R.correspond("scan(Tpl)~tpl/scanner.Scan", cases)
    # the hypothesis of C32_tpl_eq_xgo_on_shared, evaluated by the extracted model
    pidx = [i for i in range(len(cases)) if meta[i][0] != "exhaustive-bytes"]
    pred = dict(zip(pidx, R.run_pred(["x" + cases[i][1:] for i in pidx])))
    stats = {"compared": 0, "skipped_not_shared": 0, "skipped_sharp_dimension": 0,
             "skipped_block_cr_dimension": 0, "shared": 0}
    per_group, sh_group, verd = {}, {}, {}
    for i, c in enumerate(cases):
        name, how = meta[i]
        f = impl[i][1].split()
        v, dims = f[0], f[1:]
        verd[v] = verd.get(v, 0) + 1
        g = pred.get(i, (False, False))[1]
        fail = None
        if g:
            stats["shared"] += 1
            sh_group[name] = sh_group.get(name, 0) + 1
            if v != "eq":          # theorem: identical results, errors included
                fail = "shared holds in the model but the real scanners differ (%s)" % v
        if how == "always" and fail is None:
            if v == "unshared":
                stats["skipped_not_shared"] += 1
            elif name.startswith("exhaustive") and "dim-sharp" in dims:
                stats["skipped_sharp_dimension"] += 1
            elif name.startswith("exhaustive") and "dim-blockcr" in dims:
                stats["skipped_block_cr_dimension"] += 1
            else:
                stats["compared"] += 1
                per_group[name] = per_group.get(name, 0) + 1
                if v not in ("eq", "eqtok"):
                    fail = "tpl/scanner and XGo scanner differ"
        if fail:
            src, mode = sc.src_of(c), c[1]
            ctx.fail(sc.key_of("src", mode.encode() + src), "%s on %r (mode %s)" % (fail, src, mode),
                     {"src_repr": repr(src), "src_hex": src.hex(), "mode": mode, "group": name, "tpl": impl[i][0][:400], "verdict": impl[i][1]})
    ctx.cover(evaluations=len(cases), distinct_nontrivial=len(set(c[3:] for c in cases)),
              samples=[{"case": cases[k], "impl": impl[k][0][:160], "verdict": impl[k][1]} for k in (2 * len(ex) - 4, 2 * len(ex) + len(core) // 3, len(cases) - 2 * len(FINDING_SET) - 3, len(cases) - 2)],
              rule="exhaustive: all %d strings of <=3 symbols over a %d-symbol byte alphabet; token-level: all %d sequences of <=%d lexemes over "
                   "( ) ; ... ! newline a blank and all %d sequences of <=3 lexemes over a %d-lexeme alphabet (multi-character operators, "
                   "comments, unit numbers as single symbols: state carried across tokens - nParen, insertSemi, pending unit); the deterministic boundary-value family of scan_common.boundary_family (escapes, UTF-8 encodings, digit/radix "
                   "edges, //line numbers); %d seeded "
                   "shared-lexeme sequences (safe generator: non-keyword identifiers, Go literals, unit/rat/imag suffixes, shared operators, "
                   "// /* */ and # comments, odd bytes; nothing of the finding-set dimensions; blanks after a unit are generated again since the tpl/scanner repair); %d seeded stateful sequences of 4-12 lexemes; %d "
                   "mutated/unshared sequences; the fixed finding set (%d inputs). Every case is a tpl/scanner run (K-diff with the Tpl "
                   "dialect) compared by the harness with the real XGo scanner on the same input: (a) exhaustive / shared-sequence / finding "
                   "sets: must agree unless an unshared token kind occurs (in the exhaustive sets the two finding-set dimensions - "
                   "\\r or '#*' in a # comment, '*\\r' - are skipped and counted); (b) all other sets: must be identical "
                   "wherever the model's `shared` holds. distinct = distinct source"
                   % (len(ex), len(alpha), len(core), ctx.n(5, 6), len(wide), len(sc.TOK_WIDE), len(seqs), len(st), len(mal), len(FINDING_SET)),
              exhaustive=True, exhaustive_part=2 * len(ex) + len(core) + 2 * len(wide), compare_stats=stats, compared_per_group=per_group,
              shared_per_group=sh_group, real_scanner_verdicts=verd, sequence_shape_histogram=dict(sorted(shapes.items())))
    ctx.trust("modelled, not verified: tpl/scanner/scanner.go and scanner/scanner.go (one Gallina text with a dialect switch), each tied "
              "to its implementation by the differential run (the XGo dialect in C15)")
