"""C36 — the import cache key changes exactly when package sources change (tool/imp.go dirHash/canCl/PkgHash).

A  Props/C36.v: fingerprint = text(view) (irrelevant entries never matter), text injective on TAB-free names,
   hash_changes_iff over every history (SHA-256 collision-freeness a named hypothesis), the TAB collision.
B  K-diff: histories of real file-system operations in package directories of two real temporary modules
   (without / with registered class files); after every step  Importer.PkgHash(pkg, self)  is compared
   with  base64(SHA-256(fingerprint model(listing)))  -- the listing (os.ReadDir + Info) is dumped by the
   harness at that step, the digest is computed here with hashlib on the model's text.
C  direct oracle (harness, independent of dirHash): for every two steps of a history, hashes differ
   exactly when the sets {(name,size,mtime)} of compilable, non-underscore, non-directory entries differ.
"""
import base64
import hashlib

CLAIM = {
    "level": "proof",
    "text": "Coq theorems over a line-by-line model of dirHash/canCl producing the exact byte text fed to SHA-256: the text "
            "is a function of the relevant view only, it is injective on views whose file names contain no TAB (hex "
            "rendering of size/mtime proved injective), hence over every history of directory states the hash changes "
            "exactly when the view changes, assuming SHA-256 does not collide on the two texts; model tied to the code by "
            "comparing real Importer.PkgHash values with SHA-256 of the model's text on generated file-system histories.",
    "note": "SHA-256/base64 are not modelled (collision-freeness is a Section hypothesis; the digest is computed with hashlib "
            "on the model text). A file name containing TAB makes the text ambiguous: proved collision "
            "(C36_fingerprint_collision), replayed on a real directory, listed as known finding. mtimes are int64 "
            "nanoseconds (UnixNano); entries whose Info() fails are skipped by the code (modelled, not reproducible here).",
}

GOOD = ["a.go", "b.xgo", "c.gop", "d.gox", "e_test.gox", "main.spx", "x.gsh", "g.gmx", "t.tcl", "k.tsk", ".go", "gop_autogen.go",
        "é.go", "a b.go", "a\nb.go", "z.xgo", "A.go", "a.b.go", "..gox"]
BAD = ["_a.go", "_x.spx", "README.md", "x.txt", "noext", "a.go.bak", "a.GO", "a.go~", "go", ".gitignore", "b.xgo.", "spx", "m.spxx",
       "k.ts", "_", "a.goo", "x.mod", "go.sum"]
DIRS = ["sub", "sub.go", "_d", "pkg.xgo"]


def hx(s):
    b = s.encode("utf-8") if isinstance(s, str) else s
    return b.hex()


def gen_history(rng, maxops):
    """a seeded history over TAB-free names; returns list of op strings"""
    ops = []
    present = []
    n = 1 + rng.below(maxops)
    for _ in range(n):
        k = rng.below(20)
        pool = GOOD if rng.below(3) else BAD
        name = rng.choice(pool)
        if k < 9:
            size = rng.choice([0, 1, 2, 9, 10, 15, 16, 17, 255, 256, 4095, 4096, 70000])
            mt = rng.choice([0, 1, 2, 9, 15, 16, 10 ** 9, 1700000000 * 10 ** 9 + rng.below(10 ** 9), rng.below(2 ** 62), 2 ** 62, -1, -10 ** 9,
                             1790000000123456789])
            ops.append("w:%s:%d:%d" % (hx(name), size, mt))
            present.append(name)
        elif k < 11 and present:
            ops.append("t:%s:%d" % (hx(rng.choice(present)), rng.choice([0, 5, 16, 10 ** 18 + rng.below(1000), rng.below(2 ** 61)])))
        elif k < 13 and present:
            ops.append("a:%s:%d" % (hx(rng.choice(present)), 1 + rng.below(20)))
        elif k < 15:
            d = rng.choice(DIRS)
            ops.append("m:%s" % hx(d))
            present.append(d)
        elif k < 17 and present:
            ops.append("d:%s" % hx(rng.choice(present)))
        elif k < 19 and present:
            a = rng.choice(present)
            b = rng.choice(GOOD + BAD)
            ops.append("r:%s:%s" % (hx(a), hx(b)))
            present.append(b)
        else:
            ops.append("l:%s:%s" % (hx(name), hx(rng.choice(["a.go", "nowhere", "sub"]))))
            present.append(name)
    return ops


TABNAME = "a.go\t1\t2\nfile\tb.go"

DET = [
    # the TAB collision (known finding): {a.go(1,2), b.go(3,4)} at step 2 and {"a.go<TAB>1<TAB>2<LF>file<TAB>b.go"(3,4)} at step 4
    ("plain", 0, ["w:%s:1:2" % hx("a.go"), "w:%s:3:4" % hx("b.go"), "d:%s" % hx("a.go"), "r:%s:%s" % (hx("b.go"), hx(TABNAME))]),
    ("plain", 1, ["w:%s:1:2" % hx("a.go"), "w:%s:3:4" % hx("b.go"), "d:%s" % hx("a.go"), "r:%s:%s" % (hx("b.go"), hx(TABNAME))]),
    # TAB in a name without a collision partner, LF in names (harmless)
    ("plain", 0, ["w:%s:1:2" % hx("a\tb.go"), "w:%s:1:2" % hx("a\nb.go"), "d:%s" % hx("a\tb.go")]),
    # irrelevant churn around one source file
    ("plain", 1, ["w:%s:5:100" % hx("a.go"), "w:%s:5:100" % hx("_a.go"), "m:%s" % hx("sub.go"), "w:%s:1:1" % hx("x.txt"),
                  "t:%s:7" % hx("_a.go"), "d:%s" % hx("x.txt"), "t:%s:101" % hx("a.go"), "t:%s:100" % hx("a.go")]),
    ("classes", 0, ["w:%s:1:1" % hx("main.spx"), "w:%s:1:1" % hx("t.tcl"), "w:%s:1:1" % hx("k.tsk"), "w:%s:1:1" % hx("m.spxx"),
                    "r:%s:%s" % (hx("t.tcl"), hx("t.tc")), "r:%s:%s" % (hx("t.tc"), hx("_t.tcl"))]),
    ("plain", 0, ["w:%s:1:1" % hx("main.spx"), "w:%s:1:1" % hx("t.tcl"), "w:%s:1:1" % hx("x.gsh")]),
    # size / mtime digit boundaries of %x, sign
    ("plain", 0, ["w:%s:15:15" % hx("a.go"), "w:%s:16:16" % hx("a.go"), "w:%s:17:-1" % hx("a.go"), "w:%s:0:0" % hx("a.go"),
                  "w:%s:256:-16" % hx("a.go"), "w:%s:1:16" % hx("a.go"), "w:%s:16:1" % hx("a.go")]),
    # same content moved between names
    ("plain", 0, ["w:%s:3:9" % hx("a.go"), "r:%s:%s" % (hx("a.go"), hx("b.go")), "r:%s:%s" % (hx("b.go"), hx("a.go")),
                  "r:%s:%s" % (hx("a.go"), hx("a.txt")), "r:%s:%s" % (hx("a.txt"), hx("a.xgo"))]),
]


def digest(text_hex):
    data = b"" if text_hex == "-" else bytes.fromhex(text_hex)
    return base64.b64encode(hashlib.sha256(data).digest()).decode().rstrip("=")


def run(ctx):
    ctx.regen(["c36"])      # K-gen: Gen/C36.v from the current source; its obligations are theorems of Props/C36.v
    ctx.prove("C36")
    model = ctx.model("c36")
    impl = ctx.harness("c36")
    import os
    work = os.path.join(ctx.scratch, "mods")
    os.makedirs(work, exist_ok=True)

    cases = [(cfg, self_, ops, "det") for cfg, self_, ops in DET]
    for _ in range(ctx.n(260, 6000)):
        cases.append((ctx.rng.choice(["plain", "classes"]), ctx.rng.below(2), gen_history(ctx.rng, 12), "seeded"))
    lines = ["INFO"] + ["%s %d %s" % (cfg, s, " ".join(ops)) for cfg, s, ops, _ in cases]
    rc, out = ctx.run([impl, "-dir", work], input="\n".join(lines) + "\n", timeout=300)
    ol = out.splitlines()
    ctx.log("implementation ran %d histories" % len(cases))
    if rc != 0 or len(ol) != len(lines):
        ctx.broken("correspondence(c36:run)", "impl rc=%d lines=%d/%d %s" % (rc, len(ol), len(lines), out[-400:]))
        return
    gov, xgov, classes = ol[0].split()
    # model: one line per step of every history
    mlines, index = [], []
    for ci, ((cfg, s, ops, _), l) in enumerate(zip(cases, ol[1:])):
        f = l.split("\t")
        if f[0].startswith(("PANIC", "SETUP_ERR", "UNSTABLE", "BADCASE")):
            ctx.broken("correspondence(c36:harness)", "case %d: %s" % (ci, l[:300]))
            continue
        for si, st in enumerate(f[0].split(" ")):
            h, ents = st.split("|")
            mlines.append("%s %s %s" % (classes if cfg == "classes" else "-", (gov + ":" + xgov) if s else "-", ents))
            index.append((ci, si, h, ents))
    rc2, out2 = ctx.run([model], input="\n".join(mlines) + "\n")
    ml = out2.splitlines()
    if rc2 != 0 or len(ml) != len(mlines):
        ctx.broken("correspondence(c36:model)", "model rc=%d lines=%d/%d %s" % (rc2, len(ml), len(mlines), out2[-300:]))
        return
    impl_h = [h for (_, _, h, _) in index]
    model_h = [digest(l.split("\t")[0]) if not l.startswith("BADCASE") else l for l in ml]
    ctx.diff_lines("SHA256(fingerprint)~Importer.PkgHash", ["%s step %d: %s" % (lines[ci + 1][:200], si, e[:200]) for (ci, si, _, e) in index],
                   "\n".join(impl_h), "\n".join(model_h))

    # direct oracle verdicts of the harness
    shapes, ophist = {}, {}
    nontriv = set()
    for (cfg, s, ops, kind), l, line in zip(cases, ol[1:], lines[1:]):
        f = l.split("\t")
        verdict = f[1] if len(f) > 1 else "no-verdict"
        for o in ops:
            ophist[o[0]] = ophist.get(o[0], 0) + 1
        shapes["%s/self=%d/%s" % (cfg, s, kind)] = shapes.get("%s/self=%d/%s" % (cfg, s, kind), 0) + 1
        hs = [st.split("|")[0] for st in f[0].split(" ")]
        if len(set(hs)) >= 3:
            nontriv.add(line)
        if verdict != "ok":
            ctx.fail("hist:" + hashlib.sha256(line.encode()).hexdigest()[:12],
                     "PkgHash over history [%s]: %s" % (line[:300], verdict),
                     {"case": line, "ops_decoded": [decode_op(o) for o in ops], "impl": l[:3000]})
    nsteps = len(index)
    ctx.cover(evaluations=nsteps, distinct_nontrivial=len(nontriv),
              samples=[{"case": lines[i + 1][:300], "impl": ol[i + 1][:300]} for i in (0, len(DET), len(cases) - 1)],
              rule="%d deterministic + %d seeded histories of 1-12 real file-system operations (write/append/chtimes/mkdir/remove/rename/"
                   "symlink) over %d compilable and %d non-compilable names and %d directory names, in a module without and a module "
                   "with registered class files, self=0/1; every step's hash compared (%d steps); seeded names contain no TAB "
                   "(TAB names only in the deterministic set: known finding); non-trivial = history with >=3 distinct hashes"
                   % (len(DET), len(cases) - len(DET), len(GOOD), len(BAD), len(DIRS), nsteps),
              history_shape_histogram=shapes, op_histogram=ophist, go_version=bytes.fromhex(gov).decode(),
              class_extensions=[bytes.fromhex(c).decode() for c in classes.split(",")])
    ctx.assume("SHA-256 does not collide on the texts compared (named hypothesis H_inj of C36_hash_changes_iff)",
               "file mtimes lie in the int64 UnixNano range; os.ReadDir returns each name once",
               "file names contain no TAB (guard of the injectivity theorem; violated only by the listed finding)")
    ctx.trust("modelled, not verified: tool/imp.go dirHash, canCl and goplus/mod modfile.ClassExt / Module.IsClass (hand-written Gallina "
              "Model/C36.v producing the hashed text), tied by comparing real PkgHash values with SHA-256 of the model text",
              "not modelled: crypto/sha256, base64, os.ReadDir ordering, Module.Lookup (the harness uses a PkgtModule package)")


def decode_op(o):
    f = o.split(":")
    out = [f[0]]
    for x in f[1:]:
        try:
            out.append(bytes.fromhex(x).decode("utf-8", "replace") if len(x) % 2 == 0 and not x.lstrip("-").isdigit() else x)
        except ValueError:
            out.append(x)
    return out
