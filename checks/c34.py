"""C34 — directory parsing selects and classifies exactly the right files (parser/parser_gop.go).

A  Props/C34.v: classify_spec (the extension switch = the documented kinds), select_files_spec (iff),
   grouping_by_pkg, entry_matches_dir, error_iff ...
B  K-diff: extracted parse_dir / classify_entry  vs  the real parser.ParseFSDir / ParseFSEntry over an
   in-memory FileSystem with directories, unreadable files and failing Info(); the outcome of the parsers
   on every single file is measured by the harness and handed to the model, the model reproduces
   selection, flags (IsProj/IsClass/IsNormalGox/go-parser), grouping by package and error presence.
C  direct oracle in the harness: the property restated file by file on the returned package map.
"""
import itertools

CLAIM = {
    "level": "proof",
    "text": "Coq theorems over a line-by-line model of the ParseFSDir loop (extension switch with fallthrough, "
            "ParseGoAsGoPlus, gop_autogen and underscore exclusion, filter, class-kind function as a parameter, reqPkg "
            "grouping) and of ParseFSEntry: a file is in the result iff the declarative inclusion predicate holds, with "
            "exactly the flags of its documented kind, under the package name its parser reported, for every listing "
            "and every class-kind function; model tied to the code by exhaustive single-file directories over a name "
            "alphabet plus seeded multi-file directories through the real ParseFSDir/ParseFSEntry.",
    "note": "The XGo and Go parsers are not modelled: their result per file (package name / nil file / error, with and "
            "without ParseGoPlusClass) is an input of the model, measured by the harness with direct calls. Listings "
            "with duplicate names are not generated (a directory has none). Trusted: Coq kernel, extraction, harness.",
}

P_FOO = "package foo\n"
P_BAR = "package bar\n\nfunc F() {}\n"
SCRIPT = "x := 1\n"
BROKEN = "package foo\nfunc ("
CLSVAR = "var (\n\tFoo\n)\n"          # parses without error only in class mode
BADPKG = "package 1\n"
EMPTY = ""
CONTENTS = [P_FOO, SCRIPT, CLSVAR, BROKEN, P_BAR, BADPKG, EMPTY, None]    # None = unreadable (not in the file map)

STEMS = ["a", "main", "mainx", "xmain", "_u", "gop_autogen", "gop_autogen_x", "gop_autoge", "x_test", "q", "Main", "a.b", ""]
EXTS = [".xgo", ".gop", ".go", ".gox", ".spx", ".gsh", ".gmx", ".yap", "_yap.gox", ".txt", "", ".GO", ".xgo.bak", ".go.xgo", "."]
NAMES = [s + e for s in STEMS for e in EXTS if s + e not in ("", ".")]


def hx(s):
    return (s.encode() if isinstance(s, str) else s).hex()


def ent(name, isdir=False, infoerr=False, content=P_FOO):
    return "%s:%d:%d:%s" % (hx(name), isdir, infoerr, hx(content) if content is not None else "-")


def run(ctx):
    ctx.regen(["c34"])      # K-gen: Gen/C34.v from the current source; its obligations are theorems of Props/C34.v
    ctx.prove("C34")
    model = ctx.model("c34")
    impl = ctx.harness("c34")
    rng = ctx.rng
    cases, labels = [], []
    # exhaustive: every single-file directory over the name alphabet x content x mode x filter x class kind
    conts = CONTENTS[:4] if ctx.quick else CONTENTS
    for name in NAMES:
        for c in conts:
            for mode in ("0", "g"):
                for flt in ("0", "1"):
                    for ck in "012345":
                        cases.append("D %s %s %s %s" % (mode, flt, ck, ent(name, content=c)))
                        labels.append("single")
    nsingle = len(cases)
    # every name through ParseFSEntry
    for name in NAMES:
        for ck in "012345":
            for c in (P_FOO, None):
                cases.append("E %s %s %s %s" % (rng.choice(["0", "g", "c"]), ck, hx(name), hx(c) if c is not None else "-"))
                labels.append("entry")
    nentry = len(cases) - nsingle
    # seeded: directories of several files, unique names, sub-directories, failing Info, all options
    for _ in range(ctx.n(2500, 60000)):
        n = rng.below(9)
        names = []
        while len(names) < n:
            nm = rng.choice(NAMES) if rng.below(8) else rng.choice(["é.xgo", "a b.gox", "x.spx.gox", "main.gsh", "t.tar.gz", "..go"])
            if nm not in names:
                names.append(nm)
        es = []
        for nm in names:
            isdir = rng.below(8) == 0
            infoerr = rng.below(12) == 0
            c = rng.choice(CONTENTS) if rng.below(3) else P_FOO
            es.append(ent(nm, isdir, infoerr, None if isdir else c))
        mode = rng.choice(["0", "g", "a", "c", "ga", "gc", "gac"])
        cases.append("D %s %s %s %s" % (mode, rng.choice("0123"), rng.choice("012345"), " ".join(es)))
        labels.append("multi%d" % min(n, 8))
    rc, out = ctx.run([impl], input="\n".join(cases) + "\n")
    ol = out.splitlines()
    ctx.log("implementation parsed %d directories / entries" % len(cases))
    if rc != 0 or len(ol) != len(cases):
        ctx.broken("correspondence(c34:run)", "impl rc=%d lines=%d/%d %s" % (rc, len(ol), len(cases), out[-300:]))
        return
    fields = [l.split("\t") for l in ol]
    mcases = [f[0] for f in fields]
    rc2, out2 = ctx.run([model], input="\n".join(mcases) + "\n")
    if rc2 != 0:
        ctx.broken("correspondence(c34:model)", "model rc=%d %s" % (rc2, out2[-300:]))
        return
    # ParseFSEntry of an unreadable file returns no file at all: the model only classifies the name
    ml = out2.rstrip("\n").split("\n")
    if len(ml) == len(cases):
        ml = ["NILFILE" if (c.startswith("E ") and c.endswith(" -") and m != "UNKNOWN") else m for c, m in zip(cases, ml)]
    ctx.diff_lines("parse_dir~ParseFSDir,classify_entry~ParseFSEntry", cases, "\n".join(f[1] if len(f) > 1 else "?" for f in fields), "\n".join(ml))
    shapes, kinds = {}, {}
    nontriv = set()
    import hashlib
    for c, lab, f in zip(cases, labels, fields):
        shapes[lab] = shapes.get(lab, 0) + 1
        res = f[1] if len(f) > 1 else ""
        for k in ("/go", "/x000", "/x010", "/x110", "/x011", "/x111", "UNKNOWN", "NILFILE"):
            if k in res:
                kinds[k.strip("/")] = kinds.get(k.strip("/"), 0) + res.count(k)
        if "=[" in res or res.startswith("x"):
            nontriv.add(c)
        verdict = f[2] if len(f) > 2 else "no-verdict"
        if verdict != "ok":
            ctx.fail("dir:" + hashlib.sha256(c.encode()).hexdigest()[:12], "ParseFSDir/ParseFSEntry on [%s]: %s -> %s" % (describe(c)[:300], verdict, res[:300]),
                     {"case": c, "decoded": describe(c), "impl": "\t".join(f)[:3000]})
    ctx.cover(evaluations=len(cases), distinct_nontrivial=len(nontriv),
              samples=[{"case": describe(cases[i])[:300], "impl": fields[i][1][:300]} for i in (3, nsingle + 5, len(cases) - 1)],
              rule="exhaustive single-file directories: %d names (%d stems x %d extensions) x %d contents x 2 modes x 2 filters x 6 class-kind "
                   "functions = %d; ParseFSEntry on every name x 6 class kinds x readable/unreadable = %d; %d seeded directories of 0-8 "
                   "unique names with sub-directories, failing Info(), 8 content kinds (valid, script, class-only, broken, bad package "
                   "clause, empty, unreadable), 7 mode combinations, 4 filters; duplicate names in a listing are not generated; "
                   "non-trivial = at least one file selected" % (len(NAMES), len(STEMS), len(EXTS), len(conts), nsingle, nentry, len(cases) - nsingle - nentry),
              case_shape_histogram=shapes, result_kind_histogram=kinds)
    ctx.assume("a directory listing has no duplicate names (the package maps are keyed by file name)")
    ctx.trust("modelled, not verified: parser/parser_gop.go ParseFSDir loop, ParseFSEntry, defaultClassKind, reqPkg (Model/C34.v), tied by the "
              "differential run", "not modelled: the XGo and Go parsers (their per-file result is measured and passed to the model)")


def describe(c):
    f = c.split()
    if f[0] == "D":
        es = []
        for e in f[4:]:
            p = e.split(":")
            es.append("%s%s%s" % (bytes.fromhex(p[0]).decode("utf-8", "replace"), "/" if p[1] == "1" else "", "!" if p[2] == "1" else ""))
        return "D mode=%s filter=%s classkind=%s %s" % (f[1], f[2], f[3], " ".join(es))
    return "E mode=%s classkind=%s %s" % (f[1], f[2], bytes.fromhex(f[3]).decode("utf-8", "replace"))
