"""C39 — every JSON-RPC call completes exactly once with its own answer (x/jsonrpc2/conn.go).

A  Props/C39.v: invariants of the connection LTS (Model/C39.v) over ALL reachable states, plus the
   K-gen obligations  generated = modelled  (every updateInFlight critical section of conn.go, hashed;
   idle()/shuttingDown() translated into the model).
B  every history recorded on the real Connection (scripted peer with injected read/write errors, and
   two real Connections talking through the HeaderFramer over an in-memory duplex stream; gated
   handlers, async Respond, Cancel, Close racing with disconnect; built with -race) must be accepted
   by the EXTRACTED step function (closure under the unlogged implementation steps, proved complete:
   C39_acceptor_closure_complete) and end in a quiescent done state.
C  direct oracle in the harness: Await returns exactly once / never (timeout), second Await differs,
   incoming call answered more often than asked, Close hanging after the handlers finished, rwc closed
   twice, panics and race reports (the process dies: the scenario is identified by its BEGIN marker).
"""
import re

from vlib import sha

CLAIM = {
    "level": "other",
    "text": "Coq theorems over a transition-system model of the jsonrpc2 Connection (one transition per "
            "updateInFlight critical section + the shared idle/shutdown epilogue, any number of calls/threads, any "
            "interleaving): retire at most once (the three panics of conn.go are unreachable), Await gets the response "
            "with its own ID, every registered call is retired when the connection is done, every incoming call is "
            "answered at most once, done only when idle and not reading, a progress measure that strictly decreases "
            "on every implementation/completion step, and no internal deadlock (while not done and no async response is "
            "owed, a non-arrival step is enabled; measure 0 implies done). The model is tied to conn.go by regenerated section hashes / translated "
            "idle() and shuttingDown() (K-gen) and by replaying recorded histories of the real Connection through the "
            "extracted step function (K-diff).",
    "note": "Safety is proved on the model for all interleavings; liveness ('Close returns once handlers finish') is a "
            "measure + no-internal-deadlock argument on the model (fairness and a Reader that fails after the stream is closed "
            "are assumed), real scheduling is only explored (bounded scenarios, -race). Known finding: over a synchronous stream "
            "(net.Pipe) two Connections that answer from their read loops block each other in Write. "
            "Assumed: critical sections are atomic (stateMu), Go channel close/select semantics, the handler contract "
            "(Respond exactly once and only after ErrAsyncResponse; no ErrAsyncResponse for notifications). The Go code is "
            "modelled, not verified; the harness (logging framer, scripted peer) and the acceptor driver are trusted.",
}

BEHAVIOURS = ["ok%d", "ok%d", "ok%d", "err%d", "nh", "bad", "async%d", "asyncg%s_%d", "gate%s_%d", "gate%s_%d",
              "pok%d", "perr%d", "pasync%d", "pcancel%s", "pgate%s", "echo%d"]
GATES = ["g1", "g2"]
IN_IDS = ["i5", "i6", "i7", "s8", "i5", "-", "-"]


class Gen:
    def __init__(self, rng):
        self.rng = rng
        self.tag = 10

    def t(self):
        self.tag += 1
        return self.tag

    def behaviour(self):
        b = self.rng.choice(BEHAVIOURS)
        n = b.count("%")
        if b.startswith("err") or b.startswith("perr"):
            return b % self.rng.below(6)
        if b.startswith("pcancel"):
            return b % self.rng.choice(IN_IDS[:5])
        if b.startswith("pgate"):
            return b % self.rng.choice(GATES)
        if n == 2:
            return b % (self.rng.choice(GATES), self.t())
        if n == 1:
            return b % self.t()
        return b

    def actor(self, real, can_close):
        ops = []
        for _ in range(1 + self.rng.below(4)):
            k = self.rng.below(100)
            if k < 40:
                fl = "-" if self.rng.below(10) < 8 else self.rng.choice(["b", "x"])
                ops.append("call:%s:%s" % (fl, self.behaviour()))
            elif k < 55:
                fl = "-" if self.rng.below(10) < 8 else self.rng.choice(["b", "x"])
                ops.append("notify:%s:%s" % (fl, self.behaviour()))
            elif k < 62:
                ops.append("cancel:" + self.rng.choice(IN_IDS[:5] + ["i1", "i2"]))
            elif k < 66:
                ops.append("respond:s99:k%d" % self.t())
            elif k < 74:
                ops.append("gate:" + self.rng.choice(GATES))
            elif k < 84:
                ops.append("waitev:%s:%d" % (self.rng.choice(["hb", "cr", "wr", "rm", "wc", "aw", "pb"]), 1 + self.rng.below(2)))
            elif k < 90:
                ops.append(self.rng.choice(["yield", "nap"]))
            elif k < 96 and can_close:
                ops.append(self.rng.choice(["close", "close", "wait"]))
            elif real and k >= 96:
                ops.append("disconnect")
        return ops

    def peer(self):
        ops = []
        ncall = 0
        for _ in range(self.rng.below(7)):
            k = self.rng.below(100)
            if k < 45:
                ops.append("req:%s:%s" % (self.rng.choice(IN_IDS), self.behaviour()))
            elif k < 70:
                body = "r%d" % self.t() if self.rng.below(4) else "e%d" % (100 + self.rng.below(6))
                ops.append("resp:%d:%s" % (ncall, body))
                ncall += 1
            elif k < 76:
                ops.append("respid:%s:r%d" % (self.rng.choice(["i1", "i9", "s1", "i2"]), self.t()))
            elif k < 82:
                ops.append("gate:" + self.rng.choice(GATES))
            elif k < 90:
                ops.append("waitev:%s:%d" % (self.rng.choice(["hb", "cr", "wc", "hr", "xb"]), 1 + self.rng.below(2)))
            elif k < 94:
                ops.append("nap")
            else:
                ops.append("readerr")
                break
        return ops

    def fails(self):
        if self.rng.below(3):
            return "-"
        return ",".join(str(k) for k in sorted(set(self.rng.below(6) for _ in range(1 + self.rng.below(2)))))

    def scripted(self, g):
        hdr = "P%d0 Ms G%d FA%s" % (self.rng.below(2), g, self.fails())
        if self.rng.below(30) == 0:
            hdr += " BC"
        actors = [self.actor(False, True) for _ in range(1 + self.rng.below(3))]
        return hdr + "".join(" / " + " ".join(a) for a in actors) + " ~ " + " ".join(self.peer())

    def real(self, g):
        hdr = "P%d%d Mr G%d FA%s FB%s" % (self.rng.below(2), self.rng.below(2), g, self.fails(), self.fails())
        a = [self.actor(True, True) for _ in range(1 + self.rng.below(2))]
        b = [self.actor(True, True) for _ in range(1 + self.rng.below(2))]
        return hdr + "".join(" / " + " ".join(x) for x in a) + " // " + " / ".join(" ".join(x) for x in b)


# deterministic scenarios: one or more per transition / corner of the model (run on every run, every schedule)
FIXED = [
    "P00 Ms G0 FA- / call:-:ok1 waitev:aw:1 close ~ resp:0:r7",
    "P00 Ms G0 FA- / call:-:ok1 call:-:ok2 waitev:aw:2 close ~ resp:1:r8 resp:0:e103",
    "P00 Ms G0 FA- / call:-:ok1 waitev:wc:1 close ~ waitev:xb:1 nap resp:0:r9",              # Close waits for the outstanding call
    "P00 Ms G0 FA- / call:-:ok1 ~ waitev:wc:1 readerr",                                        # read error retires the call
    "P00 Ms G0 FA0 / call:-:ok1 call:-:ok2 ~ resp:0:r5",
    "P00 Ms G0 FA0 / call:-:ok1 ~ waitev:wc:1 readerr",                                        # failed write racing with the read error (both want to retire)
    "P00 Ms G0 FA- / call:x:ok1 ~ waitev:wc:1 readerr",                                       # write error: call retired, later calls refused
    "P00 Ms G0 FA- / call:b:ok1 call:x:ok2 notify:b:x notify:x:y notify:-:z",                  # marshal errors, cancelled ctx
    "P00 Ms G0 FA0 / notify:-:a notify:-:b call:-:ok1",                                        # notify write error
    "P00 Ms G0 FA- / close call:-:ok1 notify:-:x",                                             # calls after Close are refused
    "P00 Ms G0 FA- BC / call:-:ok1 notify:-:x",                                                # Bind closes the connection
    "P00 Ms G0 FA- / wait / waitev:vb:1 close",
    "P00 Ms G0 FA- / close / close / wait",
    "P10 Ms G0 FA- / waitev:wr:3 close ~ req:i5:ok3 req:-:ok4 req:i6:err2 req:i7:nh req:-:nh",
    "P00 Ms G0 FA- / waitev:wr:2 close ~ req:i5:ok3 req:s8:bad req:i6:ok4",                    # no preempter; unmarshalable result
    "P10 Ms G0 FA- / waitev:wr:3 close ~ req:i5:pok3 req:i6:perr1 req:-:pok1 req:i7:pasync5",
    "P00 Ms G0 FA- / waitev:rr:2 close ~ req:i5:async5 req:i6:asyncgg1_6 waitev:hr:2 gate:g1",
    "P00 Ms G0 FA- / waitev:hb:1 close waitev:xb:1 gate:g1 ~ req:i5:gateg1_3 req:i6:ok4 req:-:ok5",   # queue drained while closing
    "P10 Ms G0 FA- / waitev:wr:1 close ~ req:i5:gateg1_3 waitev:hb:1 req:-:pcanceli5",         # Cancel of a running handler
    "P10 Ms G0 FA- / waitev:wr:2 close ~ req:i5:gateg1_3 req:i6:ok2 waitev:hb:1 req:-:pcanceli6 req:-:pgateg1",  # Cancel of a queued request
    "P00 Ms G0 FA- / waitev:wr:1 close ~ req:i5:gateg1_3 waitev:hb:1 req:i5:ok4 gate:g1",      # duplicate ID in flight: second request not answered
    "P00 Ms G0 FA- / waitev:wr:2 close ~ req:i5:ok3 waitev:wr:1 req:i5:ok4",                   # ID reused after the answer
    "P00 Ms G0 FA0 / waitev:hr:2 close ~ req:i5:ok3 req:i6:ok4 req:-:ok5",                     # response write error cancels the rest
    "P00 Ms G0 FA0 / waitev:hb:1 gate:g1 ~ req:i5:gateg1_1 req:i6:ok4 req:i7:ok5",             # write error while others are queued
    "P00 Ms G0 FA- / respond:s99:k1 cancel:i77 close",                                         # Respond for an unknown request
    "P00 Ms G0 FA- / call:-:ok1 waitev:aw:1 close ~ respid:i9:r1 respid:s1:r2 resp:0:r3 respid:i1:r4",  # foreign / repeated response IDs
    "P00 Ms G0 FA- / waitev:hb:1 close ~ req:i5:echo3 resp:0:r3",                              # call made from inside a handler
    "P00 Ms G0 FA- / waitev:rm:1 close ~ req:i5:ok1 readerr",
    "P00 Ms G0 FA- / waitev:xb:1 nap call:-:ok1 / close ~ req:i5:gateg1_1 waitev:xb:1 nap nap req:i6:ok2 req:-:ok3 gate:g1",  # requests arriving while closing
    "P00 Ms G0 FA- / waitev:hr:1 waitev:xb:1 notify:-:x gate:g1 / waitev:hr:1 close ~ req:i5:asyncgg1_4",  # Notify allowed while an incoming call is pending
    "P11 Mr G0 FA- FB- / call:-:ok1 call:-:echo5 call:-:async7 notify:-:ok0 waitev:aw:3 close // waitev:xb:0",
    "P11 Mr G0 FA- FB- / call:-:gateg1_3 call:-:ok2 // waitev:hb:1 disconnect",
    "P01 Mr G0 FA- FB0 / call:-:ok1 call:-:ok2 // call:-:ok3",
    "P10 Mr G0 FA1 FB- / call:-:ok1 call:-:ok2 call:-:ok3 // call:-:gateg2_3 close",
    "P11 Mr G0 FA- FB- / call:-:gateg1_3 waitev:wc:1 close // waitev:hb:1 close gate:g1",
]


# deterministic scenarios on which the unchanged tree fails (listed in known_findings.txt); one schedule each.
# Mp = the two Connections talk over net.Pipe (synchronous, the transport of jsonrpc2test); ND = the harness never
# disconnects the peer to help Close; T400 = 400 ms instead of 6 s before "never".
FINDINGS = [
    "P11 Mp G0 T400 ND FA- FB- / call:-:prv1 // call:-:prv2",
]


def run_harness(ctx, exe, lines, seed, label):
    """-> list of (idx, verdict, histA, histB); a crash is turned into a CRASH verdict and the run resumes."""
    results = {}
    start = 0
    inp = "\n".join(lines) + "\n"
    env = dict(__import__("os").environ)
    env["GORACE"] = "halt_on_error=1 exitcode=66"
    while start < len(lines):
        rc, out = ctx.run([exe, "--seed", str(seed), "--start", str(start)], input=inp, timeout=900, env=env)
        last_begin = None
        for l in out.splitlines():
            if l.startswith("BEGIN "):
                last_begin = int(l.split()[1])
                continue
            f = l.split("\t")
            if len(f) == 4 and f[0].isdigit():
                results[int(f[0])] = (f[1], f[2], f[3])
        if last_begin is not None and last_begin not in results:
            results[last_begin] = ("CRASH:rc=%d" % rc, "-", "-")
            start = last_begin + 1
            continue
        if rc != 0 and last_begin is None:
            raise RuntimeError("harness failed before the first scenario (%s): rc=%d %s" % (label, rc, out[-500:]))
        break
    return [(i,) + results.get(i, ("CRASH:no-result", "-", "-")) for i in range(len(lines))]


def crash_reason(ctx, exe, line, seed, idx):
    env = dict(__import__("os").environ)
    env["GORACE"] = "halt_on_error=1 exitcode=66"
    import subprocess
    from vlib import sh
    why = "not reproduced alone"
    for _ in range(3):
        rc, out = sh("ulimit -v 8000000; exec timeout 120 '%s' --seed %d --start %d" % (exe, seed, idx),
                     input=("\n" * idx + line + "\n").encode(), env=env, cwd=ctx.scratch, stderr=subprocess.STDOUT)
        m = re.search(r"(panic: [^\n]*|WARNING: DATA RACE|fatal error: [^\n]*)", out)
        if m:
            return m.group(1)[:200]
        if rc != 0:
            why = "rc=%d" % rc
    return why


def run(ctx):
    ctx.level = "other"
    ctx.regen(["connsites"])
    ctx.prove("C39")
    model = ctx.model("c39")
    impl = ctx.harness("c39", race=True)

    gen = Gen(ctx.rng)
    scen = []          # (scenario line, kind)
    for s in FIXED:
        scen.append((s, "fixed"))
    nrand = ctx.n(100, 4000)
    for i in range(nrand):
        if i % 3 == 2:
            scen.append((gen.real(0), "random-real"))
        else:
            scen.append((gen.scripted(0), "random-scripted"))
    # three schedules per scenario: unperturbed, light and heavy Gosched/sleep injection
    lines, kinds = [], []
    for g in (0, 2, 6):
        for s, k in scen:
            lines.append(re.sub(r" G\d+ ", " G%d " % g, s, count=1))
            kinds.append(k)
    for s in FINDINGS:
        lines.append(s)
        kinds.append("known-finding")
    res = run_harness(ctx, impl, lines, ctx.seed, "c39")

    hists, owner = [], []
    for (i, verdict, ha, hb) in res:
        for h in (ha, hb):
            if h != "-":
                hists.append(h)
                owner.append(i)
    rc, out = ctx.run([model], input="\n".join(hists) + "\n", timeout=600)
    mlines = out.splitlines()
    if rc != 0 or len(mlines) != len(hists):
        ctx.broken("correspondence(c39:model-run)", "rc=%d lines=%d expected=%d %s" % (rc, len(mlines), len(hists), out[-300:]))
        mlines = (mlines + ["MISSING"] * len(hists))[:len(hists)]

    rejected = {}
    maxstates = 0
    for h, i, m in zip(hists, owner, mlines):
        mm = re.search(r"max=(\d+)", m)
        if mm:
            maxstates = max(maxstates, int(mm.group(1)))
        good = m.startswith("ACCEPT") and "quiescent=1" in m and "done=1" in m
        if not good and res[i][1] == "ok":
            rejected.setdefault(i, (h, m))
    if rejected:
        i, (h, m) = sorted(rejected.items())[0]
        ctx.broken("correspondence(history~extracted-step)",
                   "%d of %d histories of the real Connection are not accepted by the model; first: scenario=%s model=%s history=%s"
                   % (len(rejected), len(hists), lines[i], m, h[:600]))
        ctx.notes.setdefault("disagreements", []).extend(
            [{"case": lines[i], "impl": h[:800], "model": m} for i, (h, m) in sorted(rejected.items())[:20]])

    nfail = 0
    ncrash = 0
    for (i, verdict, ha, hb) in res:
        if verdict == "ok":
            continue
        nfail += 1
        why = verdict
        if verdict.startswith("CRASH") and ncrash < 5:   # the first few crashes are re-run alone to get the panic / race text
            ncrash += 1
            why = "CRASH:" + crash_reason(ctx, impl, lines[i], ctx.seed, i)
        # the key identifies the scenario (schedule level removed): stable across runs and seeds
        key = "sc:" + sha(re.sub(r" G\d+ ", " ", lines[i], count=1))
        ctx.fail(key, "scenario `%s`: %s" % (lines[i], why),
                 {"scenario": lines[i], "seed": ctx.seed, "index": i, "verdict": why, "history_A": ha, "history_B": hb,
                  "how": "echo '<scenario>' | build/bin/h_c39_race --seed <seed>"})

    # coverage
    evhist, kindhist = {}, {}
    nontriv = set()
    for h, i in zip(hists, owner):
        toks = h.split()
        for t in toks[1:]:
            p = t.split(":")[0]
            evhist[p] = evhist.get(p, 0) + 1
        if len(toks) >= 8 and any(t.startswith(("cb", "rm:q")) for t in toks):
            nontriv.add(h)
    for k in kinds:
        kindhist[k] = kindhist.get(k, 0) + 1
    sizes = {}
    for h in hists:
        b = min(len(h.split()) // 10 * 10, 90)
        sizes["%d-%d events" % (b, b + 9)] = sizes.get("%d-%d events" % (b, b + 9), 0) + 1
    ok_i = [i for (i, v, _, _) in res if v == "ok"]
    samples = [{"scenario": lines[i], "history_A": res[i][2][:400]} for i in (ok_i[:1] + ok_i[len(FIXED) + 1:len(FIXED) + 3])]
    ctx.cover(evaluations=len(hists), distinct_nontrivial=len(nontriv), samples=samples,
              rule="%d fixed scenarios (one or more per transition of the model) + %d seeded random scenarios (2/3 scripted peer with "
                   "injected read/write errors, 1/3 two real Connections with the HeaderFramer over an in-memory buffered duplex stream), each under 3 schedules (Gosched/sleep "
                   "injection levels 0,2,6; %d scenario runs), harness built with -race; every recorded history (%d = evaluations, both sides "
                   "of the real pairs) replayed through the extracted step function; non-trivial = distinct history with >= 8 events and at least one call or "
                   "incoming request. Not generated (contract of the Handler, stated in the model): Respond before the handler returned "
                   "ErrAsyncResponse or twice, ErrAsyncResponse for a notification, non-nil result together with an error, negative IDs."
                   % (len(FIXED), nrand, len(lines), len(hists)),
              scenario_kinds=kindhist, event_histogram=dict(sorted(evhist.items(), key=lambda kv: -kv[1])),
              history_length_histogram=sizes, histories=len(hists), histories_rejected=len(rejected),
              oracle_failures=nfail, max_model_state_set=maxstates)
    ctx.trust("modelled, not verified: x/jsonrpc2/conn.go (hand-written LTS; every updateInFlight body and every function of the "
              "control flow pinned by a regenerated hash, idle()/shuttingDown() translated from the source)",
              "the acceptor ocaml/c39_driver.ml (state-set closure around the extracted step) and the logging framer of harness/cmd/c39")
    ctx.assume("critical sections of updateInFlight are atomic (sync.Mutex); a closed channel stays closed; atomic.AddInt64 yields fresh IDs",
               "Handler contract: Respond exactly once and only after ErrAsyncResponse was returned for that call; ErrAsyncResponse never for a notification",
               "liveness needs a fair scheduler and a Reader that returns an error after the stream is closed (explored, not proved)")
