"""C13 — the parser never panics or hangs and reports sorted errors
(parser/interface.go, parser/parser.go, parser/parser_gop.go).

A  Props/C13.v over Model/C13.v + Gen/C13Parser.v (regenerated from parser/*.go on every run):
     error bookkeeping (same-line discard, bailout above the limit, "one call of p.error => err != nil"),
     advance/syncPos/syncCnt progress with the exact slack (12th call consumes) and the fuel bound,
     the three recover wrappers over an ARBITRARY body (bailout swallowed, everything else re-raised;
     C13_wrapper_reraises: no panic freedom from the skeleton), Sort => sorted permutation,
     err == nil => no Bad node for audited traces, and the K-gen obligations (wrapper shapes,
     Bad-node sites, panic sites = reviewed set, writes to p.errors, pinned helper bodies).
B  K-diff of the extracted model against the real parser through crafted inputs:
     E: sources made of units with a predictable event (parser error / scanner error / appended
        sub-parser error + Bad node / nothing) -> returned error positions, bailout, Bad count
     S: scanner.ErrorList.Sort vs sort_errs
     A: junk runs between good statements -> BadStmt.To = where advance(stmtStart) stops
C  direct oracle (harness `fuzz`, worker child under per-case timeout): no escaped panic / crash /
   hang, AST returned, sort.IsSorted + position order, err == nil => no Bad node (ast.Inspect),
   on a deterministic set (crafted, every corpus file, every token-boundary prefix of small files)
   and on seeded mutations / token soup / random bytes under all entry points and mode flags;
   plus the deep-nesting stack-exhaustion witness in its own child.
"""
import json
import os

import vlib

CLAIM = {
    "level": "other",
    "text": "Coq theorems over models of parser.error (same-line discard, >10 bailout: any call leaves err != nil), "
            "parser.advance (exact progress bound: of 12 consecutive calls one consumes a token; explicit fuel for any "
            "recovery loop), the parseFile/ParseExprFrom/ParseExprEx recover wrappers over an arbitrary body (bailout "
            "swallowed, any other panic re-raised, result a sorted permutation) and ErrorList.Sort; the constants, sync "
            "sets, wrapper shapes, Bad-node sites, panic sites and p.errors writes are regenerated from parser/*.go on "
            "every run and checked against obligations; the models are run differentially against the real parser on "
            "crafted inputs; panic-freedom and termination of the 4 kLOC recursive-descent body are explored by a "
            "fuzzing oracle in a child process (not proved).",
    "note": "Kernel theorem + explored remainder. Not proved: absence of panics / termination inside the parser body "
            "(C13_wrapper_reraises shows the wrappers do not give it). Trusted: Coq kernel, translator (syntactic site "
            "audit: dominance is approximated by 'earlier statement of an enclosing block'; five helper bodies are pinned "
            "by hash and were reviewed by hand), extraction, harness. Known findings: stack exhaustion on deep nesting "
            "(no nesting limit).",
}

JUNK = [")", "]", ",", ":", ".", "=", ":=", "...", "=>", "?", "%", "/", "==", "!=", "<", ">", "<=", ">=", "&&", "||",
        "|", "<<", ">>", "&^", "+=", "++", "--", "->", "<>", "else", "import", "package", "range"]
FILL = JUNK + ["x", "7", "(", "{", "}", "[", "+", "-", "\"s\"", "func", "map", "chan", "struct", "interface"]
GOOD = [["var", "v", "int", ";"], ["return", ";"], ["type", "T", "int", ";"], ["const", "c", "=", "1", ";"], ["break", ";"],
        ["continue", ";"], ["go", "f", "(", ")", ";"], ["defer", "f", "(", ")", ";"], ["if", "x", "{", "}", ";"],
        ["for", "{", "}", ";"], ["switch", "{", "}", ";"], ["select", "{", "}", ";"], ["goto", "L", ";"], ["fallthrough", ";"]]


# spelling -> constant name in token/token.go for the tokens the advance cases use (codes come from the generated table)
SPELL = {")": "RPAREN", "]": "RBRACK", ",": "COMMA", ":": "COLON", ".": "PERIOD", "=": "ASSIGN", ":=": "DEFINE", "...": "ELLIPSIS",
         "=>": "DRARROW", "?": "QUESTION", "%": "REM", "/": "QUO", "==": "EQL", "!=": "NEQ", "<": "LSS", ">": "GTR", "<=": "LEQ", ">=": "GEQ",
         "&&": "LAND", "||": "LOR", "|": "OR", "<<": "SHL", ">>": "SHR", "&^": "AND_NOT", "+=": "ADD_ASSIGN", "++": "INC", "--": "DEC",
         "->": "SRARROW", "<>": "BIDIARROW", "else": "ELSE", "import": "IMPORT", "package": "PACKAGE", "range": "RANGE", "(": "LPAREN",
         "{": "LBRACE", "}": "RBRACE", "[": "LBRACK", "+": "ADD", "-": "SUB", "func": "FUNC", "map": "MAP", "chan": "CHAN", "struct": "STRUCT",
         "interface": "INTERFACE", "var": "VAR", "return": "RETURN", "type": "TYPE", "const": "CONST", "break": "BREAK", "continue": "CONTINUE",
         "go": "GO", "defer": "DEFER", "if": "IF", "for": "FOR", "switch": "SWITCH", "select": "SELECT", "goto": "GOTO",
         "fallthrough": "FALLTHROUGH", ";": "SEMICOLON"}


def gen_E(rng):
    """-> (source bytes, event words, all_errors)"""
    units = rng.below(9) + rng.below(9) * rng.below(3)
    all_errors = rng.below(4) == 0
    src, evs = "", []
    line, col = 1, 1
    for _ in range(units):
        k = rng.choice("PPPPPSAGGKD")
        if k == "P":
            text, ev = "var 1 int;", ["P%d:%d" % (line, col + 4)]
        elif k == "S":
            text, ev = "var c = 'ab';", ["S%d:%d" % (line, col + 8)]
        elif k == "A":
            text, ev = 'var s = "${)}";', ["A%d:%d" % (line, col + 11), "B"]
        elif k == "D":
            text, ev = "var d = json`> ); x`;", ["A%d:%d" % (line, col + 15), "B"]
        elif k == "K":
            text, ev = "/* c */", []
        else:
            text, ev = "var g int;", []
        src += text
        col += len(text)
        evs += ev
        r = rng.below(5)
        if r <= 2:
            src += "\n"
            line, col = line + 1, 1
        elif r == 3:
            src += " "
            col += 1
    return src.encode(), evs, all_errors


def gen_A(rng, spell2code):
    """-> (source bytes, model case text)"""
    toplevel = rng.below(3) == 0
    toks = [] if toplevel else ["func", "f", "(", ")", "{"]
    skip0 = len(toks)
    runs = 1 + rng.below(4)
    steps = []
    drop = 0
    for _ in range(runs):
        n = 1 + rng.below(6)
        first = rng.choice(JUNK)
        while toplevel and not toks and first in ("import", "package"):   # the file header is parsed by parseFile itself
            first = rng.choice(JUNK)
        run = [first] + [rng.choice(FILL) for _ in range(n - 1)]
        toks += run
        steps.append("%d:s" % drop)
        if rng.below(6) == 0:
            drop = None
            break
        g = rng.choice(GOOD)
        toks += g
        drop = len(g)
    if drop is not None and not toplevel:
        toks.append("}")
    # render on one line (no automatic semicolons except at EOF)
    src, pos = "", []
    for t in toks:
        if src:
            src += " " * (1 + rng.below(2))
        pos.append(len(src) + 1)
        src += t
    words = []
    for t, p in list(zip(toks, pos))[skip0:]:
        words.append("%d:%d" % (p, spell2code(t)))
    last = toks[-1]
    if last in (")", "]", "}", "x", "7", "\"s\"", "++", "--", "return", "break", "continue", "fallthrough"):
        words.append("%d:%d" % (len(src) + 1, spell2code(";")))
    return src.encode(), "A 0 0 | %s | %s" % (" ".join(words), " ".join(steps)), len(src)


def run(ctx):
    ctx.regen(["c13parser"])
    ctx.prove("C13")
    gen = ctx.gen_json("c13parser") if os.path.exists(os.path.join(vlib.BUILD, "gen", "c13parser.json")) else {}
    consts = gen.get("token_consts", {})

    def spell2code(t):
        if t in SPELL:
            return consts[SPELL[t]]
        if t[0].isdigit():
            return consts["INT"]
        if t[0] == '"':
            return consts["STRING"]
        return consts["IDENT"]

    model = ctx.model("c13")
    impl = ctx.harness("c13")

    # ------------------------------------------------------------------ B: K-diff
    icases, mcases, shown, kinds = [], [], [], {}
    nE = ctx.n(500, 20000)
    # deterministic E cases: k errors on distinct / same lines, k = 0..15, both modes
    det = []
    for k in range(16):
        for allm in (0, 1):
            det.append(("var 1 int;\n" * k, ["P%d:5" % (i + 1) for i in range(k)], allm))
            det.append(("var 1 int;" * k, ["P1:%d" % (10 * i + 5) for i in range(k)], allm))
            det.append(("var 1 int;var 1 int;\n" * k, sum([["P%d:5" % (i + 1), "P%d:15" % (i + 1)] for i in range(k)], []), allm))
    for s, evs, allm in det:
        icases.append("E %d %s" % (allm, s.encode().hex() or "0a"))
        mcases.append("E %d %s" % (allm, " ".join(evs)))
    for _ in range(nE):
        s, evs, allm = gen_E(ctx.rng)
        icases.append("E %d %s" % (1 if allm else 0, s.hex() or "0a"))
        mcases.append("E %d %s" % (1 if allm else 0, " ".join(evs)))
        kinds["E:%d-events" % min(len(evs), 12)] = kinds.get("E:%d-events" % min(len(evs), 12), 0) + 1
    nS = ctx.n(300, 10000)
    for _ in range(nS):
        n = ctx.rng.below(9)
        l = " ".join("%d:%d:%d" % (1 + ctx.rng.below(4), 1 + ctx.rng.below(4), ctx.rng.below(3)) for _ in range(n))
        icases.append("S " + l)
        mcases.append("S " + l)
    kinds["S"] = nS
    nA = ctx.n(400, 20000)
    for _ in range(nA):
        s, mc, _ = gen_A(ctx.rng, spell2code)
        icases.append("A " + s.hex())
        mcases.append(mc)
        if len(shown) < 2:
            shown.append({"kind": "A", "src": s.decode(), "model_case": mc})
    kinds["A"] = nA
    ctx.log("kdiff: %d cases" % len(icases))
    rc1, out1 = ctx.run([impl, "kdiff"], input="\n".join(icases) + "\n")
    rc2, out2 = ctx.run([model], input="\n".join(mcases) + "\n")
    if rc1 != 0 or rc2 != 0:
        ctx.broken("correspondence(c13:run)", "impl rc=%d model rc=%d %s %s" % (rc1, rc2, out1[-300:], out2[-300:]))
    else:
        labelled = ["%s   [model case: %s]" % (a[:200], b[:200]) for a, b in zip(icases, mcases)]
        diffs = ctx.diff_lines("error/advance/sort models ~ parser", labelled, out1, out2)
        # every disagreement is also put to the direct oracle (is the property itself violated there?)
        for c, x, y in diffs[:20]:
            if x.startswith("PANIC"):
                ctx.fail("kdiff:" + vlib.sha(c), "parser panicked on crafted input: " + x, {"case": c, "impl": x, "model": y})
        o1 = out1.splitlines()
        shown.append({"kind": "E", "src": bytes.fromhex(icases[len(det) + 3].split()[2]).decode("utf-8", "replace"),
                      "events": mcases[len(det) + 3], "impl": o1[len(det) + 3] if len(o1) > len(det) + 3 else ""})
    nontriv_k = len(set(c for c in mcases if len(c.split()) >= 4))
    ctx.cover(evaluations=len(icases), distinct_nontrivial=nontriv_k, samples=shown,
              rule="K-diff: %d deterministic error-count cases (k=0..15 errors on distinct lines / one line / two per line, AllErrors on and off) "
                   "+ %d seeded unit sequences (parser error, scanner error, interpolation / domain-text sub-parser error + Bad node, good decl, comment) "
                   "+ %d Sort cases + %d advance cases (junk runs between good statements, top level and function body); "
                   "non-trivial = distinct model case with >= 2 events/tokens" % (len(det), nE, nS, nA),
              kdiff_case_kinds=kinds)

    # ------------------------------------------------------------------ C: direct oracle (fuzz)
    ctx.log("kdiff done; fuzz oracle")
    nF = ctx.n(6000, 400000)
    rc, out = ctx.run([impl, "fuzz", "-seed", str(ctx.seed), "-n", str(nF), "-repo", vlib.REPO,
                       "-prefix-files", str(ctx.n(12, 60))], timeout=ctx.n(100, 3000))
    doc = None
    try:
        doc = json.loads(out[out.index("{"):])
    except Exception as e:  # the oracle itself did not finish
        ctx.broken("oracle(c13:fuzz)", "rc=%d %s %s" % (rc, e, out[-500:]))
    if doc:
        for f in doc.get("failures") or []:
            ctx.fail(f["key"], "%s(%s, mode=%d, %s): %s %s on %r" % (f["entry"], f["fname"], f["mode"], f["gen"], f["outcome"],
                                                                     f["detail"][:200], f["src_text"][:120]), f)
        ctx.cover(evaluations=doc["cases"], distinct_nontrivial=doc["nontrivial"], samples=doc.get("samples") or [],
                  rule="oracle: deterministic set (%d: crafted inputs, every corpus file under 2 mode sets, every token-boundary prefix of %d small "
                       "corpus files, and the 'one more than the grammar allows' family: ~190 bounded repetitions of the grammar x 0..5 repetitions x "
                       "expression / file / function-body / command-argument / class-file / ParseExprEx contexts, every keyword in 10 statement-start "
                       "forms x 5 contexts, balanced / unbalanced / mismatched brackets of each kind at depth 1..4, and every string of length <= 5 over {$ { } a backslash} as interpreted and raw string literal in expr / file mode) + %d seeded cases (token-level mutation of corpus files, byte mutation, splice, token soup, random bytes) over "
                       "ParseFile / ParseEntry(9 file-name kinds) / ParseExprFrom / ParseExprEx and random subsets of all mode flags (Trace on a few small "
                       "inputs); seeded inputs are rewritten out of a dimension only while its deterministic witness still fails in this run "
                       "(`go (`/`defer (`: %s; lambda block `=> {`: %s; %d inputs rewritten); sortedness is judged on every entry point including ParseExprEx; non-trivial = distinct (source, entry) with >= 8 bytes or >= 1 error" %
                       (doc["deterministic"], doc["prefix_files"], doc["seeded"], doc.get("exclude_go_tuple"), doc.get("exclude_lambda_block"), doc.get("sanitized", 0)),
                  fuzz_by_generator=doc["by_gen"], fuzz_by_entry=doc["by_entry"], fuzz_by_outcome=doc["by_outcome"],
                  fuzz_modes_distinct=doc["modes_distinct"], fuzz_errors_per_case=doc["errors_per_case"], fuzz_input_size=doc["size"],
                  fuzz_corpus_files=doc["corpus_files"], walk_notes=doc.get("walk_notes") or [],
                  fuzz_elapsed_s=round(doc["elapsed_s"], 1))

    # deep nesting: the parser has no nesting limit; recursion depth is linear in the input.
    # quick: 400 000 '[' under a 64 MB stack limit set in that child only (crashes in about a second);
    # thorough: additionally the default 1 GB limit with 1 500 000 '['.
    ctx.log("fuzz done; deep-nesting witness")
    deep = [("det:deep-nesting:[:400000:maxstack64M", ["400000", "[", "64"])]
    if not ctx.quick:
        deep.append(("det:deep-nesting:[:1500000:default-stack", ["1500000", "[", "0"]))
    for key, args in deep:
        rc, out = ctx.run([impl, "deep"] + args, timeout=300, mem_kb=6000000, env=dict(vlib.GOENV, GOTRACEBACK="none"))
        ctx.cover(evaluations=1)
        if rc != 0 or "done" not in out:
            ctx.fail(key, "ParseFile(\"x := \" + %s x '%s') did not return: rc=%d (fatal stack overflow, not recoverable) %s"
                     % (args[0], args[1], rc, out[-200:].replace("\n", " / ")), {"args": args, "rc": rc})
    ctx.assume("token stream of a source is finite and ends in EOF (C15); unget pushes back at most the token just consumed",
               "the site audit approximates dominance syntactically (an unconditional p.error/p.errorExpected earlier in an enclosing block)")
    ctx.trust("modelled, not verified: parser.error, parser.advance, the deferred closures of parseFile/ParseExprFrom/ParseExprEx, "
              "scanner.ErrorList.Sort (hand-written Gallina models with constants/operators/sync sets regenerated from the source; "
              "tied by the crafted-input differential run); the recursive-descent body is NOT modelled",
              "reviewed by hand and pinned by body hash: parser.errorExpected, toIdent, parseCallExpr, parseIfHeader, parseForPhraseCond")
    if gen:
        ctx.notes["gen_tables"] = {"bad_sites": len(gen.get("bad_sites", [])), "panic_sites": len(gen.get("panic_sites", [])),
                                   "entries": len(gen.get("entries", [])), "errors_writes": len(gen.get("errors_writes", [])),
                                   "error_limit": gen.get("error_limit"), "advance_limit": gen.get("advance_limit")}
